#!/bin/sh
# MANIFEST.setup_cmd: builds everything the checks need from files on disk only (offline).
set -e
cd "$(dirname "$0")"
export CARGO_NET_OFFLINE=true
mkdir -p .cache
( cd coq && ./gen_coqproject.sh && timeout 3000 make -j16 )
sh harness/gen_modes.sh
sh runner/build.sh
( cd /repo && RUSTFLAGS="--cfg zinoma_verif" CARGO_TARGET_DIR=/verif/.cache/target cargo build --offline )
echo setup done
