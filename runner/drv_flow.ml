(* mode "flow": checks the message flow logged by harness/m_flow.rs against Actor.actor_step, actor by actor.
   For every actor X: the messages the root relayed to X (in relay order, after the root's own requests) are X's input
   sequence; what X sent (in channel order) must be what the model actor sends on a prefix of that sequence, with the
   completion of its build script inserted at some point where the model has a build in progress.  Within one model step the
   order of the outputs is free (a HashSet is iterated), across steps it is fixed. *)
open Model
open Drv_util
open Drv_actor

let ids sep s = if s = "-" then [] else List.map (fun d -> n_of_int (int_of_string d)) (String.split_on_char sep s)

let sender_of (tok : string) : int option =
  match String.split_on_char '<' tok with
  | [ e ] when String.length e > 4 && String.sub e 0 4 = "ERR:" -> Some (int_of_string (String.sub e 4 (String.length e - 4)))
  | [ _; m ] -> (
      let m = String.sub m 1 (String.length m - 1) in
      match String.split_on_char ':' m with
      | [ "Ok"; _; t; _ ] -> Some (int_of_string t)
      | [ "Iv"; _; t ] -> Some (int_of_string t)
      | [ ("Rq" | "Un"); _; r ] -> if r = "R" then None else Some (int_of_string r)
      | _ -> None)
  | _ -> None

let dest_of (tok : string) : string option =
  match String.index_opt tok '<' with Some i when i > 0 -> Some (String.sub tok 0 i) | _ -> None

let msg_of (tok : string) : msg =
  let i = String.index tok '-' in
  match parse_event (String.sub tok (i + 1) (String.length tok - i - 1)) with EMsg m -> m | _ -> failwith "not a message"

(* consume the observed list step by step: each model step's outputs, as a multiset, must be the next outputs observed *)
let rec remove_one x = function [] -> None | y :: l -> if x = y then Some l else Option.map (fun l' -> y :: l') (remove_one x l)

let rec take_multiset (step : string list) (obs : string list) : string list option =
  (* the first |step| observed outputs must be a permutation of step *)
  let n = List.length step in
  let rec split k l acc = if k = 0 then Some (List.rev acc, l) else match l with [] -> None | x :: r -> split (k - 1) r (x :: acc) in
  match split n obs [] with
  | None -> None
  | Some (hd, tl) -> if List.sort compare hd = List.sort compare step then Some tl else None

let run (cases : string) : unit =
  List.iter
    (fun line ->
      match split_sp line with
      | "W" :: id :: roots :: targets :: failing :: status :: consumed :: rest ->
          let roots = ids ',' roots in
          let failing = ids ',' failing in
          let consumed = int_of_string consumed in
          let obs_all = match rest with [ o ] when o <> "-" -> String.split_on_char ';' o | _ -> [] in
          let specs =
            List.map
              (fun spec ->
                match String.split_on_char ':' spec with
                | n :: k :: deps :: _ ->
                    (n_of_int (int_of_string n), (match k with "B" -> ABuild | "S" -> AService | _ -> AAggregate), ids '.' deps)
                | _ -> failwith "bad target")
              (String.split_on_char ';' targets)
          in
          let forwarded = List.filteri (fun i _ -> i < consumed) obs_all in
          let problems = ref [] in
          List.iter
            (fun (x, kind, deps) ->
              let xi = int_of_n x in
              let inputs =
                List.concat_map (fun r -> if r = x then [ MRequested (KB, ARoot); MRequested (KS, ARoot) ] else []) roots
                @ List.filter_map (fun tok -> if dest_of tok = Some (string_of_int xi) then Some (msg_of tok) else None) forwarded
              in
              let observed = List.filter (fun tok -> sender_of tok = Some xi) obs_all in
              let res = if List.mem x failing then RFailed else RCompleted in
              let inputs = Array.of_list inputs in
              let len = Array.length inputs in
              (* depth-first search over: handle the next input / complete the build now / stop here *)
              let require_all = status = "-" in
              let rec go (a : astate) (i : int) (obs : string list) : bool =
                (obs = [] && ((not require_all) || i = len) && not (require_all && a.ongoing))
                || (a.ongoing
                    && (match actor_step late_ack true a (EBuildDone res) with
                       | Some ((a1, outs), _) -> (
                           match take_multiset (List.map fmt_out outs) obs with Some obs' -> go a1 i obs' | None -> false)
                       | None -> false))
                || (i < len
                    && (match actor_step late_ack true a (EMsg inputs.(i)) with
                       | Some ((a1, outs), _) -> (
                           match take_multiset (List.map fmt_out outs) obs with Some obs' -> go a1 (i + 1) obs' | None -> false)
                       | None -> false))
              in
              if not (go (init_actor x kind deps) 0 observed) then
                problems :=
                  Printf.sprintf "actor=%d inputs=[%s] sent=[%s]" xi
                    (String.concat "," (List.map fmt_msg (Array.to_list inputs)))
                    (String.concat "," observed)
                  :: !problems)
            specs;
          (* outputs whose sender is not an actor of the graph *)
          List.iter
            (fun tok ->
              match sender_of tok with
              | Some n when not (List.exists (fun (x, _, _) -> int_of_n x = n) specs) -> problems := ("unknown-sender " ^ tok) :: !problems
              | _ -> ())
            obs_all;
          if !problems = [] then Printf.printf "%s OK\n" id
          else Printf.printf "%s MISMATCH %s\n" id (String.concat " | " (List.rev !problems))
      | _ -> Printf.printf "? BADCASE\n")
    (read_lines cases)
