(* mode "root": evaluates the root part of Sys.exec (LRoot, LRootIdle, LSignal, LRootSignal) on the case lines of
   harness/m_root.rs and prints the same result format.  The actors of the case (aggregates without dependencies) are
   stepped with Actor.actor_step; what they emit is what the harness reads on its side of the channel. *)
open Model
open Drv_util
open Drv_actor

let ids s = if s = "-" then [] else List.map (fun d -> n_of_int (int_of_string d)) (String.split_on_char ',' s)

let with_rootq (s : sys) (q : out list) : sys = { s with rootq = q }

let status (s : sys) : string =
  match s.ph with
  | PRun | PWaitTerm -> "-"
  | PTerminating SOk | PExited SOk -> "ok"
  | PTerminating (SErr t) | PExited (SErr t) -> Printf.sprintf "err:%d" (int_of_n t)

let run (cases : string) : unit =
  List.iter
    (fun line ->
      match split_sp line with
      | "R" :: id :: watch :: roots :: pool :: events ->
          let watch = watch = "1" in
          let roots = ids roots in
          let pool = ids pool in
          let actors : (n, astate) Hashtbl.t = Hashtbl.create 8 in
          List.iter (fun t -> Hashtbl.replace actors t (init_actor t AAggregate [])) (pool @ roots);
          let deliver (t : n) (m : msg) : out list =
            match Hashtbl.find_opt actors t with
            | None -> []
            | Some a -> (
                match actor_step late_ack true a (EMsg m) with
                | Some ((a1, outs), _) -> Hashtbl.replace actors t a1; outs
                | None -> [])
          in
          (* engine::run: Requested{Build,Root} then Requested{Service,Root} to every requested id, in order *)
          let init = List.concat_map (fun r -> deliver r (MRequested (KB, ARoot)) @ deliver r (MRequested (KS, ARoot))) roots in
          let st = ref (with_rootq (init_sys (graph_of_list []) roots) []) in
          let res = ref [ Printf.sprintf "init=[%s]" (String.concat "," (List.sort compare (List.map fmt_out init))) ] in
          let settle () =
            (* the loop condition is evaluated again: leave when nothing is unavailable any more *)
            match exec late_ack watch !st LRootIdle with Some s1 -> st := s1 | None -> ()
          in
          settle ();
          List.iter
            (fun ev ->
              let tok = match String.index_opt ev '@' with Some i -> String.sub ev 0 i | None -> ev in
              let outs = ref [] in
              let consumed = ref false in
              let before = status !st in
              let feed (o : out) (k : unit -> unit) =
                match exec late_ack watch (with_rootq !st [ o ]) LRoot with
                | Some s1 -> st := s1; consumed := true; k ()
                | None -> ()
              in
              (match String.split_on_char '/' tok with
              | [ "TM" ] -> (
                  match exec late_ack watch !st LSignal with
                  | Some s1 -> (
                      st := s1;
                      match exec late_ack watch !st LRootSignal with Some s2 -> st := s2; consumed := true | None -> ())
                  | None -> ())
              | [ "Rt"; m ] -> (
                  match parse_event m with EMsg msg -> feed (OMsg (ARoot, msg)) (fun () -> ()) | _ -> failwith "bad Rt")
              | [ "Fw"; x; m ] -> (
                  let x = n_of_int (int_of_string x) in
                  match parse_event m with
                  | EMsg msg -> feed (OMsg (ATarget x, msg)) (fun () -> outs := deliver x msg)
                  | _ -> failwith "bad Fw")
              | [ "Er"; t ] -> feed (OErr (n_of_int (int_of_string t))) (fun () -> ())
              | _ -> failwith ("bad event " ^ tok));
              settle ();
              let after = status !st in
              let returns = before = "-" && after <> "-" in
              res :=
                Printf.sprintf "run=%s out=[%s] hint=%s%s%d" after
                  (String.concat "," (List.sort compare (List.map fmt_out !outs)))
                  (if !consumed then "c" else "n")
                  (if returns then "r" else "-")
                  (List.length !outs)
                :: !res)
            events;
          res := Printf.sprintf "final=%s late=[]" (status !st) :: !res;
          Printf.printf "%s %s\n" id (String.concat "|" (List.rev !res))
      | _ -> Printf.printf "? BADCASE\n")
    (read_lines cases)
