(* mode "clean": same case lines as harness/m_clean.rs, evaluated on the extracted FsTree model.
   Also holds the helpers shared with mode "listing" (tree building from D/F/L lines, snapshot printing). *)
open Model
open Drv_util

let str_of_bytes (b : n list) : string =
  let buf = Buffer.create 16 in
  List.iter (fun x -> Buffer.add_char buf (Char.chr (int_of_n x))) b;
  Buffer.contents buf

let bytes_of_str (s : string) : n list =
  List.init (String.length s) (fun i -> n_of_int (Char.code s.[i]))

let hex_str (s : string) : string =
  if s = "" then "_" else String.concat "" (List.init (String.length s) (fun i -> Printf.sprintf "%02x" (Char.code s.[i])))

(* physical location of a model-absolute path made of plain names *)
let phys_of (p : n list) : n list list =
  List.map bytes_of_str (List.filter (fun s -> s <> "") (String.split_on_char '/' (str_of_bytes p)))

let rec insert (t : node) (q : n list list) (child : node) : node =
  match q, t with
  | [ nm ], Dir es -> Dir (es @ [ (nm, child) ])
  | nm :: r, Dir es -> Dir (List.map (fun (n, c) -> if n = nm then (n, insert c r child) else (n, c)) es)
  | _, _ -> failwith "insert: parent is not a directory"

let parse_exts (s : string) : n list list option =
  if s = "-" then None else Some (List.map unhex (String.split_on_char ',' s))

let parse_paths (s : string) : n list list =
  if s = "" || s = "-" then [] else List.map unhex (String.split_on_char ',' s)

let parse_resources (s : string) : files_resource list =
  List.filter_map
    (fun r ->
      if r = "" then None
      else
        match String.index_opt r '=' with
        | Some i ->
            let e = String.sub r 0 i and p = String.sub r (i + 1) (String.length r - i - 1) in
            Some { fr_paths = parse_paths p; fr_exts = parse_exts e }
        | None -> failwith "resource")
    (String.split_on_char ';' s)

(* applies a D/F/L line to the tree; None when the line is something else *)
let build_line (t : node) (f : string list) : node option =
  match f with
  | [ "D"; hp ] -> Some (insert t (phys_of (unhex hp)) (Dir []))
  | "F" :: hp :: c :: rest ->
      let m = match rest with m :: _ -> int_of_string m | [] -> 0 in
      Some (insert t (phys_of (unhex hp)) (File (n_of_int (int_of_string c), n_of_int m)))
  | [ "L"; hp; ht ] -> Some (insert t (phys_of (unhex hp)) (Link (unhex ht)))
  | _ -> None

let snapshot (t : node) : string =
  let items = ref [] in
  let rec go (prefix : string) (n : node) =
    match n with
    | Dir es ->
        let es = List.map (fun (nm, c) -> (str_of_bytes nm, c)) es in
        let es = List.sort (fun (a, _) (b, _) -> compare a b) es in
        List.iter
          (fun (nm, c) ->
            let p = prefix ^ "/" ^ nm in
            match c with
            | Dir _ ->
                items := ("d:" ^ hex_str p) :: !items;
                go p c
            | File (cid, _) -> items := ("f:" ^ hex_str p ^ ":" ^ hex_str (string_of_int (int_of_n cid))) :: !items
            | Link tg -> items := ("l:" ^ hex_str p ^ ":" ^ hex tg) :: !items)
          es
    | _ -> ()
  in
  go "" t;
  if !items = [] then "-" else String.concat "," (List.rev !items)

let make_target (f : string list) : rtarget =
  match f with
  | "T" :: _ :: k :: hdir :: hproj :: hname :: rest ->
      let files = match rest with r :: _ -> parse_resources r | [] -> [] in
      let res = { r_files = files; r_cmds = [] } in
      let kind = match k with "b" -> TBuild | "s" -> TService | _ -> TAggregate in
      {
        rt_id = { t_project = (if hproj = "-" then None else Some (unhex hproj)); t_name = unhex hname };
        rt_dir = unhex hdir;
        rt_deps = [];
        rt_kind = kind;
        rt_script = [];
        rt_input = (if kind = TService then res else resources_empty);
        rt_output = (if kind = TBuild then res else resources_empty);
      }
  | _ -> failwith "target"

let run (cases : string) : unit =
  let t = ref (Dir []) in
  let id = ref "" in
  let targets = Hashtbl.create 16 in
  let pinned = (try Sys.getenv "MODEL_PINNED" = "1" with Not_found -> false) in
  List.iter
    (fun line ->
      let f = split_sp line in
      match f with
      | "ROOT" :: _ | "KEEP" :: _ | "END" :: _ -> ()
      | [ "CASE"; i ] ->
          id := i;
          t := Dir [];
          Hashtbl.reset targets
      | ("D" | "F" | "L") :: _ -> ( match build_line !t f with Some t' -> t := t' | None -> ())
      | "T" :: tid :: _ -> Hashtbl.replace targets tid (make_target f)
      | "O" :: qid :: op :: rest ->
          let t', ok =
            match op, rest with
            | "outputs", [ tid ] -> clean_outputs_gen pinned !t (Hashtbl.find targets tid)
            | "state", [ tid ] -> delete_state !t (Hashtbl.find targets tid)
            | "workdir", [ hd ] -> remove_work_dir !t (unhex hd)
            | _ -> (!t, true)
          in
          t := t';
          Printf.printf "%s.%s %s %s\n" !id qid (if ok then "ok" else "err") (snapshot !t)
      | [ "PHASE"; qid; req; tids; hdirs ] ->
          (* the clean phase of main.rs on the current tree, for one iteration order of the target map and of the
             project-directory map; the current tree is left unchanged *)
          let tgs = List.map (fun tid -> Hashtbl.find targets tid) (List.filter (fun s -> s <> "" && s <> "-") (String.split_on_char ',' tids)) in
          let dirs = parse_paths hdirs in
          let t', ok = clean_phase_gen pinned !t tgs dirs (req = "1") in
          Printf.printf "%s.%s %s %s\n" !id qid (if ok then "ok" else "err") (snapshot t')
      | _ -> Printf.printf "? BADCASE\n")
    (read_lines cases)
