(* mode "codec": the model side of the state-file format (Model/Codec.v).
   case lines (numbers are hexadecimal, byte strings hex with "_" for the empty string):
     E <id> <env>          -> <id> enc <hex of enc_env>  wr <hex of fst (wr_env)> <0|1>
     D <id> <hexbytes>     -> <id> some <env> rest=<number of trailing bytes>   |   <id> none
     X <id> <hexbytes>     -> <id> x <hex of enc_env (decoded value)> <number of trailing bytes>   |   <id> x none
   <env>    = <fs> <cmd> N  |  <fs> <cmd> S <fs> <cmd>
   <fs>     = -  |  path:secs:nanos:hash,...          <cmd> = -  |  cmd:dir:stdout,...
   Decoded values are printed with their entries sorted, so that the hash order of the real maps is irrelevant. *)
open Model
open Drv_util

(* ---- arbitrary-size naturals <-> hexadecimal text (u64 values do not fit OCaml's int) ---- *)
let n_of_hexnum (s : string) : n =
  (* most significant digit first *)
  let bits = ref [] in
  String.iter
    (fun c ->
      let v = hexval c in
      bits := (v land 1 = 1) :: (v land 2 = 2) :: (v land 4 = 4) :: (v land 8 = 8) :: !bits)
    s;
  (* !bits is least significant first *)
  let rec strip l = match l with false :: r -> strip r | _ -> l in
  let msb_first = strip (List.rev !bits) in
  match msb_first with
  | [] -> N0
  | _ :: rest -> Npos (List.fold_left (fun p b -> if b then XI p else XO p) XH rest)

let hexnum_of_n (x : n) : string =
  match x with
  | N0 -> "0"
  | Npos p ->
      let rec bits p = match p with XH -> [ true ] | XO q -> false :: bits q | XI q -> true :: bits q in
      let lsb = bits p in
      let rec nibbles l =
        match l with
        | [] -> []
        | _ ->
            let take k l = (try List.nth l k with _ -> false) in
            let v =
              (if take 0 l then 1 else 0) + (if take 1 l then 2 else 0) + (if take 2 l then 4 else 0)
              + if take 3 l then 8 else 0
            in
            let rec drop k l = if k = 0 then l else match l with [] -> [] | _ :: r -> drop (k - 1) r in
            v :: nibbles (drop 4 l)
      in
      let ns = List.rev (nibbles lsb) in
      String.concat "" (List.map (fun v -> Printf.sprintf "%x" v) ns)

(* ---- parsing / printing of values ---- *)
let split_nonempty c s = if s = "-" then [] else String.split_on_char c s

let parse_fs (s : string) : fentry list =
  List.map
    (fun e ->
      match String.split_on_char ':' e with
      | [ p; secs; nanos; h ] ->
          (unhex p, ({ d_secs = n_of_hexnum secs; d_nanos = n_of_hexnum nanos }, n_of_hexnum h))
      | _ -> failwith ("bad fs entry " ^ e))
    (split_nonempty ',' s)

let parse_cmd (s : string) : centry list =
  List.map
    (fun e ->
      match String.split_on_char ':' e with
      | [ c; d; o ] -> ((unhex c, unhex d), unhex o)
      | _ -> failwith ("bad cmd entry " ^ e))
    (split_nonempty ',' s)

let parse_env (toks : string list) : env_state =
  match toks with
  | [ fs; cmd; "N" ] -> { es_input = { rs_fs = parse_fs fs; rs_cmd = parse_cmd cmd }; es_output = None }
  | [ fs; cmd; "S"; ofs; ocmd ] ->
      { es_input = { rs_fs = parse_fs fs; rs_cmd = parse_cmd cmd };
        es_output = Some { rs_fs = parse_fs ofs; rs_cmd = parse_cmd ocmd } }
  | _ -> failwith "bad env"

let show_list (l : string list) : string = if l = [] then "-" else String.concat "," (List.sort compare l)

let show_fs (l : fentry list) : string =
  show_list
    (List.map
       (fun (p, (d, h)) ->
         Printf.sprintf "%s:%s:%s:%s" (hex p) (hexnum_of_n d.d_secs) (hexnum_of_n d.d_nanos) (hexnum_of_n h))
       l)

let show_cmd (l : centry list) : string =
  show_list (List.map (fun ((c, d), o) -> Printf.sprintf "%s:%s:%s" (hex c) (hex d) (hex o)) l)

let show_rstate (r : res_state) : string = show_fs r.rs_fs ^ " " ^ show_cmd r.rs_cmd

let show_env (e : env_state) : string =
  show_rstate e.es_input ^ " " ^ match e.es_output with None -> "N" | Some r -> "S " ^ show_rstate r

let run (cases : string) : unit =
  List.iter
    (fun line ->
      match split_sp line with
      | "E" :: id :: toks ->
          let e = parse_env toks in
          let w, ok = wr_env e in
          Printf.printf "%s enc %s wr %s %s\n" id (hex (enc_env e)) (hex w) (b01 ok)
      | [ "D"; id; hb ] -> (
          match dec_env (unhex hb) with
          | Some (e, rest) -> Printf.printf "%s some %s rest=%d\n" id (show_env e) (List.length rest)
          | None -> Printf.printf "%s none\n" id)
      | [ "X"; id; hb ] -> (
          (* re-encoding of the decoded value, for the cross-evaluation inside Coq (slices/incr.py coq_crosscheck) *)
          match dec_env (unhex hb) with
          | Some (e, rest) -> Printf.printf "%s x %s %d\n" id (hex (enc_env e)) (List.length rest)
          | None -> Printf.printf "%s x none\n" id)
      | _ -> Printf.printf "? BADCASE\n")
    (read_lines cases)
