(* mode "listing": same case lines as harness/m_listing.rs, evaluated on the extracted FsTree model *)
open Model
open Drv_util
open Drv_clean

let fmt_set (l : n list list) : string =
  let l = List.sort_uniq compare (List.map str_of_bytes l) in
  if l = [] then "-" else String.concat "," (List.map hex_str l)

let run (cases : string) : unit =
  let t = ref (Dir []) in
  let id = ref "" in
  List.iter
    (fun line ->
      let f = split_sp line in
      match f with
      | "ROOT" :: _ | "KEEP" :: _ | "END" :: _ -> ()
      | [ "CASE"; i ] ->
          id := i;
          t := Dir []
      | ("D" | "F" | "L") :: _ -> ( match build_line !t f with Some t' -> t := t' | None -> ())
      | "Q" :: qid :: ex :: rest ->
          let paths = match rest with p :: _ -> parse_paths p | [] -> [] in
          let r = { fr_paths = paths; fr_exts = parse_exts ex } in
          Printf.printf "%s.%s %s\n" !id qid (fmt_set (listing_set !t r))
      | "R" :: qid :: rest ->
          let rs = match rest with r :: _ -> parse_resources r | [] -> [] in
          Printf.printf "%s.%s %s\n" !id qid (fmt_set (listing_resources_set !t rs))
      | _ -> Printf.printf "? BADCASE\n")
    (read_lines cases)
