(* mode "evflow": checks a run recorded by harness/m_evflow.rs (one-shot or watch mode) against the model.
   E = the events every real actor consumed, in the order the hooks H7 saw them; O = every message in relay order.
   (1) every actor X is replayed with Actor.actor_step on exactly the events X consumed: the model must accept each event
       (e.g. a build result only while a build is in progress) and what X sent — the entries of O whose sender is X, in order —
       must be the concatenation of the model's outputs (within one step the order is free: a HashSet is iterated);
   (2) delivery: for every actor X and every sender Y (a target or the root), the messages X consumed from Y are a prefix of the
       messages relayed to X from Y, in the same order — the per-sender FIFO assumption of Sys.exec (LDeliverAt). *)
open Model
open Drv_util
open Drv_actor
open Drv_flow

let parse_ev (tok : string) : event =
  match tok with
  | "T" -> ETerm
  | "I" -> EInval
  | "D:C" -> EBuildDone RCompleted
  | "D:S" -> EBuildDone RSkipped
  | "D:F" -> EBuildDone RFailed
  | "D:X" -> EBuildDone RCancelled
  | m -> parse_event m

let sender_of_msg (m : msg) : string =
  match m with
  | MOk (_, t, _) | MInvalidated (_, t) -> string_of_int (int_of_n t)
  | MRequested (_, r) | MUnrequested (_, r) -> fmt_aid r

let rec is_prefix a b = match a, b with [], _ -> true | x :: a', y :: b' -> x = y && is_prefix a' b' | _ :: _, [] -> false

let run (cases : string) : unit =
  List.iter
    (fun line ->
      match split_sp line with
      | [ "V"; id; _watch; roots; targets; _failing; _rounds; _status; e; o ] ->
          let roots = ids ',' roots in
          let ev_all = if e = "-" then [] else String.split_on_char ';' e in
          let obs_all = if o = "-" then [] else String.split_on_char ';' o in
          let specs =
            List.map
              (fun spec ->
                match String.split_on_char ':' spec with
                | n :: k :: deps :: _ ->
                    (n_of_int (int_of_string n), (match k with "B" -> ABuild | "S" -> AService | _ -> AAggregate), ids '.' deps)
                | _ -> failwith "bad target")
              (String.split_on_char ';' targets)
          in
          let problems = ref [] in
          let events_of xi =
            List.filter_map
              (fun tok ->
                match String.index_opt tok '@' with
                | Some i when String.sub tok 0 i = string_of_int xi -> Some (String.sub tok (i + 1) (String.length tok - i - 1))
                | _ -> None)
              ev_all
          in
          List.iter
            (fun (x, kind, deps) ->
              let xi = int_of_n x in
              let evs = events_of xi in
              let observed = List.filter (fun tok -> sender_of tok = Some xi) obs_all in
              (* (1) replay *)
              let a = ref (init_actor x kind deps) and rest = ref observed and bad = ref None and i = ref 0 in
              List.iter
                (fun tok ->
                  if !bad = None then begin
                    (match actor_step late_ack true !a (parse_ev tok) with
                     | None -> bad := Some (Printf.sprintf "event #%d %s is impossible in the model state" !i tok)
                     | Some ((a1, outs), _) -> (
                         match take_multiset (List.map fmt_out outs) !rest with
                         | Some r -> a := a1; rest := r
                         | None ->
                             bad :=
                               Some
                                 (Printf.sprintf "after event #%d %s the model sends [%s], the actor sent next [%s]" !i tok
                                    (String.concat "," (List.map fmt_out outs))
                                    (String.concat "," (List.filteri (fun j _ -> j < List.length outs + 1) !rest)))));
                    incr i
                  end)
                evs;
              if !bad = None && !rest <> [] then
                bad := Some (Printf.sprintf "the actor sent more than the model: [%s]" (String.concat "," !rest));
              (match !bad with
               | Some b ->
                   problems :=
                     Printf.sprintf "actor=%d %s events=[%s] sent=[%s]" xi b (String.concat "," evs) (String.concat "," observed)
                     :: !problems
               | None -> ());
              (* (2) per-sender FIFO delivery *)
              let consumed =
                List.filter_map (fun tok -> match parse_ev tok with EMsg m -> Some m | _ -> None) evs
              in
              let relayed_from y =
                if y = "R" then List.concat_map (fun r -> if r = x then [ MRequested (KB, ARoot); MRequested (KS, ARoot) ] else []) roots
                else
                  List.filter_map
                    (fun tok ->
                      if dest_of tok = Some (string_of_int xi) && sender_of tok = Some (int_of_string y) then Some (msg_of tok) else None)
                    obs_all
              in
              let senders = List.sort_uniq compare (List.map sender_of_msg consumed) in
              List.iter
                (fun y ->
                  let c = List.filter (fun m -> sender_of_msg m = y) consumed in
                  let r = relayed_from y in
                  if not (is_prefix c r) then
                    problems :=
                      Printf.sprintf "delivery to actor=%d from %s: consumed [%s] is not a prefix of relayed [%s]" xi y
                        (String.concat "," (List.map fmt_msg c))
                        (String.concat "," (List.map fmt_msg r))
                      :: !problems)
                senders)
            specs;
          (* events or outputs of something that is not an actor of the graph *)
          List.iter
            (fun tok ->
              match sender_of tok with
              | Some n when not (List.exists (fun (x, _, _) -> int_of_n x = n) specs) -> problems := ("unknown-sender " ^ tok) :: !problems
              | _ -> ())
            obs_all;
          if !problems = [] then Printf.printf "%s OK\n" id
          else Printf.printf "%s MISMATCH %s\n" id (String.concat " | " (List.rev !problems))
      | _ -> Printf.printf "? BADCASE\n")
    (read_lines cases)
