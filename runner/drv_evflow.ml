(* mode "evflow": checks a run recorded by harness/m_evflow.rs (one-shot or watch mode) against the model.
   E = the events every real actor consumed, in the order the hooks H7 saw them; O = every message in relay order.
   (1) every actor X is replayed with Actor.actor_step on exactly the events X consumed: the model must accept each event
       (e.g. a build result only while a build is in progress) and what X sent — the entries of O whose sender is X, in order —
       must be the concatenation of the model's outputs (within one step the order is free: a HashSet is iterated);
   (2) delivery: for every actor X and every sender Y (a target or the root), the messages X consumed from Y are a prefix of the
       messages relayed to X from Y, in the same order — the per-sender FIFO assumption of Sys.exec (LDeliverAt);
   (3) the whole run is ONE execution of Sys.exec (see replay_global): the theorems about reachable states speak about it. *)
open Model
open Drv_util
open Drv_actor
open Drv_flow

let parse_ev (tok : string) : event =
  match tok with
  | "T" -> ETerm
  | "I" -> EInval
  | "D:C" -> EBuildDone RCompleted
  | "D:S" -> EBuildDone RSkipped
  | "D:F" -> EBuildDone RFailed
  | "D:X" -> EBuildDone RCancelled
  | m -> parse_event m

let sender_of_msg (m : msg) : string =
  match m with
  | MOk (_, t, _) | MInvalidated (_, t) -> string_of_int (int_of_n t)
  | MRequested (_, r) | MUnrequested (_, r) -> fmt_aid r

let rec is_prefix a b = match a, b with [], _ -> true | x :: a', y :: b' -> x = y && is_prefix a' b' | _ :: _, [] -> false

let rec nat_of_int (i : int) : nat = if i <= 0 then O else S (nat_of_int (i - 1))

let index_of (x : 'a) (l : 'a list) : int option =
  let rec go i = function [] -> None | y :: r -> if x = y then Some i else go (i + 1) r in
  go 0 l

let parse_out (tok : string) : out =
  if String.length tok > 4 && String.sub tok 0 4 = "ERR:" then OErr (n_of_int (int_of_string (String.sub tok 4 (String.length tok - 4))))
  else
    match dest_of tok with
    | Some "R" -> OMsg (ARoot, msg_of tok)
    | Some d -> OMsg (ATarget (n_of_int (int_of_string d)), msg_of tok)
    | None -> failwith ("bad output " ^ tok)

(* (3) the whole run as ONE execution of Sys.exec: the recorded events, in the order the hooks saw them, become labels —
   a consumed message = LDeliverAt at the position of that message in the model inbox (refused when an earlier message of the
   same sender is still there, or when nobody has sent it), a change notice = LChange (the environment) + LInval, a build
   result = LBuildDone, a termination = LTermActor, before which the root is advanced: it takes the entries addressed to it in
   the RECORDED relay order (LRootAt), leaves its loop when it can (LRootIdle), and when it can do neither the run was ended by
   the harness (LSignal, LRootSignal).  Every label must be enabled; the status `run` returned must be the model's. *)
let replay_global (watch : bool) (g : graph) (roots : n list) (ev_all : string list) (obs_all : string list) (status : string)
    (consumed : int) : string option =
  let s = ref (init_sys g roots) in
  let err = ref None in
  let fail m = if !err = None then err := Some m in
  let step what l = match exec late_ack watch !s l with Some s1 -> s := s1; true | None -> fail (what ^ ": the model refuses this step"); false in
  (* what the root loop took for itself: the entries addressed to it among the first [consumed] logged outputs *)
  let root_feed =
    ref
      (List.filter
         (fun tok -> dest_of tok = Some "R" || (String.length tok > 4 && String.sub tok 0 4 = "ERR:"))
         (List.filteri (fun i _ -> i < consumed) obs_all))
  in
  let signalled = ref false in
  (* advance the root until the termination message for t is out (or nothing more can be done) *)
  let advance_root () =
    let fuel = ref 100000 in
    let go = ref true in
    while !go && !fuel > 0 && !err = None do
      decr fuel;
      match phase_of !s with
      | PRun -> (
          match exec late_ack watch !s LRootIdle with
          | Some s1 -> s := s1
          | None -> (
              match (if watch then [] else !root_feed) with
              | tok :: rest -> (
                  match index_of (parse_out tok) (rootq_of !s) with
                  | Some i -> if step ("root takes " ^ tok) (LRootAt (nat_of_int i)) then root_feed := rest
                  | None -> fail ("the root took " ^ tok ^ " which is not in the model's root queue"))
              | [] ->
                  (* nothing to take, cannot leave: the harness ended the run *)
                  signalled := true;
                  if step "signal" LSignal then ignore (step "root handles the signal" LRootSignal)))
      | PWaitTerm ->
          signalled := true;
          if step "signal" LSignal then ignore (step "root handles the signal" LRootSignal)
      | _ -> go := false
    done
  in
  List.iteri
    (fun k tok ->
      if !err = None then
        match String.index_opt tok '@' with
        | None -> fail ("bad event " ^ tok)
        | Some i -> (
            let t = n_of_int (int_of_string (String.sub tok 0 i)) in
            let e = String.sub tok (i + 1) (String.length tok - i - 1) in
            let what = Printf.sprintf "event #%d %s" k tok in
            match parse_ev e with
            | EMsg m -> (
                match index_of m (inbox_of !s t) with
                | Some j -> ignore (step what (LDeliverAt (t, nat_of_int j, true)))
                | None -> fail (what ^ ": the message is not in the model inbox (nobody has sent it yet)"))
            | EInval ->
                if not (in_slot !s t) then ignore (step (what ^ " (change reported)") (LChange [ t ]));
                if !err = None then ignore (step what (LInval (t, true)))
            | EBuildDone r -> ignore (step what (LBuildDone (t, r)))
            | ETerm ->
                if not (in_termq !s t) then advance_root ();
                if !err = None then ignore (step what (LTermActor t))))
    ev_all;
  if !err = None then begin
    (* the end of the run: every actor has exited *)
    (match phase_of !s with PTerminating _ -> ignore (exec late_ack watch !s LJoin |> function Some s1 -> s := s1 | None -> ()) | _ -> ());
    let model_status =
      match phase_of !s with
      | PTerminating SOk | PExited SOk -> if !signalled then "-" else "ok"
      | PTerminating (SErr t) | PExited (SErr t) -> Printf.sprintf "err:%d" (int_of_n t)
      | PRun | PWaitTerm -> "running"
    in
    if model_status <> status then fail (Printf.sprintf "run returned %s, the model execution ends with %s" status model_status)
  end;
  !err

let run (cases : string) : unit =
  List.iter
    (fun line ->
      match split_sp line with
      | "V" :: id :: watch :: roots :: targets :: _failing :: _rounds :: rest when List.length rest = 4 || List.length rest = 5 ->
          let status, consumed, e, o =
            match rest with
            | [ st; c; e; o ] -> (st, int_of_string c, e, o)
            | [ _term; st; c; e; o ] -> (st, int_of_string c, e, o)
            | _ -> failwith "bad case"
          in
          let roots = ids ',' roots in
          let ev_all = if e = "-" then [] else String.split_on_char ';' e in
          let obs_all = if o = "-" then [] else String.split_on_char ';' o in
          let specs =
            List.map
              (fun spec ->
                match String.split_on_char ':' spec with
                | n :: k :: deps :: _ ->
                    (n_of_int (int_of_string n), (match k with "B" -> ABuild | "S" -> AService | _ -> AAggregate), ids '.' deps)
                | _ -> failwith "bad target")
              (String.split_on_char ';' targets)
          in
          let problems = ref [] in
          let events_of xi =
            List.filter_map
              (fun tok ->
                match String.index_opt tok '@' with
                | Some i when String.sub tok 0 i = string_of_int xi -> Some (String.sub tok (i + 1) (String.length tok - i - 1))
                | _ -> None)
              ev_all
          in
          List.iter
            (fun (x, kind, deps) ->
              let xi = int_of_n x in
              let evs = events_of xi in
              let observed = List.filter (fun tok -> sender_of tok = Some xi) obs_all in
              (* (1) replay *)
              let a = ref (init_actor x kind deps) and rest = ref observed and bad = ref None and i = ref 0 in
              List.iter
                (fun tok ->
                  if !bad = None then begin
                    (match actor_step late_ack true !a (parse_ev tok) with
                     | None -> bad := Some (Printf.sprintf "event #%d %s is impossible in the model state" !i tok)
                     | Some ((a1, outs), _) -> (
                         match take_multiset (List.map fmt_out outs) !rest with
                         | Some r -> a := a1; rest := r
                         | None ->
                             bad :=
                               Some
                                 (Printf.sprintf "after event #%d %s the model sends [%s], the actor sent next [%s]" !i tok
                                    (String.concat "," (List.map fmt_out outs))
                                    (String.concat "," (List.filteri (fun j _ -> j < List.length outs + 1) !rest)))));
                    incr i
                  end)
                evs;
              if !bad = None && !rest <> [] then
                bad := Some (Printf.sprintf "the actor sent more than the model: [%s]" (String.concat "," !rest));
              (match !bad with
               | Some b ->
                   problems :=
                     Printf.sprintf "actor=%d %s events=[%s] sent=[%s]" xi b (String.concat "," evs) (String.concat "," observed)
                     :: !problems
               | None -> ());
              (* (2) per-sender FIFO delivery *)
              let consumed =
                List.filter_map (fun tok -> match parse_ev tok with EMsg m -> Some m | _ -> None) evs
              in
              let relayed_from y =
                if y = "R" then List.concat_map (fun r -> if r = x then [ MRequested (KB, ARoot); MRequested (KS, ARoot) ] else []) roots
                else
                  List.filter_map
                    (fun tok ->
                      if dest_of tok = Some (string_of_int xi) && sender_of tok = Some (int_of_string y) then Some (msg_of tok) else None)
                    obs_all
              in
              let senders = List.sort_uniq compare (List.map sender_of_msg consumed) in
              List.iter
                (fun y ->
                  let c = List.filter (fun m -> sender_of_msg m = y) consumed in
                  let r = relayed_from y in
                  if not (is_prefix c r) then
                    problems :=
                      Printf.sprintf "delivery to actor=%d from %s: consumed [%s] is not a prefix of relayed [%s]" xi y
                        (String.concat "," (List.map fmt_msg c))
                        (String.concat "," (List.map fmt_msg r))
                      :: !problems)
                senders)
            specs;
          (* (3) the whole run as one execution of the system model *)
          (match
             replay_global (watch = "1") (graph_of_list (List.map (fun (x, k, d) -> (x, (k, d))) specs)) roots ev_all obs_all status consumed
           with
           | Some m -> problems := ("system: " ^ m) :: !problems
           | None -> ());
          (* events or outputs of something that is not an actor of the graph *)
          List.iter
            (fun tok ->
              match sender_of tok with
              | Some n when not (List.exists (fun (x, _, _) -> int_of_n x = n) specs) -> problems := ("unknown-sender " ^ tok) :: !problems
              | _ -> ())
            obs_all;
          if !problems = [] then Printf.printf "%s OK\n" id
          else Printf.printf "%s MISMATCH %s\n" id (String.concat " | " (List.rev !problems))
      | _ -> Printf.printf "? BADCASE\n")
    (read_lines cases)
