(* mode "resolve": evaluates the extracted Resolver model on the configuration blocks written by slices/resolve.py and
   prints the result format of harness/m_resolve.rs.
     CASE <id> <rootdir-hex> <prefix-hex> <ALL | REQ hex* | RAW hex* | IDS tid*>
     ROOT <N|S<hex>>                      name of the root project
     PROJ <N|S<hex>> <dirhex>             a loaded project (directory with the scratch prefix already replaced by "/@")
     T <namehex> <B|S|A> <scripthex>      a target of the current project
     D <hex>                              an item of its `dependencies`
     IF <N|E:hex,..> <pathhex>*  IC <cmdhex>  IO <hex>      items of its `input` (in order)
     OF <N|E:hex,..> <pathhex>*  OC <cmdhex>                items of its `output` (in order)
     END
   A second line `<id>#main …` gives Resolver.main_phases for the REQ / ALL modes (with and without --clean). *)
open Model
open Drv_util

let opt_of s = if s = "N" then None else Some (unhex (String.sub s 1 (String.length s - 1)))

let exts_of s =
  if s = "N" then None
  else
    let body = String.sub s 2 (String.length s - 2) in
    if body = "" then Some [] else Some (List.map unhex (String.split_on_char ',' body))

let tid_str (t : target_id) =
  match t.t_project with
  | None -> "N~" ^ hex t.t_name
  | Some p -> "S" ^ hex p ^ "~" ^ hex t.t_name

let parse_tid s =
  match String.index_opt s '~' with
  | None -> failwith "tid"
  | Some i ->
      let p = String.sub s 0 i and n = String.sub s (i + 1) (String.length s - i - 1) in
      { t_project = opt_of p; t_name = unhex n }

let list_or_dash sep l = if l = [] then "-" else String.concat sep l

(* RESOLVE_RAW=1: no sorting / de-duplication at all (targets in the model's own order, extension lists as computed); used by
   the thorough tier to re-evaluate sampled cases inside Coq with vm_compute and compare with this extracted evaluation *)
let raw = (try Sys.getenv "RESOLVE_RAW" with Not_found -> "0") = "1"

let files_str (r : resources) =
  list_or_dash "+"
    (List.map
       (fun f ->
         let paths = list_or_dash "," (List.map hex f.fr_paths) in
         let exts =
           match f.fr_exts with
           | None -> "N"
           | Some es -> String.concat "," (if raw then List.map hex es else List.sort_uniq compare (List.map hex es))
         in
         paths ^ "/" ^ exts)
       r.r_files)

let cmds_str (r : resources) = list_or_dash "," (List.map (fun c -> hex c.cr_cmd ^ "@" ^ hex c.cr_dir) r.r_cmds)

let target_str (rt : rtarget) =
  Printf.sprintf "T:%s;k=%s;dir=%s;deps=%s;script=%s;inF=%s;inC=%s;outF=%s;outC=%s" (tid_str rt.rt_id)
    (match rt.rt_kind with TBuild -> "B" | TService -> "S" | TAggregate -> "A")
    (hex rt.rt_dir)
    (list_or_dash "," (List.map tid_str rt.rt_deps))
    (hex rt.rt_script) (files_str rt.rt_input) (cmds_str rt.rt_input) (files_str rt.rt_output)
    (cmds_str rt.rt_output)

let err_str e =
  match e with
  | EProjectNotFound -> "ERR:ProjectNotFound"
  | ETargetNotFound -> "ERR:TargetNotFound"
  | ECircular -> "ERR:Circular"
  | ENotABuildOutput -> "ERR:NotABuildOutput"
  | EInvalidInput -> "ERR:InvalidInput"
  | EInvalidTargetName -> "ERR:InvalidTargetName"
  | EPanicUnwrap | EPanicIndex | EPanicExtend | EPanicParse -> "PANIC:resolve"
  | EFuel -> "FUEL"

(* ---- block parsing ---- *)
type tgt = { tn : n list; tk : string; ts : n list; mutable td : n list list; mutable ti : yinput list; mutable tout : youtput list }
type prj = { pn : n list option; pd : n list; mutable pt : tgt list }

let build_target (t : tgt) : ytarget =
  let d = List.rev t.td and i = List.rev t.ti and o = List.rev t.tout in
  match t.tk with
  | "B" -> YBuild (d, t.ts, i, o)
  | "S" -> YService (d, t.ts, i)
  | _ -> YAggregate d

let build_cfg root (ps : prj list) : iconfig =
  { ic_root_name = root;
    ic_projects =
      List.map
        (fun p ->
          ( p.pn,
            ( p.pd,
              { yp_name = p.pn; yp_imports = []; yp_targets = List.map (fun t -> (t.tn, build_target t)) (List.rev p.pt) } ) ))
        (List.rev ps) }

let outcome_str o =
  match o with
  | OutCliError -> "cli-error"
  | OutPanic -> "panic"
  | OutResolveError e -> "resolve-error:" ^ err_str e
  | OutRan -> "ran"

let effect_str e =
  match e with
  | FDeleteState t -> "state:" ^ tid_str t
  | FRemoveWorkDirs -> "workdirs"
  | FCleanOutputs t -> "clean:" ^ tid_str t
  | FRun (roots, loaded, _) ->
      "run:" ^ list_or_dash "," (List.map tid_str roots) ^ ":" ^ list_or_dash "," (List.sort compare (List.map tid_str loaded))

let eval_case id mode args root ps =
  let cfg = build_cfg root ps in
  match available_names cfg with
  | None -> Printf.printf "%s names=- cli=- res=PANIC:names\n" id
  | Some names ->
      let names_str = list_or_dash "," (List.sort compare (List.map hex names)) in
      let finish cli roots =
        match resolve_default cfg roots with
        | Err e -> Printf.printf "%s names=%s cli=%s res=%s\n" id names_str cli (err_str e)
        | Ok m ->
            let ts = List.map (fun (_, rt) -> target_str rt) m in
            let ts = if raw then ts else List.sort compare ts in
            Printf.printf "%s names=%s cli=%s res=OK%s\n" id names_str cli
              (String.concat "" (List.map (fun s -> " " ^ s) ts))
      in
      (match mode with
      | "ALL" -> finish "-" (list_all_targets cfg)
      | "IDS" -> finish "-" (List.map parse_tid args)
      | "REQ" | "RAW" ->
          let strs = List.map unhex args in
          if mode = "REQ" && not (List.for_all (fun s -> List.mem s names) strs) then
            Printf.printf "%s names=%s cli=reject res=-\n" id names_str
          else begin
            let cli = if mode = "REQ" then "ok" else "-" in
            match try_parse_many strs cfg.ic_root_name with
            | None -> Printf.printf "%s names=%s cli=%s res=ERR:InvalidTargetName\n" id names_str cli
            | Some roots -> finish cli roots
          end
      | _ -> Printf.printf "%s BADCASE\n" id);
      if mode = "REQ" || mode = "ALL" then begin
        let req = if mode = "ALL" then None else Some (List.map unhex args) in
        let show clean =
          let effs, out = main_phases cfg req clean false in
          Printf.sprintf "%s[%s]" (outcome_str out) (String.concat " " (List.map effect_str effs))
        in
        Printf.printf "%s#main plain=%s clean=%s\n" id (show false) (show true)
      end

let run (cases : string) : unit =
  let cur = ref None in
  let root = ref None in
  let ps : prj list ref = ref [] in
  let cur_t () = match !ps with p :: _ -> (match p.pt with t :: _ -> t | [] -> failwith "no target") | [] -> failwith "no project" in
  List.iter
    (fun line ->
      match split_sp line with
      | "CASE" :: id :: _ :: _ :: mode :: args ->
          cur := Some (id, mode, List.filter (fun s -> s <> "") args);
          root := None;
          ps := []
      | [ "ROOT"; r ] -> root := opt_of r
      | [ "PROJ"; n; d ] -> ps := { pn = opt_of n; pd = unhex d; pt = [] } :: !ps
      | [ "T"; n; k; s ] ->
          (match !ps with
          | p :: _ -> p.pt <- { tn = unhex n; tk = k; ts = unhex s; td = []; ti = []; tout = [] } :: p.pt
          | [] -> failwith "T outside PROJ")
      | [ "D"; h ] -> let t = cur_t () in t.td <- unhex h :: t.td
      | "IF" :: e :: paths -> let t = cur_t () in t.ti <- YIFiles (List.map unhex (List.filter (fun s -> s <> "") paths), exts_of e) :: t.ti
      | [ "IC"; c ] -> let t = cur_t () in t.ti <- YICmd (unhex c) :: t.ti
      | [ "IO"; s ] -> let t = cur_t () in t.ti <- YIDepOutput (unhex s) :: t.ti
      | "OF" :: e :: paths -> let t = cur_t () in t.tout <- YOFiles (List.map unhex (List.filter (fun s -> s <> "") paths), exts_of e) :: t.tout
      | [ "OC"; c ] -> let t = cur_t () in t.tout <- YOCmd (unhex c) :: t.tout
      | [ "END" ] ->
          (match !cur with
          | Some (id, mode, args) -> eval_case id mode args !root !ps
          | None -> ());
          cur := None
      | _ -> Printf.printf "? BADLINE %s\n" line)
    (read_lines cases)
