(* mode "load": the model side of harness/m_load.rs (Config.load_config over a described layout).
   case line:  L|M <id> <hexrootpath> <roottok> {D <tok> <file>} {C <tok> <hexrel> <tok|!>}
     <file> = -  (no zinoma.yml) | !  (not a YAML document) | V<yv>
     <yv>   = s<hex>; | z<hex>; | t | f | u<binary>:<hex>; | o<hex>; | [<yv>*] | {(<yv><yv>)*}
     C lines give canonicalize(dir.join(rel)) for every (directory, import string) of the layout ("!" = fails).
   The iteration order of every `imports` map is a parameter of the model: the driver evaluates the model under every
   combination of orders (up to a cap) and prints the verdict and, for errors, the SET of error classes reachable.
   result:     <id> ERR <class>|<class>... [ORDERS-SAMPLED] first=<class under the document order>
               <id> OK ... (same text as the harness, directories as @<hex token>; the result under the document order)
               <id> MIXED ...                  (verdict depends on the order: contradicts C14_loader_order_independent)
   Y <id> ...  lines (byte-level support) have no model side: printed as "<id> -". *)
open Model
open Drv_util

exception Bad of string

(* a natural number written in binary (most significant bit first; "0" is zero): u64 values exceed OCaml's int *)
let n_of_bits (d : string) : n =
  let p = ref None in
  String.iter
    (fun ch ->
      match (!p, ch) with
      | None, '0' -> ()
      | None, '1' -> p := Some XH
      | Some q, '0' -> p := Some (XO q)
      | Some q, '1' -> p := Some (XI q)
      | _ -> raise (Bad "bits"))
    d;
  match !p with None -> N0 | Some q -> Npos q

let parse_yv (s : string) : yv =
  let n = String.length s in
  let pos = ref 0 in
  let peek () = if !pos < n then s.[!pos] else raise (Bad "eof") in
  let adv () = incr pos in
  let until c =
    let st = !pos in
    while peek () <> c do adv () done;
    let r = String.sub s st (!pos - st) in
    adv (); r in
  let rec value () : yv =
    let c = peek () in
    adv ();
    match c with
    | 's' -> YStr (unhex (until ';'))
    | 'z' -> YNull (unhex (until ';'))
    | 't' -> YBool true
    | 'f' -> YBool false
    | 'u' -> let d = until ':' in let src = until ';' in YNat (n_of_bits d, unhex src)
    | 'o' -> YOther (unhex (until ';'))
    | '[' ->
        let items = ref [] in
        while peek () <> ']' do items := value () :: !items done;
        adv (); YSeq (List.rev !items)
    | '{' ->
        let items = ref [] in
        while peek () <> '}' do
          let k = value () in
          let v = value () in
          items := (k, v) :: !items
        done;
        adv (); YMap (List.rev !items)
    | c -> raise (Bad (Printf.sprintf "yv char %c" c)) in
  let v = value () in
  if !pos <> n then raise (Bad "trailing");
  v

let parse_file (s : string) : cfile =
  if s = "-" then FAbsent else if s = "!" then FGarbage
  else if String.length s > 0 && s.[0] = 'V' then FValue (parse_yv (String.sub s 1 (String.length s - 1)))
  else raise (Bad "file")

let err_name = function
  | LE_NoConfigFile -> "NoConfigFile"
  | LE_InvalidFormat -> "InvalidFormat"
  | LE_InvalidProjectName -> "InvalidProjectName"
  | LE_InvalidTargetName -> "InvalidTargetName"
  | LE_ImportDirMissing -> "ImportDirMissing"
  | LE_ImportUnnamed -> "ImportUnnamed"
  | LE_ImportNameMismatch -> "ImportNameMismatch"
  | LE_DuplicateProjectName -> "DuplicateProjectName"
  | LE_PanicIndex -> "MODEL-PANIC-INDEX"
  | LE_Fuel -> "MODEL-FUEL"

let lst sep items = if items = [] then "." else String.concat sep items
let opt_name = function None -> "N" | Some s -> "S" ^ hex s

let files p e =
  Printf.sprintf "F(%s;%s)" (lst "+" (List.map hex p))
    (match e with None -> "N" | Some l -> "S" ^ lst "+" (List.map hex l))

let input = function
  | YIDepOutput s -> Printf.sprintf "D(%s)" (hex s)
  | YIFiles (p, e) -> files p e
  | YICmd c -> Printf.sprintf "C(%s)" (hex c)

let output = function
  | YOFiles (p, e) -> files p e
  | YOCmd c -> Printf.sprintf "C(%s)" (hex c)

let target = function
  | YBuild (d, b, i, o) ->
      Printf.sprintf "B:%s:%s:%s:%s" (lst "," (List.map hex d)) (hex b) (lst "," (List.map input i))
        (lst "," (List.map output o))
  | YService (d, s, i) -> Printf.sprintf "S:%s:%s:%s" (lst "," (List.map hex d)) (hex s) (lst "," (List.map input i))
  | YAggregate d -> Printf.sprintf "A:%s" (lst "," (List.map hex d))

let project (p : yproject) : string =
  let b = Buffer.create 64 in
  Buffer.add_string b ("name=" ^ opt_name p.yp_name);
  List.iter (fun (k, v) -> Buffer.add_string b (Printf.sprintf " I %s=%s" (hex k) (hex v))) p.yp_imports;
  List.iter (fun (k, t) -> Buffer.add_string b (Printf.sprintf " T %s=%s" (hex k) (target t))) p.yp_targets;
  Buffer.contents b

(* the idx-th permutation of l (Lehmer code, idx < (length l)!) *)
let rec permute (idx : int) (l : 'a list) : 'a list =
  match l with
  | [] -> []
  | _ ->
      let n = List.length l in
      let rec fact k = if k <= 1 then 1 else k * fact (k - 1) in
      let f = fact (n - 1) in
      let i = idx / f in
      let x = List.nth l i in
      x :: permute (idx mod f) (List.filteri (fun j _ -> j <> i) l)

let rec fact k = if k <= 1 then 1 else k * fact (k - 1)

let rec nat_of_int (n : int) : nat = if n <= 0 then O else S (nat_of_int (n - 1))

let meaning (ic : iconfig) (name : bytes) : string =
  match try_parse name ic.ic_root_name with
  | None -> "UNPARSABLE"
  | Some id -> (
      match ir_lookup id.t_project ic.ic_projects with
      | None -> "E"
      | Some (d, pr) -> (
          match List.find_opt (fun (n, _) -> n = id.t_name) pr.yp_targets with
          | None -> "E"
          | Some (_, t) ->
              let k, sc =
                match t with
                | YBuild (_, b, _, _) -> ("B", b)
                | YService (_, s, _) -> ("S", s)
                | YAggregate _ -> ("A", [])
              in
              Printf.sprintf "@%s:%s:%s" (hex d) k (hex sc)))

let ok_line (c : yconfig) (with_meaning : bool) : string =
  let b = Buffer.create 256 in
  Buffer.add_string b (Printf.sprintf "OK root=@%s" (hex c.yc_root));
  (match to_ir c with
  | None -> Buffer.add_string b " MODEL-PANIC-ROOT"
  | Some ic -> (
      Buffer.add_string b (" irroot=" ^ opt_name ic.ic_root_name);
      match ir_available_names ic with
      | None -> Buffer.add_string b " MODEL-PANIC-NAMES"
      | Some names ->
          Buffer.add_string b (" avail=" ^ lst "," (List.map hex names));
          Buffer.add_string b
            (match try_parse_many names ic.ic_root_name with Some _ -> " parse=ok" | None -> " parse=FAIL");
          List.iter (fun (d, p) -> Buffer.add_string b (Printf.sprintf " P @%s %s" (hex d) (project p))) c.yc_projects;
          if with_meaning then begin
            Buffer.add_string b " MEAN";
            List.iter (fun nm -> Buffer.add_string b (Printf.sprintf " %s=%s" (hex nm) (meaning ic nm))) names
          end));
  Buffer.contents b

let cap = 4000

let run_case (kind : string) (id : string) (fields : string list) : string =
  match fields with
  | _rootpath :: roottok :: rest ->
      let files = Hashtbl.create 8 and canon = Hashtbl.create 8 in
      let dirs = ref [] in
      let rec go = function
        | "D" :: tok :: file :: r ->
            Hashtbl.replace files (unhex tok) (parse_file file);
            dirs := unhex tok :: !dirs;
            go r
        | "C" :: tok :: rel :: res :: r ->
            Hashtbl.replace canon (unhex tok, unhex rel) (if res = "!" then None else Some (unhex res));
            go r
        | [] -> ()
        | x :: _ -> raise (Bad ("field " ^ x))
      in
      go rest;
      let dirs = List.rev !dirs in
      let fs d = match Hashtbl.find_opt files d with Some f -> f | None -> FAbsent in
      let cn d rel = match Hashtbl.find_opt canon (d, rel) with Some r -> r | None -> None in
      (* import counts per directory -> mixed-radix space of orders *)
      let radix =
        List.map
          (fun d ->
            match fs d with
            | FValue v -> ( match accept_project v with Some p -> (d, fact (List.length p.yp_imports)) | None -> (d, 1))
            | _ -> (d, 1))
          dirs
      in
      let total = List.fold_left (fun a (_, r) -> if a > cap then a else a * r) 1 radix in
      let complete = total <= cap in
      let count = if complete then total else cap in
      let fuel = nat_of_int (List.length dirs + 2) in
      let results = ref [] in
      for k = 0 to count - 1 do
        (* decode k (exhaustive) or scramble it (sampling) into one permutation index per directory *)
        let idx = Hashtbl.create 8 in
        let kk = ref (if complete then k else (k * 7919) + (k * k * 31)) in
        List.iter
          (fun (d, r) ->
            Hashtbl.replace idx d (!kk mod r);
            kk := if complete then !kk / r else (!kk / r) + (!kk * 131 mod 1000003))
          radix;
        let ord d l = permute (match Hashtbl.find_opt idx d with Some i -> i mod fact (List.length l) | None -> 0) l in
        let r = load_config fs cn ord fuel (unhex roottok) in
        if not (List.mem r !results) then results := r :: !results
      done;
      let first_err = match List.rev !results with LErr e :: _ -> " first=" ^ err_name e | _ -> "" in
      let oks = List.filter_map (function LOk c -> Some c | _ -> None) !results in
      let errs = List.filter_map (function LErr e -> Some (err_name e) | _ -> None) !results in
      let errs = List.sort_uniq compare errs in
      let partial = if complete then "" else " ORDERS-SAMPLED" in
      if oks <> [] && errs <> [] then Printf.sprintf "%s MIXED %s" id (String.concat "|" errs)
      else if errs <> [] then Printf.sprintf "%s ERR %s%s%s" id (String.concat "|" errs) partial first_err
      else Printf.sprintf "%s %s" id (ok_line (List.hd (List.rev oks)) (kind = "M"))
  | _ -> id ^ " BADCASE"

let run (cases : string) : unit =
  List.iter
    (fun line ->
      match split_sp line with
      | ("L" | "M") as k :: id :: rest -> (
          try print_endline (run_case k id rest) with Bad m -> Printf.printf "%s BADCASE %s\n" id m)
      | "Y" :: id :: _ -> Printf.printf "%s -\n" id
      | _ -> Printf.printf "? BADCASE\n")
    (read_lines cases)
