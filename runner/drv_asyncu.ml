(* mode "asyncu": AsyncUtils.both / all_results on the case lines of harness/m_asyncu.rs
   case line:  Y <id> <all|both> <verdict:delay_ms,verdict:delay_ms,...|->      (the futures complete in increasing delay)
   result:     <id> <0|1> *)
open Model
open Drv_util

let run (cases : string) : unit =
  List.iter
    (fun line ->
      match split_sp line with
      | [ "Y"; id; which; items ] ->
          let items =
            if items = "-" then []
            else
              List.map
                (fun it -> match String.split_on_char ':' it with [ v; d ] -> (v = "1", int_of_string d) | _ -> failwith "item")
                (String.split_on_char ',' items)
          in
          (* completion order = increasing delay (ties: any order — the theorem says it does not matter) *)
          let sorted = List.stable_sort (fun (_, a) (_, b) -> compare a b) items in
          let r =
            match which, items with
            | "both", [ (a, _); (b, _) ] -> both a b
            | _ -> all_results (List.map fst sorted)
          in
          Printf.printf "%s %s\n" id (b01 r)
      | _ -> Printf.printf "? BADCASE\n")
    (read_lines cases)
