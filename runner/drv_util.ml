(* shared helpers for the model runner: conversions between OCaml ints/strings and the extracted N / lists *)
open Model

let rec pos_of_int (n : int) : positive =
  if n = 1 then XH
  else if n land 1 = 0 then XO (pos_of_int (n lsr 1))
  else XI (pos_of_int (n lsr 1))

let n_of_int (n : int) : n = if n = 0 then N0 else Npos (pos_of_int n)

let rec int_of_pos (p : positive) : int =
  match p with XH -> 1 | XO q -> 2 * int_of_pos q | XI q -> 2 * int_of_pos q + 1

let int_of_n (x : n) : int = match x with N0 -> 0 | Npos p -> int_of_pos p

let hexval c =
  match c with
  | '0' .. '9' -> Char.code c - 48
  | 'a' .. 'f' -> Char.code c - 87
  | 'A' .. 'F' -> Char.code c - 55
  | _ -> failwith "hex"

(* "-" and "_" are the empty string *)
let unhex (s : string) : n list =
  if s = "-" || s = "_" then []
  else begin
    let l = ref [] in
    let i = ref (String.length s - 2) in
    while !i >= 0 do
      l := n_of_int ((hexval s.[!i] * 16) + hexval s.[!i + 1]) :: !l;
      i := !i - 2
    done;
    !l
  end

let hex (b : n list) : string =
  if b = [] then "_" else String.concat "" (List.map (fun x -> Printf.sprintf "%02x" (int_of_n x)) b)

let split_sp (s : string) : string list = String.split_on_char ' ' s

let read_lines (file : string) : string list =
  let ic = open_in file in
  let rec go acc =
    match input_line ic with
    | l -> if l = "" || l.[0] = '#' then go acc else go (l :: acc)
    | exception End_of_file -> close_in ic; List.rev acc
  in
  go []

let b01 (x : bool) = if x then "1" else "0"
