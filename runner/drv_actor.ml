(* mode "actor": evaluates Actor.actor_step on the case lines of harness/m_actor.rs and prints the same result format.
   Events the model does not accept in the current state (e.g. BD while no build is ongoing) are printed as "-" and
   skipped; the Python side removes them before the implementation run. LATE_ACK=0 selects the pinned (pre-FX1) handlers. *)
open Model
open Drv_util

let late_ack = (try Sys.getenv "LATE_ACK" with Not_found -> "1") <> "0"

let kind_of s = if s = "B" then KB else KS
let aid_of s = if s = "R" then ARoot else ATarget (n_of_int (int_of_string s))
let fmt_kind k = match k with KB -> "B" | KS -> "S"
let fmt_aid a = match a with ARoot -> "R" | ATarget t -> string_of_int (int_of_n t)
let b01 b = if b then "1" else "0"

let fmt_msg m =
  match m with
  | MRequested (k, r) -> Printf.sprintf "Rq:%s:%s" (fmt_kind k) (fmt_aid r)
  | MUnrequested (k, r) -> Printf.sprintf "Un:%s:%s" (fmt_kind k) (fmt_aid r)
  | MOk (k, t, a) -> Printf.sprintf "Ok:%s:%d:%s" (fmt_kind k) (int_of_n t) (b01 a)
  | MInvalidated (k, t) -> Printf.sprintf "Iv:%s:%d" (fmt_kind k) (int_of_n t)

let fmt_out o =
  match o with
  | OErr t -> Printf.sprintf "ERR:%d" (int_of_n t)
  | OMsg (d, m) -> Printf.sprintf "%s<-%s" (fmt_aid d) (fmt_msg m)

let parse_event tok =
  match String.split_on_char ':' tok with
  | [ "Rq"; k; r ] -> EMsg (MRequested (kind_of k, aid_of r))
  | [ "Un"; k; r ] -> EMsg (MUnrequested (kind_of k, aid_of r))
  | [ "Ok"; k; t; a ] -> EMsg (MOk (kind_of k, n_of_int (int_of_string t), a = "1"))
  | [ "Iv"; k; t ] -> EMsg (MInvalidated (kind_of k, n_of_int (int_of_string t)))
  | [ "IN" ] -> EInval
  | [ "TM" ] -> ETerm
  | [ "BD"; "C" ] -> EBuildDone RCompleted
  | [ "BD"; "F" ] -> EBuildDone RFailed
  | [ "BD"; "K" ] -> EBuildDone RSkipped
  | _ -> failwith ("bad event " ^ tok)

let count p l = List.length (List.filter p l)

let run (cases : string) : unit =
  List.iter
    (fun line ->
      match split_sp line with
      | "A" :: id :: kind :: deps :: spawn :: events ->
          let ak = match kind with "B" -> ABuild | "S" -> AService | _ -> AAggregate in
          let deps = if deps = "-" then [] else List.map (fun d -> n_of_int (int_of_string d)) (String.split_on_char ',' deps) in
          let skip_mode = spawn = "2" in
          let spawn_ok = spawn = "1" || skip_mode in
          let st = ref (init_actor (n_of_int 100) ak deps) in
          let starts = ref 0 in
          let nbd = ref 0 in
          let bds = ref [] in
          let res = ref [] in
          List.iter
            (fun ev ->
              let tok = match String.index_opt ev '@' with Some i -> String.sub ev 0 i | None -> ev in
              let e = parse_event tok in
              match (if skip_mode && (match e with EBuildDone _ -> true | _ -> false) then None else actor_step late_ack spawn_ok !st e) with
              | None -> res := "-" :: !res; bds := !nbd :: !bds
              | Some ((a1, outs), obs) ->
                  let a1, outs, obs =
                    (* a termination received during a build kills the script: the Cancelled result follows *)
                    if e = ETerm && a1.ongoing then
                      match actor_step late_ack spawn_ok a1 (EBuildDone RCancelled) with
                      | Some ((a2, o2), ob2) -> (a2, outs @ o2, obs @ ob2)
                      | None -> (a1, outs, obs)
                    else (a1, outs, obs)
                  in
                  (* skip mode: an execution that starts is found Not Modified and ends Skipped by itself; if that re-arms
                     the actor (invalidated meanwhile) the next execution is skipped as well *)
                  let a1, outs, obs =
                    if skip_mode then begin
                      let a = ref a1 and o = ref outs and b = ref obs and fuel = ref 8 in
                      while !a.ongoing && (not !a.cancel_sent) && !fuel > 0 do
                        decr fuel;
                        match actor_step late_ack spawn_ok !a (EBuildDone RSkipped) with
                        | Some ((a2, o2), ob2) -> a := a2; o := !o @ o2; b := !b @ ob2; incr nbd
                        | None -> fuel := 0
                      done;
                      (!a, !o, !b)
                    end else (a1, outs, obs)
                  in
                  bds := !nbd :: !bds;
                  st := a1;
                  let is_start o = match ak, o with ABuild, ObStart _ -> true | AService, ObSucc _ -> true | _ -> false in
                  if not skip_mode then starts := !starts + count is_start obs;
                  let alive = match ak with ABuild -> a1.ongoing | AService -> a1.running | AAggregate -> false in
                  let outs = List.sort compare (List.map fmt_out outs) in
                  res :=
                    Printf.sprintf "out=[%s] starts=%d alive=%d zombies=0 exited=%s" (String.concat "," outs) !starts
                      (if alive then 1 else 0) (b01 a1.exited)
                    :: !res)
            events;
          Printf.printf "%s %s%s\n" id (String.concat "|" (List.rev !res))
            (if skip_mode then " #bd=" ^ String.concat "," (List.map string_of_int (List.rev !bds)) else "")
      | _ -> Printf.printf "? BADCASE\n")
    (read_lines cases)
