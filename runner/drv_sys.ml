(* mode "sys": explores the extracted system model Sys.exec on small graphs (support for witness search; not a proof).
   case line:  S <id> <fx1 0|1> <watch 0|1> <graph t:K:d,d;t:K:-;...> <roots a,b> <cmd> [limit]
     K in B S G;  cmd = deadlock : search (DFS with visited set, hist stripped) for a reachable state that is quiescent,
                                   still inside the root loop (PRun) and without any failure; prints the label schedule
                 cmd = count    : number of distinct reachable states (internal labels only)
   result:     <id> FOUND <labels...> | <id> NONE states=<n> [LIMIT] *)
open Model
open Drv_util

module H = Hashtbl.Make (struct
  type t = sys
  let equal a b = compare a b = 0
  let hash x = Hashtbl.hash_param 2000 20000 x
end)

let fmt_label l =
  match l with
  | LDeliver (t, ok) -> Printf.sprintf "D%d%s" (int_of_n t) (if ok then "" else "!")
  | LInval (t, ok) -> Printf.sprintf "I%d%s" (int_of_n t) (if ok then "" else "!")
  | LTermActor t -> Printf.sprintf "T%d" (int_of_n t)
  | LBuildDone (t, r) ->
      Printf.sprintf "B%d%s" (int_of_n t)
        (match r with RCompleted -> "c" | RSkipped -> "k" | RFailed -> "f" | RCancelled -> "x")
  | LRoot -> "R"
  | LRootIdle -> "Ri"
  | LSignal -> "Sig"
  | LRootSignal -> "Rs"
  | LChange ts -> "C" ^ String.concat "+" (List.map (fun t -> string_of_int (int_of_n t)) ts)
  | LJoin -> "J"

let parse_graph s =
  List.map
    (fun item ->
      match String.split_on_char ':' item with
      | [ t; k; deps ] ->
          let k = match k with "B" -> ABuild | "S" -> AService | _ -> AAggregate in
          let deps = if deps = "-" then [] else List.map (fun d -> n_of_int (int_of_string d)) (String.split_on_char ',' deps) in
          (n_of_int (int_of_string t), (k, deps))
      | _ -> failwith "graph")
    (String.split_on_char ';' s)

let run (cases : string) : unit =
  List.iter
    (fun line ->
      match split_sp line with
      | "S" :: id :: fx :: w :: gr :: rts :: cmd :: rest ->
          let fx1 = fx = "1" and watch = w = "1" in
          let limit = match rest with [ l ] -> int_of_string l | _ -> 200000 in
          let g = graph_of_list (parse_graph gr) in
          let roots = List.map (fun r -> n_of_int (int_of_string r)) (String.split_on_char ',' rts) in
          let s0 = init_sys g roots in
          let visited = H.create 100003 in
          let found = ref None in
          let count = ref 0 in
          let limit_hit = ref false in
          (* iterative DFS *)
          let stack = Stack.create () in
          Stack.push (s0, []) stack;
          H.replace visited (strip_hist s0) ();
          while !found = None && not (Stack.is_empty stack) do
            let s, path = Stack.pop stack in
            incr count;
            if !count > limit then begin limit_hit := true; Stack.clear stack end
            else begin
              let en = enabled fx1 watch s in
              if cmd = "deadlock" && en = [] && is_running s && not (has_failure s) then found := Some (List.rev path)
              else
                List.iter
                  (fun l ->
                    match exec fx1 watch s l with
                    | Some s' ->
                        let k = strip_hist s' in
                        if not (H.mem visited k) then begin
                          H.replace visited k ();
                          Stack.push (s', l :: path) stack
                        end
                    | None -> ())
                  en
            end
          done;
          (match !found with
           | Some p -> Printf.printf "%s FOUND %s\n" id (String.concat " " (List.map fmt_label p))
           | None -> Printf.printf "%s NONE states=%d%s\n" id !count (if !limit_hit then " LIMIT" else ""))
      | _ -> Printf.printf "? BADCASE\n")
    (read_lines cases)
