(* mode "watchset": Watch.run_ops on the case lines written by props/C16.py
   case line:  S <id> <fixed 0|1> <dirs hex,hex|-> <files hex,hex|-> <ops M:hex,R:hex,...>      M = rewritten in place, R = replaced by a rename
   result:     <id> <flags, one 0/1 per operation: reported to the callback?> *)
open Model
open Drv_util

let lst f = if f = "-" then [] else List.map unhex (String.split_on_char ',' f)

let run (cases : string) : unit =
  List.iter
    (fun line ->
      match split_sp line with
      | [ "S"; id; fixed; dirs; files; ops ] ->
          let w = if fixed = "1" then watches_fixed (lst dirs) (lst files) else watches_pinned (lst dirs) (lst files) in
          let ops =
            List.map
              (fun o ->
                match String.split_on_char ':' o with
                | [ "M"; h ] -> OpModify (unhex h)
                | [ "R"; h ] -> OpReplace (unhex h)
                | _ -> failwith "bad op")
              (if ops = "-" then [] else String.split_on_char ',' ops)
          in
          Printf.printf "%s %s\n" id (String.concat "" (List.map b01 (run_ops w ops)))
      | _ -> Printf.printf "? BADCASE\n")
    (read_lines cases)
