(* mode "builder": Builder.build_report on the case lines of harness/m_builder.rs
   case line:  U <id> <how: E<n> exit code n | K<n> killed by signal n | X cancelled while running | N spawn fails>
   result:     <id> <completed|cancelled|failed> *)
open Model
open Drv_util

let run (cases : string) : unit =
  List.iter
    (fun line ->
      match split_sp line with
      | [ "U"; id; how ] ->
          let num () = n_of_int (int_of_string (String.sub how 1 (String.length how - 1))) in
          let r =
            match how.[0] with
            | 'E' -> build_report true false (WExited (num ()))
            | 'K' -> build_report true false (WSignaled (num ()))
            | 'X' -> build_report true true (WSignaled (n_of_int 9))
            | _ -> build_report false false (WExited (n_of_int 0))
          in
          Printf.printf "%s %s\n" id (match r with RepCompleted -> "completed" | RepCancelled -> "cancelled" | RepFailed -> "failed")
      | _ -> Printf.printf "? BADCASE\n")
    (read_lines cases)
