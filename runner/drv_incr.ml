(* mode "incr": the model side of one invocation of the incremental build cycle (Model/Incremental.v), fed with the
   OBSERVED worlds (listing, mtimes, content hashes, command outputs) so that the clock never matters.
   case lines:
     C <id> <variant> <in_nfiles> <in_cmds> <out_nfiles> <out_cmds> <w0> <disk0> <outcome> <w1> <crash>
        variant   = fixed | pinned                 (the code after FX3/FX4, or the pinned code)
        in_nfiles = number of declared input files resources (only its being zero matters: the listing is given)
        in_cmds   = - | hexcmd@hexdir;...
        w         = <in listing>|<out listing>|<cmd outputs>      (or "-" when the script never ran)
                    listing = - | hexpath:<secs>.<nanos>/E:<hash>/E,...     cmd outputs = - | hexcmd@hexdir=hexout/E,...
        disk0     = - (no state file) | hex bytes
        outcome   = ok | fail | spawnfail | cancel
        crash     = - | <number of machine steps after which the process dies>
     -> <id> skip=<0|1> phase=<...> disk=<-|hex> dec=<none|some <value>>
     P <id> <hexdir> <hexproject|-> <hexname>      -> <id> path=<hex of checksums_path> *)
open Model
open Drv_util

let rec nat_of_int (n : int) : nat = if n <= 0 then O else S (nat_of_int (n - 1))

let hash_of_content (c : n list) : n = le_value c

(* the content of a file is represented by the 8 little-endian bytes of its real SeaHash: hash := le_value *)
let content_of_hash (h : string) : n list =
  let h = String.make (16 - String.length h) '0' ^ h in
  (* most significant digit first -> little-endian bytes *)
  List.init 8 (fun i -> n_of_int ((hexval h.[14 - (2 * i)] * 16) + hexval h.[15 - (2 * i)]))

type obs = { o_mtime : duration option; o_content : n list option }

let parse_listing (s : string) : (string * obs) list =
  if s = "-" then []
  else
    List.map
      (fun e ->
        match String.split_on_char ':' e with
        | [ p; m; h ] ->
            let mt =
              if m = "E" then None
              else
                match String.split_on_char '.' m with
                | [ a; b ] -> Some { d_secs = Drv_codec.n_of_hexnum a; d_nanos = Drv_codec.n_of_hexnum b }
                | _ -> failwith "mtime"
            in
            let c = if h = "E" then None else Some (content_of_hash h) in
            (p, { o_mtime = mt; o_content = c })
        | _ -> failwith ("listing entry " ^ e))
      (String.split_on_char ',' s)

let parse_cmd_outputs (s : string) : ((string * string) * n list option) list =
  if s = "-" then []
  else
    List.map
      (fun e ->
        match String.split_on_char '=' e with
        | [ k; o ] -> (
            match String.split_on_char '@' k with
            | [ c; d ] -> ((c, d), if o = "E" then None else Some (unhex o))
            | _ -> failwith "cmd key")
        | _ -> failwith ("cmd output " ^ e))
      (String.split_on_char ',' s)

let parse_cmds (s : string) : cmd_resource list =
  if s = "-" then []
  else
    List.map
      (fun e ->
        match String.split_on_char '@' e with
        | [ c; d ] -> { cr_cmd = unhex c; cr_dir = unhex d }
        | _ -> failwith "cmd")
      (String.split_on_char ';' s)

let dummy_files (tag : int) (k : int) : files_resource list =
  List.init k (fun i -> { fr_paths = [ [ n_of_int tag; n_of_int i ] ]; fr_exts = None })

let world_of (in_files : files_resource list) (s : string) : iworld =
  match String.split_on_char '|' s with
  | [ li; lo; co ] ->
      let inl = parse_listing li and outl = parse_listing lo and cmds = parse_cmd_outputs co in
      let tbl = Hashtbl.create 16 in
      List.iter (fun (p, o) -> Hashtbl.replace tbl p o) (inl @ outl);
      let ctbl = Hashtbl.create 8 in
      List.iter (fun (k, o) -> Hashtbl.replace ctbl k o) cmds;
      { w_list = (fun fs -> List.map (fun (p, _) -> unhex p) (if fs = in_files then inl else outl));
        w_mtime = (fun p -> match Hashtbl.find_opt tbl (hex p) with Some o -> o.o_mtime | None -> None);
        w_read = (fun p -> match Hashtbl.find_opt tbl (hex p) with Some o -> o.o_content | None -> None);
        w_cmd = (fun c d -> match Hashtbl.find_opt ctbl (hex c, hex d) with Some o -> o | None -> None) }
  | _ -> failwith ("world " ^ s)

let empty_world : iworld =
  { w_list = (fun _ -> []); w_mtime = (fun _ -> None); w_read = (fun _ -> None); w_cmd = (fun _ _ -> None) }

let show_phase (p : cphase) : string =
  match p with
  | PStart -> "Start"
  | PDecided -> "Decided"
  | PDeleted -> "Deleted"
  | PScripted -> "Scripted"
  | PComputed _ -> "Computed"
  | PWriting (todo, ok) -> Printf.sprintf "Writing(%d,%s)" (List.length todo) (b01 ok)
  | PEnd CySkipped -> "End:Skipped"
  | PEnd CyCompleted -> "End:Completed"
  | PEnd CyCancelled -> "End:Cancelled"
  | PEnd CyFailed -> "End:Err"

let run (cases : string) : unit =
  List.iter
    (fun line ->
      match split_sp line with
      | [ "C"; id; variant; inf; incmds; outf; outcmds; w0; disk0; outcome; w1; crash ] ->
          let in_files = dummy_files 0 (int_of_string inf) and out_files = dummy_files 1 (int_of_string outf) in
          let input = { r_files = in_files; r_cmds = parse_cmds incmds } in
          let output = { r_files = out_files; r_cmds = parse_cmds outcmds } in
          let ckeq, fx4 = if variant = "pinned" then (ckey_text_eqb, false) else (ckey_eqb, true) in
          let world0 = world_of in_files w0 in
          let world1 = if w1 = "-" then empty_world else world_of in_files w1 in
          let oc =
            match outcome with
            | "ok" -> ScriptSucceeded
            | "fail" -> ScriptFailed
            | "spawnfail" -> SpawnFailed
            | "cancel" -> ScriptCancelled
            | _ -> failwith "outcome"
          in
          let disk = if disk0 = "-" then None else Some (unhex disk0) in
          let c = { cy_input = input; cy_output = Some output; cy_w0 = world0; cy_outcome = oc; cy_w1 = world1 } in
          let cr = if crash = "-" then None else Some (nat_of_int (int_of_string crash)) in
          let skip = decide_skip_gen hash_of_content ckeq fx4 world0 disk input (Some output) in
          let s = run_cycle hash_of_content ckeq fx4 c cr disk in
          let dsk, dec =
            match s.c_disk with
            | None -> ("-", "none")
            | Some bs -> (
                ( hex bs,
                  match dec_env bs with
                  | Some (e, rest) -> Printf.sprintf "some %s rest=%d" (Drv_codec.show_env e) (List.length rest)
                  | None -> "none" ))
          in
          Printf.printf "%s skip=%s phase=%s disk=%s dec=%s\n" id (b01 skip) (show_phase s.c_phase) dsk dec
      | [ "P"; id; dir; proj; name ] ->
          let t = { t_project = (if proj = "-" then None else Some (unhex proj)); t_name = unhex name } in
          Printf.printf "%s path=%s\n" id (hex (checksums_path (unhex dir) t))
      | _ -> Printf.printf "? BADCASE\n")
    (read_lines cases)
