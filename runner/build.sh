#!/bin/sh
# builds the model runner from the freshly extracted model (coq/model.ml) into .cache/runner/
set -e
cd "$(dirname "$0")"
OUT=../.cache/runner
mkdir -p $OUT
cp ../coq/model.ml ../coq/model.mli $OUT/
cp drv_*.ml driver.ml $OUT/
cd $OUT
# drivers in dependency order (a driver may reuse the helpers of another one)
DRV=$(ocamlfind ocamldep -sort drv_*.ml | tr ' ' '\n' | grep -v '^drv_util.ml$' | tr '\n' ' ')
ocamlfind ocamlopt -O2 -w -a -package str -linkpkg model.mli model.ml drv_util.ml $DRV driver.ml -o runner 2>/dev/null \
 || ocamlfind ocamlopt -w -a -package str -linkpkg model.mli model.ml drv_util.ml $DRV driver.ml -o runner
