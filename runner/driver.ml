(* model runner: evaluates the extracted Coq model on a case file, one canonical result line per case *)
let () =
  let mode = Sys.argv.(1) and cases = Sys.argv.(2) in
  match mode with
  | "filter" -> Drv_filter.run cases
  | m -> prerr_endline ("unknown mode " ^ m); exit 2
