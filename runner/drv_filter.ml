(* mode "filter": same case lines as harness/m_filter.rs *)
open Model
open Drv_util

let parse_exts (s : string) : n list list option =
  if s = "-" then None else Some (List.map unhex (String.split_on_char ',' s))

let run (cases : string) : unit =
  List.iter
    (fun line ->
      match split_sp line with
      | [ "F"; id; hp; ex ] ->
          let p = unhex hp in
          let exts = parse_exts ex in
          Printf.printf "%s tmp=%s inwd=%s ext=%s relevant=%s\n" id
            (b01 (tmp_editor_path p))
            (b01 (in_work_dir p))
            (b01 (matches_extensions exts p))
            (b01 (watch_filter exts p))
      | [ "G"; id; hp; ex; declared; files ] ->
          (* the conjunct added by the repair of D16: is this path something else than a declared path, in the directory of a
             file watched by path? *)
          let p = unhex hp in
          let lst f = if f = "-" then [] else List.map unhex (String.split_on_char ',' f) in
          let declared = lst declared and files = lst files in
          let exts = parse_exts ex in
          Printf.printf "%s other=%s relevant=%s\n" id
            (b01 (other_in_file_dir declared files p))
            (b01 (watch_filter2 declared files exts p))
      | _ -> Printf.printf "? BADCASE\n")
    (read_lines cases)
