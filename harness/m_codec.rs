// mode "codec": the state-file format, through the REAL read path of storage.rs.
//   case line:  D <id> <hexbytes>     the bytes are written to <scratch>/.zinoma/t.checksums, then
//                                     storage::read_saved_target_env_state is called (decode; on error the file is dropped)
//   result:     <id> some <hex of bincode::serialize(decoded value)> file=<0|1>
//               <id> none file=<0|1>                (file = does the state file still exist afterwards)
//               <id> PANIC
//   A case that makes the process abort (allocation failure) prints nothing: the driver notices the missing line.
//   ZINOMA_VERIF_SCRATCH = directory to work in (created).
use super::super::util::*;
use crate::domain::{TargetId, TargetMetadata};
use crate::engine::incremental::storage;
use std::io::Write;

pub fn meta(dir: &std::path::Path, name: &str) -> TargetMetadata {
    TargetMetadata {
        id: TargetId {
            project_name: None,
            target_name: name.to_string(),
        },
        project_dir: dir.to_path_buf().into(),
        dependencies: vec![],
    }
}

pub fn run(cases: &str) -> i32 {
    let scratch = std::env::var("ZINOMA_VERIF_SCRATCH").unwrap_or_else(|_| "/tmp/zinoma_verif_codec".to_string());
    let dir = std::path::PathBuf::from(scratch);
    std::fs::create_dir_all(dir.join(".zinoma")).unwrap();
    let file = dir.join(".zinoma").join("t.checksums");
    let target = meta(&dir, "t");
    let out = std::io::stdout();
    for line in read_lines(cases) {
        let f: Vec<&str> = line.split(' ').collect();
        match f[0] {
            "D" => {
                let id = f[1];
                let bytes = unhex(f[2]);
                std::fs::write(&file, &bytes).unwrap();
                let t = target.clone();
                let r = guarded(move || {
                    async_std::task::block_on(storage::read_saved_target_env_state(&t))
                        .map(|v| bincode::serialize(&v).unwrap())
                });
                let exists = file.exists();
                let mut o = out.lock();
                match r {
                    None => writeln!(o, "{} PANIC", id).unwrap(),
                    Some(None) => writeln!(o, "{} none file={}", id, b(exists)).unwrap(),
                    Some(Some(re)) => writeln!(o, "{} some {} file={}", id, hex(&re), b(exists)).unwrap(),
                }
                o.flush().unwrap();
            }
            _ => println!("{} BADCASE", f.get(1).unwrap_or(&"?")),
        }
    }
    let _ = std::fs::remove_file(&file);
    0
}
