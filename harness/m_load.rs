// mode "load": the real configuration loader on project layouts prepared on disk by the check.
//   case line:  L <id> <hexrootdir> ...      (further fields are for the model runner and ignored here)
//               M <id> <hexrootdir> ...      same, and additionally the meaning of every requestable name
//               Y <id> <hexfile>             serde_yaml::from_reader::<yaml::Project> on one file only (byte-level support)
//   result:     <id> ERR <class>
//               <id> OK root=@<hexdir> irroot=<N|S<hex>> avail=<hex,...|.> {P @<hexdir> name=<N|S<hex>> {I <hexk>=<hexv>} {T <hexname>=<target>}} [MEAN <hexname>=<@hexdir:kind:hexscript|E>...]
//               <id> PANIC                   (a panic anywhere in load / ir conversion / name listing / request parsing)
//   target   =  B:<deps>:<hexscript>:<inputs>:<outputs> | S:<deps>:<hexscript>:<inputs> | A:<deps>
//   deps     =  hex,hex,... | .        inputs/outputs = item,item,... | .
//   item     =  F(<paths>;<N|S<exts>>) | C(<hex>) | D(<hex>)      paths/exts = hex+hex+... | .
// Everything is printed in the iteration order of the real HashMaps; the check canonicalises (sorts) both sides.
use super::super::util::*;
use crate::config::{ir, yaml};
use crate::domain::{self, TargetId};
use std::path::Path;

fn hs(s: &str) -> String {
    hex(s.as_bytes())
}

fn list(items: Vec<String>, sep: &str) -> String {
    if items.is_empty() {
        ".".to_string()
    } else {
        items.join(sep)
    }
}

fn opt_name(n: &Option<String>) -> String {
    match n {
        None => "N".to_string(),
        Some(s) => format!("S{}", hs(s)),
    }
}

fn files(paths: &[String], exts: &Option<Vec<String>>) -> String {
    let e = match exts {
        None => "N".to_string(),
        Some(v) => format!("S{}", list(v.iter().map(|x| hs(x)).collect(), "+")),
    };
    format!("F({};{})", list(paths.iter().map(|x| hs(x)).collect(), "+"), e)
}

fn input(i: &yaml::InputResource) -> String {
    match i {
        yaml::InputResource::DependencyOutput(s) => format!("D({})", hs(s)),
        yaml::InputResource::Files { paths, extensions } => files(paths, extensions),
        yaml::InputResource::CmdStdout { cmd_stdout } => format!("C({})", hs(cmd_stdout)),
    }
}

fn output(o: &yaml::OutputResource) -> String {
    match o {
        yaml::OutputResource::Files { paths, extensions } => files(paths, extensions),
        yaml::OutputResource::CmdStdout { cmd_stdout } => format!("C({})", hs(cmd_stdout)),
    }
}

fn deps(d: &yaml::Dependencies) -> String {
    list(d.0.iter().map(|x| hs(x)).collect(), ",")
}

fn target(t: &yaml::Target) -> String {
    match t {
        yaml::Target::Build {
            dependencies,
            build,
            input: i,
            output: o,
        } => format!(
            "B:{}:{}:{}:{}",
            deps(dependencies),
            hs(build),
            list(i.0.iter().map(input).collect(), ","),
            list(o.0.iter().map(output).collect(), ",")
        ),
        yaml::Target::Service {
            dependencies,
            service,
            input: i,
        } => format!(
            "S:{}:{}:{}",
            deps(dependencies),
            hs(service),
            list(i.0.iter().map(input).collect(), ",")
        ),
        yaml::Target::Aggregate { dependencies } => format!("A:{}", deps(dependencies)),
    }
}

fn project(p: &yaml::Project) -> String {
    let mut s = format!("name={}", opt_name(&p.name));
    for (k, v) in &p.imports {
        s.push_str(&format!(" I {}={}", hs(k), hs(v)));
    }
    for (k, t) in &p.targets {
        s.push_str(&format!(" T {}={}", hs(k), target(t)));
    }
    s
}

pub fn classify(e: &anyhow::Error) -> &'static str {
    // innermost recognisable cause decides (outer layers are `Failed to import <name>` contexts)
    let msgs: Vec<String> = e.chain().map(|c| c.to_string()).collect();
    for m in msgs.iter().rev() {
        if m.starts_with("Failed to open config file") {
            return "NoConfigFile";
        }
        if m.starts_with("Invalid format for") {
            return "InvalidFormat";
        }
        if m.ends_with("is not a valid project name") {
            return "InvalidProjectName";
        }
        if m.ends_with("is not a valid target name") {
            return "InvalidTargetName";
        }
        if m.starts_with("Directory ") && m.ends_with(" does not exist") {
            return "DirMissing";
        }
        if m.starts_with("Invalid directory: ") {
            return "DirInvalid";
        }
        if m.starts_with("Project cannot be imported as it has no name") {
            return "ImportUnnamed";
        }
        if m.starts_with("The project should be imported with name") {
            return "ImportNameMismatch";
        }
        if m.contains("share the same name") || m.contains("same project name") {
            return "DuplicateProjectName";
        }
    }
    "Other"
}

fn kind_of(t: &domain::Target) -> (&'static str, String) {
    match t {
        domain::Target::Build(b) => ("B", b.build_script.clone()),
        domain::Target::Service(s) => ("S", s.run_script.clone()),
        domain::Target::Aggregate(_) => ("A", String::new()),
    }
}

/// what a requestable name means: the project directory and the script of the target it denotes
fn meaning(root: &Path, name: &str) -> String {
    let cfg = match yaml::Config::load(root) {
        Ok(c) => c,
        Err(_) => return "E".to_string(),
    };
    let cfg: ir::Config = cfg.into();
    // main.rs: TargetId::try_parse_many(requested, &config.root_project_name).unwrap()
    let id = match TargetId::try_parse(name, &cfg.root_project_name) {
        Ok(id) => id,
        Err(_) => return "UNPARSABLE".to_string(),
    };
    match cfg.try_into_domain_targets(&[id.clone()]) {
        Err(_) => "E".to_string(),
        Ok(m) => match m.get(&id) {
            None => "E".to_string(),
            Some(t) => {
                let (k, script) = kind_of(t);
                let dir: &std::path::Path = t.metadata().project_dir.as_path().into();
                format!("@{}:{}:{}", hex(&path_bytes(dir)), k, hs(&script))
            }
        },
    }
}

fn load_line(root: &Path, with_meaning: bool) -> String {
    let cfg = match yaml::Config::load(root) {
        Ok(c) => c,
        Err(e) => return format!("ERR {}", classify(&e)),
    };
    let mut s = format!("OK root=@{}", hex(&path_bytes(&cfg.root_project_dir)));
    let mut projects = String::new();
    for (dir, p) in &cfg.projects {
        projects.push_str(&format!(" P @{} {}", hex(&path_bytes(dir)), project(p)));
    }
    // main.rs:52-55 and :69-75 — ir conversion, name listing, request parsing of every offered name
    let _dirs = cfg.get_project_dirs();
    let irc: ir::Config = cfg.into();
    let names = irc.list_all_available_target_names();
    s.push_str(&format!(" irroot={}", opt_name(&irc.root_project_name)));
    s.push_str(&format!(
        " avail={}",
        list(names.iter().map(|n| hs(n)).collect(), ",")
    ));
    // the unwrap of main.rs: every offered name must parse
    let parsed = TargetId::try_parse_many(&names, &irc.root_project_name);
    s.push_str(if parsed.is_ok() { " parse=ok" } else { " parse=FAIL" });
    s.push_str(&projects);
    if with_meaning {
        s.push_str(" MEAN");
        for n in &names {
            s.push_str(&format!(" {}={}", hs(n), meaning(root, n)));
        }
    }
    s
}

pub fn run(cases: &str) -> i32 {
    for line in read_lines(cases) {
        let f: Vec<&str> = line.split(' ').collect();
        match f[0] {
            "L" | "M" => {
                let id = f[1];
                let root = pathbuf(&unhex(f[2]));
                let wm = f[0] == "M";
                match guarded(move || load_line(&root, wm)) {
                    Some(s) => println!("{} {}", id, s),
                    None => println!("{} PANIC", id),
                }
            }
            "Y" => {
                let id = f[1];
                let file = pathbuf(&unhex(f[2]));
                let r = guarded(move || match std::fs::File::open(&file) {
                    Err(_) => "NOFILE".to_string(),
                    Ok(fh) => match serde_yaml::from_reader::<_, yaml::Project>(fh) {
                        Ok(p) => format!("OK {}", project(&p)),
                        Err(_) => "ERR InvalidFormat".to_string(),
                    },
                });
                match r {
                    Some(s) => println!("{} {}", id, s),
                    None => println!("{} PANIC", id),
                }
            }
            _ => println!("{} BADCASE", f.get(1).unwrap_or(&"?")),
        }
    }
    0
}
