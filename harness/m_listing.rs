// mode "listing": the real `crate::fs::list_files_in_paths` / `list_files_in_resources` on real trees that this
// harness builds from the case file (regular files, directories, symlinks; any byte string as a name).
//
//   case file:  ROOT <hex real directory>          every case gets the fresh directory <root>/<case id>  (= model "/")
//               CASE <id>
//               D <hexpath>                         mkdir            (model-absolute path, e.g. "/p/src")
//               F <hexpath> <content id> <mtime>    regular file whose content is the decimal content id
//               L <hexpath> <hextarget>             symlink; a target starting with "/" is model-absolute and gets the
//                                                   real case root prepended, any other target is used verbatim
//               Q <qid> <exts> <hexpath>,...        list_files_in_paths(paths, exts)     exts = "-" | hex,hex,...
//               R <qid> <exts>=<hexpath>,...;...    list_files_in_resources([(paths, exts), ...])
//               END                                 (the case directory is removed unless KEEP was given before END)
//   result:     <id>.<qid> <hexpath>,<hexpath>,...  the set, case root stripped, byte-sorted ("-" when empty; "P" on a panic)
//
// The tree builder and the snapshot function are shared with mode "clean" (m_clean.rs).
use super::super::util::*;
use crate::domain::{self, FilesResource};
use std::collections::BTreeSet;
use std::os::unix::ffi::OsStrExt;
use std::path::{Path, PathBuf};

pub fn parse_exts(s: &str) -> domain::FileExtensions {
    if s == "-" {
        None
    } else {
        Some(
            s.split(',')
                .map(|h| String::from_utf8(unhex(h)).unwrap())
                .collect::<BTreeSet<_>>(),
        )
    }
}

/// real path of a model-absolute path: plain byte concatenation (no normalisation of any kind)
pub fn real_path(case_root: &[u8], model_path: &[u8]) -> PathBuf {
    let mut v = case_root.to_vec();
    v.extend_from_slice(model_path);
    pathbuf(&v)
}

pub fn parse_paths(case_root: &[u8], s: &str) -> Vec<async_std::path::PathBuf> {
    if s.is_empty() || s == "-" {
        return vec![];
    }
    s.split(',')
        .map(|h| real_path(case_root, &unhex(h)).into())
        .collect()
}

pub fn strip_root(case_root: &[u8], p: &Path) -> Vec<u8> {
    let b = path_bytes(p);
    if b.starts_with(case_root) {
        b[case_root.len()..].to_vec()
    } else {
        let mut v = b"!OUTSIDE!".to_vec();
        v.extend_from_slice(&b);
        v
    }
}

/// applies one tree-building line (D/F/L); returns false when the line is not a tree line
pub fn build_line(case_root: &[u8], f: &[&str]) -> bool {
    match f[0] {
        "D" => {
            let p = real_path(case_root, &unhex(f[1]));
            std::fs::create_dir(&p).unwrap_or_else(|e| panic!("mkdir {:?}: {}", p, e));
            true
        }
        "F" => {
            let p = real_path(case_root, &unhex(f[1]));
            std::fs::write(&p, f[2].as_bytes()).unwrap_or_else(|e| panic!("write {:?}: {}", p, e));
            true
        }
        "L" => {
            let p = real_path(case_root, &unhex(f[1]));
            let t = unhex(f[2]);
            let target = if t.first() == Some(&b'/') {
                real_path(case_root, &t)
            } else {
                pathbuf(&t)
            };
            std::os::unix::fs::symlink(&target, &p)
                .unwrap_or_else(|e| panic!("symlink {:?} -> {:?}: {}", p, target, e));
            true
        }
        _ => false,
    }
}

pub fn fresh_case_dir(root: &[u8], id: &str) -> Vec<u8> {
    let mut v = root.to_vec();
    v.push(b'/');
    v.extend_from_slice(id.as_bytes());
    let p = pathbuf(&v);
    let _ = std::fs::remove_dir_all(&p);
    std::fs::create_dir_all(&p).unwrap_or_else(|e| panic!("mkdir {:?}: {}", p, e));
    v
}

/// full recursive snapshot without following any link: one item per entry below `dir`
///   d:<hexpath>   f:<hexpath>:<hex content>   l:<hexpath>:<hex target, case root replaced by nothing>
pub fn snapshot(case_root: &[u8], dir: &Path, out: &mut Vec<String>) {
    let mut names: Vec<_> = match std::fs::read_dir(dir) {
        Ok(rd) => rd.filter_map(|e| e.ok()).map(|e| e.file_name()).collect(),
        Err(_) => return,
    };
    names.sort();
    for n in names {
        let p = dir.join(&n);
        let rel = strip_root(case_root, &p);
        match std::fs::symlink_metadata(&p) {
            Err(_) => out.push(format!("?:{}", hex(&rel))),
            Ok(md) => {
                let ty = md.file_type();
                if ty.is_symlink() {
                    let t = std::fs::read_link(&p).map(|t| path_bytes(&t)).unwrap_or_default();
                    let t = if t.starts_with(case_root) { t[case_root.len()..].to_vec() } else { t };
                    out.push(format!("l:{}:{}", hex(&rel), hex(&t)));
                } else if ty.is_dir() {
                    out.push(format!("d:{}", hex(&rel)));
                    snapshot(case_root, &p, out);
                } else {
                    let c = std::fs::read(&p).unwrap_or_default();
                    out.push(format!("f:{}:{}", hex(&rel), hex(&c)));
                }
            }
        }
    }
}

// accepts any collection of paths (the code returns a HashSet; a duplicate in a non-set collection is printed twice)
fn fmt_set(case_root: &[u8], set: impl IntoIterator<Item = async_std::path::PathBuf>) -> String {
    let mut v: Vec<Vec<u8>> = set
        .into_iter()
        .map(|p| {
            let sp: &std::path::Path = p.as_path().into();
            strip_root(case_root, sp)
        })
        .collect();
    v.sort();
    if v.is_empty() {
        "-".to_string()
    } else {
        v.iter().map(|b| hex(b)).collect::<Vec<_>>().join(",")
    }
}

pub fn run(cases: &str) -> i32 {
    let mut root: Vec<u8> = Vec::new();
    let mut case_root: Vec<u8> = Vec::new();
    let mut id = String::new();
    let mut keep = false;
    for line in read_lines(cases) {
        let f: Vec<&str> = line.split(' ').collect();
        match f[0] {
            "ROOT" => root = unhex(f[1]),
            "CASE" => {
                id = f[1].to_string();
                keep = false;
                case_root = fresh_case_dir(&root, &id);
            }
            "KEEP" => keep = true,
            "D" | "F" | "L" => {
                build_line(&case_root, &f);
            }
            "Q" => {
                let exts = parse_exts(f[2]);
                let paths = parse_paths(&case_root, f.get(3).unwrap_or(&""));
                let r = guarded(move || {
                    async_std::task::block_on(crate::fs::list_files_in_paths(&paths, &exts))
                });
                match r {
                    Some(set) => println!("{}.{} {}", id, f[1], fmt_set(&case_root, set)),
                    None => println!("{}.{} P", id, f[1]),
                }
            }
            "R" => {
                let rs: Vec<FilesResource> = f
                    .get(2)
                    .unwrap_or(&"")
                    .split(';')
                    .filter(|s| !s.is_empty())
                    .map(|s| {
                        let (e, p) = s.split_once('=').unwrap();
                        FilesResource { paths: parse_paths(&case_root, p), extensions: parse_exts(e) }
                    })
                    .collect();
                let r = guarded(move || {
                    async_std::task::block_on(crate::fs::list_files_in_resources(&rs))
                });
                match r {
                    Some(set) => println!("{}.{} {}", id, f[1], fmt_set(&case_root, set)),
                    None => println!("{}.{} P", id, f[1]),
                }
            }
            "END" => {
                if !keep {
                    let _ = std::fs::remove_dir_all(pathbuf(&case_root));
                }
            }
            _ => println!("{} BADCASE", f.get(1).unwrap_or(&"?")),
        }
    }
    0
}
