// mode "builder": the real engine::builder::build_target on scripts that exit with a given code, kill their own shell with a
// given signal, are cancelled while running, or cannot be spawned (project directory missing).
//   case line:  U <id> <E<n> | K<n> | X | N>
//   result:     <id> <completed|cancelled|failed>
use super::super::util::*;
use crate::domain::{BuildTarget, Resources, TargetId, TargetMetadata};
use crate::engine::verif_access::{build_target, BuildCancellationMessage, BuildTerminationReport};
use async_std::channel;
use async_std::task;
use std::time::Duration;

fn run_case(how: &str, scratch: &std::path::Path) -> String {
    let dir = if how == "N" { scratch.join("does-not-exist") } else { scratch.to_path_buf() };
    let script = match how.as_bytes()[0] {
        b'E' => format!("exit {}", &how[1..]),
        b'K' => format!("kill -s {} $$; sleep 5", &how[1..]),
        b'X' => "sleep 30".to_string(),
        _ => "exit 0".to_string(),
    };
    let target = BuildTarget {
        metadata: TargetMetadata {
            id: TargetId { project_name: None, target_name: "u".to_string() },
            project_dir: dir.into(),
            dependencies: vec![],
        },
        build_script: script,
        input: Resources::new(),
        output: Resources::new(),
    };
    task::block_on(async {
        let (tx, rx) = channel::bounded::<BuildCancellationMessage>(1);
        if how == "X" {
            let tx2 = tx.clone();
            task::spawn(async move {
                task::sleep(Duration::from_millis(50)).await;
                let _ = tx2.send(BuildCancellationMessage).await;
            });
        }
        let r = build_target(&target, rx).await;
        drop(tx);
        match r {
            Ok(BuildTerminationReport::Completed) => "completed",
            Ok(BuildTerminationReport::Cancelled) => "cancelled",
            Err(_) => "failed",
        }
        .to_string()
    })
}

pub fn run(cases: &str) -> i32 {
    let scratch = std::path::PathBuf::from(
        std::env::var("ZINOMA_VERIF_SCRATCH").unwrap_or_else(|_| "/verif/.cache/scratch/builder".to_string()),
    );
    std::fs::create_dir_all(&scratch).unwrap();
    for line in read_lines(cases) {
        let f: Vec<&str> = line.split(' ').collect();
        let id = f[1].to_string();
        let how = f[2].to_string();
        let s = scratch.clone();
        let r = match std::panic::catch_unwind(move || run_case(&how, &s)) {
            Ok(s) => s,
            Err(_) => "HARNESS-PANIC".to_string(),
        };
        println!("{} {}", id, r);
    }
    0
}
