use std::ffi::OsString;
use std::os::unix::ffi::{OsStrExt, OsStringExt};

pub fn unhex(s: &str) -> Vec<u8> {
    if s == "-" || s == "_" {
        return Vec::new();
    }
    let b = s.as_bytes();
    let mut out = Vec::with_capacity(b.len() / 2);
    let mut i = 0;
    while i + 1 < b.len() {
        let h = (b[i] as char).to_digit(16).unwrap() as u8;
        let l = (b[i + 1] as char).to_digit(16).unwrap() as u8;
        out.push(h * 16 + l);
        i += 2;
    }
    out
}

pub fn hex(b: &[u8]) -> String {
    if b.is_empty() {
        return "_".to_string();
    }
    let mut s = String::with_capacity(b.len() * 2);
    for x in b {
        s.push_str(&format!("{:02x}", x));
    }
    s
}

pub fn os(b: &[u8]) -> OsString {
    OsString::from_vec(b.to_vec())
}

pub fn pathbuf(b: &[u8]) -> std::path::PathBuf {
    std::path::PathBuf::from(os(b))
}

pub fn path_bytes(p: &std::path::Path) -> Vec<u8> {
    p.as_os_str().as_bytes().to_vec()
}

pub fn read_lines(file: &str) -> Vec<String> {
    std::fs::read_to_string(file)
        .unwrap_or_else(|e| panic!("cannot read case file {}: {}", file, e))
        .lines()
        .map(|l| l.to_string())
        .filter(|l| !l.is_empty() && !l.starts_with('#'))
        .collect()
}

/// Runs `f`, mapping a panic to None.
pub fn guarded<T>(f: impl FnOnce() -> T + std::panic::UnwindSafe) -> Option<T> {
    std::panic::catch_unwind(f).ok()
}

pub fn b(x: bool) -> &'static str {
    if x {
        "1"
    } else {
        "0"
    }
}
