// mode "actor": drives ONE real target actor (launch_target_actor: real channels, real /bin/sh scripts gated on a FIFO)
// with an event sequence and prints what it emitted after each event.
//   case line:  A <id> <B|S|G> <deps: - | n,n,...> <spawn_ok 0|1|2> <event>@<nout>,<nstart> ...
//               spawn_ok = 2 (build actors): SKIP MODE — the build declares an input whose state was recorded by a previous
//               successful run of the real incremental layer and never changes: every execution the actor starts ends
//               `Skipped (Not Modified)` by itself, without running the script (no BD events in such a case)
//   events:     Rq:<B|S>:<R|n>  Un:<B|S>:<R|n>  Ok:<B|S>:<n>:<0|1>  Iv:<B|S>:<n>  IN  TM  BD:<C|F>
//   <nout>,<nstart> are waiting hints computed from the model (how many outputs / cumulative script starts to wait
//   for before synchronising); they never decide a verdict: everything observed is printed and compared afterwards.
//   result:     <id> <ev0 result>|<ev1 result>|...   with  result = out=[sorted outputs] starts=<n> alive=<n> zombies=<n> exited=<0|1>
//   Synchronisation: after each event a probe message whose reply is immediate and stateless (Requested{Service} to a
//   build actor, Requested{Build} to a service actor, from a reserved requester id) marks the end of everything sent
//   before it; aggregates (no stateless reply) are synchronised on the emptiness of their input channel.
use super::super::util::*;
use crate::domain::{
    AggregateTarget, BuildTarget, FilesResource, Resources, ServiceTarget, Target, TargetId, TargetMetadata,
};
use crate::engine::verif_access::{
    launch_target_actor, ActorId, ActorInputMessage, ExecutionKind, TargetActorOutputMessage,
};
use crate::engine::WatchOption;
use crate::TerminationMessage;
use async_std::channel::{self, Receiver};
use async_std::task;
use std::io::Write;
use std::time::{Duration, Instant};

const PROBE: u64 = 999_999;
const SELF_ID: u64 = 100;
const WAIT: Duration = Duration::from_secs(5);

fn tid(n: u64) -> TargetId {
    TargetId {
        project_name: None,
        target_name: format!("t{}", n),
    }
}

fn tnum(t: &TargetId) -> String {
    t.target_name.trim_start_matches('t').to_string()
}

fn parse_kind(s: &str) -> ExecutionKind {
    if s == "B" {
        ExecutionKind::Build
    } else {
        ExecutionKind::Service
    }
}

fn parse_aid(s: &str) -> ActorId {
    if s == "R" {
        ActorId::Root
    } else {
        ActorId::Target(tid(s.parse().unwrap()))
    }
}

fn fmt_kind(k: &ExecutionKind) -> &'static str {
    match k {
        ExecutionKind::Build => "B",
        ExecutionKind::Service => "S",
    }
}

fn fmt_aid(a: &ActorId) -> String {
    match a {
        ActorId::Root => "R".to_string(),
        ActorId::Target(t) => tnum(t),
    }
}

fn fmt_msg(m: &ActorInputMessage) -> String {
    match m {
        ActorInputMessage::Requested { kind, requester } => {
            format!("Rq:{}:{}", fmt_kind(kind), fmt_aid(requester))
        }
        ActorInputMessage::Unrequested { kind, requester } => {
            format!("Un:{}:{}", fmt_kind(kind), fmt_aid(requester))
        }
        ActorInputMessage::Ok {
            kind,
            target_id,
            actual,
        } => format!("Ok:{}:{}:{}", fmt_kind(kind), tnum(target_id), b(*actual)),
        ActorInputMessage::Invalidated { kind, target_id } => {
            format!("Iv:{}:{}", fmt_kind(kind), tnum(target_id))
        }
    }
}

fn fmt_out(o: &TargetActorOutputMessage) -> String {
    match o {
        TargetActorOutputMessage::TargetExecutionError(t, _) => format!("ERR:{}", tnum(t)),
        TargetActorOutputMessage::MessageActor { dest, msg } => {
            format!("{}<-{}", fmt_aid(dest), fmt_msg(msg))
        }
    }
}

fn parse_msg(tok: &str) -> Option<ActorInputMessage> {
    let f: Vec<&str> = tok.split(':').collect();
    match f[0] {
        "Rq" => Some(ActorInputMessage::Requested {
            kind: parse_kind(f[1]),
            requester: parse_aid(f[2]),
        }),
        "Un" => Some(ActorInputMessage::Unrequested {
            kind: parse_kind(f[1]),
            requester: parse_aid(f[2]),
        }),
        "Ok" => Some(ActorInputMessage::Ok {
            kind: parse_kind(f[1]),
            target_id: tid(f[2].parse().unwrap()),
            actual: f[3] == "1",
        }),
        "Iv" => Some(ActorInputMessage::Invalidated {
            kind: parse_kind(f[1]),
            target_id: tid(f[2].parse().unwrap()),
        }),
        _ => None,
    }
}

struct Obs {
    trace: std::path::PathBuf,
}

impl Obs {
    fn pids(&self) -> Vec<u32> {
        std::fs::read_to_string(&self.trace)
            .unwrap_or_default()
            .lines()
            .filter_map(|l| l.strip_prefix("start ").and_then(|p| p.trim().parse().ok()))
            .collect()
    }
    fn starts(&self) -> usize {
        self.pids().len()
    }
    // (alive, zombies) among the processes this actor spawned
    fn procs(&self) -> (usize, usize) {
        let mut alive = 0;
        let mut zombies = 0;
        for pid in self.pids() {
            if let Ok(stat) = std::fs::read_to_string(format!("/proc/{}/stat", pid)) {
                let state = stat.rsplit(") ").next().and_then(|r| r.chars().next()).unwrap_or('?');
                if state == 'Z' {
                    zombies += 1;
                } else {
                    alive += 1;
                }
            }
        }
        (alive, zombies)
    }
}

async fn recv_timeout(
    rx: &Receiver<TargetActorOutputMessage>,
    d: Duration,
) -> Option<TargetActorOutputMessage> {
    match async_std::future::timeout(d, rx.recv()).await {
        Ok(Ok(m)) => Some(m),
        _ => None,
    }
}

fn is_probe_reply(o: &TargetActorOutputMessage) -> bool {
    match o {
        TargetActorOutputMessage::MessageActor {
            dest: ActorId::Target(t),
            ..
        } => t.target_name == format!("t{}", PROBE),
        _ => false,
    }
}

fn run_case(line: &str, scratch: &std::path::Path) -> String {
    let f: Vec<&str> = line.split(' ').collect();
    let id = f[1];
    let kind = f[2];
    let deps: Vec<TargetId> = if f[3] == "-" {
        vec![]
    } else {
        f[3].split(',').map(|d| tid(d.parse().unwrap())).collect()
    };
    let skip_mode = f[4] == "2";
    let spawn_ok = f[4] == "1" || skip_mode;
    let events: Vec<&str> = f[5..].to_vec();

    let dir = scratch.join(format!("case_{}", id));
    let _ = std::fs::remove_dir_all(&dir);
    std::fs::create_dir_all(&dir).unwrap();
    let trace = dir.join("trace");
    std::fs::write(&trace, "").unwrap();
    let gate = dir.join("gate");
    let _ = std::process::Command::new("mkfifo").arg(&gate).status();
    // keep the FIFO open read-write so that writes never block and data stays until a script reads it
    let mut gate_file = std::fs::OpenOptions::new()
        .read(true)
        .write(true)
        .open(&gate)
        .unwrap();
    let project_dir: async_std::path::PathBuf = if spawn_ok {
        dir.clone().into()
    } else {
        dir.join("missing").into()
    };
    let metadata = TargetMetadata {
        id: tid(SELF_ID),
        project_dir,
        dependencies: deps,
    };
    let build_input = if skip_mode {
        let inp = dir.join("in.txt");
        std::fs::write(&inp, "declared input\n").unwrap();
        let input = Resources {
            files: vec![FilesResource {
                paths: vec![inp.into()],
                extensions: None,
            }],
            cmds: vec![],
        };
        // record the state of that input as a successful previous invocation would have
        let _ = task::block_on(crate::engine::incremental::run(
            &metadata,
            &input,
            Some(&Resources::new()),
            async { Ok(crate::engine::verif_access::BuildTerminationReport::Completed) },
        ));
        input
    } else {
        Resources::new()
    };
    let target = match kind {
        "B" => Target::Build(BuildTarget {
            metadata,
            build_script: format!(
                "echo \"start $$\" >> {}; exec 3<>{}; read x <&3; exit $x",
                trace.display(),
                gate.display()
            ),
            input: build_input,
            output: Resources::new(),
        }),
        "S" => Target::Service(ServiceTarget {
            metadata,
            run_script: format!("echo \"start $$\" >> {}; exec sleep 100000", trace.display()),
            input: Resources::new(),
        }),
        _ => Target::Aggregate(AggregateTarget { metadata }),
    };
    let obs = Obs {
        trace: trace.clone(),
    };

    let result = task::block_on(async {
        let (out_tx, out_rx) = channel::unbounded();
        let (join, handles) = launch_target_actor(target, WatchOption::Disabled, out_tx).unwrap();
        let mut join = Some(join);
        let mut results: Vec<String> = Vec::new();
        let mut exited = false;
        let bd_base = crate::zinoma_verif::build_results_handled();
        let probe_msg = |k: &str| ActorInputMessage::Requested {
            kind: if k == "B" {
                ExecutionKind::Service
            } else {
                ExecutionKind::Build
            },
            requester: ActorId::Target(tid(PROBE)),
        };
        for ev in events {
            let (tok, hint) = ev.split_once('@').unwrap_or((ev, "0,0"));
            let hv: Vec<&str> = hint.split(',').collect();
            let nout: usize = hv.first().and_then(|x| x.parse().ok()).unwrap_or(0);
            let nstart: usize = hv.get(1).and_then(|x| x.parse().ok()).unwrap_or(0);
            // skip mode: cumulative number of build results (all `Skipped`) the actor must have handled after this event
            let nbd: usize = hv.get(2).and_then(|x| x.parse().ok()).unwrap_or(0);
            let mut outs: Vec<String> = Vec::new();
            let mut notes: Vec<String> = Vec::new();
            if exited {
                results.push("SKIPPED(exited)".to_string());
                continue;
            }
            // 1. perform the action
            let handled_before = crate::zinoma_verif::build_results_handled();
            if tok == "IN" {
                let t0 = Instant::now();
                while !handles.verif_invalidate() {
                    if t0.elapsed() > WAIT {
                        notes.push("INVAL-STUCK".to_string());
                        break;
                    }
                    task::sleep(Duration::from_millis(1)).await;
                }
                // consumed by the actor's select arm (its handler then runs to completion before the probe is read)
                let t0 = Instant::now();
                while handles.verif_invalidation_pending() {
                    if t0.elapsed() > WAIT {
                        notes.push("INVAL-NOT-CONSUMED".to_string());
                        break;
                    }
                    task::sleep(Duration::from_millis(1)).await;
                }
            } else if tok == "TM" {
                let _ = handles.termination_sender.send(TerminationMessage).await;
            } else if let Some(code) = tok.strip_prefix("BD:") {
                let line = if code == "C" { "0\n" } else { "1\n" };
                gate_file.write_all(line.as_bytes()).unwrap();
                gate_file.flush().unwrap();
            } else if let Some(m) = parse_msg(tok) {
                if handles.target_actor_input_sender.send(m).await.is_err() {
                    notes.push("INBOX-CLOSED".to_string());
                }
            } else {
                notes.push(format!("BADEVENT:{}", tok));
            }
            // 2. wait for what the model predicts (waiting hints only)
            if tok == "TM" {
                if let Some(j) = join.take() {
                    match async_std::future::timeout(Duration::from_secs(15), j).await {
                        Ok(()) => exited = true,
                        Err(_) => notes.push("NO-EXIT".to_string()),
                    }
                }
                while let Ok(o) = out_rx.try_recv() {
                    outs.push(fmt_out(&o));
                }
            } else {
                while outs.len() < nout {
                    match recv_timeout(&out_rx, WAIT).await {
                        Some(o) => outs.push(fmt_out(&o)),
                        None => break,
                    }
                }
                if tok.starts_with("BD:") {
                    let t0 = Instant::now();
                    while crate::zinoma_verif::build_results_handled() == handled_before {
                        if t0.elapsed() > WAIT {
                            notes.push("BUILD-RESULT-NOT-HANDLED".to_string());
                            break;
                        }
                        task::sleep(Duration::from_millis(1)).await;
                    }
                }
                let t0 = Instant::now();
                while obs.starts() < nstart && t0.elapsed() < WAIT {
                    task::sleep(Duration::from_millis(1)).await;
                }
                if skip_mode {
                    let t0 = Instant::now();
                    while (crate::zinoma_verif::build_results_handled() as usize) < (bd_base as usize) + nbd && t0.elapsed() < WAIT {
                        task::sleep(Duration::from_millis(1)).await;
                    }
                }
                // 3. synchronise
                if kind == "G" {
                    let t0 = Instant::now();
                    while handles.target_actor_input_sender.len() > 0 && t0.elapsed() < WAIT {
                        task::sleep(Duration::from_millis(1)).await;
                    }
                    task::sleep(Duration::from_millis(3)).await;
                    while let Ok(o) = out_rx.try_recv() {
                        outs.push(fmt_out(&o));
                    }
                } else {
                    let _ = handles.target_actor_input_sender.send(probe_msg(kind)).await;
                    loop {
                        match recv_timeout(&out_rx, WAIT).await {
                            Some(o) => {
                                if is_probe_reply(&o) {
                                    break;
                                }
                                outs.push(fmt_out(&o));
                            }
                            None => {
                                notes.push("NO-PROBE-REPLY".to_string());
                                break;
                            }
                        }
                    }
                }
            }
            outs.sort();
            let (alive, zombies) = obs.procs();
            let mut r = format!(
                "out=[{}] starts={} alive={} zombies={} exited={}",
                outs.join(","),
                obs.starts(),
                alive,
                zombies,
                b(exited)
            );
            if !notes.is_empty() {
                r.push_str(&format!(" notes={}", notes.join("+")));
            }
            results.push(r);
        }
        // tear down whatever is left so that no process outlives the case
        if !exited {
            let _ = handles.termination_sender.send(TerminationMessage).await;
            if let Some(j) = join.take() {
                let _ = async_std::future::timeout(Duration::from_secs(15), j).await;
            }
        }
        drop(handles);
        results
    });
    for pid in obs.pids() {
        if std::path::Path::new(&format!("/proc/{}", pid)).exists() {
            let _ = std::process::Command::new("kill").arg("-9").arg(pid.to_string()).status();
        }
    }
    drop(gate_file);
    let _ = std::fs::remove_dir_all(&dir);
    format!("{} {}", id, result.join("|"))
}

pub fn run(cases: &str) -> i32 {
    let scratch = std::path::PathBuf::from(
        std::env::var("ZINOMA_VERIF_SCRATCH").unwrap_or_else(|_| "/verif/.cache/scratch/actor".to_string()),
    );
    std::fs::create_dir_all(&scratch).unwrap();
    for line in read_lines(cases) {
        let l = line.clone();
        let s = scratch.clone();
        match std::panic::catch_unwind(move || run_case(&l, &s)) {
            Ok(r) => println!("{}", r),
            Err(_) => println!("{} HARNESS-PANIC", line.split(' ').nth(1).unwrap_or("?")),
        }
    }
    0
}
