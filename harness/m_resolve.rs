// mode "resolve": the REAL loader + ir conversion + name listing + request parsing + resolver on a project tree
// rendered to real zinoma.yml files by slices/resolve.py.
//   case line:  CASE <id> <rootdir-hex> <prefix-hex> <mode> <arg>*
//                 mode ALL            no target requested (main.rs: list_all_targets)
//                      REQ <hex>*     requested names as typed on the command line (checked against the accepted names
//                                     exactly as clap's possible_values does, then TargetId::try_parse_many)
//                      RAW <hex>*     names parsed with try_parse_many WITHOUT the accepted-names test (API level)
//                      IDS <id>*      root ids handed to try_into_domain_targets directly (API level)
//               every other line of the block (ROOT/PROJ/T/D/I*/O*/END) describes the same configuration for the
//               model runner and is ignored here.
//   result:     <id> names=<hex,..|-> cli=<ok|reject|-> res=<OK|ERR:<class>|PANIC:<where>|LOADERR|-> { T:<target>}*
//               target = <tid>;k=<B|S|A>;dir=<hex>;deps=<tid,..|->;script=<hex>;inF=<fr+..|->;inC=<cmd@dir,..|->;outF=..;outC=..
//               tid = N~<namehex> | S<projhex>~<namehex>     fr = <pathhex,..|->/<N|exthex,..>
//               the scratch prefix of every path is replaced by "/@"; names, targets and extension sets are sorted.
use super::super::util::*;
use crate::config::{ir, yaml};
use crate::domain::{self, TargetId};

fn tid_str(t: &TargetId) -> String {
    match &t.project_name {
        None => format!("N~{}", hex(t.target_name.as_bytes())),
        Some(p) => format!("S{}~{}", hex(p.as_bytes()), hex(t.target_name.as_bytes())),
    }
}

fn parse_tid(s: &str) -> TargetId {
    let (p, n) = s.split_once('~').unwrap();
    TargetId {
        project_name: if p == "N" {
            None
        } else {
            Some(String::from_utf8(unhex(&p[1..])).unwrap())
        },
        target_name: String::from_utf8(unhex(n)).unwrap(),
    }
}

fn tokenise(path: &[u8], prefix: &[u8]) -> Vec<u8> {
    if !prefix.is_empty() && path.starts_with(prefix) {
        let mut v = b"/@".to_vec();
        v.extend_from_slice(&path[prefix.len()..]);
        v
    } else {
        path.to_vec()
    }
}

fn list_or_dash(v: Vec<String>, sep: &str) -> String {
    if v.is_empty() {
        "-".to_string()
    } else {
        v.join(sep)
    }
}

fn files_str(r: &domain::Resources, prefix: &[u8]) -> String {
    list_or_dash(
        r.files
            .iter()
            .map(|f| {
                let paths = list_or_dash(
                    f.paths
                        .iter()
                        .map(|p| hex(&tokenise(&path_bytes(p.as_ref()), prefix)))
                        .collect(),
                    ",",
                );
                let exts = match &f.extensions {
                    None => "N".to_string(),
                    Some(set) => set.iter().map(|e| hex(e.as_bytes())).collect::<Vec<_>>().join(","),
                };
                format!("{}/{}", paths, exts)
            })
            .collect(),
        "+",
    )
}

fn cmds_str(r: &domain::Resources, prefix: &[u8]) -> String {
    list_or_dash(
        r.cmds
            .iter()
            .map(|c| {
                format!(
                    "{}@{}",
                    hex(c.cmd.as_bytes()),
                    hex(&tokenise(&path_bytes(c.dir.as_ref()), prefix))
                )
            })
            .collect(),
        ",",
    )
}

fn target_str(t: &domain::Target, prefix: &[u8]) -> String {
    let md = t.metadata();
    let empty = domain::Resources::new();
    let (k, script) = match t {
        domain::Target::Build(b) => ("B", b.build_script.clone()),
        domain::Target::Service(s) => ("S", s.run_script.clone()),
        domain::Target::Aggregate(_) => ("A", String::new()),
    };
    let input = t.input().unwrap_or(&empty);
    let output = t.output().unwrap_or(&empty);
    format!(
        "T:{};k={};dir={};deps={};script={};inF={};inC={};outF={};outC={}",
        tid_str(&md.id),
        k,
        hex(&tokenise(&path_bytes(md.project_dir.as_ref()), prefix)),
        list_or_dash(md.dependencies.iter().map(tid_str).collect(), ","),
        hex(script.as_bytes()),
        files_str(input, prefix),
        cmds_str(input, prefix),
        files_str(output, prefix),
        cmds_str(output, prefix)
    )
}

fn classify(msg: &str) -> String {
    if msg.starts_with("Project ") && msg.ends_with(" does not exist") {
        "ProjectNotFound".to_string()
    } else if msg.starts_with("Target ") && msg.ends_with(" does not exist") {
        "TargetNotFound".to_string()
    } else if msg.starts_with("Target ") && msg.contains(" can not depend on ") {
        "NotABuildOutput".to_string()
    } else if msg.starts_with("Circular dependency") {
        "Circular".to_string()
    } else if msg.starts_with("Invalid input: ") {
        "InvalidInput".to_string()
    } else if msg.starts_with("Invalid target canonical name") {
        "InvalidTargetName".to_string()
    } else {
        format!("Other:{}", hex(msg.as_bytes()))
    }
}

fn one_case(f: &[&str]) -> String {
    let id = f[1];
    let root_dir = pathbuf(&unhex(f[2]));
    let prefix = unhex(f[3]);
    let mode = f[4];
    let args: Vec<&str> = f[5..].to_vec();

    let loaded = match guarded(move || yaml::Config::load(&root_dir)) {
        None => return format!("{} names=- cli=- res=PANIC:load", id),
        Some(Err(_)) => return format!("{} names=- cli=- res=LOADERR", id),
        Some(Ok(c)) => c,
    };
    let config = match guarded(move || ir::Config::from(loaded)) {
        None => return format!("{} names=- cli=- res=PANIC:ir", id),
        Some(c) => c,
    };
    let config = std::panic::AssertUnwindSafe(config);
    let names = match guarded(|| config.list_all_available_target_names()) {
        None => return format!("{} names=- cli=- res=PANIC:names", id),
        Some(n) => n,
    };
    let mut sorted: Vec<String> = names.iter().map(|n| hex(n.as_bytes())).collect();
    sorted.sort();
    let names_str = list_or_dash(sorted, ",");

    let strs: Vec<String> = if mode == "REQ" || mode == "RAW" {
        args.iter().map(|h| String::from_utf8(unhex(h)).unwrap()).collect()
    } else {
        vec![]
    };
    let mut cli = "-";
    if mode == "REQ" {
        if strs.iter().all(|s| names.contains(s)) {
            cli = "ok";
        } else {
            return format!("{} names={} cli=reject res=-", id, names_str);
        }
    }
    let root_name = config.root_project_name.clone();
    let roots: Vec<TargetId> = match mode {
        "ALL" => config.list_all_targets(),
        "IDS" => args.iter().map(|s| parse_tid(s)).collect(),
        _ => match guarded(move || TargetId::try_parse_many(&strs, &root_name)) {
            None => return format!("{} names={} cli={} res=PANIC:parse", id, names_str, cli),
            Some(Err(e)) => {
                return format!("{} names={} cli={} res=ERR:{}", id, names_str, cli, classify(&e.to_string()))
            }
            Some(Ok(r)) => r,
        },
    };
    let config = config.0;
    let res = guarded(std::panic::AssertUnwindSafe(move || config.try_into_domain_targets(&roots)));
    match res {
        None => format!("{} names={} cli={} res=PANIC:resolve", id, names_str, cli),
        Some(Err(e)) => format!("{} names={} cli={} res=ERR:{}", id, names_str, cli, classify(&e.to_string())),
        Some(Ok(map)) => {
            let mut ts: Vec<String> = map.values().map(|t| target_str(t, &prefix)).collect();
            ts.sort();
            let mut s = format!("{} names={} cli={} res=OK", id, names_str, cli);
            for t in ts {
                s.push(' ');
                s.push_str(&t);
            }
            s
        }
    }
}

pub fn run(cases: &str) -> i32 {
    for line in read_lines(cases) {
        let f: Vec<&str> = line.split(' ').collect();
        if f[0] == "CASE" {
            println!("{}", one_case(&f));
        }
    }
    0
}
