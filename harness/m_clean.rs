// mode "clean": the real `clean_target_output_paths`, `remove_work_dir` and `delete_saved_env_state` applied to
// constructed `domain::Target` values on real trees built from the case file; a full recursive snapshot (names, types,
// link targets, contents; no link followed) is printed after every operation.
//
//   case file:  ROOT / CASE / D / F / L / KEEP / END   as in mode "listing" (m_listing.rs)
//               T <tid> <b|s|a> <hex project dir> <hex project name|-> <hex target name> <exts>=<hexpath>,...;...
//                                                   a target (b = build with these output file resources, s = service,
//                                                   a = aggregate); paths are model-absolute
//               O <qid> outputs <tid>               clean_target_output_paths(target)
//               O <qid> state <tid>                 delete_saved_env_state(target.metadata())
//               O <qid> workdir <hex project dir>   remove_work_dir(dir)
//               O <qid> snap                        nothing (snapshot only)
//   result:     <id>.<qid> <ok|err|P> <snapshot items joined by ','  ("-" when the tree is empty)>
use super::super::util::*;
use super::m_listing::{build_line, fresh_case_dir, parse_exts, parse_paths, real_path, snapshot};
use crate::domain::{
    AggregateTarget, BuildTarget, FilesResource, Resources, ServiceTarget, Target, TargetId, TargetMetadata,
};
use std::collections::HashMap;

fn make_target(case_root: &[u8], f: &[&str]) -> Target {
    let project_dir: async_std::path::PathBuf = real_path(case_root, &unhex(f[3])).into();
    let project_name = if f[4] == "-" { None } else { Some(String::from_utf8(unhex(f[4])).unwrap()) };
    let target_name = String::from_utf8(unhex(f[5])).unwrap();
    let metadata = TargetMetadata {
        id: TargetId { project_name, target_name },
        project_dir,
        dependencies: vec![],
    };
    let files: Vec<FilesResource> = f
        .get(6)
        .unwrap_or(&"")
        .split(';')
        .filter(|s| !s.is_empty())
        .map(|s| {
            let (e, p) = s.split_once('=').unwrap();
            FilesResource { paths: parse_paths(case_root, p), extensions: parse_exts(e) }
        })
        .collect();
    match f[2] {
        "b" => Target::Build(BuildTarget {
            metadata,
            build_script: "exit 0".to_string(),
            input: Resources::new(),
            output: Resources { files, cmds: vec![] },
        }),
        "s" => Target::Service(ServiceTarget {
            metadata,
            run_script: "exit 0".to_string(),
            input: Resources { files, cmds: vec![] },
        }),
        _ => Target::Aggregate(AggregateTarget { metadata }),
    }
}

fn snap_line(case_root: &[u8]) -> String {
    let mut items = Vec::new();
    snapshot(case_root, &pathbuf(case_root), &mut items);
    if items.is_empty() {
        "-".to_string()
    } else {
        items.join(",")
    }
}

pub fn run(cases: &str) -> i32 {
    let mut root: Vec<u8> = Vec::new();
    let mut case_root: Vec<u8> = Vec::new();
    let mut id = String::new();
    let mut keep = false;
    let mut targets: HashMap<String, Target> = HashMap::new();
    for line in read_lines(cases) {
        let f: Vec<&str> = line.split(' ').collect();
        match f[0] {
            "ROOT" => root = unhex(f[1]),
            "CASE" => {
                id = f[1].to_string();
                keep = false;
                targets.clear();
                case_root = fresh_case_dir(&root, &id);
            }
            "KEEP" => keep = true,
            "D" | "F" | "L" => {
                build_line(&case_root, &f);
            }
            "T" => {
                targets.insert(f[1].to_string(), make_target(&case_root, &f));
            }
            "O" => {
                let res: Option<bool> = match f[2] {
                    "outputs" => {
                        let t = targets.get(f[3]).unwrap();
                        guarded(std::panic::AssertUnwindSafe(|| {
                            async_std::task::block_on(crate::clean::clean_target_output_paths(t)).is_ok()
                        }))
                    }
                    "state" => {
                        let t = targets.get(f[3]).unwrap();
                        guarded(std::panic::AssertUnwindSafe(|| {
                            async_std::task::block_on(
                                crate::engine::incremental::storage::delete_saved_env_state(t.metadata()),
                            )
                            .is_ok()
                        }))
                    }
                    "workdir" => {
                        let d: async_std::path::PathBuf = real_path(&case_root, &unhex(f[3])).into();
                        guarded(std::panic::AssertUnwindSafe(|| {
                            async_std::task::block_on(crate::work_dir::remove_work_dir(&d)).is_ok()
                        }))
                    }
                    _ => Some(true),
                };
                let r = match res {
                    None => "P",
                    Some(true) => "ok",
                    Some(false) => "err",
                };
                println!("{}.{} {} {}", id, f[1], r, snap_line(&case_root));
            }
            "END" => {
                if !keep {
                    let _ = std::fs::remove_dir_all(pathbuf(&case_root));
                }
            }
            _ => println!("{} BADCASE", f.get(1).unwrap_or(&"?")),
        }
    }
    0
}
