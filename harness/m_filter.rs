// mode "filter": the three predicates the watcher callback combines (watcher.rs:82-108) and the
// extension normalisation of ir.rs, on arbitrary byte-string paths.
//   case line:  F <id> <hexpath> <exts>      exts = "-" (None) | hex,hex,...   (already normalised set)
//               X <id> <exts>                raw extension list through the real YAML->domain conversion is
//                                            exercised by mode "resolve"; here X checks matches on the raw set
//               G <id> <hexpath> <exts> <declared> <files>  is_other_file_in_file_dir (the conjunct added by the repair of D16)
//   result:     <id> tmp=<0|1|P> inwd=<0|1|P> ext=<0|1|P> relevant=<0|1|P>   |   <id> other=<0|1|P> relevant=<0|1|P>
use super::super::util::*;
use crate::domain;
use crate::engine::verif_access::verif_is_tmp_editor_file;
use crate::work_dir;
use std::collections::BTreeSet;

fn parse_exts(s: &str) -> domain::FileExtensions {
    if s == "-" {
        None
    } else {
        Some(
            s.split(',')
                .map(|h| String::from_utf8(unhex(h)).unwrap())
                .collect::<BTreeSet<_>>(),
        )
    }
}

fn tri(x: Option<bool>) -> &'static str {
    match x {
        None => "P",
        Some(true) => "1",
        Some(false) => "0",
    }
}

pub fn run(cases: &str) -> i32 {
    for line in read_lines(cases) {
        let f: Vec<&str> = line.split(' ').collect();
        match f[0] {
            "F" => {
                let id = f[1];
                let bytes = unhex(f[2]);
                let exts = parse_exts(f[3]);
                let p = pathbuf(&bytes);
                let p1 = p.clone();
                let tmp = guarded(move || {
                    let ap: &async_std::path::Path = p1.as_path().into();
                    verif_is_tmp_editor_file(ap)
                });
                let p2 = p.clone();
                let inwd = guarded(move || {
                    let ap: &async_std::path::Path = p2.as_path().into();
                    work_dir::is_in_work_dir(ap)
                });
                let p3 = p.clone();
                let e3 = exts.clone();
                let ext = guarded(move || domain::matches_extensions(&p3, &e3));
                // the conjunction exactly as the callback evaluates it (short-circuit, left to right)
                let p4 = p.clone();
                let e4 = exts.clone();
                let relevant = guarded(move || {
                    let ap: async_std::path::PathBuf = p4.clone().into();
                    !verif_is_tmp_editor_file(&ap)
                        && !work_dir::is_in_work_dir(&ap)
                        && domain::matches_extensions(ap.as_path().into(), &e4)
                });
                println!(
                    "{} tmp={} inwd={} ext={} relevant={}",
                    id,
                    tri(tmp),
                    tri(inwd),
                    tri(ext),
                    tri(relevant)
                );
            }
            "G" => {
                // G <id> <hexpath> <exts> <declared hex,hex,..|-> <files hex,hex,..|->  : watcher.rs is_other_file_in_file_dir
                // (repair D16) and the whole conjunction as the callback evaluates it now (short-circuit, left to right);
                // declared = every path of the watcher's group, files = those watched as files
                let id = f[1];
                let p = pathbuf(&unhex(f[2]));
                let exts = parse_exts(f[3]);
                let lst = |x: &str| -> Vec<async_std::path::PathBuf> {
                    if x == "-" {
                        vec![]
                    } else {
                        x.split(',').map(|h| pathbuf(&unhex(h)).into()).collect()
                    }
                };
                let declared = lst(f[4]);
                let files = lst(f[5]);
                let (p1, declared1, files1) = (p.clone(), declared.clone(), files.clone());
                let other = guarded(move || {
                    let ap: async_std::path::PathBuf = p1.clone().into();
                    crate::engine::verif_access::verif_is_other_file_in_file_dir(&ap, &declared1, &files1)
                });
                let relevant = guarded(move || {
                    let ap: async_std::path::PathBuf = p.clone().into();
                    !crate::engine::verif_access::verif_is_other_file_in_file_dir(&ap, &declared, &files)
                        && !verif_is_tmp_editor_file(&ap)
                        && !work_dir::is_in_work_dir(&ap)
                        && domain::matches_extensions(ap.as_path().into(), &exts)
                });
                println!("{} other={} relevant={}", id, tri(other), tri(relevant));
            }
            _ => println!("{} BADCASE", f.get(1).unwrap_or(&"?")),
        }
    }
    0
}
