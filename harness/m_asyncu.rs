// mode "asyncu": the real async_utils::all / both on futures that resolve to a given verdict after a given delay.
//   case line:  Y <id> <all|both> <verdict:delay_ms,...|->
//   result:     <id> <0|1>
use super::super::util::*;
use crate::async_utils::{all, both};
use async_std::task;
use std::time::Duration;

async fn fut(v: bool, ms: u64) -> bool {
    if ms > 0 {
        task::sleep(Duration::from_millis(ms)).await;
    }
    v
}

pub fn run(cases: &str) -> i32 {
    for line in read_lines(cases) {
        let f: Vec<&str> = line.split(' ').collect();
        let id = f[1];
        let items: Vec<(bool, u64)> = if f[3] == "-" {
            vec![]
        } else {
            f[3].split(',')
                .map(|it| {
                    let mut p = it.split(':');
                    (p.next().unwrap() == "1", p.next().unwrap().parse().unwrap())
                })
                .collect()
        };
        let which = f[2].to_string();
        let r = guarded(move || {
            task::block_on(async {
                if which == "both" && items.len() == 2 {
                    both(fut(items[0].0, items[0].1), fut(items[1].0, items[1].1)).await
                } else {
                    all(items.iter().map(|(v, ms)| fut(*v, *ms))).await
                }
            })
        });
        println!("{} {}", id, match r { Some(true) => "1", Some(false) => "0", None => "P" });
    }
    0
}
