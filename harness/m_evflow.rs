// mode "evflow": the REAL engine (engine::run, real target actors, real watchers, real /bin/sh scripts) on a generated graph,
// one-shot or WATCH mode, with (a) the harness interposed on the actors' output channel as in mode "flow" — every message logged
// in relay order — and (b) hooks H7 recording every event each real actor consumes (which `select!` arm fired, with the message
// or the build result).  In watch mode the harness edits the builds' declared input files in rounds (each build's script exits
// with the status written in its input file: an edit can break or repair a build), waits for the flow to go quiet, then sends
// the termination message.  The model side (runner/drv_evflow.ml) replays every actor on exactly the events it consumed and
// requires what it sent to be what the model actor sends; and checks that what each actor consumed from each sender is a
// prefix of what was relayed to it from that sender (per-sender FIFO — the delivery assumption of Sys.exec).
//   case line:  V <id> <watch 0|1> <roots n,n> <targets n:K:deps[:delay_ms];...> <initially failing n,n | -> <rounds r/r/..| -> [term_ms]
//               term_ms (optional, >= 0): the harness sends the termination message that many milliseconds after the start,
//               whatever is going on (cancellation of running builds)
//               round = edits n=status.n=status (status 0|1) ; '-' = none
//   result:     <id> status=<ok|err:n|-> consumed=<k> E=[n@ev;...] O=[dest<-msg;...]
//               consumed = how many of the logged outputs the root loop took (forwarded or handled) before `run` returned
use super::super::util::*;
use super::m_flow::{fmt_out, ids, tid};
use crate::domain::{
    AggregateTarget, BuildTarget, FilesResource, Resources, ServiceTarget, Target, TargetId, TargetMetadata,
};
use crate::engine::verif_access::TargetActorOutputMessage;
use crate::engine::{TargetActors, WatchOption};
use crate::TerminationMessage;
use async_std::channel;
use async_std::task;
use std::collections::HashMap;
use std::sync::{Arc, Mutex};
use std::time::{Duration, Instant};

fn write_input(dir: &std::path::Path, n: u64, status: u64, gen: u64) {
    // first byte = exit status of the script; the rest makes the content (hence the checksum) new at every edit
    let p = dir.join(format!("in_{}.txt", n));
    let tmp = dir.join(format!(".in_{}.tmp", n));
    std::fs::write(&tmp, format!("{} edit {}\n", status, gen)).unwrap();
    std::fs::rename(&tmp, &p).unwrap();
}

fn run_case(line: &str, scratch: &std::path::Path) -> String {
    let f: Vec<&str> = line.split(' ').collect();
    let id = f[1];
    let watch = f[2] == "1";
    let roots = ids(f[3], ',');
    let failing = ids(f[5], ',');
    let rounds: Vec<Vec<(u64, u64)>> = if f[6] == "-" {
        vec![]
    } else {
        f[6].split('/')
            .map(|r| {
                if r == "-" {
                    vec![]
                } else {
                    r.split('.')
                        .map(|e| {
                            let mut it = e.split('=');
                            (it.next().unwrap().parse().unwrap(), it.next().unwrap().parse().unwrap())
                        })
                        .collect()
                }
            })
            .collect()
    };
    let dir = scratch.join(format!("evflow_{}", id));
    let _ = std::fs::remove_dir_all(&dir);
    std::fs::create_dir_all(&dir).unwrap();
    let mut targets: HashMap<TargetId, Target> = HashMap::new();
    for spec in f[4].split(';') {
        let p: Vec<&str> = spec.split(':').collect();
        let n: u64 = p[0].parse().unwrap();
        let metadata = TargetMetadata {
            id: tid(n),
            project_dir: dir.clone().into(),
            dependencies: ids(p[2], '.').into_iter().map(tid).collect(),
        };
        let t = match p[1] {
            "B" => {
                let delay = p.get(3).and_then(|d| d.parse::<u64>().ok()).unwrap_or(0);
                write_input(&dir, n, if failing.contains(&n) { 1 } else { 0 }, 0);
                let mut input = Resources::new();
                input.files.push(FilesResource {
                    paths: vec![dir.join(format!("in_{}.txt", n)).into()],
                    extensions: None,
                });
                Target::Build(BuildTarget {
                    metadata,
                    build_script: format!(
                        "s=$(head -c1 in_{}.txt); sleep {}.{:03}; exit $s",
                        n,
                        delay / 1000,
                        delay % 1000
                    ),
                    input,
                    output: Resources::new(),
                })
            }
            "S" => Target::Service(ServiceTarget {
                metadata,
                run_script: "exec sleep 100000".to_string(),
                input: Resources::new(),
            }),
            _ => Target::Aggregate(AggregateTarget { metadata }),
        };
        targets.insert(tid(n), t);
    }
    let _ = crate::zinoma_verif::record_events(true);
    let res = task::block_on(async {
        let watch_option: WatchOption = watch.into();
        let (b_tx, b_rx) = channel::unbounded::<TargetActorOutputMessage>();
        let (a_tx, a_rx) = channel::unbounded::<TargetActorOutputMessage>();
        let (term_tx, term_rx) = channel::bounded::<TerminationMessage>(1);
        let b_probe = b_tx.clone();
        let target_actors = TargetActors::new(targets, b_tx, watch_option);
        let log: Arc<Mutex<Vec<String>>> = Arc::new(Mutex::new(Vec::new()));
        let log2 = log.clone();
        let a_tx2 = a_tx.clone();
        // how many outputs were passed on to `run` (the sends that did not fail because `run` had returned)
        let passed: Arc<Mutex<usize>> = Arc::new(Mutex::new(0));
        let passed2 = passed.clone();
        let relay = task::spawn(async move {
            while let Ok(o) = b_rx.recv().await {
                let mut l = log2.lock().unwrap();
                l.push(fmt_out(&o));
                if a_tx2.try_send(o).is_ok() {
                    *passed2.lock().unwrap() += 1;
                }
            }
        });
        let status: Arc<Mutex<Option<String>>> = Arc::new(Mutex::new(None));
        let status2 = status.clone();
        let root_ids: Vec<TargetId> = roots.iter().map(|n| tid(*n)).collect();
        let join = task::spawn(async move {
            let mut ta = target_actors;
            let r = crate::engine::run(root_ids, watch_option, &mut ta, term_rx, a_rx).await;
            let s = match r {
                Ok(()) => "ok".to_string(),
                Err(e) => {
                    let text = format!("{:#}", e);
                    match text.find("with target t") {
                        Some(i) => {
                            let rest = &text[i + "with target t".len()..];
                            let num: String = rest.chars().take_while(|c| c.is_ascii_digit()).collect();
                            format!("err:{}", num)
                        }
                        None => "err:?".to_string(),
                    }
                }
            };
            *status2.lock().unwrap() = Some(s);
            ta
        });
        // quiet = neither log has grown for `ms` milliseconds (or `run` has returned)
        let quiet = |ms: u64| {
            let log = log.clone();
            let status = status.clone();
            async move {
                let t0 = Instant::now();
                let mut last = (0usize, 0usize);
                let mut last_change = Instant::now();
                loop {
                    if status.lock().unwrap().is_some() {
                        return;
                    }
                    let now = (log.lock().unwrap().len(), crate::zinoma_verif::event_log_len());
                    if now != last {
                        last = now;
                        last_change = Instant::now();
                    }
                    if last_change.elapsed() > Duration::from_millis(ms) || t0.elapsed() > Duration::from_secs(30) {
                        return;
                    }
                    task::sleep(Duration::from_millis(2)).await;
                }
            }
        };
        let term_ms: Option<u64> = f.get(7).and_then(|x| x.parse().ok());
        if let Some(ms) = term_ms {
            task::sleep(Duration::from_millis(ms)).await;
        } else {
            quiet(400).await;
        }
        let mut gen = 0u64;
        if watch && term_ms.is_none() {
            for round in rounds.iter() {
                for (i, (n, st)) in round.iter().enumerate() {
                    gen += 1;
                    write_input(&dir, *n, *st, gen);
                    // staggered: a few milliseconds between the edits of one round
                    task::sleep(Duration::from_millis(((*n * 7 + i as u64 * 3) % 12) as u64)).await;
                }
                quiet(500).await;
            }
        }
        let mut st = status.lock().unwrap().clone();
        if st.is_none() {
            st = Some("-".to_string());
            let _ = term_tx.try_send(TerminationMessage);
        }
        let ta = async_std::future::timeout(Duration::from_secs(10), join).await;
        if let Ok(ta) = ta {
            let _ = async_std::future::timeout(Duration::from_secs(10), ta.terminate()).await;
        }
        // every actor has ended: wait until the relay has logged what they sent last
        let t1 = Instant::now();
        while !b_probe.is_empty() && t1.elapsed() < Duration::from_secs(5) {
            task::sleep(Duration::from_millis(1)).await;
        }
        task::sleep(Duration::from_millis(20)).await;
        drop(relay);
        let o = log.lock().unwrap().join(";");
        // passed on and not left in the (now closed) channel = taken by the root loop
        let consumed = passed.lock().unwrap().saturating_sub(a_tx.len());
        format!("status={}@consumed={}", st.unwrap(), consumed) + " O=[" + &o + "]"
    });
    let ev = crate::zinoma_verif::record_events(false);
    let _ = std::fs::remove_dir_all(&dir);
    let mut parts = res.splitn(2, ' ');
    let st = parts.next().unwrap_or("").replace('@', " ");
    let o = parts.next().unwrap_or("");
    format!("{} E=[{}] {}", st, ev.join(";"), o)
}

pub fn run(cases: &str) -> i32 {
    let scratch = std::path::PathBuf::from(
        std::env::var("ZINOMA_VERIF_SCRATCH").unwrap_or_else(|_| "/verif/.cache/scratch/evflow".to_string()),
    );
    std::fs::create_dir_all(&scratch).unwrap();
    for line in read_lines(cases) {
        let id = line.split(' ').nth(1).unwrap_or("?").to_string();
        let l = line.clone();
        let s = scratch.clone();
        let r = match std::panic::catch_unwind(move || run_case(&l, &s)) {
            Ok(s) => s,
            Err(_) => "HARNESS-PANIC".to_string(),
        };
        println!("{} {}", id, r);
    }
    0
}
