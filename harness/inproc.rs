// Verification harness compiled INTO zinoma under `--cfg zinoma_verif` (hook H1 in src/main.rs).
// `dispatch()` returns None unless ZINOMA_VERIF=<mode> is set, so a hooks-on binary still behaves as zinoma.
// Each mode reads a case file (ZINOMA_VERIF_CASES) and prints one canonical result line per case on stdout.
#![allow(dead_code, unused_imports, clippy::all)]

#[path = "/verif/harness/util.rs"]
pub mod util;
#[path = "/verif/harness/modes_gen.rs"]
mod modes_gen;

static BUILD_RESULTS_HANDLED: std::sync::atomic::AtomicUsize = std::sync::atomic::AtomicUsize::new(0);

/// hook H6 (build_target_actor.rs, end of the build-result arm): lets the actor harness wait, without sleeping,
/// until the actor has finished handling a build result that produces no output.
pub fn note_build_result_handled() {
    BUILD_RESULTS_HANDLED.fetch_add(1, std::sync::atomic::Ordering::SeqCst);
}

pub fn build_results_handled() -> usize {
    BUILD_RESULTS_HANDLED.load(std::sync::atomic::Ordering::SeqCst)
}

pub fn dispatch() -> Option<i32> {
    let mode = std::env::var("ZINOMA_VERIF").ok()?;
    let cases = std::env::var("ZINOMA_VERIF_CASES").unwrap_or_default();
    // Panics inside a case are caught per case by the modes; keep the default hook quiet.
    std::panic::set_hook(Box::new(|_| {}));
    let code = match modes_gen::dispatch_mode(mode.as_str(), &cases) {
        Some(code) => code,
        None => {
            eprintln!("unknown ZINOMA_VERIF mode {}", mode);
            2
        }
    };
    Some(code)
}
