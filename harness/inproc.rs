// Verification harness compiled INTO zinoma under `--cfg zinoma_verif` (hook H1 in src/main.rs).
// `dispatch()` returns None unless ZINOMA_VERIF=<mode> is set, so a hooks-on binary still behaves as zinoma.
// Each mode reads a case file (ZINOMA_VERIF_CASES) and prints one canonical result line per case on stdout.
#![allow(dead_code, unused_imports, clippy::all)]

#[path = "/verif/harness/util.rs"]
pub mod util;
#[path = "/verif/harness/modes_gen.rs"]
mod modes_gen;

static BUILD_RESULTS_HANDLED: std::sync::atomic::AtomicUsize = std::sync::atomic::AtomicUsize::new(0);

/// hook H6 (build_target_actor.rs, end of the build-result arm): lets the actor harness wait, without sleeping,
/// until the actor has finished handling a build result that produces no output.
pub fn note_build_result_handled() {
    BUILD_RESULTS_HANDLED.fetch_add(1, std::sync::atomic::Ordering::SeqCst);
}

pub fn build_results_handled() -> usize {
    BUILD_RESULTS_HANDLED.load(std::sync::atomic::Ordering::SeqCst)
}

/// hooks H7 (the three target actors, first line of every `select!` arm; after the loop for the arms that only `break`):
/// a global, ordered log of the events every real actor consumes — `<target>@T` termination, `<target>@I` change notice,
/// `<target>@<message>` input message, `<target>@D:<C|S|F|X>` build result.  Recording is off unless a mode switches it on.
static RECORD_EVENTS: std::sync::atomic::AtomicBool = std::sync::atomic::AtomicBool::new(false);
static EVENT_LOG: std::sync::Mutex<Vec<String>> = std::sync::Mutex::new(Vec::new());

pub fn record_events(on: bool) -> Vec<String> {
    RECORD_EVENTS.store(on, std::sync::atomic::Ordering::SeqCst);
    std::mem::take(&mut *EVENT_LOG.lock().unwrap())
}

pub fn event_log_len() -> usize {
    EVENT_LOG.lock().unwrap().len()
}

fn push_event(t: &crate::domain::TargetId, ev: String) {
    if RECORD_EVENTS.load(std::sync::atomic::Ordering::SeqCst) {
        EVENT_LOG
            .lock()
            .unwrap()
            .push(format!("{}@{}", t.target_name.trim_start_matches('t'), ev));
    }
}

pub fn note_actor_event(t: &crate::domain::TargetId, ev: &str) {
    push_event(t, ev.to_string());
}

pub fn note_actor_message(t: &crate::domain::TargetId, m: &crate::engine::verif_access::ActorInputMessage) {
    push_event(t, modes_gen::m_flow::fmt_msg(m));
}

pub fn note_actor_build_result(
    t: &crate::domain::TargetId,
    r: &anyhow::Result<crate::engine::incremental::IncrementalRunResult>,
) {
    use crate::engine::incremental::IncrementalRunResult::*;
    let c = match r {
        Err(_) => "F",
        Ok(Skipped) => "S",
        Ok(Completed) => "C",
        Ok(Cancelled) => "X",
    };
    push_event(t, format!("D:{}", c));
}

pub fn dispatch() -> Option<i32> {
    let mode = std::env::var("ZINOMA_VERIF").ok()?;
    let cases = std::env::var("ZINOMA_VERIF_CASES").unwrap_or_default();
    // Panics inside a case are caught per case by the modes; keep the default hook quiet.
    std::panic::set_hook(Box::new(|_| {}));
    let code = match modes_gen::dispatch_mode(mode.as_str(), &cases) {
        Some(code) => code,
        None => {
            eprintln!("unknown ZINOMA_VERIF mode {}", mode);
            2
        }
    };
    Some(code)
}
