// mode "incr": the REAL incremental::run on real scratch trees, driven by histories of file operations and invocations
// with a scripted build future. All state lives in the tree, so a history can be continued by another process
// (crash injection: ZINOMA_VERIF_CRASH makes this process die inside an invocation; the next segment looks at what is left).
//
//   ZINOMA_VERIF_SCRATCH = directory holding one sub-directory per history.
//   lines (paths are hex, relative to the history root, joined textually so that spellings like "./a//b" survive):
//     H <id> <new|keep>                                   start (wipe) / continue the history <id>
//     T <t> <hexproject|-> <hexname> <hexdir> <files> <cmds> <files> <cmds>     declare target t: input files/cmds, output files/cmds
//          files = - | res;res...   res = path,path...|ext,ext...   (exts "-" = none)      cmds = - | hexcmd@hexdir;...
//     W <path> <hexcontent>        write            G <path> <size> <seed>     generated content of `size` bytes
//     P <path> <hexcontent>        append           M <path> <secs> <nanos>    set the mtime (secs may be negative)
//     K <path> <hexcontent>        rewrite keeping the mtime                   D <path>   delete (file or tree)
//     R <from> <to>                rename           X <path>   mkdir -p        L <path> <hextarget>   symlink
//     I <t> <ok|fail|spawnfail|cancel> <effects>          invoke incremental::run; effects = - | op/arg/arg;... (the ops above, run by the "script")
//     Q <t>                                               observe only
//   output lines:  <id>.<n> pre  t=<t> w=<snapshot> states=<all state files>
//                  <id>.<n> mid  t=<t> w=<snapshot>                                   (printed by the script when it has run)
//                  <id>.<n> post t=<t> result=<Skipped|Completed|Cancelled|Err|PANIC> states=<all state files>
//                  <id>.<n> obs  t=<t> w=<snapshot> states=<...>                      (Q)
//   snapshot = in[<path>:<secs>.<nanos>|E:<hash>|E,...] out[...] cmds[<hexcmd>@<hexdir>=<hexstdout>|E,...]   (absolute paths)
use super::super::util::*;
use crate::domain::{CmdResource, FilesResource, Resources, TargetId, TargetMetadata};
use crate::engine::incremental::{self, IncrementalRunResult};
use crate::engine::verif_access::BuildTerminationReport;
use std::collections::{BTreeSet, HashMap};
use std::hash::Hasher;
use std::io::Write;
use std::os::unix::ffi::OsStrExt;
use std::path::{Path, PathBuf};
use std::time::{Duration, SystemTime, UNIX_EPOCH};

struct Decl {
    meta: TargetMetadata,
    input: Resources,
    output: Resources,
}

fn join_raw(root: &Path, rel: &[u8]) -> PathBuf {
    if rel.is_empty() {
        return root.to_path_buf();
    }
    let mut b = root.as_os_str().as_bytes().to_vec();
    b.push(b'/');
    b.extend_from_slice(rel);
    pathbuf(&b)
}

fn parse_files(root: &Path, s: &str) -> Vec<FilesResource> {
    if s == "-" {
        return vec![];
    }
    s.split(';')
        .map(|res| {
            let (ps, es) = res.split_once('|').unwrap();
            let paths = ps
                .split(',')
                .map(|h| join_raw(root, &unhex(h)).into())
                .collect();
            let extensions = if es == "-" {
                None
            } else {
                Some(
                    es.split(',')
                        .map(|h| String::from_utf8(unhex(h)).unwrap())
                        .collect::<BTreeSet<_>>(),
                )
            };
            FilesResource { paths, extensions }
        })
        .collect()
}

fn parse_cmds(root: &Path, s: &str) -> Vec<CmdResource> {
    if s == "-" {
        return vec![];
    }
    s.split(';')
        .map(|c| {
            let (cmd, dir) = c.split_once('@').unwrap();
            CmdResource {
                cmd: String::from_utf8(unhex(cmd)).unwrap(),
                dir: join_raw(root, &unhex(dir)).into(),
            }
        })
        .collect()
}

fn seahash_of(path: &Path) -> Option<u64> {
    let bytes = std::fs::read(path).ok()?;
    let mut h = seahash::SeaHasher::default();
    h.write(&bytes);
    Some(h.finish())
}

fn mtime_of(path: &Path) -> Option<Duration> {
    let m = std::fs::metadata(path).ok()?.modified().ok()?;
    m.duration_since(UNIX_EPOCH).ok()
}

fn observe_files(files: &[FilesResource]) -> String {
    let set = async_std::task::block_on(crate::fs::list_files_in_resources(files));
    let mut v: Vec<String> = set
        .into_iter()
        .map(|p| {
            let sp: &Path = p.as_path().into();
            let m = match mtime_of(sp) {
                Some(d) => format!("{:x}.{:x}", d.as_secs(), d.subsec_nanos()),
                None => "E".to_string(),
            };
            let h = match seahash_of(sp) {
                Some(h) => format!("{:x}", h),
                None => "E".to_string(),
            };
            format!("{}:{}:{}", hex(&path_bytes(sp)), m, h)
        })
        .collect();
    v.sort();
    v.join(",")
}

fn observe_cmds(cmds: &[CmdResource]) -> Vec<String> {
    cmds.iter()
        .map(|c| {
            let dir: &Path = c.dir.as_path().into();
            let out = std::process::Command::new("/bin/sh")
                .arg("-ce")
                .arg(&c.cmd)
                .current_dir(dir)
                .stdin(std::process::Stdio::null())
                .stderr(std::process::Stdio::null())
                .output();
            let o = match out {
                Ok(o) if o.status.success() => {
                    hex(String::from_utf8_lossy(&o.stdout).to_string().as_bytes())
                }
                _ => "E".to_string(),
            };
            format!("{}@{}={}", hex(c.cmd.as_bytes()), hex(&path_bytes(dir)), o)
        })
        .collect()
}

fn observe(d: &Decl) -> String {
    let mut cmds = observe_cmds(&d.input.cmds);
    cmds.extend(observe_cmds(&d.output.cmds));
    format!(
        "in[{}] out[{}] cmds[{}]",
        observe_files(&d.input.files),
        observe_files(&d.output.files),
        cmds.join(",")
    )
}

fn all_states(root: &Path) -> String {
    let mut v = vec![];
    for e in walkdir::WalkDir::new(root).into_iter().flatten() {
        let p = e.path();
        if p.is_file()
            && p.parent().and_then(|d| d.file_name()).map(|n| n == ".zinoma").unwrap_or(false)
        {
            let content = std::fs::read(p).unwrap_or_default();
            v.push(format!("{}={}", hex(&path_bytes(p)), hex(&content)));
        }
    }
    v.sort();
    if v.is_empty() {
        "-".to_string()
    } else {
        v.join(",")
    }
}

fn set_mtime(p: &Path, secs: i64, nanos: u32) {
    let t = if secs >= 0 {
        UNIX_EPOCH + Duration::new(secs as u64, nanos)
    } else {
        UNIX_EPOCH - Duration::new((-secs) as u64, 0) + Duration::new(0, nanos)
    };
    if let Ok(f) = std::fs::OpenOptions::new().write(true).open(p) {
        let _ = f.set_modified(t);
    }
}

fn gen_content(size: usize, seed: u64) -> Vec<u8> {
    let mut x = seed.wrapping_mul(6364136223846793005).wrapping_add(1442695040888963407);
    let mut v = Vec::with_capacity(size);
    for _ in 0..size {
        x = x.wrapping_mul(6364136223846793005).wrapping_add(1442695040888963407);
        v.push((x >> 33) as u8);
    }
    v
}

fn file_op(root: &Path, f: &[&str]) {
    let p = |i: usize| join_raw(root, &unhex(f[i]));
    let ensure_parent = |q: &Path| {
        if let Some(d) = q.parent() {
            let _ = std::fs::create_dir_all(d);
        }
    };
    match f[0] {
        "W" => {
            let q = p(1);
            ensure_parent(&q);
            let _ = std::fs::write(&q, unhex(f[2]));
        }
        "G" => {
            let q = p(1);
            ensure_parent(&q);
            let _ = std::fs::write(&q, gen_content(f[2].parse().unwrap(), f[3].parse().unwrap()));
        }
        "P" => {
            let q = p(1);
            ensure_parent(&q);
            if let Ok(mut fh) = std::fs::OpenOptions::new().append(true).create(true).open(&q) {
                let _ = fh.write_all(&unhex(f[2]));
            }
        }
        "M" => set_mtime(&p(1), f[2].parse().unwrap(), f[3].parse().unwrap()),
        "K" => {
            let q = p(1);
            let m = std::fs::metadata(&q).and_then(|m| m.modified()).ok();
            ensure_parent(&q);
            let _ = std::fs::write(&q, unhex(f[2]));
            if let Some(m) = m {
                if let Ok(fh) = std::fs::OpenOptions::new().write(true).open(&q) {
                    let _ = fh.set_modified(m);
                }
            }
        }
        "D" => {
            let q = p(1);
            if q.is_dir() && !q.is_symlink() {
                let _ = std::fs::remove_dir_all(&q);
            } else {
                let _ = std::fs::remove_file(&q);
            }
        }
        "R" => {
            let to = p(2);
            ensure_parent(&to);
            let _ = std::fs::rename(p(1), to);
        }
        "X" => {
            let _ = std::fs::create_dir_all(p(1));
        }
        "L" => {
            let q = p(1);
            ensure_parent(&q);
            let _ = std::os::unix::fs::symlink(pathbuf(&unhex(f[2])), &q);
        }
        _ => panic!("bad file op {:?}", f),
    }
}

pub fn run(cases: &str) -> i32 {
    let scratch = PathBuf::from(
        std::env::var("ZINOMA_VERIF_SCRATCH").unwrap_or_else(|_| "/tmp/zinoma_verif_incr".to_string()),
    );
    std::fs::create_dir_all(&scratch).unwrap();
    let scratch = scratch.canonicalize().unwrap();
    let mut root = scratch.clone();
    let mut hid = String::new();
    let mut n = 0usize;
    let mut decls: HashMap<String, Decl> = HashMap::new();
    for line in read_lines(cases) {
        let f: Vec<&str> = line.split(' ').collect();
        match f[0] {
            "H" => {
                hid = f[1].to_string();
                root = scratch.join(&hid);
                if f[2] == "new" {
                    let _ = std::fs::remove_dir_all(&root);
                    n = 0;
                } else {
                    n = f.get(3).map(|s| s.parse().unwrap()).unwrap_or(1000);
                }
                std::fs::create_dir_all(&root).unwrap();
                decls.clear();
            }
            "T" => {
                let project = if f[2] == "-" {
                    None
                } else {
                    Some(String::from_utf8(unhex(f[2])).unwrap())
                };
                let meta = TargetMetadata {
                    id: TargetId {
                        project_name: project,
                        target_name: String::from_utf8(unhex(f[3])).unwrap(),
                    },
                    project_dir: join_raw(&root, &unhex(f[4])).into(),
                    dependencies: vec![],
                };
                let d = Decl {
                    meta,
                    input: Resources {
                        files: parse_files(&root, f[5]),
                        cmds: parse_cmds(&root, f[6]),
                    },
                    output: Resources {
                        files: parse_files(&root, f[7]),
                        cmds: parse_cmds(&root, f[8]),
                    },
                };
                let pd: &Path = d.meta.project_dir.as_path().into();
                let _ = std::fs::create_dir_all(pd);
                decls.insert(f[1].to_string(), d);
            }
            "Q" => {
                let d = &decls[f[1]];
                println!("{}.{} obs t={} w={} states={}", hid, n, f[1], observe(d), all_states(&root));
                n += 1;
            }
            "I" => {
                let d = &decls[f[1]];
                println!("{}.{} pre t={} w={} states={}", hid, n, f[1], observe(d), all_states(&root));
                let outcome = f[2].to_string();
                let effects: Vec<Vec<String>> = if f[3] == "-" {
                    vec![]
                } else {
                    f[3].split(';')
                        .map(|e| e.split('/').map(|s| s.to_string()).collect())
                        .collect()
                };
                let tag = format!("{}.{}", hid, n);
                let tname = f[1].to_string();
                let r = {
                    let root2 = root.clone();
                    let fut = async {
                        for e in &effects {
                            let parts: Vec<&str> = e.iter().map(|s| s.as_str()).collect();
                            file_op(&root2, &parts);
                        }
                        println!("{} mid t={} w={}", tag, tname, observe(d));
                        match outcome.as_str() {
                            "ok" => Ok(BuildTerminationReport::Completed),
                            "cancel" => Ok(BuildTerminationReport::Cancelled),
                            "spawnfail" => Err(anyhow::anyhow!("Failed to spawn build command")),
                            _ => Err(anyhow::anyhow!("Build failed with exit status: 1")),
                        }
                    };
                    std::panic::catch_unwind(std::panic::AssertUnwindSafe(|| {
                        async_std::task::block_on(incremental::run(&d.meta, &d.input, Some(&d.output), fut))
                    }))
                };
                let res = match r {
                    Err(_) => "PANIC",
                    Ok(Err(_)) => "Err",
                    Ok(Ok(IncrementalRunResult::Skipped)) => "Skipped",
                    Ok(Ok(IncrementalRunResult::Completed)) => "Completed",
                    Ok(Ok(IncrementalRunResult::Cancelled)) => "Cancelled",
                };
                println!("{}.{} post t={} result={} states={}", hid, n, f[1], res, all_states(&root));
                n += 1;
            }
            "W" | "G" | "P" | "M" | "K" | "D" | "R" | "X" | "L" => file_op(&root, &f),
            _ => println!("{}.{} BADCASE {}", hid, n, line),
        }
    }
    0
}
