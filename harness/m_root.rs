// mode "root": drives the REAL root loop (`engine::run` = request_target + execute_once / watch) with a scripted sequence of
// actor outputs and termination events, and prints after each event whether `run` has returned and with what.
// The harness sits between the actors and the root: TargetActors is created with the sender of channel B (read by the
// harness), `run` reads channel A (written by the harness), so the root sees exactly the scripted inputs.  Every id of
// the case is a real aggregate target without dependencies (it answers a Requested at once); what those actors emit on
// B after a forwarded message shows that the root relays to the right actor.
//   case line:  R <id> <watch 0|1> <roots n,n,..> <pool n,n,..> <event>@<c|n><r|-><nout> ...
//   events:     Rt/<msg>     MessageActor{dest: Root, msg}
//               Fw/<x>/<msg> MessageActor{dest: Target(x), msg}
//               Er/<n>       TargetExecutionError(n, _)
//               TM           termination event
//   hints (from the model; they only decide how long to wait, never a verdict): c = the root consumes the input,
//               r = `run` returns after this event, nout = outputs expected on B.
//   result:     <id> init=[outs]|run=<-|ok|err:n> out=[sorted outs]|...
use super::super::util::*;
use crate::domain::{AggregateTarget, Target, TargetId, TargetMetadata};
use crate::engine::verif_access::{
    ActorId, ActorInputMessage, ExecutionKind, TargetActorOutputMessage,
};
use crate::engine::{TargetActors, WatchOption};
use crate::TerminationMessage;
use async_std::channel;
use async_std::task;
use std::collections::HashMap;
use std::sync::{Arc, Mutex};
use std::time::{Duration, Instant};

const WAIT: Duration = Duration::from_secs(5);

fn tid(n: u64) -> TargetId {
    TargetId {
        project_name: None,
        target_name: format!("t{}", n),
    }
}

fn tnum(t: &TargetId) -> String {
    t.target_name.trim_start_matches('t').to_string()
}

fn parse_kind(s: &str) -> ExecutionKind {
    if s == "B" {
        ExecutionKind::Build
    } else {
        ExecutionKind::Service
    }
}

fn parse_aid(s: &str) -> ActorId {
    if s == "R" {
        ActorId::Root
    } else {
        ActorId::Target(tid(s.parse().unwrap()))
    }
}

fn fmt_kind(k: &ExecutionKind) -> &'static str {
    match k {
        ExecutionKind::Build => "B",
        ExecutionKind::Service => "S",
    }
}

fn fmt_aid(a: &ActorId) -> String {
    match a {
        ActorId::Root => "R".to_string(),
        ActorId::Target(t) => tnum(t),
    }
}

fn fmt_msg(m: &ActorInputMessage) -> String {
    match m {
        ActorInputMessage::Requested { kind, requester } => {
            format!("Rq:{}:{}", fmt_kind(kind), fmt_aid(requester))
        }
        ActorInputMessage::Unrequested { kind, requester } => {
            format!("Un:{}:{}", fmt_kind(kind), fmt_aid(requester))
        }
        ActorInputMessage::Ok {
            kind,
            target_id,
            actual,
        } => format!("Ok:{}:{}:{}", fmt_kind(kind), tnum(target_id), b(*actual)),
        ActorInputMessage::Invalidated { kind, target_id } => {
            format!("Iv:{}:{}", fmt_kind(kind), tnum(target_id))
        }
    }
}

fn fmt_out(o: &TargetActorOutputMessage) -> String {
    match o {
        TargetActorOutputMessage::TargetExecutionError(t, _) => format!("ERR:{}", tnum(t)),
        TargetActorOutputMessage::MessageActor { dest, msg } => {
            format!("{}<-{}", fmt_aid(dest), fmt_msg(msg))
        }
    }
}

fn parse_msg(tok: &str) -> Option<ActorInputMessage> {
    let f: Vec<&str> = tok.split(':').collect();
    match f[0] {
        "Rq" => Some(ActorInputMessage::Requested {
            kind: parse_kind(f[1]),
            requester: parse_aid(f[2]),
        }),
        "Un" => Some(ActorInputMessage::Unrequested {
            kind: parse_kind(f[1]),
            requester: parse_aid(f[2]),
        }),
        "Ok" => Some(ActorInputMessage::Ok {
            kind: parse_kind(f[1]),
            target_id: tid(f[2].parse().unwrap()),
            actual: f[3] == "1",
        }),
        "Iv" => Some(ActorInputMessage::Invalidated {
            kind: parse_kind(f[1]),
            target_id: tid(f[2].parse().unwrap()),
        }),
        _ => None,
    }
}

fn ids(s: &str) -> Vec<u64> {
    if s == "-" {
        vec![]
    } else {
        s.split(',').map(|x| x.parse().unwrap()).collect()
    }
}

fn run_case(line: &str) -> String {
    let f: Vec<&str> = line.split(' ').collect();
    let watch = f[2] == "1";
    let roots = ids(f[3]);
    let pool = ids(f[4]);
    let events: Vec<&str> = f[5..].to_vec();
    let mut targets: HashMap<TargetId, Target> = HashMap::new();
    for n in pool.iter().chain(roots.iter()) {
        targets.insert(
            tid(*n),
            Target::Aggregate(AggregateTarget {
                metadata: TargetMetadata {
                    id: tid(*n),
                    project_dir: "/".into(),
                    dependencies: vec![],
                },
            }),
        );
    }
    let n_distinct_roots = {
        let mut r = roots.clone();
        r.sort_unstable();
        r.dedup();
        r.len()
    };
    task::block_on(async {
        let watch_option: WatchOption = watch.into();
        let (b_tx, b_rx) = channel::unbounded::<TargetActorOutputMessage>();
        let (a_tx, a_rx) = channel::unbounded::<TargetActorOutputMessage>();
        let (term_tx, term_rx) = channel::bounded::<TerminationMessage>(1);
        let target_actors = TargetActors::new(targets, b_tx, watch_option);
        let status: Arc<Mutex<Option<String>>> = Arc::new(Mutex::new(None));
        let status2 = status.clone();
        let root_ids: Vec<TargetId> = roots.iter().map(|n| tid(*n)).collect();
        let join = task::spawn(async move {
            let mut ta = target_actors;
            let r = crate::engine::run(root_ids, watch_option, &mut ta, term_rx, a_rx).await;
            let s = match r {
                Ok(()) => "ok".to_string(),
                Err(e) => {
                    let text = format!("{:#}", e);
                    match text.find("with target t") {
                        Some(i) => {
                            let rest = &text[i + "with target t".len()..];
                            let num: String = rest.chars().take_while(|c| c.is_ascii_digit()).collect();
                            format!("err:{}", num)
                        }
                        None => format!("err:?{}", text.replace(' ', "_")),
                    }
                }
            };
            *status2.lock().unwrap() = Some(s);
            ta
        });
        let get_status = || status.lock().unwrap().clone();
        let mut results: Vec<String> = Vec::new();
        // the requests `run` sends first: every distinct root answers both kinds at once
        let mut init: Vec<String> = Vec::new();
        while init.len() < 2 * n_distinct_roots {
            match async_std::future::timeout(WAIT, b_rx.recv()).await {
                Ok(Ok(o)) => init.push(fmt_out(&o)),
                _ => break,
            }
        }
        task::sleep(Duration::from_millis(3)).await;
        while let Ok(o) = b_rx.try_recv() {
            init.push(fmt_out(&o));
        }
        init.sort();
        results.push(format!("init=[{}]", init.join(",")));
        for ev in events {
            let (tok, hint) = ev.split_once('@').unwrap_or((ev, "n-0"));
            let hb = hint.as_bytes();
            let consumed = hb.first() == Some(&b'c');
            let returns = hb.get(1) == Some(&b'r');
            let nout: usize = hint.get(2..).and_then(|x| x.parse().ok()).unwrap_or(0);
            let mut notes: Vec<String> = Vec::new();
            if tok == "TM" {
                // a closed channel means `run` has returned and dropped its receiver: nothing to deliver to
                if let Err(channel::TrySendError::Full(_)) = term_tx.try_send(TerminationMessage) {
                    notes.push("TERM-CHANNEL-FULL".to_string());
                }
            } else if let Some(rest) = tok.strip_prefix("Rt/") {
                let msg = parse_msg(rest).unwrap();
                let _ = a_tx
                    .send(TargetActorOutputMessage::MessageActor {
                        dest: ActorId::Root,
                        msg,
                    })
                    .await;
            } else if let Some(rest) = tok.strip_prefix("Fw/") {
                let (x, m) = rest.split_once('/').unwrap();
                let msg = parse_msg(m).unwrap();
                let _ = a_tx
                    .send(TargetActorOutputMessage::MessageActor {
                        dest: ActorId::Target(tid(x.parse().unwrap())),
                        msg,
                    })
                    .await;
            } else if let Some(rest) = tok.strip_prefix("Er/") {
                let _ = a_tx
                    .send(TargetActorOutputMessage::TargetExecutionError(
                        tid(rest.parse().unwrap()),
                        anyhow::anyhow!("scripted failure"),
                    ))
                    .await;
            } else {
                notes.push(format!("BADEVENT:{}", tok));
            }
            // wait for what the model predicts (hints only), then observe
            if consumed && tok != "TM" {
                let t0 = Instant::now();
                while a_tx.len() > 0 && t0.elapsed() < WAIT {
                    task::sleep(Duration::from_millis(1)).await;
                }
            }
            let mut outs: Vec<String> = Vec::new();
            while outs.len() < nout {
                match async_std::future::timeout(WAIT, b_rx.recv()).await {
                    Ok(Ok(o)) => outs.push(fmt_out(&o)),
                    _ => break,
                }
            }
            if returns {
                let t0 = Instant::now();
                while get_status().is_none() && t0.elapsed() < WAIT {
                    task::sleep(Duration::from_millis(1)).await;
                }
            } else {
                task::sleep(Duration::from_millis(15)).await;
            }
            while let Ok(o) = b_rx.try_recv() {
                outs.push(fmt_out(&o));
            }
            outs.sort();
            let st = get_status().unwrap_or_else(|| "-".to_string());
            let mut r = format!("run={} out=[{}]", st, outs.join(","));
            if !notes.is_empty() {
                r.push(' ');
                r.push_str(&notes.join(" "));
            }
            results.push(r);
        }
        // a last look, long after the last event (catches a late return and late outputs)
        task::sleep(Duration::from_millis(30)).await;
        let mut late: Vec<String> = Vec::new();
        while let Ok(o) = b_rx.try_recv() {
            late.push(fmt_out(&o));
        }
        late.sort();
        results.push(format!(
            "final={} late=[{}]",
            get_status().unwrap_or_else(|| "-".to_string()),
            late.join(",")
        ));
        // clean-up (not part of any verdict)
        if get_status().is_none() {
            let _ = term_tx.try_send(TerminationMessage);
        }
        if let Ok(ta) = async_std::future::timeout(WAIT, join).await {
            let _ = async_std::future::timeout(WAIT, ta.terminate()).await;
        }
        results.join("|")
    })
}

pub fn run(cases: &str) -> i32 {
    for line in read_lines(cases) {
        let id = line.split(' ').nth(1).unwrap_or("?").to_string();
        let l = line.clone();
        let r = match std::panic::catch_unwind(move || run_case(&l)) {
            Ok(s) => s,
            Err(_) => "HARNESS-PANIC".to_string(),
        };
        println!("{} {}", id, r);
    }
    0
}
