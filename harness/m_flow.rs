// mode "flow": runs the REAL engine (engine::run + real target actors + real /bin/sh scripts) on a generated graph in
// one-shot mode, with the harness interposed on the actors' output channel: TargetActors gets the sender of a channel the
// harness reads; a relay task logs every output IN CHANNEL ORDER and passes it on to the channel `run` reads.  The log is
// the complete message flow of the run: who sent what to whom, in the order the root relays it (= the order in which it
// reaches the destination's inbox).  The model side (runner/drv_flow.ml) replays every actor on the messages it was sent.
//   case line:  W <id> <roots n,n,..> <targets n:K:deps[:delay_ms];...  K in B,S,G, deps '-' or n.n.n> <failing builds n,n | ->
//   result:     <id> status=<ok|err:n|-> consumed=<k> O=[dest<-msg;dest<-msg;ERR:n;...]
//   `consumed`: how many logged outputs the root had taken when `run` returned (later ones were never forwarded).
use super::super::util::*;
use crate::domain::{
    AggregateTarget, BuildTarget, Resources, ServiceTarget, Target, TargetId, TargetMetadata,
};
use crate::engine::verif_access::{ActorId, ActorInputMessage, ExecutionKind, TargetActorOutputMessage};
use crate::engine::{TargetActors, WatchOption};
use crate::TerminationMessage;
use async_std::channel;
use async_std::task;
use std::collections::HashMap;
use std::sync::{Arc, Mutex};
use std::time::{Duration, Instant};

pub fn tid(n: u64) -> TargetId {
    TargetId {
        project_name: None,
        target_name: format!("t{}", n),
    }
}

pub fn tnum(t: &TargetId) -> String {
    t.target_name.trim_start_matches('t').to_string()
}

pub fn fmt_kind(k: &ExecutionKind) -> &'static str {
    match k {
        ExecutionKind::Build => "B",
        ExecutionKind::Service => "S",
    }
}

pub fn fmt_aid(a: &ActorId) -> String {
    match a {
        ActorId::Root => "R".to_string(),
        ActorId::Target(t) => tnum(t),
    }
}

pub fn fmt_msg(m: &ActorInputMessage) -> String {
    match m {
        ActorInputMessage::Requested { kind, requester } => {
            format!("Rq:{}:{}", fmt_kind(kind), fmt_aid(requester))
        }
        ActorInputMessage::Unrequested { kind, requester } => {
            format!("Un:{}:{}", fmt_kind(kind), fmt_aid(requester))
        }
        ActorInputMessage::Ok {
            kind,
            target_id,
            actual,
        } => format!("Ok:{}:{}:{}", fmt_kind(kind), tnum(target_id), b(*actual)),
        ActorInputMessage::Invalidated { kind, target_id } => {
            format!("Iv:{}:{}", fmt_kind(kind), tnum(target_id))
        }
    }
}

pub fn fmt_out(o: &TargetActorOutputMessage) -> String {
    match o {
        TargetActorOutputMessage::TargetExecutionError(t, _) => format!("ERR:{}", tnum(t)),
        TargetActorOutputMessage::MessageActor { dest, msg } => {
            format!("{}<-{}", fmt_aid(dest), fmt_msg(msg))
        }
    }
}

pub fn ids(s: &str, sep: char) -> Vec<u64> {
    if s == "-" {
        vec![]
    } else {
        s.split(sep).map(|x| x.parse().unwrap()).collect()
    }
}

fn run_case(line: &str, scratch: &std::path::Path) -> String {
    let f: Vec<&str> = line.split(' ').collect();
    let id = f[1];
    let roots = ids(f[2], ',');
    let failing = ids(f[4], ',');
    let dir = scratch.join(format!("flow_{}", id));
    let _ = std::fs::remove_dir_all(&dir);
    std::fs::create_dir_all(&dir).unwrap();
    let mut targets: HashMap<TargetId, Target> = HashMap::new();
    let mut has_service = false;
    for spec in f[3].split(';') {
        let p: Vec<&str> = spec.split(':').collect();
        let n: u64 = p[0].parse().unwrap();
        let metadata = TargetMetadata {
            id: tid(n),
            project_dir: dir.clone().into(),
            dependencies: ids(p[2], '.').into_iter().map(tid).collect(),
        };
        let t = match p[1] {
            "B" => Target::Build(BuildTarget {
                metadata,
                build_script: {
                    // optional 4th field: how long the script takes, in milliseconds (varies the interleavings)
                    let delay = p.get(3).and_then(|d| d.parse::<u64>().ok()).unwrap_or(0);
                    let status = if failing.contains(&n) { 1 } else { 0 };
                    if delay > 0 {
                        format!("sleep {}.{:03}; exit {}", delay / 1000, delay % 1000, status)
                    } else {
                        format!("exit {}", status)
                    }
                },
                input: Resources::new(),
                output: Resources::new(),
            }),
            "S" => {
                has_service = true;
                Target::Service(ServiceTarget {
                    metadata,
                    run_script: "exec sleep 100000".to_string(),
                    input: Resources::new(),
                })
            }
            _ => Target::Aggregate(AggregateTarget { metadata }),
        };
        targets.insert(tid(n), t);
    }
    let _ = has_service;
    let res = task::block_on(async {
        let watch_option: WatchOption = false.into();
        let (b_tx, b_rx) = channel::unbounded::<TargetActorOutputMessage>();
        let (a_tx, a_rx) = channel::unbounded::<TargetActorOutputMessage>();
        let (term_tx, term_rx) = channel::bounded::<TerminationMessage>(1);
        let target_actors = TargetActors::new(targets, b_tx, watch_option);
        let log: Arc<Mutex<Vec<String>>> = Arc::new(Mutex::new(Vec::new()));
        let log2 = log.clone();
        let a_tx2 = a_tx.clone();
        // the relay: channel order is the order of this log
        let relay = task::spawn(async move {
            while let Ok(o) = b_rx.recv().await {
                // log and pass on atomically (the channel is unbounded: try_send never waits); when `run` has returned and
                // dropped its receiver the send fails and we keep logging what the actors still say
                let mut l = log2.lock().unwrap();
                l.push(fmt_out(&o));
                let _ = a_tx2.try_send(o);
            }
        });
        let status: Arc<Mutex<Option<(String, usize)>>> = Arc::new(Mutex::new(None));
        let status2 = status.clone();
        let log3 = log.clone();
        let a_tx3 = a_tx.clone();
        let root_ids: Vec<TargetId> = roots.iter().map(|n| tid(*n)).collect();
        let join = task::spawn(async move {
            let mut ta = target_actors;
            let r = crate::engine::run(root_ids, watch_option, &mut ta, term_rx, a_rx).await;
            // what the root took = what was logged and passed on, minus what is still queued for it
            let consumed = {
                let l = log3.lock().unwrap();
                l.len().saturating_sub(a_tx3.len())
            };
            let s = match r {
                Ok(()) => "ok".to_string(),
                Err(e) => {
                    let text = format!("{:#}", e);
                    match text.find("with target t") {
                        Some(i) => {
                            let rest = &text[i + "with target t".len()..];
                            let num: String = rest.chars().take_while(|c| c.is_ascii_digit()).collect();
                            format!("err:{}", num)
                        }
                        None => "err:?".to_string(),
                    }
                }
            };
            *status2.lock().unwrap() = Some((s, consumed));
            ta
        });
        // wait for the end of the run: `run` returned, or (a requested service keeps it alive) no output for a while
        let t0 = Instant::now();
        let mut last_len = 0usize;
        let mut last_change = Instant::now();
        let mut kept_alive = false;
        loop {
            if status.lock().unwrap().is_some() {
                break;
            }
            let n = log.lock().unwrap().len();
            if n != last_len {
                last_len = n;
                last_change = Instant::now();
            }
            if last_change.elapsed() > Duration::from_millis(1500) || t0.elapsed() > Duration::from_secs(30) {
                kept_alive = true;
                break;
            }
            task::sleep(Duration::from_millis(2)).await;
        }
        let mut st = status.lock().unwrap().clone();
        if kept_alive {
            // still inside `run` (kept alive by a service, or stuck): everything logged so far was consumed or is queued
            let consumed = {
                let l = log.lock().unwrap();
                l.len().saturating_sub(a_tx.len())
            };
            st = Some(("-".to_string(), consumed));
            let _ = term_tx.try_send(TerminationMessage);
        }
        let ta = async_std::future::timeout(Duration::from_secs(10), join).await;
        if let Ok(ta) = ta {
            let _ = async_std::future::timeout(Duration::from_secs(10), ta.terminate()).await;
        }
        task::sleep(Duration::from_millis(5)).await;
        drop(relay);
        let (s, consumed) = st.unwrap_or(("?".to_string(), 0));
        let o = log.lock().unwrap().join(";");
        format!("status={} consumed={} O=[{}]", s, consumed, o)
    });
    let _ = std::fs::remove_dir_all(&dir);
    res
}

pub fn run(cases: &str) -> i32 {
    let scratch = std::path::PathBuf::from(
        std::env::var("ZINOMA_VERIF_SCRATCH").unwrap_or_else(|_| "/verif/.cache/scratch/flow".to_string()),
    );
    std::fs::create_dir_all(&scratch).unwrap();
    for line in read_lines(cases) {
        let id = line.split(' ').nth(1).unwrap_or("?").to_string();
        let l = line.clone();
        let s = scratch.clone();
        let r = match std::panic::catch_unwind(move || run_case(&l, &s)) {
            Ok(s) => s,
            Err(_) => "HARNESS-PANIC".to_string(),
        };
        println!("{} {}", id, r);
    }
    0
}
