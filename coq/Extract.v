(* Extraction of the executable model for the correspondence runner.
   Directives used: ExtrOcamlBasic only (bool, option, unit, list, prod, sumbool, sumor). No Extract Constant. *)
Require Extraction.
Require Import ExtrOcamlBasic.
From Zinoma.Model Require Bytes Ext.
Extraction "model.ml"
  Bytes.file_name Bytes.components
  Ext.watch_filter Ext.tmp_editor_path Ext.in_work_dir Ext.matches_extensions Ext.transform_extensions.
