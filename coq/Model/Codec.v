(* The on-disk format of a target's recorded state (`<project>/.zinoma/<target>.checksums`).
   Sources: engine/incremental/mod.rs `TargetEnvState`, resources_state/{mod,fs,cmd_stdout}.rs `ResourcesState`,
            storage.rs (`bincode::serialize_into` a fresh file / `bincode::deserialize` of the bytes read),
            bincode 1.3.3 legacy configuration (fixed-width little-endian integers, u64 lengths, one tag byte for
            `Option`, no size limit, trailing bytes allowed), serde 1.0.193 impls for `Duration` (u64 secs + u32 nanos,
            carry of nanos >= 10^9 into secs, error when that overflows), `String`/`PathBuf` (length + bytes, must be
            UTF-8; a non-UTF-8 `PathBuf` fails to SERIALISE), `HashMap` (length + entries in any order; on decoding a
            repeated key keeps the first key and the last value), newtype structs (transparent), structs (fields in
            order, no framing).
   Bytes are `N`s (< 256 by convention). Executable definitions only; proofs are in Proofs/Codec*.v.

   Layout:  TargetEnvState  = ResourcesState  Option<ResourcesState>
            ResourcesState  = Map<PathBuf,(Duration,u64)>  Map<(String,PathBuf),String>
   (the command map is keyed by (command text, directory) — repair FX3; the pinned code keyed it by the text only, that
   variant is `Incremental.eq_cmds_by_text`.) *)
From Zinoma.Model Require Export Bytes.

(* ------------------------------------------------------------------------------------------------ values *)
Record duration := { d_secs : N; d_nanos : N }.

Definition fentry := (bytes * (duration * N))%type.        (* path |-> (mtime since the epoch, SeaHash of the content) *)
Definition centry := ((bytes * bytes) * bytes)%type.       (* (command text, directory) |-> stdout *)

Record res_state := { rs_fs : list fentry; rs_cmd : list centry }.          (* ResourcesState *)
Record env_state := { es_input : res_state; es_output : option res_state }.     (* TargetEnvState *)

(* ------------------------------------------------------------------------------------------------ keys
   `PathBuf` keys are compared (Eq/Hash) by their components, not by their bytes: "/p/./a//b/" == "/p/a/b".
   Faithful for absolute paths (every path zinoma records is absolute); for relative paths Rust additionally
   distinguishes a leading "." component, which `components` drops. *)
Fixpoint lbeq (a b : list bytes) : bool :=
  match a, b with
  | [], [] => true
  | x :: a', y :: b' => beq x y && lbeq a' b'
  | _, _ => false
  end.

Definition is_abs (p : bytes) : bool := starts_with p [slash].

Definition path_eqb (a b : bytes) : bool := Bool.eqb (is_abs a) (is_abs b) && lbeq (components a) (components b).

Definition ckey_eqb (a b : bytes * bytes) : bool := beq (fst a) (fst b) && path_eqb (snd a) (snd b).

(* association lists standing for HashMaps; `keq` is the key equality of the map *)
Section AMap.
  Context {K V : Type} (keq : K -> K -> bool).

  Fixpoint alookup (k : K) (m : list (K * V)) : option V :=
    match m with
    | [] => None
    | (k', v) :: r => if keq k k' then Some v else alookup k r
    end.

  (* HashMap::insert: an equal key keeps the OLD key and takes the new value *)
  Fixpoint ainsert (k : K) (v : V) (m : list (K * V)) : list (K * V) :=
    match m with
    | [] => [(k, v)]
    | (k', v') :: r => if keq k k' then (k', v) :: r else (k', v') :: ainsert k v r
    end.

  (* collecting a sequence of entries into a map (decoding, `into_iter().collect()`) *)
  Definition amap_of (l : list (K * V)) : list (K * V) :=
    fold_left (fun m kv => ainsert (fst kv) (snd kv) m) l [].
End AMap.

Definition canon_rstate (r : res_state) : res_state :=
  {| rs_fs := amap_of path_eqb (rs_fs r); rs_cmd := amap_of ckey_eqb (rs_cmd r) |}.

Definition canon_env (e : env_state) : env_state :=
  {| es_input := canon_rstate (es_input e); es_output := option_map canon_rstate (es_output e) |}.

(* ------------------------------------------------------------------------------------------------ integers *)
Fixpoint le_bytes (n : nat) (x : N) : bytes :=
  match n with
  | O => []
  | S n' => (x mod 256) :: le_bytes n' (x / 256)
  end.

Fixpoint le_value (bs : bytes) : N :=
  match bs with
  | [] => 0
  | b :: r => b + 256 * le_value r
  end.

Definition two64 : N := 18446744073709551616.
Definition nanos_per_sec : N := 1000000000.

(* ------------------------------------------------------------------------------------------------ UTF-8
   std::str::from_utf8 (strict: no overlong forms, no surrogates, nothing above U+10FFFF).
   `pending` = the ranges the next continuation bytes must fall in. *)
Definition in_range (lo hi b : N) : bool := (lo <=? b) && (b <=? hi).
Definition cont_range : N * N := (128, 191).

Definition utf8_lead (b : N) : option (list (N * N)) :=
  if b <? 128 then Some []
  else if in_range 194 223 b then Some [cont_range]
  else if b =? 224 then Some [(160, 191); cont_range]
  else if in_range 225 236 b then Some [cont_range; cont_range]
  else if b =? 237 then Some [(128, 159); cont_range]
  else if in_range 238 239 b then Some [cont_range; cont_range]
  else if b =? 240 then Some [(144, 191); cont_range; cont_range]
  else if in_range 241 243 b then Some [cont_range; cont_range; cont_range]
  else if b =? 244 then Some [(128, 143); cont_range; cont_range]
  else None.

Fixpoint utf8_from (pending : list (N * N)) (bs : bytes) : bool :=
  match bs with
  | [] => is_nil pending
  | b :: r =>
      match pending with
      | (lo, hi) :: ps => in_range lo hi b && utf8_from ps r
      | [] => match utf8_lead b with
              | Some ps => utf8_from ps r
              | None => false
              end
      end
  end.

Definition utf8_ok (s : bytes) : bool := utf8_from [] s.

(* ------------------------------------------------------------------------------------------------ encoder
   `enc_*` is total (it does not look at UTF-8 validity); `wr_*` below is what `serialize_into` leaves in the file. *)
Definition enc_u64 (x : N) : bytes := le_bytes 8 x.
Definition enc_u32 (x : N) : bytes := le_bytes 4 x.
Definition enc_len {A} (l : list A) : bytes := enc_u64 (N.of_nat (length l)).
Definition enc_str (s : bytes) : bytes := enc_len s ++ s.
Definition enc_duration (d : duration) : bytes := enc_u64 (d_secs d) ++ enc_u32 (d_nanos d).
Definition enc_fentry (e : fentry) : bytes :=
  enc_str (fst e) ++ enc_duration (fst (snd e)) ++ enc_u64 (snd (snd e)).
Definition enc_centry (e : centry) : bytes :=
  enc_str (fst (fst e)) ++ enc_str (snd (fst e)) ++ enc_str (snd e).
Definition enc_seq {A} (f : A -> bytes) (l : list A) : bytes := enc_len l ++ concat (map f l).
Definition enc_rstate (r : res_state) : bytes := enc_seq enc_fentry (rs_fs r) ++ enc_seq enc_centry (rs_cmd r).
Definition enc_opt {A} (f : A -> bytes) (o : option A) : bytes :=
  match o with
  | None => [0]
  | Some a => 1 :: f a
  end.
Definition enc_env (e : env_state) : bytes := enc_rstate (es_input e) ++ enc_opt enc_rstate (es_output e).

(* what a write leaves behind: (bytes emitted, completed?). serde serialises a `Path` through `to_str`, so the first
   non-UTF-8 path aborts the serialisation AFTER everything before it has been written to the file. *)
Definition writer := (bytes * bool)%type.
Definition wr_ok (b : bytes) : writer := (b, true).
Definition wr_then (a : writer) (b : writer) : writer :=
  if snd a then (fst a ++ fst b, snd b) else a.
Definition wr_path (p : bytes) : writer := if utf8_ok p then (enc_str p, true) else ([], false).
Fixpoint wr_all {A} (f : A -> writer) (l : list A) : writer :=
  match l with
  | [] => wr_ok []
  | a :: r => wr_then (f a) (wr_all f r)
  end.
Definition wr_fentry (e : fentry) : writer :=
  wr_then (wr_path (fst e)) (wr_ok (enc_duration (fst (snd e)) ++ enc_u64 (snd (snd e)))).
Definition wr_centry (e : centry) : writer :=
  wr_then (wr_ok (enc_str (fst (fst e)))) (wr_then (wr_path (snd (fst e))) (wr_ok (enc_str (snd e)))).
Definition wr_seq {A} (f : A -> writer) (l : list A) : writer := wr_then (wr_ok (enc_len l)) (wr_all f l).
Definition wr_rstate (r : res_state) : writer := wr_then (wr_seq wr_fentry (rs_fs r)) (wr_seq wr_centry (rs_cmd r)).
Definition wr_env (e : env_state) : writer :=
  wr_then (wr_rstate (es_input e))
          (match es_output e with
           | None => wr_ok [0]
           | Some r => wr_then (wr_ok [1]) (wr_rstate r)
           end).

(* ------------------------------------------------------------------------------------------------ decoder
   A decoder consumes a prefix of its input and returns the rest (`deserialize` ignores trailing bytes). It is total:
   a length field larger than the remaining input is an error (bincode's slice reader; repair FX5 — the pinned code
   read from the file and allocated the length first, see DESIGN.md §7 D8). *)
Definition decoder (A : Type) := bytes -> option (A * bytes).

Definition dret {A} (a : A) : decoder A := fun bs => Some (a, bs).
Definition dfail {A} : decoder A := fun _ => None.
Definition dbind {A B} (d : decoder A) (f : A -> decoder B) : decoder B :=
  fun bs => match d bs with
            | Some (a, r) => f a r
            | None => None
            end.

Fixpoint take_n (n : nat) (bs : bytes) : option (bytes * bytes) :=
  match n with
  | O => Some ([], bs)
  | S n' => match bs with
            | [] => None
            | b :: r => match take_n n' r with
                        | Some (h, t) => Some (b :: h, t)
                        | None => None
                        end
            end
  end.

(* exactly n bytes, n a decoded length: compared with the remaining input BEFORE anything is taken *)
Definition take_N (n : N) : decoder bytes :=
  fun bs => if n <=? N.of_nat (length bs) then take_n (N.to_nat n) bs else None.

Definition dec_fixed (n : nat) : decoder N :=
  fun bs => match take_n n bs with
            | Some (h, t) => Some (le_value h, t)
            | None => None
            end.
Definition dec_u64 : decoder N := dec_fixed 8.
Definition dec_u32 : decoder N := dec_fixed 4.
Definition dec_u8 : decoder N := dec_fixed 1.

Definition dec_str : decoder bytes :=
  dbind dec_u64 (fun n => dbind (take_N n) (fun s => if utf8_ok s then dret s else dfail)).

Definition dec_duration : decoder duration :=
  dbind dec_u64 (fun secs => dbind dec_u32 (fun nanos =>
    let secs' := secs + nanos / nanos_per_sec in
    if secs' <? two64 then dret {| d_secs := secs'; d_nanos := nanos mod nanos_per_sec |} else dfail)).

Definition dec_fentry : decoder fentry :=
  dbind dec_str (fun p => dbind dec_duration (fun d => dbind dec_u64 (fun h => dret (p, (d, h))))).

Definition dec_centry : decoder centry :=
  dbind dec_str (fun c => dbind dec_str (fun dir => dbind dec_str (fun out => dret ((c, dir), out)))).

(* n elements. The element count comes from the file and may be huge, so the recursion is on fuel; every element
   consumes at least one byte, so `length input` is enough fuel (Proofs/Codec.v: dec_elems_fuel). *)
Fixpoint dec_elems {A} (d : decoder A) (fuel : nat) (n : N) (bs : bytes) : option (list A * bytes) :=
  if n =? 0 then Some ([], bs)
  else match fuel with
       | O => None
       | S f => match d bs with
                | None => None
                | Some (a, r) => match dec_elems d f (n - 1) r with
                                 | Some (l, r') => Some (a :: l, r')
                                 | None => None
                                 end
                end
       end.

Definition dec_seq {A} (d : decoder A) : decoder (list A) :=
  dbind dec_u64 (fun n bs => dec_elems d (length bs) n bs).

Definition dec_rstate : decoder res_state :=
  dbind (dec_seq dec_fentry) (fun fs => dbind (dec_seq dec_centry) (fun cs => dret {| rs_fs := fs; rs_cmd := cs |})).

Definition dec_opt {A} (d : decoder A) : decoder (option A) :=
  dbind dec_u8 (fun tag =>
    if tag =? 0 then dret None
    else if tag =? 1 then dbind d (fun a => dret (Some a))
    else dfail).

(* the entries as they stand in the file *)
Definition dec_env_raw : decoder env_state :=
  dbind dec_rstate (fun i => dbind (dec_opt dec_rstate) (fun o => dret {| es_input := i; es_output := o |})).

(* the value `bincode::deserialize` returns: entries collected into maps *)
Definition dec_env : decoder env_state :=
  fun bs => match dec_env_raw bs with
            | Some (e, r) => Some (canon_env e, r)
            | None => None
            end.

(* the pinned format (command map keyed by the text only), kept for the history of FX3: old files are foreign to the
   repaired decoder *)
Definition enc_centry_text (e : bytes * bytes) : bytes := enc_str (fst e) ++ enc_str (snd e).
