(* Configuration loading and validation (property C14).
   Sources: config/yaml/schema.rs (serde derive: `deny_unknown_fields`, `untagged`, `default`),
            config/yaml/mod.rs (`Config::load`, `add_project`, `load_project`, name checks),
            config/ir.rs:1-48 (`ir::Config::from`, keyed by project NAME), main.rs (what can fail before the first effect).
   Executable definitions only; proofs are in Proofs/Config*.v.

   The model starts from the YAML *value* a document denotes (`yv`); the text -> value parser (serde_yaml 0.8.26 over
   yaml-rust) is trusted and differentially tested (DESIGN.md §3). What serde does with a value was read from the
   sources of serde 1.0.193 / serde_yaml 0.8.26 and probed on the real loader (props/C14.py replays the probes):
   - the `Project` struct is deserialised directly from the event stream: a key is ANY scalar, read by its source text
     (`5:` is the unknown field "5"); `name` is an `Option<String>`: a plain `~`/`null`/empty scalar is None, every other
     scalar is its source text (`name: 5` is the project "5"); map keys of `targets` / `imports` and import values are
     scalars read by their source text (`007`, `yes`, `~`, `true` stay as written); the struct is ALSO accepted as a
     sequence `[targets, name, imports]` with missing trailing elements defaulted (serde's `visit_seq`);
   - a `Target` is `untagged`: the value is first buffered (`Content`), scalars typed by the YAML core schema, then the
     variants Build, Service, Aggregate are tried in this order and the first that deserialises wins. Inside the buffer
     a String must be a string-typed scalar (`build: 5`, `build: ~`, `build: true` are rejected); a field key is a string
     naming a field OR an unsigned integer used as the field's index (`{1: x}` is `{build: x}`: serde's generated
     `visit_u64`); any other key, an unknown name, an index out of range or a field given twice rejects the variant;
     sequences are not accepted for these struct variants; `extensions` is an `Option`: absent or null is None;
   - a HashMap built from a mapping with a repeated key keeps the LAST value (every value is still deserialised). *)
From Zinoma.Model Require Export Bytes Cfg Names.

(* ---- YAML values as serde sees them ---- *)
Inductive yv :=
| YStr (s : bytes)                 (* scalar typed as a string (quoted, or plain and not null/bool/number) *)
| YNull (src : bytes)              (* plain `~` / `null` / empty (the parser reports the empty scalar as `~`) *)
| YBool (b : bool)                 (* plain `true` / `false` *)
| YNat (n : N) (src : bytes)       (* plain scalar typed as an unsigned 64-bit integer; src = its source text *)
| YOther (src : bytes)             (* any other plain non-string scalar: negative integer, float, 128-bit integer *)
| YSeq (l : list yv)
| YMap (l : list (yv * yv)).

Definition k_targets : bytes := [116; 97; 114; 103; 101; 116; 115].
Definition k_name : bytes := [110; 97; 109; 101].
Definition k_imports : bytes := [105; 109; 112; 111; 114; 116; 115].
Definition k_dependencies : bytes := [100; 101; 112; 101; 110; 100; 101; 110; 99; 105; 101; 115].
Definition k_build : bytes := [98; 117; 105; 108; 100].
Definition k_service : bytes := [115; 101; 114; 118; 105; 99; 101].
Definition k_input : bytes := [105; 110; 112; 117; 116].
Definition k_output : bytes := [111; 117; 116; 112; 117; 116].
Definition k_paths : bytes := [112; 97; 116; 104; 115].
Definition k_extensions : bytes := [101; 120; 116; 101; 110; 115; 105; 111; 110; 115].
Definition k_cmd_stdout : bytes := [99; 109; 100; 95; 115; 116; 100; 111; 117; 116].
Definition k_true : bytes := [116; 114; 117; 101].
Definition k_false : bytes := [102; 97; 108; 115; 101].

Definition project_fields : list bytes := [k_targets; k_name; k_imports].
Definition build_fields : list bytes := [k_dependencies; k_build; k_input; k_output].
Definition service_fields : list bytes := [k_dependencies; k_service; k_input].
Definition aggregate_fields : list bytes := [k_dependencies].
Definition files_fields : list bytes := [k_paths; k_extensions].
Definition cmd_fields : list bytes := [k_cmd_stdout].

(* ---- small list helpers ---- *)
Fixpoint all_some {A : Type} (l : list (option A)) : option (list A) :=
  match l with
  | [] => Some []
  | None :: _ => None
  | Some x :: r => match all_some r with Some r' => Some (x :: r') | None => None end
  end.

Fixpoint index_of (s : bytes) (l : list bytes) : option nat :=
  match l with
  | [] => None
  | x :: r => if beq s x then Some O else match index_of s r with Some i => Some (S i) | None => None end
  end.

Fixpoint set_nth {A : Type} (i : nat) (x : A) (l : list A) : list A :=
  match l, i with
  | [], _ => []
  | _ :: r, O => x :: r
  | y :: r, S j => y :: set_nth j x r
  end.

(* HashMap::insert on an association list with distinct keys: replace in place, else append *)
Fixpoint hm_insert {V : Type} (k : bytes) (v : V) (l : list (bytes * V)) : list (bytes * V) :=
  match l with
  | [] => [(k, v)]
  | (k', v') :: r => if beq k k' then (k', v) :: r else (k', v') :: hm_insert k v r
  end.

(* collecting entries in document order *)
Definition hm_of_list {V : Type} (es : list (bytes * V)) : list (bytes * V) :=
  fold_left (fun acc e => hm_insert (fst e) (snd e) acc) es [].

(* ---- scalars in the two deserialisation contexts ---- *)
(* direct (event stream): deserialize_str hands over the source text of any scalar *)
Definition scalar_text (v : yv) : option bytes :=
  match v with
  | YStr s => Some s
  | YNull src => Some src
  | YBool b => Some (if b then k_true else k_false)
  | YNat _ src => Some src
  | YOther src => Some src
  | YSeq _ | YMap _ => None
  end.

(* direct Option<String> *)
Definition d_opt_string (v : yv) : option (option bytes) :=
  match v with
  | YNull _ => Some None
  | _ => match scalar_text v with Some s => Some (Some s) | None => None end
  end.

(* buffered (Content): a String needs a string-typed scalar *)
Definition c_string (v : yv) : option bytes :=
  match v with YStr s => Some s | _ => None end.

Definition c_str_list (v : yv) : option (list bytes) :=
  match v with YSeq l => all_some (map c_string l) | _ => None end.

Definition c_opt_str_list (v : yv) : option (option (list bytes)) :=
  match v with
  | YNull _ => Some None
  | _ => match c_str_list v with Some l => Some (Some l) | None => None end
  end.

(* ---- structs read from a mapping ---- *)
(* which field a key denotes: buffered context (name or index) / direct context (name, by source text) *)
Definition c_field (fields : list bytes) (k : yv) : option nat :=
  match k with
  | YStr s => index_of s fields
  | YNat n _ => if N.ltb n (N.of_nat (length fields)) then Some (N.to_nat n) else None
  | _ => None
  end.

Definition d_field (fields : list bytes) (k : yv) : option nat :=
  match scalar_text k with
  | Some s => index_of s fields
  | None => None
  end.

(* one slot_at per field; unknown key or a field given twice -> None *)
Fixpoint fill_slots (kf : yv -> option nat) (m : list (yv * yv)) (acc : list (option yv))
  : option (list (option yv)) :=
  match m with
  | [] => Some acc
  | (k, v) :: m' =>
      match kf k with
      | None => None
      | Some i =>
          match nth i acc None with
          | Some _ => None
          | None => fill_slots kf m' (set_nth i (Some v) acc)
          end
      end
  end.

Definition c_struct (fields : list bytes) (v : yv) : option (list (option yv)) :=
  match v with
  | YMap m => fill_slots (c_field fields) m (repeat None (length fields))
  | _ => None
  end.

Definition slot_at (slots : list (option yv)) (i : nat) : option yv := nth i slots None.

(* a `#[serde(default)]` field *)
Definition dflt_field {A : Type} (f : yv -> option A) (dflt : A) (o : option yv) : option A :=
  match o with None => Some dflt | Some v => f v end.

(* a req_field field *)
Definition req_field {A : Type} (f : yv -> option A) (o : option yv) : option A :=
  match o with None => None | Some v => f v end.

(* ---- resources ---- *)
Definition accept_files (v : yv) : option (list bytes * option (list bytes)) :=
  match c_struct files_fields v with
  | None => None
  | Some sl =>
      match req_field c_str_list (slot_at sl 0), dflt_field c_opt_str_list None (slot_at sl 1) with
      | Some p, Some e => Some (p, e)
      | _, _ => None
      end
  end.

Definition accept_cmd (v : yv) : option bytes :=
  match c_struct cmd_fields v with
  | None => None
  | Some sl => req_field c_string (slot_at sl 0)
  end.

(* untagged InputResource: DependencyOutput(String), Files{..}, CmdStdout{..} in this order *)
Definition accept_input (v : yv) : option yinput :=
  match c_string v with
  | Some s => Some (YIDepOutput s)
  | None =>
      match accept_files v with
      | Some (p, e) => Some (YIFiles p e)
      | None => match accept_cmd v with Some c => Some (YICmd c) | None => None end
      end
  end.

(* untagged OutputResource: Files{..}, CmdStdout{..} *)
Definition accept_output (v : yv) : option youtput :=
  match accept_files v with
  | Some (p, e) => Some (YOFiles p e)
  | None => match accept_cmd v with Some c => Some (YOCmd c) | None => None end
  end.

Definition c_inputs (v : yv) : option (list yinput) :=
  match v with YSeq l => all_some (map accept_input l) | _ => None end.

Definition c_outputs (v : yv) : option (list youtput) :=
  match v with YSeq l => all_some (map accept_output l) | _ => None end.

(* ---- targets: untagged Build, Service, Aggregate ---- *)
Definition accept_build (v : yv) : option ytarget :=
  match c_struct build_fields v with
  | None => None
  | Some sl =>
      match dflt_field c_str_list [] (slot_at sl 0), req_field c_string (slot_at sl 1),
            dflt_field c_inputs [] (slot_at sl 2), dflt_field c_outputs [] (slot_at sl 3) with
      | Some d, Some b, Some i, Some o => Some (YBuild d b i o)
      | _, _, _, _ => None
      end
  end.

Definition accept_service (v : yv) : option ytarget :=
  match c_struct service_fields v with
  | None => None
  | Some sl =>
      match dflt_field c_str_list [] (slot_at sl 0), req_field c_string (slot_at sl 1),
            dflt_field c_inputs [] (slot_at sl 2) with
      | Some d, Some s, Some i => Some (YService d s i)
      | _, _, _ => None
      end
  end.

Definition accept_aggregate (v : yv) : option ytarget :=
  match c_struct aggregate_fields v with
  | None => None
  | Some sl =>
      match req_field c_str_list (slot_at sl 0) with
      | Some d => Some (YAggregate d)
      | None => None
      end
  end.

Definition accept_target (v : yv) : option ytarget :=
  match accept_build v with
  | Some t => Some t
  | None => match accept_service v with
            | Some t => Some t
            | None => accept_aggregate v
            end
  end.

(* ---- the project ---- *)
(* one entry of a HashMap<String, _> read from the event stream *)
Definition d_entry {V : Type} (f : yv -> option V) (kv : yv * yv) : option (bytes * V) :=
  match scalar_text (fst kv), f (snd kv) with
  | Some k, Some v => Some (k, v)
  | _, _ => None
  end.

Definition d_map {V : Type} (f : yv -> option V) (v : yv) : option (list (bytes * V)) :=
  match v with
  | YMap m => match all_some (map (d_entry f) m) with
              | Some es => Some (hm_of_list es)
              | None => None
              end
  | _ => None
  end.

Definition project_slots (v : yv) : option (list (option yv)) :=
  match v with
  | YMap m => fill_slots (d_field project_fields) m (repeat None 3)
  | YSeq l => if Nat.leb (length l) 3 then Some (map Some l ++ repeat None (3 - length l)) else None
  | _ => None
  end.

Definition accept_project (v : yv) : option yproject :=
  match project_slots v with
  | None => None
  | Some sl =>
      match dflt_field (d_map accept_target) [] (slot_at sl 0),
            dflt_field d_opt_string None (slot_at sl 1),
            dflt_field (d_map scalar_text) [] (slot_at sl 2) with
      | Some t, Some n, Some i => Some {| yp_name := n; yp_imports := i; yp_targets := t |}
      | _, _, _ => None
      end
  end.

(* ---- Config::load ---- *)
Inductive lerr :=
| LE_NoConfigFile            (* "Failed to open config file .." *)
| LE_InvalidFormat           (* "Invalid format for .." (YAML syntax or schema) *)
| LE_InvalidProjectName      (* ".. is not a valid project name" *)
| LE_InvalidTargetName       (* ".. is not a valid target name" *)
| LE_ImportDirMissing        (* canonicalize of an import directory fails *)
| LE_ImportUnnamed           (* "Project cannot be imported as it has no name" *)
| LE_ImportNameMismatch      (* "The project should be imported with name .." *)
| LE_DuplicateProjectName    (* repair FX7: two project directories declare the same name *)
| LE_PanicIndex              (* panic: `projects[&import_dir]` on a missing key (proved unreachable) *)
| LE_Fuel.                   (* model only: fuel exhausted (proved unreachable with fuel > number of directories) *)

Inductive lres (A : Type) := LOk (a : A) | LErr (e : lerr).
Arguments LOk {A} a.
Arguments LErr {A} e.

(* what is found at <dir>/zinoma.yml *)
Inductive cfile :=
| FAbsent                    (* File::open fails *)
| FGarbage                   (* opens, but is not one YAML document (syntax error, not UTF-8, a directory, ...) *)
| FValue (v : yv).

Definition cdir := bytes.
Definition loaded := list (cdir * yproject).          (* the `projects` HashMap: most recently inserted first *)

Definition vis_get (d : cdir) (vis : loaded) : option yproject :=
  match find (fun e => beq d (fst e)) vis with Some e => Some (snd e) | None => None end.

Definition vis_mem (d : cdir) (vis : loaded) : bool :=
  match vis_get d vis with Some _ => true | None => false end.

Definition opt_valid_name (o : option bytes) : bool :=
  match o with Some n => valid_name n | None => true end.

Section Load.
  Variable fs : cdir -> cfile.                               (* the project files *)
  Variable canon : cdir -> bytes -> option cdir.              (* canonicalize(dir.join(rel)) *)
  Variable ord : cdir -> list (bytes * bytes) -> list (bytes * bytes).   (* iteration order of a project's `imports` *)

  Definition load_project (d : cdir) : lres yproject :=
    match fs d with
    | FAbsent => LErr LE_NoConfigFile
    | FGarbage => LErr LE_InvalidFormat
    | FValue v =>
        match accept_project v with
        | None => LErr LE_InvalidFormat
        | Some p =>
            if negb (opt_valid_name (yp_name p)) then LErr LE_InvalidProjectName
            else if forallb (fun nt => valid_name (fst nt)) (yp_targets p) then LOk p
            else LErr LE_InvalidTargetName
        end
    end.

  (* canonicalize every import first: all or nothing *)
  Fixpoint canon_all (d : cdir) (imps : list (bytes * bytes)) : option (list (bytes * cdir)) :=
    match imps with
    | [] => Some []
    | (nm, rel) :: r =>
        match canon d rel, canon_all d r with
        | Some c, Some cs => Some ((nm, c) :: cs)
        | _, _ => None
        end
    end.

  Definition check_import (nm : bytes) (idir : cdir) (vis : loaded) : lres loaded :=
    match vis_get idir vis with
    | None => LErr LE_PanicIndex
    | Some q =>
        match yp_name q with
        | None => LErr LE_ImportUnnamed
        | Some x => if beq x nm then LOk vis else LErr LE_ImportNameMismatch
        end
    end.

  (* the `for (import_name, import_dir) in import_paths` loop, given the recursive call *)
  Fixpoint import_loop (rec : cdir -> loaded -> lres loaded) (ips : list (bytes * cdir)) (vis : loaded)
    : lres loaded :=
    match ips with
    | [] => LOk vis
    | (nm, idir) :: r =>
        match rec idir vis with
        | LErr e => LErr e
        | LOk vis' =>
            match check_import nm idir vis' with
            | LErr e => LErr e
            | LOk vis'' => import_loop rec r vis''
            end
        end
    end.

  Fixpoint add_project (fuel : nat) (d : cdir) (vis : loaded) : lres loaded :=
    match fuel with
    | O => LErr LE_Fuel
    | S n =>
        if vis_mem d vis then LOk vis
        else
          match load_project d with
          | LErr e => LErr e
          | LOk p =>
              match canon_all d (ord d (yp_imports p)) with
              | None => LErr LE_ImportDirMissing
              | Some ips => import_loop (add_project n) ips ((d, p) :: vis)
              end
          end
    end.

  (* the pinned loader (no uniqueness test) *)
  Definition load_config_pinned (fuel : nat) (root : cdir) : lres yconfig :=
    match add_project fuel root [] with
    | LErr e => LErr e
    | LOk vis => LOk {| yc_root := root; yc_projects := vis |}
    end.

  (* repair FX7: two loaded directories declaring the same `name: x` are rejected (unnamed projects are not compared:
     Proofs/ConfigLoad.v shows only the root can be unnamed) *)
  Fixpoint has_dup_name (vis : loaded) : bool :=
    match vis with
    | [] => false
    | (_, p) :: r =>
        match yp_name p with
        | Some n => existsb (fun e => opt_beq (Some n) (yp_name (snd e))) r
        | None => false
        end || has_dup_name r
    end.

  Definition load_config (fuel : nat) (root : cdir) : lres yconfig :=
    match add_project fuel root [] with
    | LErr e => LErr e
    | LOk vis => if has_dup_name vis then LErr LE_DuplicateProjectName
                 else LOk {| yc_root := root; yc_projects := vis |}
    end.
End Load.

(* ---- ir::Config::from: re-keyed by project name ----
   The code collects `projects.into_iter()` (HashMap order) into a HashMap keyed by name: with two directories of one
   name the binding that survives depends on that order. The model keeps every binding in the list; lookups read the
   first one, and `to_ir_ordered` takes the order as an argument. *)
Definition ir_entries (ps : list (cdir * yproject)) : list (option bytes * (bytes * yproject)) :=
  map (fun e => (yp_name (snd e), (fst e, snd e))) ps.

Definition to_ir_ordered (c : yconfig) (order : list (cdir * yproject)) : option iconfig :=
  match vis_get (yc_root c) (yc_projects c) with
  | None => None                               (* panic: `(&config.projects)[&config.root_project_dir]` *)
  | Some rp => Some {| ic_root_name := yp_name rp; ic_projects := ir_entries order |}
  end.

Definition to_ir (c : yconfig) : option iconfig := to_ir_ordered c (yc_projects c).

Fixpoint ir_lookup (n : option bytes) (ps : list (option bytes * (bytes * yproject))) : option (bytes * yproject) :=
  match ps with
  | [] => None
  | (k, v) :: r => if opt_beq n k then Some v else ir_lookup n r
  end.

(* list_all_targets / list_all_available_target_names *)
Definition ir_all_targets (ic : iconfig) : list target_id :=
  flat_map (fun e => map (fun nt => {| t_project := fst e; t_name := fst nt |}) (yp_targets (snd (snd e))))
           (ic_projects ic).

Definition ir_available_names (ic : iconfig) : option (list bytes) :=
  let qualified := map display (ir_all_targets ic) in
  match ic_root_name ic with
  | None => Some qualified
  | Some _ =>
      match ir_lookup (ic_root_name ic) (ic_projects ic) with
      | Some (_, pr) => Some (qualified ++ map fst (yp_targets pr))
      | None => None                           (* panic: `self.projects[project_name]` *)
      end
  end.

(* ---- main.rs up to the first effect ----
   `resolve` stands for try_into_domain_targets (slice RES); `true` = Ok. Everything the run does after a successful
   resolution is one abstract effect list. *)
Inductive front_outcome :=
| FO_LoadError (e : lerr)
| FO_Panic
| FO_CliError                 (* clap: unknown target name, or neither targets nor --clean *)
| FO_ResolveError
| FO_Proceed (roots : list target_id).

Section Front.
  Variable fs : cdir -> cfile.
  Variable canon : cdir -> bytes -> option cdir.
  Variable ord : cdir -> list (bytes * bytes) -> list (bytes * bytes).
  Variable resolve : iconfig -> list target_id -> bool.
  Variable E : Type.                                          (* effects: deletions, processes *)
  Variable effects_of : iconfig -> list target_id -> bool -> bool -> list E.

  Definition main_front (fuel : nat) (root : cdir) (requested : option (list bytes)) (clean watch : bool)
    : front_outcome * list E :=
    match load_config fs canon ord fuel root with
    | LErr e => (FO_LoadError e, [])
    | LOk c =>
        match to_ir c with
        | None => (FO_Panic, [])
        | Some ic =>
            match ir_available_names ic with
            | None => (FO_Panic, [])
            | Some names =>
                let roots :=
                  match requested with
                  | Some req =>
                      if forallb (fun s => existsb (beq s) names) req
                      then match try_parse_many req (ic_root_name ic) with
                           | Some ids => inl ids
                           | None => inr FO_Panic
                           end
                      else inr FO_CliError
                  | None => if clean then inl (ir_all_targets ic) else inr FO_CliError
                  end in
                match roots with
                | inr o => (o, [])
                | inl ids => if resolve ic ids then (FO_Proceed ids, effects_of ic ids clean watch)
                             else (FO_ResolveError, [])
                end
            end
        end
    end.
End Front.
