(* The resolver: ir::Config lookups, name listing, `try_into_domain_targets` / `add_target` (depth-first, with
   the chain of parent targets for cycle detection and the map of finished targets for sharing),
   `transform_target/input/output`, `Target::extend_dependencies/extend_input`, and the phase order of main.
   Sources: config/ir.rs (all), domain.rs (Target, Resources), main.rs (load -> names -> parse -> resolve -> clean -> run).
   Executable definitions only; proofs are in Proofs/Resolver*.v.

   Faithfulness notes
   - HashMaps are association lists read with first-binding-wins lookups; the resolver never iterates one.
   - `add_target` REMOVES the yaml target from its project when it converts it (`project.targets.remove`), so the
     configuration is part of the state threaded through the recursion (Proofs/ResolverPure.v shows the removal is
     never observed: a removed target is either finished or on the parent chain, and both tests come first).
   - the panics the code could raise are results of their own (`EPanic…`), proved unreachable in Proofs/Resolver.v:
     `project_name.as_ref().unwrap()` in the "Project does not exist" message, `domain_targets[dependency_id]`,
     `extend_input(..).unwrap()`, `try_parse(..).unwrap()` after the `.output` regex.
   - the recursion is on explicit fuel (`EFuel` when exhausted; never with fuel = S (number of targets)). *)
From Zinoma.Model Require Export Bytes Cfg Names Ext.

Inductive err :=
| EProjectNotFound        (* "Project {} does not exist" *)
| ETargetNotFound         (* "Target {} does not exist" *)
| ECircular               (* "Circular dependency: ..." *)
| ENotABuildOutput        (* "Target {} can not depend on {}'s output as it is not a build target" *)
| EInvalidInput           (* "Invalid input: {}" *)
| EInvalidTargetName      (* "Invalid target canonical name: {} ..." *)
| EPanicUnwrap            (* panic: Option::unwrap on the project name of an unqualified id *)
| EPanicIndex             (* panic: HashMap index with a missing key *)
| EPanicExtend            (* panic: unwrap of extend_input on an aggregate *)
| EPanicParse             (* panic: unwrap of try_parse on the regex capture *)
| EFuel.                  (* model only: fuel exhausted *)

Inductive result (A : Type) := Ok (a : A) | Err (e : err).
Arguments Ok {A} a.
Arguments Err {A} e.

(* ---- association lists ---- *)
Fixpoint assoc {K V : Type} (eqb : K -> K -> bool) (k : K) (l : list (K * V)) : option V :=
  match l with
  | [] => None
  | (k', v) :: l' => if eqb k k' then Some v else assoc eqb k l'
  end.

(* HashMap::get_mut + in-place change of the binding that `assoc` reads *)
Fixpoint update_first {K V : Type} (eqb : K -> K -> bool) (k : K) (f : V -> V) (l : list (K * V)) : list (K * V) :=
  match l with
  | [] => []
  | (k', v) :: l' => if eqb k k' then (k', f v) :: l' else (k', v) :: update_first eqb k f l'
  end.

(* HashMap::remove: no binding of the key is left *)
Definition remove_key {K V : Type} (eqb : K -> K -> bool) (k : K) (l : list (K * V)) : list (K * V) :=
  filter (fun kv => negb (eqb k (fst kv))) l.

(* ---- ir::Config ---- *)
Definition lookup_project (cfg : iconfig) (p : option bytes) : option (bytes * yproject) :=
  assoc opt_beq p (ic_projects cfg).

Definition lookup_ytarget (pr : yproject) (n : bytes) : option ytarget := assoc beq n (yp_targets pr).

Definition remove_ytarget (n : bytes) (pr : yproject) : yproject :=
  {| yp_name := yp_name pr; yp_imports := yp_imports pr; yp_targets := remove_key beq n (yp_targets pr) |}.

Definition remove_target (cfg : iconfig) (t : target_id) : iconfig :=
  {| ic_root_name := ic_root_name cfg;
     ic_projects := update_first opt_beq (t_project t)
                      (fun dp => (fst dp, remove_ytarget (t_name t) (snd dp))) (ic_projects cfg) |}.

(* list_all_targets (the code iterates two HashMaps: the order of the result is unspecified; users of this list must
   be order-insensitive) *)
Definition project_targets (pn : option bytes) (pr : yproject) : list target_id :=
  map (fun nt => {| t_project := pn; t_name := fst nt |}) (yp_targets pr).

Definition list_all_targets (cfg : iconfig) : list target_id :=
  flat_map (fun e => project_targets (fst e) (snd (snd e))) (ic_projects cfg).

(* list_all_available_target_names; None = the panic of `self.projects[project_name]` on a missing root project *)
Definition available_names (cfg : iconfig) : option (list bytes) :=
  let qualified := map display (list_all_targets cfg) in
  match ic_root_name cfg with
  | None => Some qualified
  | Some _ =>
      match lookup_project cfg (ic_root_name cfg) with
      | Some (_, pr) => Some (qualified ++ map fst (yp_targets pr))
      | None => None
      end
  end.

(* ---- yaml::Target accessors ---- *)
Definition yt_deps (yt : ytarget) : list bytes :=
  match yt with YBuild d _ _ _ => d | YService d _ _ => d | YAggregate d => d end.
Definition yt_kind (yt : ytarget) : tkind :=
  match yt with YBuild _ _ _ _ => TBuild | YService _ _ _ => TService | YAggregate _ => TAggregate end.
Definition yt_script (yt : ytarget) : bytes :=
  match yt with YBuild _ s _ _ => s | YService _ s _ => s | YAggregate _ => [] end.
Definition yt_input (yt : ytarget) : list yinput :=
  match yt with YBuild _ _ i _ => i | YService _ _ i => i | YAggregate _ => [] end.
Definition yt_output (yt : ytarget) : list youtput :=
  match yt with YBuild _ _ _ o => o | _ => [] end.

(* ---- std::path::PathBuf::join on Unix, on bytes: an absolute argument replaces the base; otherwise a separator is
   added unless the base is empty or already ends with one ---- *)
Definition ends_with_slash (b : bytes) : bool :=
  match rev b with x :: _ => N.eqb x slash | [] => false end.

Definition join_path (base p : bytes) : bytes :=
  match p with
  | x :: _ => if N.eqb x slash then p
              else if is_nil base || ends_with_slash base then base ++ p else base ++ slash :: p
  | [] => if is_nil base || ends_with_slash base then base else base ++ [slash]
  end.

(* ---- transform_input / transform_output ---- *)
Definition files_of (dir : bytes) (paths : list bytes) (exts : option (list bytes)) : files_resource :=
  {| fr_paths := map (join_path dir) paths; fr_exts := transform_extensions exts |}.

Definition add_files (f : files_resource) (r : resources) : resources :=
  {| r_files := f :: r_files r; r_cmds := r_cmds r |}.
Definition add_cmd (c : cmd_resource) (r : resources) : resources :=
  {| r_files := r_files r; r_cmds := c :: r_cmds r |}.

(* try_fold, left to right, stopping at the first malformed `.output` string; returns the target's own input
   resources and the ids of the `X.output` references in order (duplicates kept) *)
Fixpoint transform_input (inp : list yinput) (cur : option bytes) (dir : bytes)
  : result (resources * list target_id) :=
  match inp with
  | [] => Ok (resources_empty, [])
  | YIFiles paths exts :: rest =>
      match transform_input rest cur dir with
      | Ok (r, ds) => Ok (add_files (files_of dir paths exts) r, ds)
      | Err e => Err e
      end
  | YICmd c :: rest =>
      match transform_input rest cur dir with
      | Ok (r, ds) => Ok (add_cmd {| cr_cmd := c; cr_dir := dir |} r, ds)
      | Err e => Err e
      end
  | YIDepOutput s :: rest =>
      match parse_output_ref s with
      | None => Err EInvalidInput
      | Some ref =>
          match try_parse ref cur with
          | None => Err EPanicParse
          | Some id =>
              match transform_input rest cur dir with
              | Ok (r, ds) => Ok (r, id :: ds)
              | Err e => Err e
              end
          end
      end
  end.

Fixpoint transform_output (out : list youtput) (dir : bytes) : resources :=
  match out with
  | [] => resources_empty
  | YOFiles paths exts :: rest => add_files (files_of dir paths exts) (transform_output rest dir)
  | YOCmd c :: rest => add_cmd {| cr_cmd := c; cr_dir := dir |} (transform_output rest dir)
  end.

(* ---- transform_target: the domain target with its DECLARED dependencies, and the `.output` ids ---- *)
Definition transform_target (t : target_id) (yt : ytarget) (dir : bytes) : result (rtarget * list target_id) :=
  match try_parse_many (yt_deps yt) (t_project t) with
  | None => Err EInvalidTargetName
  | Some deps =>
      let mk inp out :=
        {| rt_id := t; rt_dir := dir; rt_deps := deps; rt_kind := yt_kind yt; rt_script := yt_script yt;
           rt_input := inp; rt_output := out |} in
      match yt with
      | YBuild _ _ inp out =>
          match transform_input inp (t_project t) dir with
          | Ok (r, ds) => Ok (mk r (transform_output out dir), ds)
          | Err e => Err e
          end
      | YService _ _ inp =>
          match transform_input inp (t_project t) dir with
          | Ok (r, ds) => Ok (mk r resources_empty, ds)
          | Err e => Err e
          end
      | YAggregate _ => Ok (mk resources_empty resources_empty, [])
      end
  end.

(* Target::extend_dependencies / extend_input *)
Definition set_deps (rt : rtarget) (ds : list target_id) : rtarget :=
  {| rt_id := rt_id rt; rt_dir := rt_dir rt; rt_deps := ds; rt_kind := rt_kind rt; rt_script := rt_script rt;
     rt_input := rt_input rt; rt_output := rt_output rt |}.
Definition set_input (rt : rtarget) (r : resources) : rtarget :=
  {| rt_id := rt_id rt; rt_dir := rt_dir rt; rt_deps := rt_deps rt; rt_kind := rt_kind rt; rt_script := rt_script rt;
     rt_input := r; rt_output := rt_output rt |}.

Definition extend_dependencies (rt : rtarget) (more : list target_id) : rtarget := set_deps rt (rt_deps rt ++ more).

Definition extend_input (rt : rtarget) (r : resources) : option rtarget :=
  match rt_kind rt with
  | TAggregate => None
  | _ => Some (set_input rt (resources_extend (rt_input rt) r))
  end.

(* ---- the map of finished targets (a HashMap in the code: only membership and lookups are used) ---- *)
Definition tmap := list (target_id * rtarget).
Definition tmap_get (m : tmap) (t : target_id) : option rtarget := assoc tid_eqb t m.
Definition tmap_mem (m : tmap) (t : target_id) : bool :=
  match tmap_get m t with Some _ => true | None => false end.
Definition tmap_keys (m : tmap) : list target_id := map fst m.

(* the loop `for dependency_id in &dependencies_from_input` after the recursion *)
Fixpoint extend_inputs (m : tmap) (rt : rtarget) (from_input : list target_id) : result rtarget :=
  match from_input with
  | [] => Ok rt
  | d :: rest =>
      match tmap_get m d with
      | None => Err EPanicIndex
      | Some dep =>
          match rt_kind dep with
          | TBuild =>
              match extend_input rt (rt_output dep) with
              | None => Err EPanicExtend
              | Some rt' => extend_inputs m rt' rest
              end
          | _ => Err ENotABuildOutput
          end
      end
  end.

Fixpoint fold_res {S A : Type} (f : S -> A -> result S) (s : S) (l : list A) : result S :=
  match l with
  | [] => Ok s
  | a :: l' => match f s a with Ok s' => fold_res f s' l' | Err e => Err e end
  end.

(* ---- add_target ---- *)
Definition rstate := (iconfig * tmap)%type.

Fixpoint add_target (fuel : nat) (s : rstate) (t : target_id) (parents : list target_id) : result rstate :=
  match fuel with
  | O => Err EFuel
  | S fuel' =>
      let cfg := fst s in
      let m := snd s in
      if tmap_mem m t then Ok s
      else if existsb (tid_eqb t) parents then Err ECircular
      else
        match lookup_project cfg (t_project t) with
        | None => Err (match t_project t with Some _ => EProjectNotFound | None => EPanicUnwrap end)
        | Some (dir, pr) =>
            match lookup_ytarget pr (t_name t) with
            | None => Err ETargetNotFound
            | Some yt =>
                let cfg1 := remove_target cfg t in
                match transform_target t yt dir with
                | Err e => Err e
                | Ok (rt0, from_input) =>
                    let rt1 := extend_dependencies rt0 from_input in
                    match fold_res (fun s' d => add_target fuel' s' d (parents ++ [t])) (cfg1, m) (rt_deps rt1) with
                    | Err e => Err e
                    | Ok (cfg2, m2) =>
                        match extend_inputs m2 rt1 from_input with
                        | Err e => Err e
                        | Ok rt2 => Ok (cfg2, (t, rt2) :: m2)
                        end
                    end
                end
            end
        end
  end.

(* try_into_domain_targets: the roots in order, each with an empty parent chain. The result lists the finished
   targets, most recently finished first (the code's HashMap has no order; consumers use lookups only). *)
Definition resolve (cfg : iconfig) (roots : list target_id) (fuel : nat) : result tmap :=
  match fold_res (fun s t => add_target fuel s t []) (cfg, []) roots with
  | Ok (_, m) => Ok m
  | Err e => Err e
  end.

Definition n_targets (cfg : iconfig) : nat := length (list_all_targets cfg).

Definition resolve_default (cfg : iconfig) (roots : list target_id) : result tmap :=
  resolve cfg roots (S (n_targets cfg)).

(* ---- main.rs: what happens between loading and running ----
   requested = None when no target is given on the command line (only legal with --clean). The accepted names are
   the clap `possible_values`; a name outside them ends the process in clap (before any effect). *)
Inductive effect :=
| FDeleteState (t : target_id)        (* delete_saved_env_state *)
| FRemoveWorkDirs                     (* remove_work_dir of every project directory *)
| FCleanOutputs (t : target_id)       (* clean_target_output_paths *)
| FRun (roots : list target_id) (loaded : list target_id) (watch : bool).    (* TargetActors::new + engine::run *)

Inductive outcome :=
| OutCliError                         (* clap rejects an unknown name / missing targets *)
| OutPanic
| OutResolveError (e : err)
| OutRan.

Definition mem_bytes (s : bytes) (l : list bytes) : bool := existsb (beq s) l.

Definition main_phases (cfg : iconfig) (requested : option (list bytes)) (clean watch : bool)
  : list effect * outcome :=
  match available_names cfg with
  | None => ([], OutPanic)
  | Some names =>
      match requested with
      | None => if clean then
                  match resolve_default cfg (list_all_targets cfg) with
                  | Err e => ([], OutResolveError e)
                  | Ok m => (FRemoveWorkDirs :: map FCleanOutputs (tmap_keys m), OutRan)
                  end
                else ([], OutCliError)
      | Some req =>
          if forallb (fun s => mem_bytes s names) req then
            match try_parse_many req (ic_root_name cfg) with
            | None => ([], OutPanic)
            | Some roots =>
                match resolve_default cfg roots with
                | Err e => ([], OutResolveError e)
                | Ok m =>
                    ((if clean then map FDeleteState (tmap_keys m) ++ map FCleanOutputs (tmap_keys m) else [])
                       ++ [FRun roots (tmap_keys m) watch], OutRan)
                end
            end
          else ([], OutCliError)
      end
  end.
