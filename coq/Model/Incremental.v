(* The incremental build cycle of one build target.
   Sources: engine/incremental/mod.rs (`run`, `TargetEnvState::{current, eq_current_state}`), storage.rs (read: any error
   drops the file; delete; save = create (truncate) + serialize_into), resources_state/{mod,fs,cmd_stdout}.rs, engine/builder.rs
   (spawn failure and non-zero exit are errors, cancellation is `Cancelled`, success is `Completed`), async_utils.rs (`both`,
   `all`: conjunctions whose evaluation order is free — they are pure here, so the order is irrelevant).
   The model is the code AFTER the repairs FX3 (command outputs keyed by (text, directory)), FX4 (a target without input never
   consults a record) and FX5 (bounded decoding); the pinned behaviour is kept as the `_gen` instances `*_pinned` so that the
   refuted statements stay visible. Executable definitions only. *)
From Zinoma.Model Require Export Bytes Cfg Ext Names Codec.

(* ------------------------------------------------------------------------------------------------ the iworld
   What the cycle can observe at one instant. The directory walk is slice FS's `listing`; here it is GIVEN:
   `w_list fs` is the set of files `fs::list_files_in_resources` returns (a HashSet: no two entries with equal paths). *)
Record iworld := {
  w_list : list files_resource -> list bytes;
  w_mtime : bytes -> option duration;       (* metadata().modified() since the epoch; None = any error *)
  w_read : bytes -> option bytes;           (* the whole content (read in 1 KiB pieces); None = any error *)
  w_cmd : bytes -> bytes -> option bytes    (* `/bin/sh -ce cmd` in dir: Some (lossy-UTF-8 stdout) on exit 0, None otherwise *)
}.

Fixpoint all_present {A} (l : list (option A)) : option (list A) :=
  match l with
  | [] => Some []
  | None :: _ => None
  | Some a :: r => match all_present r with Some r' => Some (a :: r') | None => None end
  end.

Definition dur_eqb (a b : duration) : bool := (d_secs a =? d_secs b) && (d_nanos a =? d_nanos b).

(* command-map key equality of the pinned code: the command text only *)
Definition ckey_text_eqb (a b : bytes * bytes) : bool := beq (fst a) (fst b).

Inductive cur_result :=
| CurNone                      (* the target declares no input: nothing is ever recorded *)
| CurFail                      (* warning "Failed to compute state of inputs and outputs" *)
| CurSome (e : env_state).

Inductive script_outcome := ScriptSucceeded | ScriptFailed | SpawnFailed | ScriptCancelled.
Inductive cycle_result := CySkipped | CyCompleted | CyCancelled | CyFailed.

Inductive cphase :=
| PStart                                  (* `run` entered *)
| PDecided                                (* not skipped; an undecodable record has been dropped by the read path *)
| PDeleted                                (* delete_saved_env_state done; the script starts *)
| PScripted                               (* the script exited with status 0 *)
| PComputed (e : env_state)               (* TargetEnvState::current = Some e *)
| PWriting (todo : bytes) (ok : bool)     (* file created (empty); bytes still to be written; ok = serialisation will complete *)
| PEnd (r : cycle_result).

Record cstate := { c_phase : cphase; c_disk : option bytes }.

Section Inc.
  Variable hash : bytes -> N.                                    (* SeaHash of a content (DESIGN.md §3) *)
  Variable ckeq : bytes * bytes -> bytes * bytes -> bool.        (* key equality of the command map *)
  Variable fx4 : bool.                                           (* true: a target without input never consults the record *)

  (* ---- TargetEnvState::current ---- *)
  Definition file_state (w : iworld) (p : bytes) : option fentry :=
    match w_mtime w p, w_read w p with
    | Some m, Some c => Some (p, (m, hash c))
    | _, _ => None
    end.

  (* the first failing file fails the whole computation, whatever the iteration order *)
  Definition current_files (w : iworld) (fs : list files_resource) : option (list fentry) :=
    all_present (map (file_state w) (w_list w fs)).

  Definition cmd_state (w : iworld) (c : cmd_resource) : option centry :=
    match w_cmd w (cr_cmd c) (cr_dir c) with
    | Some o => Some ((cr_cmd c, cr_dir c), o)
    | None => None
    end.

  (* try_join_all, then collected into a HashMap: a later resource with an equal key overwrites *)
  Definition current_cmds (w : iworld) (cs : list cmd_resource) : option (list centry) :=
    match all_present (map (cmd_state w) cs) with
    | Some l => Some (amap_of ckeq l)
    | None => None
    end.

  Definition current_res (w : iworld) (r : resources) : option res_state :=
    match current_files w (r_files r), current_cmds w (r_cmds r) with
    | Some f, Some c => Some {| rs_fs := f; rs_cmd := c |}
    | _, _ => None
    end.

  Definition current_env (w : iworld) (input : resources) (output : option resources) : cur_result :=
    if resources_is_empty input then CurNone
    else match current_res w input with
         | None => CurFail
         | Some i =>
             match output with
             | None => CurSome {| es_input := i; es_output := None |}
             | Some o => match current_res w o with
                         | None => CurFail
                         | Some ro => CurSome {| es_input := i; es_output := Some ro |}
                         end
             end
         end.

  (* ---- TargetEnvState::eq_current_state ---- *)
  Definition eq_file (w : iworld) (rec : list fentry) (p : bytes) : bool :=
    match alookup path_eqb p rec with
    | None => false
    | Some (m, h) =>
        match w_mtime w p with
        | None => false
        | Some m' => dur_eqb m' m || match w_read w p with
                                     | None => false
                                     | Some c => hash c =? h
                                     end
        end
    end.

  (* same number of files, and every listed file is recorded with the same mtime or the same content hash *)
  Definition eq_files (w : iworld) (rec : list fentry) (fs : list files_resource) : bool :=
    let l := w_list w fs in
    Nat.eqb (length l) (length rec) && forallb (eq_file w rec) l.

  Definition eq_cmd (w : iworld) (rec : list centry) (c : cmd_resource) : bool :=
    match w_cmd w (cr_cmd c) (cr_dir c) with
    | None => false
    | Some o => match alookup ckeq (cr_cmd c, cr_dir c) rec with
                | Some o' => beq o' o
                | None => false
                end
    end.

  Definition eq_cmds (w : iworld) (rec : list centry) (cs : list cmd_resource) : bool := forallb (eq_cmd w rec) cs.

  Definition eq_res (w : iworld) (r : res_state) (res : resources) : bool :=
    eq_files w (rs_fs r) (r_files res) && eq_cmds w (rs_cmd r) (r_cmds res).

  Definition eq_env (w : iworld) (e : env_state) (input : resources) (output : option resources) : bool :=
    eq_res w (es_input e) input &&
    match output with
    | None => true
    | Some o => match es_output e with
                | Some ro => eq_res w ro o
                | None => false
                end
    end.

  (* ---- the decision, on a decoded record and on the bytes of the state file ---- *)
  Definition skip_on_record (w : iworld) (rec : option env_state) (input : resources) (output : option resources) : bool :=
    if fx4 && resources_is_empty input then false
    else match rec with
         | None => false
         | Some e => eq_env w e input output
         end.

  Definition decode_disk (disk : option bytes) : option env_state :=
    match disk with
    | None => None
    | Some bs => match dec_env bs with
                 | Some (e, _) => Some e
                 | None => None
                 end
    end.

  Definition decide_skip_gen (w : iworld) (disk : option bytes) (input : resources) (output : option resources) : bool :=
    skip_on_record w (decode_disk disk) input output.

  (* ---- the build cycle as a small-step machine over the state file ----
     A crash (kill -9, power button, abort) can happen between any two steps; what survives is `c_disk`. *)
  Record cycle := {
    cy_input : resources;
    cy_output : option resources;
    cy_w0 : iworld;                          (* the iworld when the decision is taken *)
    cy_outcome : script_outcome;                   (* what the script does *)
    cy_w1 : iworld                           (* the iworld when the script has finished *)
  }.

  Definition disk_after_read (input : resources) (disk : option bytes) : option bytes :=
    if fx4 && resources_is_empty input then disk           (* the record is not even read *)
    else match disk with
         | Some bs => match dec_env bs with
                      | None => None                       (* "Dropping corrupted checksums file" *)
                      | Some _ => disk
                      end
         | None => None
         end.

  Definition cycle_step (c : cycle) (s : cstate) : option cstate :=
    match c_phase s with
    | PStart =>
        if decide_skip_gen (cy_w0 c) (c_disk s) (cy_input c) (cy_output c)
        then Some {| c_phase := PEnd CySkipped; c_disk := c_disk s |}
        else Some {| c_phase := PDecided; c_disk := disk_after_read (cy_input c) (c_disk s) |}
    | PDecided => Some {| c_phase := PDeleted; c_disk := None |}
    | PDeleted =>
        match cy_outcome c with
        | ScriptSucceeded => Some {| c_phase := PScripted; c_disk := c_disk s |}
        | ScriptCancelled => Some {| c_phase := PEnd CyCancelled; c_disk := c_disk s |}
        | ScriptFailed | SpawnFailed => Some {| c_phase := PEnd CyFailed; c_disk := c_disk s |}
        end
    | PScripted =>
        match current_env (cy_w1 c) (cy_input c) (cy_output c) with
        | CurSome e => Some {| c_phase := PComputed e; c_disk := c_disk s |}
        | CurNone | CurFail => Some {| c_phase := PEnd CyCompleted; c_disk := c_disk s |}
        end
    | PComputed e =>
        let w := wr_env e in
        Some {| c_phase := PWriting (fst w) (snd w); c_disk := Some [] |}          (* File::create *)
    | PWriting [] _ => Some {| c_phase := PEnd CyCompleted; c_disk := c_disk s |}   (* (a failed serialisation is a warning) *)
    | PWriting (b :: todo) ok =>
        Some {| c_phase := PWriting todo ok;
                c_disk := Some (match c_disk s with Some written => written ++ [b] | None => [b] end) |}
    | PEnd _ => None
    end.

  (* n steps (fewer if the cycle ends before) *)
  Fixpoint cycle_run (c : cycle) (n : nat) (s : cstate) : cstate :=
    match n with
    | O => s
    | S n' => match cycle_step c s with
              | Some s' => cycle_run c n' s'
              | None => s
              end
    end.

  Definition cycle_init (disk : option bytes) : cstate := {| c_phase := PStart; c_disk := disk |}.

  (* enough steps to reach the end of any cycle *)
  Definition cycle_fuel (c : cycle) : nat :=
    7 + match current_env (cy_w1 c) (cy_input c) (cy_output c) with
        | CurSome e => length (fst (wr_env e))
        | _ => 0
        end.

  (* crash = Some n: the process dies after n steps; None: the cycle runs to its end *)
  Definition run_cycle (c : cycle) (crash : option nat) (disk : option bytes) : cstate :=
    cycle_run c (match crash with Some n => n | None => cycle_fuel c end) (cycle_init disk).

  (* a history of cycles of the same target over its state file *)
  Fixpoint run_history (h : list (cycle * option nat)) (disk : option bytes) : option bytes :=
    match h with
    | [] => disk
    | (c, crash) :: r => run_history r (c_disk (run_cycle c crash disk))
    end.
End Inc.

(* the code after the repairs, and the pinned code *)
Definition decide_skip (hash : bytes -> N) := decide_skip_gen hash ckey_eqb true.
Definition decide_skip_pinned (hash : bytes -> N) := decide_skip_gen hash ckey_text_eqb false.
Definition skip_on_record_pinned (hash : bytes -> N) := skip_on_record hash ckey_text_eqb false.
Definition current_env_pinned (hash : bytes -> N) := current_env hash ckey_text_eqb.

(* ------------------------------------------------------------------------------------------------ where the record lives
   storage.rs get_checksums_file_path: <project_dir>/.zinoma/<display id>.checksums *)
Definition checksums_ext : bytes := [46; 99; 104; 101; 99; 107; 115; 117; 109; 115].      (* ".checksums" *)

Definition state_file_name (id : target_id) : bytes := display id ++ checksums_ext.

Definition checksums_path (dir : bytes) (id : target_id) : bytes :=
  dir ++ slash :: zinoma_name ++ slash :: state_file_name id.

(* all state files of all targets: path |-> content *)
Definition state_store := bytes -> option bytes.

Definition store_set (st : state_store) (p : bytes) (v : option bytes) : state_store :=
  fun q => if beq q p then v else st q.

(* one cycle of target t (possibly crashing) acts on the store through t's own path only *)
Definition cycle_on_store (hash : bytes -> N) (t : rtarget) (c : cycle) (crash : option nat) (st : state_store) : state_store :=
  let p := checksums_path (rt_dir t) (rt_id t) in
  store_set st p (c_disk (run_cycle hash ckey_eqb true c crash (st p))).

(* `--clean T...`: delete_saved_env_state of every target of the closure *)
Definition clean_requested (ts : list rtarget) (st : state_store) : state_store :=
  fun q => if existsb (fun t => beq q (checksums_path (rt_dir t) (rt_id t))) ts then None else st q.

(* bare `--clean`: remove_work_dir of every loaded project *)
Definition clean_all (dirs : list bytes) (st : state_store) : state_store :=
  fun q => if existsb (fun d => starts_with q (d ++ slash :: zinoma_name ++ [slash])) dirs then None else st q.
