(* The abstract system: all target actors + the root loop of engine/mod.rs (`execute_once`, `watch`) +
   `TargetActors::terminate`, as ONE executable step function  exec : sys -> label -> option sys.
   The step relation is  exists l, exec s l = Some s'.
   Abstraction w.r.t. the code (see DESIGN.md §5.2): the relay channel is not represented — a message sent by an
   actor is appended directly to the destination's inbox (the relay loop forwards in FIFO order, so per-destination
   order is preserved and cross-destination order is unobservable); channels are unbounded (this is what the FX2 repair
   makes true of the relay channel; inbox capacities are handled by the bounded model SysB); every actor of the resolved
   graph exists from the start (the code launches an actor on the first message forwarded to it; an actor that never
   receives a message never does anything).  Definitions only. *)
From Zinoma.Model Require Export Actor.

(* the resolved target graph: what `try_into_domain_targets` returns, reduced to kind and dependency list *)
Definition graph := gmap tid (akind * list tid).

Inductive status := SOk | SErr (t : tid).
Inductive phase :=
| PRun                         (* inside the root loop *)
| PWaitTerm                    (* one-shot loop left normally, a requested service keeps zinoma alive *)
| PTerminating (st : status)   (* engine::run returned; TargetActors::terminate sent the messages and joins *)
| PExited (st : status).

Global Instance status_eq_dec : EqDecision status.
Proof. solve_decision. Defined.
Global Instance phase_eq_dec : EqDecision phase.
Proof. solve_decision. Defined.

Record sys := {
  actors : gmap tid astate;
  inbox : gmap tid (list msg);      (* per target, FIFO *)
  rootq : list out;                 (* what reaches the root loop itself: messages to Root and execution errors, FIFO *)
  slot : gset tid;                  (* pending file-change notification (capacity-1 channel; a second one is dropped) *)
  termq : gset tid;                 (* termination message sent to the actor, not yet consumed *)
  ph : phase;
  r_unavB : gset tid;               (* unavailable_root_builds *)
  r_unavS : gset tid;               (* unavailable_root_services *)
  r_svc : gset tid;                 (* service_root_targets *)
  sigq : bool;                      (* a termination signal is pending *)
  hist : list obs                   (* ghost: everything that happened, oldest first *)
}.

Inductive label :=
| LDeliver (t : tid) (spawn_ok : bool)     (* actor t handles the head of its inbox *)
| LInval (t : tid) (spawn_ok : bool)       (* actor t consumes its pending change notification *)
| LTermActor (t : tid)                     (* actor t consumes the termination message *)
| LBuildDone (t : tid) (r : bres)          (* the build future of t resolves with r *)
| LRoot                                    (* the root loop handles the head of its queue *)
| LRootIdle                                (* one-shot: nothing left unavailable, the loop is left *)
| LSignal                                  (* SIGINT / SIGTERM is delivered *)
| LRootSignal                              (* the root consumes the termination event *)
| LChange (ts : list tid)                  (* watch: the watchers of ts report a relevant change *)
| LJoin                                    (* every actor task has ended: the process exits *)
| LDeliverAt (t : tid) (i : nat) (spawn_ok : bool)   (* actor t handles the i-th message of its inbox: allowed when no earlier
                                              message there comes from the same sender (see [exec]) *)
| LRootAt (i : nat).                       (* the root loop handles the i-th entry of its queue, under the same condition *)

Definition upd_actor (s : sys) (t : tid) (a : astate) (ib : gmap tid (list msg)) (rq : list out)
           (sl tq : gset tid) (h : list obs) : sys :=
  {| actors := <[t := a]> (actors s); inbox := ib; rootq := rq; slot := sl; termq := tq; ph := ph s;
     r_unavB := r_unavB s; r_unavS := r_unavS s; r_svc := r_svc s; sigq := sigq s; hist := h |}.

Definition set_root (s : sys) (rq : list out) (p : phase) (ub us sv : gset tid) (tq : gset tid) (sg : bool) : sys :=
  {| actors := actors s; inbox := inbox s; rootq := rq; slot := slot s; termq := tq; ph := p;
     r_unavB := ub; r_unavS := us; r_svc := sv; sigq := sg; hist := hist s |}.

Definition push_inbox (ib : gmap tid (list msg)) (d : tid) (m : msg) : gmap tid (list msg) :=
  <[d := default [] (ib !! d) ++ [m]]> ib.

(* routing of one actor's outputs: targets' inboxes, or the root queue *)
Fixpoint route (ib : gmap tid (list msg)) (rq : list out) (os : list out) : gmap tid (list msg) * list out :=
  match os with
  | [] => (ib, rq)
  | OMsg (ATarget d) m :: os' => route (push_inbox ib d m) rq os'
  | o :: os' => route ib (rq ++ [o]) os'
  end.

Definition all_exited (s : sys) : bool :=
  bool_decide (map_Forall (fun _ a => exited a = true) (actors s)).

Definition is_watchable (a : astate) : bool :=
  match a_kind a with AAggregate => false | _ => true end.

(* Who sent a message.  The code relays every actor output through ONE channel: the messages of one sender reach a
   destination in the order they were sent, messages of different senders in the order the channel interleaved them.  The
   model appends all the outputs of a step at once; to cover every interleaving the real relay can produce, a destination
   may handle ANY message of its inbox that no earlier message of the same sender precedes (LDeliverAt / LRootAt): every
   merge of the per-sender streams is a possible handling order.  LDeliver / LRoot are the special case i = 0. *)
Definition sender (m : msg) : aid :=
  match m with
  | MRequested _ r | MUnrequested _ r => r
  | MOk _ t _ | MInvalidated _ t => ATarget t
  end.
Definition out_sender (o : out) : aid := match o with OMsg _ m => sender m | OErr t => ATarget t end.

Fixpoint pick {A} (i : nat) (l : list A) : option (list A * A * list A) :=
  match l, i with
  | [], _ => None
  | x :: l', 0 => Some ([], x, l')
  | x :: l', S i' => match pick i' l' with Some (pre, y, rest) => Some (x :: pre, y, rest) | None => None end
  end.

Definition none_from {A} (f : A -> aid) (r : aid) (pre : list A) : bool :=
  forallb (fun x => negb (bool_decide (f x = r))) pre.

Section exec.
  Context (fx1 : bool) (watch : bool).

  Definition apply_step (s : sys) (t : tid) (ib : gmap tid (list msg)) (sl tq : gset tid)
             (r : option (astate * list out * list obs)) : option sys :=
    match r with
    | None => None
    | Some (a', os, ob) =>
        let '(ib', rq') := route ib (rootq s) os in
        Some (upd_actor s t a' ib' rq' sl tq (hist s ++ ob))
    end.

  Definition root_running (s : sys) : bool := bool_decide (ph s = PRun).
  Definition root_sets_empty (s : sys) : bool := set_empty (r_unavB s) && set_empty (r_unavS s).

  (* the root loop takes the entry [o] out of its queue, [rest] is what remains *)
  Definition root_consume (s : sys) (o : out) (rest : list out) : sys :=
    if watch then set_root s rest (ph s) (r_unavB s) (r_unavS s) (r_svc s) (termq s) (sigq s)
    else match o with
         | OErr t => set_root s rest (PTerminating (SErr t)) (r_unavB s) (r_unavS s) (r_svc s) (dom (actors s)) (sigq s)
         | OMsg ARoot (MOk KB t _) =>
             set_root s rest (ph s) (r_unavB s ∖ {[t]}) (r_unavS s) (r_svc s) (termq s) (sigq s)
         | OMsg ARoot (MOk KS t actual) =>
             set_root s rest (ph s) (r_unavB s) (r_unavS s ∖ {[t]}) (if actual then r_svc s ∪ {[t]} else r_svc s) (termq s) (sigq s)
         | _ => set_root s rest (ph s) (r_unavB s) (r_unavS s) (r_svc s) (termq s) (sigq s)
         end.

  Definition exec (s : sys) (l : label) : option sys :=
    match l with
    | LDeliver t ok =>
        match actors s !! t, inbox s !! t with
        | Some a, Some (m :: rest) =>
            apply_step s t (<[t := rest]> (inbox s)) (slot s) (termq s) (actor_step fx1 ok a (EMsg m))
        | _, _ => None
        end
    | LInval t ok =>
        match actors s !! t with
        | Some a =>
            if bool_decide (t ∈ slot s)
            then apply_step s t (inbox s) (slot s ∖ {[t]}) (termq s) (actor_step fx1 ok a EInval)
            else None
        | None => None
        end
    | LTermActor t =>
        match actors s !! t with
        | Some a =>
            if bool_decide (t ∈ termq s)
            then apply_step s t (inbox s) (slot s) (termq s ∖ {[t]}) (actor_step fx1 true a ETerm)
            else None
        | None => None
        end
    | LBuildDone t r =>
        match actors s !! t with
        | Some a =>
            (* a Cancelled result needs a cancellation message; the other results are always possible *)
            if match r with RCancelled => cancel_sent a | _ => true end
            then apply_step s t (inbox s) (slot s) (termq s) (actor_step fx1 true a (EBuildDone r))
            else None
        | None => None
        end
    | LRoot =>
        if root_running s && (watch || negb (root_sets_empty s)) then
          match rootq s with
          | [] => None
          | o :: rest => Some (root_consume s o rest)
          end
        else None
    | LRootAt i =>
        if root_running s && (watch || negb (root_sets_empty s)) then
          match pick i (rootq s) with
          | Some (pre, o, rest) => if none_from out_sender (out_sender o) pre then Some (root_consume s o (pre ++ rest)) else None
          | None => None
          end
        else None
    | LDeliverAt t i ok =>
        match actors s !! t, inbox s !! t with
        | Some a, Some l =>
            match pick i l with
            | Some (pre, m, rest) =>
                if none_from sender (sender m) pre
                then apply_step s t (<[t := pre ++ rest]> (inbox s)) (slot s) (termq s) (actor_step fx1 ok a (EMsg m))
                else None
            | None => None
            end
        | _, _ => None
        end
    | LRootIdle =>
        if root_running s && negb watch && root_sets_empty s then
          if set_empty (r_svc s)
          then Some (set_root s (rootq s) (PTerminating SOk) (r_unavB s) (r_unavS s) (r_svc s) (dom (actors s)) (sigq s))
          else Some (set_root s (rootq s) PWaitTerm (r_unavB s) (r_unavS s) (r_svc s) (termq s) (sigq s))
        else None
    | LSignal =>
        match ph s with
        | PExited _ => None
        | _ => Some (set_root s (rootq s) (ph s) (r_unavB s) (r_unavS s) (r_svc s) (termq s) true)
        end
    | LRootSignal =>
        if sigq s && (bool_decide (ph s = PRun) || bool_decide (ph s = PWaitTerm))
        then Some (set_root s (rootq s) (PTerminating SOk) (r_unavB s) (r_unavS s) (r_svc s) (dom (actors s)) false)
        else None
    | LChange ts =>
        if watch && forallb (fun t => match actors s !! t with Some a => is_watchable a | None => false end) ts
        then Some {| actors := actors s; inbox := inbox s; rootq := rootq s; slot := slot s ∪ list_to_set ts;
                     termq := termq s; ph := ph s; r_unavB := r_unavB s; r_unavS := r_unavS s; r_svc := r_svc s;
                     sigq := sigq s; hist := hist s |}
        else None
    | LJoin =>
        match ph s with
        | PTerminating st =>
            if all_exited s
            then Some (set_root s (rootq s) (PExited st) (r_unavB s) (r_unavS s) (r_svc s) (termq s) (sigq s))
            else None
        | _ => None
        end
    end.

  Fixpoint run_labels (s : sys) (ls : list label) : option sys :=
    match ls with
    | [] => Some s
    | l :: ls' => match exec s l with Some s' => run_labels s' ls' | None => None end
    end.
End exec.

(* initial state: `engine::run` sends Requested{Build,Root} then Requested{Service,Root} to every requested id
   (a duplicated id receives them twice) *)
Definition init_inbox (roots : list tid) : gmap tid (list msg) :=
  foldl (fun ib r => push_inbox (push_inbox ib r (MRequested KB ARoot)) r (MRequested KS ARoot)) ∅ roots.

Definition init_sys (g : graph) (roots : list tid) : sys := {|
  actors := map_imap (fun t '(k, deps) => Some (init_actor t k deps)) g;
  inbox := init_inbox roots;
  rootq := [];
  slot := ∅; termq := ∅;
  ph := PRun;
  r_unavB := list_to_set roots; r_unavS := list_to_set roots; r_svc := ∅;
  sigq := false;
  hist := []
|}.

Definition reachable (fx1 watch : bool) (g : graph) (roots : list tid) (s : sys) : Prop :=
  exists ls, run_labels fx1 watch (init_sys g roots) ls = Some s.

(* ---- enabledness ---- *)

(* the internal labels worth trying in a state: everything except the environment's inputs (LSignal, LChange) and the
   choice of failing (spawn failure, RFailed), which are listed separately *)
Definition candidate_labels (s : sys) : list label :=
  let ts := map fst (map_to_list (actors s)) in
  (ts ≫= fun t => [LDeliver t true; LInval t true; LTermActor t; LBuildDone t RCompleted; LBuildDone t RCancelled])
  ++ [LRoot; LRootIdle; LRootSignal; LJoin].

Definition enabled (fx1 watch : bool) (s : sys) : list label :=
  filter (fun l => bool_decide (is_Some (exec fx1 watch s l))) (candidate_labels s).

(* nothing can happen any more unless the environment acts (signal, file change) or a script fails *)
Definition quiescent (fx1 watch : bool) (s : sys) : bool :=
  match enabled fx1 watch s with [] => true | _ => false end.

(* helpers for the explorer (runner/drv_sys.ml) *)
Definition graph_of_list (l : list (tid * (akind * list tid))) : graph := list_to_map l.

Definition strip_hist (s : sys) : sys :=
  {| actors := actors s; inbox := inbox s; rootq := rootq s; slot := slot s; termq := termq s; ph := ph s;
     r_unavB := r_unavB s; r_unavS := r_unavS s; r_svc := r_svc s; sigq := sigq s; hist := [] |}.

Definition has_failure (s : sys) : bool :=
  existsb (fun o => match o with ObFail _ => true | _ => false end) (hist s).

Definition is_running (s : sys) : bool := bool_decide (ph s = PRun).
