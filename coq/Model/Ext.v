(* Extension matching and the watcher's event filter.
   Sources: domain.rs `matches_extensions`, ir.rs `transform_extensions`, watcher.rs `is_tmp_editor_file`
   and the callback closure, work_dir.rs `is_in_work_dir` / `is_work_dir`.
   Names are byte strings; the code's `to_string_lossy().ends_with(ext)` coincides with byte-suffix
   matching for every extension free of U+FFFD (see DESIGN.md C15). *)
From Zinoma.Model Require Export Bytes.

Definition zinoma_name : bytes := [46; 122; 105; 110; 111; 109; 97].        (* ".zinoma" *)
Definition swp : bytes := [46; 115; 119; 112].                               (* ".swp" *)
Definition swx : bytes := [46; 115; 119; 120].                               (* ".swx" *)

(* ir.rs transform_extensions: drop empty entries, add a leading dot, None when nothing is left.
   (The BTreeSet is modelled as the list; matching is an `any`, so order and duplicates are irrelevant.) *)
Definition norm_ext (e : bytes) : bytes :=
  match e with
  | x :: _ => if N.eqb x dot then e else dot :: e
  | [] => e
  end.

Definition transform_extensions (o : option (list bytes)) : option (list bytes) :=
  match o with
  | None => None
  | Some l =>
      let l' := map norm_ext (filter (fun e => negb (is_nil e)) l) in
      if is_nil l' then None else Some l'
  end.

(* domain.rs matches_extensions, on the file name *)
Definition name_matches (exts : option (list bytes)) (n : bytes) : bool :=
  match exts with
  | None => true
  | Some es => existsb (ends_with n) es
  end.

(* on a path: a path without file name matches only the absent filter *)
Definition matches_extensions (exts : option (list bytes)) (p : bytes) : bool :=
  match exts with
  | None => true
  | Some es => match file_name p with
               | None => false
               | Some n => existsb (ends_with n) es
               end
  end.

(* watcher.rs is_tmp_editor_file, on the file name *)
Definition tmp_editor (n : bytes) : bool :=
  ends_with n [tilde] || (starts_with n [dot] && (ends_with n swp || ends_with n swx)).

Definition tmp_editor_path (p : bytes) : bool :=
  match file_name p with
  | None => false
  | Some n => tmp_editor n
  end.

(* work_dir.rs is_in_work_dir *)
Definition in_work_dir (p : bytes) : bool := existsb (beq zinoma_name) (components p).

(* the conjunction evaluated by the notify callback for each path of an event *)
Definition watch_filter (exts : option (list bytes)) (p : bytes) : bool :=
  negb (tmp_editor_path p) && negb (in_work_dir p) && matches_extensions exts p.

(* ---- the directory of a watched FILE (repair D16: watcher.rs is_other_file_in_file_dir) ----
   Path equality, Path::starts_with and Path::parent() in Rust go by components: RootDir, a leading CurDir, Normal and ParentDir
   components.  pseq p = that sequence: [slash] stands for RootDir and [dot] for CurDir (no Normal component is "/" or "."). *)
Definition pseq (p : bytes) : list bytes :=
  let root := starts_with p [slash] in
  let cur := negb root && match split_on slash p with c :: _ => beq c [dot] | [] => false end in
  (if root then [[slash]] else []) ++ (if cur then [[dot]] else []) ++ components p.

Fixpoint lbeq (a b : list bytes) : bool :=
  match a, b with
  | [], [] => true
  | x :: a', y :: b' => beq x y && lbeq a' b'
  | _, _ => false
  end.

(* Path::starts_with: component-wise prefix *)
Fixpoint lprefix (a b : list bytes) : bool :=
  match a, b with
  | [], _ => true
  | x :: a', y :: b' => beq x y && lprefix a' b'
  | _ :: _, [] => false
  end.

(* Path::parent(): the path without its last component; None for "/" and "" *)
Definition parent_seq (q : list bytes) : option (list bytes) :=
  match rev q with
  | [] => None
  | c :: r => if beq c [slash] then None else Some (rev r)
  end.

(* declared = every path of the watcher's group; files = those watched as files (their directories are watched too) *)
Definition other_in_file_dir (declared files : list bytes) (p : bytes) : bool :=
  existsb (fun f => match parent_seq (pseq f), parent_seq (pseq p) with
                    | Some d, Some q => lbeq q d
                    | _, _ => false
                    end) files &&
  negb (existsb (fun w => lprefix (pseq w) (pseq p)) declared).

(* the conjunction evaluated by the notify callback after the repair *)
Definition watch_filter2 (declared files : list bytes) (exts : option (list bytes)) (p : bytes) : bool :=
  negb (other_in_file_dir declared files p) && watch_filter exts p.
