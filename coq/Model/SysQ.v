(* The queues of the engine with their capacities, as an executable step function over the SAME actors (Actor.actor_step):
   a handler sends its outputs one by one into the actors' output channel (and waits when that channel is full); the root loop
   takes them out one by one and forwards each to the destination's inbox (and waits when that inbox is full).
   main.rs / target_actor/mod.rs: inboxes are `bounded(DEFAULT_CHANNEL_CAP)`; the output channel was `bounded(DEFAULT_CHANNEL_CAP)`
   in the pinned code (defect D3) and is `unbounded()` after the repair FX2.  Only what matters for "can a full queue block the
   engine for ever" is modelled: message handling, sending, relaying.  Definitions only; proofs in Proofs/SysQueue.v. *)
From Zinoma.Model Require Export Sys.

Record qsys := {
  qa : gmap tid astate;            (* the actors *)
  qpend : gmap tid (list out);     (* what the handler an actor is in still has to send (empty: the actor is at its `select!`) *)
  qin : gmap tid (list msg);       (* inboxes *)
  qchan : list out;                (* the actors' output channel *)
  qroot : option out               (* the output the root loop has taken and not yet dealt with *)
}.

Inductive qlabel :=
| QRecv (t : tid) (spawn_ok : bool)   (* actor t, at its select!, takes the head of its inbox and runs the handler *)
| QSend (t : tid)                     (* the handler of t sends its next output (possible when the channel has room) *)
| QPop                                (* the root loop takes the head of the channel *)
| QDeal.                              (* the root loop deals with what it took: consumes it, or forwards it (when the inbox has room) *)

Definition pend (s : qsys) (t : tid) : list out := default [] (qpend s !! t).
Definition inq (s : qsys) (t : tid) : list msg := default [] (qin s !! t).

Section qexec.
  Context (fx1 : bool) (capI : nat) (capO : option nat).

  Definition chan_has_room (s : qsys) : bool :=
    match capO with Some c => Nat.ltb (length (qchan s)) c | None => true end.

  (* an actor that is gone (not launched, or its task ended): a send to its inbox fails at once, the message is dropped *)
  Definition live (s : qsys) (t : tid) : bool :=
    match qa s !! t with Some a => negb (exited a) | None => false end.

  Definition qexec (s : qsys) (l : qlabel) : option qsys :=
    match l with
    | QRecv t ok =>
        match qa s !! t, pend s t, inq s t with
        | Some a, [], m :: rest =>
            match actor_step fx1 ok a (EMsg m) with
            | Some (a', os, _) =>
                Some {| qa := <[t := a']> (qa s); qpend := <[t := os]> (qpend s); qin := <[t := rest]> (qin s);
                        qchan := qchan s; qroot := qroot s |}
            | None => None
            end
        | _, _, _ => None
        end
    | QSend t =>
        match pend s t with
        | o :: rest =>
            if chan_has_room s
            then Some {| qa := qa s; qpend := <[t := rest]> (qpend s); qin := qin s; qchan := qchan s ++ [o]; qroot := qroot s |}
            else None
        | [] => None
        end
    | QPop =>
        match qroot s, qchan s with
        | None, o :: rest => Some {| qa := qa s; qpend := qpend s; qin := qin s; qchan := rest; qroot := Some o |}
        | _, _ => None
        end
    | QDeal =>
        match qroot s with
        | Some (OMsg (ATarget d) m) =>
            if live s d then
              if Nat.ltb (length (inq s d)) capI
              then Some {| qa := qa s; qpend := qpend s; qin := <[d := inq s d ++ [m]]> (qin s); qchan := qchan s; qroot := None |}
              else None
            else Some {| qa := qa s; qpend := qpend s; qin := qin s; qchan := qchan s; qroot := None |}
        | Some _ => Some {| qa := qa s; qpend := qpend s; qin := qin s; qchan := qchan s; qroot := None |}
        | None => None
        end
    end.

  Fixpoint qrun (s : qsys) (ls : list qlabel) : option qsys :=
    match ls with
    | [] => Some s
    | l :: ls' => match qexec s l with Some s' => qrun s' ls' | None => None end
    end.

  (* every label worth trying *)
  Definition qcandidates (s : qsys) : list qlabel :=
    (map fst (map_to_list (qa s)) ≫= fun t => [QRecv t true; QRecv t false; QSend t]) ++ [QPop; QDeal].

  Definition qstuck (s : qsys) : bool :=
    forallb (fun l => match qexec s l with None => true | Some _ => false end) (qcandidates s).
End qexec.

(* there is work left: something to send, to relay, or to handle *)
Definition qwork (s : qsys) : Prop :=
  (exists t, is_Some (qa s !! t) /\ pend s t <> []) \/ qchan s <> [] \/ qroot s <> None \/
  (exists t a, qa s !! t = Some a /\ exited a = false /\ pend s t = [] /\ inq s t <> []).
