(* Which file operations a target's watches REPORT (defect D16 and its repair, watcher.rs TargetWatcher::new).
   ASSUMED semantics of inotify as used by `notify` (not verified; exercised black-box by the real-watcher scenarios):
   - a watch on a directory reports the operations on its children by name — a recursive one, on all its descendants;
   - a watch on a FILE is a watch on its inode: it reports what happens to that inode, including its being replaced, and it dies
     when the path gets a new inode (a file written elsewhere and renamed over it: what editors call an atomic save).
   Paths are compared by components (Ext.pseq).  Definitions only. *)
From Zinoma.Model Require Export Ext.

Record wset := {
  w_rec : list bytes;            (* recursive watches: the declared paths that are directories *)
  w_inode : list bytes;          (* live inode watches: the declared paths that are files *)
  w_flat : list (list bytes)     (* non-recursive directory watches, by component sequence (the repair adds these) *)
}.

Definition reported (W : wset) (p : bytes) : bool :=
  existsb (fun d => lprefix (pseq d) (pseq p)) (w_rec W) ||
  existsb (fun f => lbeq (pseq f) (pseq p)) (w_inode W) ||
  existsb (fun d => match parent_seq (pseq p) with Some q => lbeq q d | None => false end) (w_flat W).

Inductive fsop :=
| OpModify (p : bytes)      (* the file at p is rewritten in place *)
| OpReplace (p : bytes).    (* a file written elsewhere is renamed over p: p has a new inode *)

Definition op_path (o : fsop) : bytes := match o with OpModify p | OpReplace p => p end.

Definition after (W : wset) (o : fsop) : wset :=
  match o with
  | OpModify _ => W
  | OpReplace p => {| w_rec := w_rec W; w_inode := filter (fun f => negb (lbeq (pseq f) (pseq p))) (w_inode W); w_flat := w_flat W |}
  end.

(* one flag per operation: was it reported to the target's watcher callback? *)
Fixpoint run_ops (W : wset) (ops : list fsop) : list bool :=
  match ops with
  | [] => []
  | o :: r => reported W (op_path o) :: run_ops (after W o) r
  end.

(* the watches TargetWatcher::new sets up for one group of declared paths: dirs = those that are directories, files = the others *)
Definition watches_pinned (dirs files : list bytes) : wset := {| w_rec := dirs; w_inode := files; w_flat := [] |}.

(* after the repair: the directory of every declared file that no declared directory covers is watched too, non-recursively *)
Definition file_dirs (dirs files : list bytes) : list (list bytes) :=
  flat_map (fun f => if existsb (fun d => lprefix (pseq d) (pseq f)) dirs then []
                     else match parent_seq (pseq f) with Some q => [q] | None => [] end) files.

Definition watches_fixed (dirs files : list bytes) : wset :=
  {| w_rec := dirs; w_inode := files; w_flat := file_dirs dirs files |}.
