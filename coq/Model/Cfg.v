(* Shared data types: the post-parse YAML project (config/yaml/schema.rs), the loaded configuration
   (yaml::Config, ir::Config) and the resolved domain targets (domain.rs). Definitions only. *)
From Zinoma.Model Require Export Bytes.

(* ---- config/yaml/schema.rs (values after serde; HashMaps are association lists, first binding wins) ---- *)
Inductive yinput :=
| YIFiles (paths : list bytes) (exts : option (list bytes))
| YICmd (cmd : bytes)
| YIDepOutput (s : bytes).

Inductive youtput :=
| YOFiles (paths : list bytes) (exts : option (list bytes))
| YOCmd (cmd : bytes).

Inductive ytarget :=
| YBuild (deps : list bytes) (script : bytes) (input : list yinput) (output : list youtput)
| YService (deps : list bytes) (script : bytes) (input : list yinput)
| YAggregate (deps : list bytes).

Record yproject := {
  yp_name : option bytes;
  yp_imports : list (bytes * bytes);          (* import name ↦ relative directory *)
  yp_targets : list (bytes * ytarget)         (* target name ↦ target *)
}.

(* yaml::Config after load: canonical project directory ↦ project *)
Record yconfig := { yc_root : bytes; yc_projects : list (bytes * yproject) }.

(* ir::Config: project name ↦ (directory, project) *)
Record iconfig := {
  ic_root_name : option bytes;
  ic_projects : list (option bytes * (bytes * yproject))
}.

(* ---- domain.rs ---- *)
Record target_id := { t_project : option bytes; t_name : bytes }.

Record files_resource := { fr_paths : list bytes; fr_exts : option (list bytes) }.
Record cmd_resource := { cr_cmd : bytes; cr_dir : bytes }.
Record resources := { r_files : list files_resource; r_cmds : list cmd_resource }.

Inductive tkind := TBuild | TService | TAggregate.

Record rtarget := {
  rt_id : target_id;
  rt_dir : bytes;                   (* metadata.project_dir *)
  rt_deps : list target_id;         (* metadata.dependencies: declared ones then the `X.output` ones, duplicates kept *)
  rt_kind : tkind;
  rt_script : bytes;                (* build_script / run_script, empty for aggregates *)
  rt_input : resources;             (* empty for aggregates *)
  rt_output : resources             (* empty unless build *)
}.

Definition resources_empty : resources := {| r_files := []; r_cmds := [] |}.
Definition resources_is_empty (r : resources) : bool := is_nil (r_files r) && is_nil (r_cmds r).
Definition resources_extend (a b : resources) : resources :=
  {| r_files := r_files a ++ r_files b; r_cmds := r_cmds a ++ r_cmds b |}.

Definition opt_beq (a b : option bytes) : bool :=
  match a, b with
  | None, None => true
  | Some x, Some y => beq x y
  | _, _ => false
  end.

Definition tid_eqb (a b : target_id) : bool :=
  opt_beq (t_project a) (t_project b) && beq (t_name a) (t_name b).
