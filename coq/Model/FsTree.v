(* File-system trees: regular files, directories, symbolic links; kernel-style path resolution; the walk of fs.rs
   (walkdir 2.4 with default options + filter_entry(!is_work_dir) + is_file + matches_extensions); the deletions of
   clean.rs / work_dir.rs / storage.rs and the clean phase of main.rs.  Executable definitions only.

   World: the model root "/" is one directory tree; every path is a byte string resolved from "/" (a path that does
   not start with "/" is resolved from "/" as well: the code only ever passes absolute paths, project_dir.join(..)).
   Physical locations (`phys`) are lists of entry names from the root; `get` never crosses a symlink. *)
From Zinoma.Model Require Export Bytes Ext Cfg Names.

Inductive node :=
| File (content mtime : N)
| Dir (entries : list (bytes * node))
| Link (target : bytes).

Inductive skind := KFile (content mtime : N) | KDir | KLink (target : bytes).

Definition phys := list bytes.

Definition shallow (n : node) : skind :=
  match n with File c m => KFile c m | Dir _ => KDir | Link t => KLink t end.

Fixpoint lookup (es : list (bytes * node)) (nm : bytes) : option node :=
  match es with
  | [] => None
  | (n, c) :: r => if beq n nm then Some c else lookup r nm
  end.

Fixpoint get (t : node) (q : phys) : option node :=
  match q with
  | [] => Some t
  | nm :: r => match t with
               | Dir es => match lookup es nm with Some c => get c r | None => None end
               | _ => None
               end
  end.

Definition kind_at (t : node) (q : phys) : option skind :=
  match get t q with Some n => Some (shallow n) | None => None end.

(* ---- well-formedness: entry names are unique, non-empty, contain no '/', are not "." or ".."; link targets non-empty ---- *)
Definition dot1 : bytes := [dot].

Definition valid_entry_name (n : bytes) : bool :=
  negb (is_nil n) && negb (existsb (N.eqb slash) n) && negb (beq n dot1) && negb (beq n dotdot).

Fixpoint names_unique (l : list bytes) : bool :=
  match l with
  | [] => true
  | x :: r => negb (existsb (beq x) r) && names_unique r
  end.

Fixpoint wf (n : node) : bool :=
  match n with
  | File _ _ => true
  | Link t => negb (is_nil t)
  | Dir es => names_unique (map fst es)
              && forallb (fun e => let '(nm, c) := e in valid_entry_name nm && wf c) es
  end.

(* ---- path resolution (path_resolution(7)) ---- *)
(* the non-empty pieces between slashes *)
Definition segs (p : bytes) : list bytes := filter (fun c => negb (is_nil c)) (split_on slash p).

Definition ends_slash (p : bytes) : bool :=
  match rev p with x :: _ => N.eqb x slash | [] => false end.

(* a path with a non-slash character and a trailing slash is resolved as if "." were appended *)
Definition path_comps (p : bytes) : list bytes :=
  let s := segs p in if ends_slash p && negb (is_nil s) then s ++ [dot1] else s.

Inductive rres := RFound (q : phys) | RNoEnt | RFail.     (* RFail: ENOTDIR / ELOOP *)

Definition max_links : nat := 40.

(* `cur` is always the physical path of a directory. `follow`: follow a symlink in the last position (stat) or not (lstat).
   At most `links` symlinks are followed in one resolution (the kernel's limit is 40; more is ELOOP). *)
Fixpoint resolve_comps (links : nat) (t : node) : phys -> list bytes -> bool -> rres :=
  fix go (cur : phys) (comps : list bytes) (follow : bool) {struct comps} : rres :=
    match comps with
    | [] => RFound cur
    | c :: rest =>
        if beq c dot1 then go cur rest follow
        else if beq c dotdot then go (removelast cur) rest follow
        else match kind_at t (cur ++ [c]) with
             | None => RNoEnt
             | Some KDir => go (cur ++ [c]) rest follow
             | Some (KFile _ _) => if is_nil rest then RFound (cur ++ [c]) else RFail
             | Some (KLink tgt) =>
                 if is_nil rest && negb follow then RFound (cur ++ [c])
                 else if is_nil tgt then RNoEnt
                 else match links with
                      | O => RFail
                      | S l => resolve_comps l t (if starts_with tgt [slash] then [] else cur)
                                             (path_comps tgt ++ rest) follow
                      end
             end
    end.

Definition resolve (t : node) (p : bytes) (follow : bool) : rres :=
  if is_nil p then RNoEnt else resolve_comps max_links t [] (path_comps p) follow.

Definition stat_gen (t : node) (p : bytes) (follow : bool) : option (phys * skind) :=
  match resolve t p follow with
  | RFound q => match kind_at t q with Some k => Some (q, k) | None => None end
  | _ => None
  end.

Definition stat (t : node) (p : bytes) := stat_gen t p true.
Definition lstat (t : node) (p : bytes) := stat_gen t p false.

Definition is_file (t : node) (p : bytes) : bool :=
  match stat t p with Some (_, KFile _ _) => true | _ => false end.
Definition is_dir (t : node) (p : bytes) : bool :=
  match stat t p with Some (_, KDir) => true | _ => false end.
Definition exists_ (t : node) (p : bytes) : bool :=
  match stat t p with Some _ => true | None => false end.

(* ---- the walk ---- *)
(* PathBuf::push / Path::join with a relative name *)
Definition join (root name : bytes) : bytes :=
  match rev root with
  | [] => name
  | x :: _ => if N.eqb x slash then root ++ name else root ++ slash :: name
  end.

Definition joins (root : bytes) (names : list bytes) : bytes := fold_left join names root.

(* entries yielded at and below a non-root entry `n` found at `path`: children named ".zinoma" are pruned whatever
   their type, symlinks are yielded but never entered *)
Fixpoint walk_node (n : node) (path : bytes) {struct n} : list bytes :=
  path :: match n with
          | Dir es => flat_map (fun e => let '(nm, c) := e in
                                         if beq nm zinoma_name then [] else walk_node c (join path nm)) es
          | _ => []
          end.

Definition walk_entries (es : list (bytes * node)) (path : bytes) : list bytes :=
  flat_map (fun e => let '(nm, c) := e in
                     if beq nm zinoma_name then [] else walk_node c (join path nm)) es.

(* walkdir's DirEntry::file_name of the root entry: Path::file_name, else the whole path *)
Definition root_is_work_dir (root : bytes) : bool :=
  match file_name root with
  | Some n => beq n zinoma_name
  | None => beq root zinoma_name
  end.

(* WalkDir::new(root).into_iter().filter_entry(|e| !is_work_dir(e)), errors dropped.
   The root is lstat'ed; a root that is a symlink is followed (only the root); a root symlink named ".zinoma" is not
   yielded itself but - not being a directory entry - does not stop the descent (walkdir's FilterEntry only skips
   entries whose own type is directory). *)
Definition walk (t : node) (root : bytes) : list bytes :=
  match lstat t root with
  | None => []
  | Some (q, k) =>
      let pruned := root_is_work_dir root in
      match k with
      | KDir => if pruned then [] else
                match get t q with Some n => walk_node n root | None => [] end
      | KFile _ _ => if pruned then [] else [root]
      | KLink _ =>
          (if pruned then [] else [root]) ++
          match stat t root with
          | Some (q', KDir) => match get t q' with Some (Dir es) => walk_entries es root | _ => [] end
          | _ => []
          end
      end
  end.

(* fs.rs list_files_in_path / list_files_in_paths / list_files_in_resources (as lists; the code collects into a HashSet) *)
Definition listing_path (t : node) (exts : option (list bytes)) (root : bytes) : list bytes :=
  filter (fun p => is_file t p && matches_extensions exts p) (walk t root).

Definition listing_paths (t : node) (exts : option (list bytes)) (paths : list bytes) : list bytes :=
  flat_map (listing_path t exts) paths.

Definition listing (t : node) (r : files_resource) : list bytes :=
  listing_paths t (fr_exts r) (fr_paths r).

Definition listing_resources (t : node) (rs : list files_resource) : list bytes :=
  flat_map (listing t) rs.

(* PathBuf equality/hash is by components: "a//b", "a/./b", "a/b/" are one element of the HashSet *)
Definition path_key (p : bytes) : bool * list bytes := (starts_with p [slash], components p).

Fixpoint lbeq (a b : list bytes) : bool :=
  match a, b with
  | [], [] => true
  | x :: a', y :: b' => beq x y && lbeq a' b'
  | _, _ => false
  end.

Definition key_eqb (a b : bool * list bytes) : bool := Bool.eqb (fst a) (fst b) && lbeq (snd a) (snd b).

Fixpoint dedup_paths (seen : list (bool * list bytes)) (l : list bytes) : list bytes :=
  match l with
  | [] => []
  | p :: r => let k := path_key p in
              if existsb (key_eqb k) seen then dedup_paths seen r else p :: dedup_paths (k :: seen) r
  end.

Definition listing_set (t : node) (r : files_resource) : list bytes := dedup_paths [] (listing t r).
Definition listing_resources_set (t : node) (rs : list files_resource) : list bytes :=
  dedup_paths [] (listing_resources t rs).

(* ---- mutation ---- *)
Fixpoint remove_entries (es : list (bytes * node)) (nm : bytes) : list (bytes * node) :=
  match es with
  | [] => []
  | (n, c) :: r => if beq n nm then remove_entries r nm else (n, c) :: remove_entries r nm
  end.

(* apply g to the first entry named nm *)
Fixpoint map_entry (es : list (bytes * node)) (nm : bytes) (g : node -> node) : list (bytes * node) :=
  match es with
  | [] => []
  | (n, c) :: r => if beq n nm then (n, g c) :: r else (n, c) :: map_entry r nm g
  end.

(* apply g to the node at physical location q (nothing happens when there is none) *)
Fixpoint update_at (g : node -> node) (t : node) (q : phys) {struct q} : node :=
  match q with
  | [] => g t
  | nm :: r => match t with
               | Dir es => Dir (map_entry es nm (fun c => update_at g c r))
               | _ => t
               end
  end.

(* remove the entry `l` of the directory at q *)
Definition remove_child (t : node) (q : phys) (l : bytes) : node :=
  update_at (fun n => match n with Dir es => Dir (remove_entries es l) | _ => n end) t q.

Definition empty_dir_at (t : node) (q : phys) : node :=
  update_at (fun n => match n with Dir _ => Dir [] | _ => n end) t q.

(* ---- unlink(2), rmdir(2), std::fs::remove_dir_all ---- *)
(* remove the directory entry at physical location e (the root has no entry) *)
Definition remove_entry (t : node) (e : phys) : node :=
  match rev e with
  | [] => t
  | l :: rq => remove_child t (rev rq) l
  end.

Inductive ures := UDone (t : node) | UNoEnt | UFail.

(* unlink(2): the entry the path names, a final symlink not being followed (= the resolution of lstat); directories
   (also "x/", "x/.", "x/..") are refused: EISDIR / ENOTDIR *)
Definition unlink (t : node) (p : bytes) : ures :=
  match resolve t p false with
  | RNoEnt => UNoEnt
  | RFail => UFail
  | RFound e => match kind_at t e with
                | Some KDir => UFail
                | Some _ => UDone (remove_entry t e)
                | None => UNoEnt
                end
  end.

Definition last_seg (p : bytes) : option bytes :=
  match rev (segs p) with l :: _ => Some l | [] => None end.

(* rmdir(2): the last segment is looked up without following a symlink, whatever the trailing slashes;
   a last segment "." is EINVAL, ".." is ENOTEMPTY, a symlink or a file ENOTDIR, "/" EBUSY *)
Definition rmdir (t : node) (p : bytes) : ures :=
  match last_seg p with
  | None => UFail
  | Some l =>
      match resolve_comps max_links t [] (segs p) false with
      | RNoEnt => UNoEnt
      | RFail => UFail
      | RFound e =>
          if beq l dot1 || beq l dotdot then UFail
          else match get t e with
               | Some (Dir []) => UDone (remove_entry t e)
               | Some _ => UFail
               | None => UNoEnt
               end
      end
  end.

(* std::fs::remove_dir_all (unix, openat/unlinkat implementation): lstat; a symlink is unlinked; otherwise the
   directory is opened (O_NOFOLLOW|O_DIRECTORY - a trailing slash makes the kernel follow a final symlink), emptied
   without following any link, and removed with unlinkat(AT_REMOVEDIR) whose ENOENT is ignored. *)
Definition remove_dir_all (t : node) (p : bytes) : ures :=
  match resolve t p false with
  | RNoEnt => UNoEnt
  | RFail => UFail
  | RFound q =>
      match kind_at t q with
      | Some (KLink _) => unlink t p
      | Some KDir =>
          let t1 := empty_dir_at t q in
          match q with
          | [] => UDone t1            (* the model root stands for a scratch directory: emptied, the root node stays *)
          | _ => match rmdir t1 p with
                 | UDone t2 => UDone t2
                 | UNoEnt => UDone t1
                 | UFail => UFail
                 end
          end
      | _ => UFail                                               (* ENOTDIR *)
      end
  end.

(* what remove_dir_all leaves behind when it fails after having emptied the directory *)
Definition remove_dir_all_tree (t : node) (p : bytes) : node :=
  match remove_dir_all t p with
  | UDone t' => t'
  | _ => match resolve t p false with
         | RFound q => match kind_at t q with Some KDir => empty_dir_at t q | _ => t end
         | _ => t
         end
  end.

(* ---- clean.rs ---- *)
(* Path::components().collect::<PathBuf>() : drops empty and "." pieces and trailing slashes, keeps ".." *)
Fixpoint intercalate (l : list bytes) : bytes :=
  match l with
  | [] => []
  | [c] => c
  | c :: r => c ++ slash :: intercalate r
  end.

Definition normalise (p : bytes) : bytes :=
  if starts_with p [slash] then slash :: intercalate (components p) else intercalate (components p).

(* clean_path as of the pinned commit (no normalisation of the declared path) *)
Definition clean_path_pinned (t : node) (p : bytes) : node * bool :=
  if exists_ t p then
    if is_file t p then
      match unlink t p with UDone t' => (t', true) | _ => (t, false) end
    else if is_dir t p then
      match remove_dir_all t p with UDone t' => (t', true) | _ => (remove_dir_all_tree t p, false) end
    else (t, true)
  else (t, true).

(* clean_path after the repair: the declared path is taken by its components, so that a declared symlink is removed
   as a link whatever its spelling ("out/", "out/.") *)
Definition clean_path (t : node) (p : bytes) : node * bool := clean_path_pinned t (normalise p).

Fixpoint fold_ok {A} (f : node -> A -> node * bool) (t : node) (l : list A) : node * bool :=
  match l with
  | [] => (t, true)
  | x :: r => let '(t', ok) := f t x in if ok then fold_ok f t' r else (t', false)
  end.

(* remove_file of one listed file; after the repair NotFound is not an error *)
Definition remove_listed (strict : bool) (t : node) (p : bytes) : node * bool :=
  match unlink t p with
  | UDone t' => (t', true)
  | UNoEnt => (t, negb strict)
  | UFail => (t, false)
  end.

Definition clean_resource_gen (pinned : bool) (t : node) (r : files_resource) : node * bool :=
  match fr_exts r with
  | Some _ => fold_ok (remove_listed pinned) t (listing_set t r)
  | None => fold_ok (if pinned then clean_path_pinned else clean_path) t (fr_paths r)
  end.

Definition clean_resource := clean_resource_gen false.

(* clean_target_output_paths: only build targets have outputs *)
Definition clean_outputs_gen (pinned : bool) (t : node) (tg : rtarget) : node * bool :=
  match rt_kind tg with
  | TBuild => fold_ok (clean_resource_gen pinned) t (r_files (rt_output tg))
  | _ => (t, true)
  end.

Definition clean_outputs := clean_outputs_gen false.

(* ---- work_dir.rs, storage.rs ---- *)
Definition checksums_suffix : bytes := [46; 99; 104; 101; 99; 107; 115; 117; 109; 115].   (* ".checksums" *)

Definition work_dir_path (project_dir : bytes) : bytes := join project_dir zinoma_name.

Definition state_path (tg : rtarget) : bytes :=
  join (work_dir_path (rt_dir tg)) (display (rt_id tg) ++ checksums_suffix).

Definition remove_work_dir (t : node) (project_dir : bytes) : node * bool :=
  match remove_dir_all t (work_dir_path project_dir) with
  | UDone t' => (t', true)
  | UNoEnt => (t, true)
  | UFail => (remove_dir_all_tree t (work_dir_path project_dir), false)
  end.

Definition delete_state (t : node) (tg : rtarget) : node * bool :=
  let p := state_path tg in
  if exists_ t p then match unlink t p with UDone t' => (t', true) | _ => (t, false) end
  else (t, true).

(* ---- main.rs, the clean phase ----
   `targets`: the resolved targets in the order in which the HashMap is iterated (the same order both times);
   `dirs`: every loaded project directory, in the order of the loader's HashMap;
   `requested`: targets were named on the command line. *)
Definition clean_phase_gen (pinned : bool) (t : node) (targets : list rtarget) (dirs : list bytes) (requested : bool)
  : node * bool :=
  let '(t1, ok) := if requested then fold_ok delete_state t targets else fold_ok remove_work_dir t dirs in
  if ok then fold_ok (clean_outputs_gen pinned) t1 targets else (t1, false).

Definition clean_phase := clean_phase_gen false.
