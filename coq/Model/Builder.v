(* engine/builder.rs build_target: what a run of a build script is reported as.
   The script is run by `/bin/sh -ce <script>` in the project directory (run_script.rs); the shell and the script are runtime.
   Definitions only. *)
From Coq Require Export List NArith Bool.
Export ListNotations.

(* how the child process ended (std::process::ExitStatus on Unix) *)
Inductive wait_status := WExited (code : N) | WSignaled (sig : N).

Inductive report :=
| RepCompleted      (* Ok(Completed): incremental::run records the state; the actor acknowledges *)
| RepCancelled      (* Ok(Cancelled): the cancellation message won the select; the child was killed and reaped *)
| RepFailed.        (* Err: spawn failure, wait failure, or `!exit_status.success()` *)

(* ExitStatus::success(): exited with code 0 — a death by signal has no code and is not a success *)
Definition success (st : wait_status) : bool :=
  match st with WExited c => N.eqb c 0 | WSignaled _ => false end.

(* spawn_ok: Command::spawn succeeded; cancelled_first: the cancellation arm of the select! fired before the child's status *)
Definition build_report (spawn_ok cancelled_first : bool) (st : wait_status) : report :=
  if negb spawn_ok then RepFailed
  else if cancelled_first then RepCancelled
  else if success st then RepCompleted else RepFailed.
