(* async_utils.rs: `both` and `all` combine the verdicts of concurrently evaluated checks (incremental: files state and command
   outputs, one future per path / command).  The futures complete in an unspecified order; `all` stops at the first `false`.
   results = the verdicts in the order the futures COMPLETE.  Definitions only. *)
From Coq Require Export List Bool.
Export ListNotations.

Definition both (a b : bool) : bool := a && b.

(* buffer_unordered + early return: scans the verdicts in completion order, false at the first false *)
Fixpoint all_results (results : list bool) : bool :=
  match results with
  | [] => true
  | r :: rest => if r then all_results rest else false
  end.
