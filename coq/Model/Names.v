(* Target identifiers and names.
   Sources: domain.rs `TargetId::{try_parse, try_parse_many}`, `Display for TargetId`;
            config/yaml/mod.rs `is_valid_target_name` / `is_valid_project_name` (regex: one word character, then
            word characters or hyphens); config/ir.rs the `.output` reference regex (optional `project::` prefix,
            then a name, then the literal `.output`).
   Names are byte strings. The regex class of word characters is modelled on bytes: ASCII letters, digits, underscore and every byte >= 128
   (UTF-8 encoded letters); non-ASCII characters that are not Unicode word characters are outside the modelled
   alphabet (trusted to the regex crate, see DESIGN.md §3). Definitions only. *)
From Zinoma.Model Require Export Bytes Cfg.

Definition colon : N := 58.
Definition hyphen : N := 45.
Definition underscore : N := 95.

Definition is_word (b : N) : bool :=
  ((48 <=? b) && (b <=? 57)) || ((65 <=? b) && (b <=? 90)) || ((97 <=? b) && (b <=? 122))
  || (b =? underscore) || (128 <=? b).

(* a word character followed by word characters or hyphens *)
Definition valid_name (s : bytes) : bool :=
  match s with
  | [] => false
  | x :: r => is_word x && forallb (fun b => is_word b || (b =? hyphen)) r
  end.

(* str::split("::") : non-overlapping occurrences scanned left to right; "a:::b" -> ["a"; ":b"].
   `skip` = the current byte is the second colon of a separator just consumed. *)
Definition cons_head {A} (x : A) (l : list (list A)) : list (list A) :=
  match l with [] => [[x]] | c :: cs => (x :: c) :: cs end.

Fixpoint split_cc_aux (skip : bool) (s : bytes) : list bytes :=
  match s with
  | [] => [[]]
  | x :: s' =>
      if skip then split_cc_aux false s'
      else match s' with
           | y :: _ => if (x =? colon) && (y =? colon) then [] :: split_cc_aux true s'
                       else cons_head x (split_cc_aux false s')
           | [] => [[x]]
           end
  end.

Definition split_cc (s : bytes) : list bytes := split_cc_aux false s.

(* TargetId::try_parse *)
Definition try_parse (s : bytes) (current_project : option bytes) : option target_id :=
  match split_cc s with
  | [p; t] => Some {| t_project := Some p; t_name := t |}
  | [t] => Some {| t_project := current_project; t_name := t |}
  | _ => None
  end.

(* try_parse_many: all or nothing *)
Fixpoint try_parse_many (l : list bytes) (current_project : option bytes) : option (list target_id) :=
  match l with
  | [] => Some []
  | s :: r =>
      match try_parse s current_project, try_parse_many r current_project with
      | Some t, Some ts => Some (t :: ts)
      | _, _ => None
      end
  end.

(* Display for TargetId *)
Definition display (t : target_id) : bytes :=
  match t_project t with
  | Some p => p ++ [colon; colon] ++ t_name t
  | None => t_name t
  end.

Definition dot_output : bytes := [46; 111; 117; 116; 112; 117; 116].     (* ".output" *)

(* the `.output` reference regex of ir.rs: Some <the captured group 1> *)
Definition strip_suffix (s suf : bytes) : option bytes :=
  if ends_with s suf then Some (firstn (length s - length suf) s) else None.

Definition valid_ref (s : bytes) : bool :=
  match split_cc s with
  | [p; t] => valid_name p && valid_name t
  | [t] => valid_name t
  | _ => false
  end.

Definition parse_output_ref (s : bytes) : option bytes :=
  match strip_suffix s dot_output with
  | Some r => if valid_ref r then Some r else None
  | None => None
  end.
