(* Byte strings as lists of N (each < 256 by convention): file names, paths, target names.
   Executable definitions only; proofs are in Proofs/Bytes.v. *)
From Coq Require Export List NArith Bool.
Export ListNotations.
Open Scope N_scope.

Definition bytes := list N.

Fixpoint beq (a b : bytes) : bool :=
  match a, b with
  | [], [] => true
  | x :: a', y :: b' => N.eqb x y && beq a' b'
  | _, _ => false
  end.

Fixpoint starts_with (s pre : bytes) {struct pre} : bool :=
  match pre, s with
  | [], _ => true
  | p :: pre', x :: s' => N.eqb p x && starts_with s' pre'
  | _ :: _, [] => false
  end.

Definition ends_with (s suf : bytes) : bool := starts_with (rev s) (rev suf).

(* split on a separator byte: "a//b" -> ["a"; ""; "b"];  "" -> [""] *)
Fixpoint split_on (sep : N) (s : bytes) : list bytes :=
  match s with
  | [] => [[]]
  | x :: s' =>
      if N.eqb x sep then [] :: split_on sep s'
      else match split_on sep s' with
           | [] => [[x]]            (* unreachable: split_on never returns [] *)
           | c :: cs => (x :: c) :: cs
           end
  end.

Definition slash : N := 47.
Definition dot : N := 46.
Definition tilde : N := 126.

Definition is_nil {A} (l : list A) : bool := match l with [] => true | _ => false end.

(* std::path::Path::components() on Unix, restricted to what the code looks at: the Normal and
   ParentDir components ("" and "." pieces never surface, except a leading "." which is CurDir and
   is not Normal either). *)
Definition components (p : bytes) : list bytes :=
  filter (fun c => negb (is_nil c) && negb (beq c [dot])) (split_on slash p).

Definition dotdot : bytes := [dot; dot].

(* Path::file_name(): the last component when it is Normal *)
Definition file_name (p : bytes) : option bytes :=
  match rev (components p) with
  | [] => None
  | c :: _ => if beq c dotdot then None else Some c
  end.
