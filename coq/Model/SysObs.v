(* Read-only accessors of the system state for the correspondence runner (runner/drv_evflow.ml replays whole recorded runs of
   the real engine through Sys.exec). Definitions only. *)
From Zinoma.Model Require Export Sys.

Definition inbox_of (s : sys) (t : tid) : list msg := default [] (inbox s !! t).
Definition actor_of (s : sys) (t : tid) : option astate := actors s !! t.
Definition in_termq (s : sys) (t : tid) : bool := bool_decide (t ∈ termq s).
Definition in_slot (s : sys) (t : tid) : bool := bool_decide (t ∈ slot s).
Definition rootq_of (s : sys) : list out := rootq s.
Definition phase_of (s : sys) : phase := ph s.
Definition hist_of (s : sys) : list obs := hist s.
