(* The three target actors as deterministic step functions.
   Sources: engine/target_actor/{mod,target_actor_helper,build_target_actor,service_target_actor,
   aggregate_target_actor}.rs.  One call of [actor_step] = the body of one iteration of the actor's loop:
   handle the event chosen by `select!`, then evaluate the start condition at the top of the next iteration.
   Definitions only (std++ style); proofs are in Proofs/Actor*.v. *)
From stdpp Require Export gmap.

Definition tid := N.

Inductive kind := KB | KS.                                 (* ExecutionKind::{Build, Service} *)
Inductive aid := ARoot | ATarget (t : tid).                (* ActorId *)
Inductive akind := ABuild | AService | AAggregate.         (* which Target variant the actor runs *)

Inductive msg :=                                           (* ActorInputMessage *)
| MRequested (k : kind) (r : aid)
| MUnrequested (k : kind) (r : aid)
| MOk (k : kind) (t : tid) (actual : bool)
| MInvalidated (k : kind) (t : tid).

Inductive out :=                                           (* TargetActorOutputMessage *)
| OMsg (dest : aid) (m : msg)
| OErr (t : tid).

Global Instance kind_eq_dec : EqDecision kind.
Proof. solve_decision. Defined.
Global Instance aid_eq_dec : EqDecision aid.
Proof. solve_decision. Defined.
Global Instance akind_eq_dec : EqDecision akind.
Proof. solve_decision. Defined.
Global Instance msg_eq_dec : EqDecision msg.
Proof. solve_decision. Defined.
Global Instance out_eq_dec : EqDecision out.
Proof. solve_decision. Defined.

Global Instance kind_countable : Countable kind.
Proof.
  refine (inj_countable' (fun k => match k with KB => true | KS => false end)
                         (fun b => if b then KB else KS) _).
  intros []; reflexivity.
Defined.

Global Instance aid_countable : Countable aid.
Proof.
  refine (inj_countable' (fun a => match a with ARoot => None | ATarget t => Some t end)
                         (fun o => match o with None => ARoot | Some t => ATarget t end) _).
  intros []; reflexivity.
Defined.

(* outcome of the future set by the build actor: incremental::run around builder::build_target *)
Inductive bres := RCompleted | RSkipped | RFailed | RCancelled.

Inductive event :=
| EMsg (m : msg)             (* target_actor_input_receiver *)
| EInval                     (* target_invalidated_events (watcher) *)
| ETerm                      (* termination_events *)
| EBuildDone (r : bres).     (* ongoing_build_fuse, build actors only *)

(* ghost observations, appended to the system history *)
Inductive obs :=
| ObStart (t : tid)          (* build: set_execution_started; service: restart_service reached the spawn *)
| ObSucc (t : tid)           (* build future returned Completed or Skipped; service process spawned *)
| ObFail (t : tid)           (* build future returned Err; service spawn failed *)
| ObStop (t : tid)           (* a running service process was killed and reaped *)
| ObCancel (t : tid)         (* build future returned Cancelled (its process was killed and reaped) *)
| ObExit (t : tid).          (* the actor task ended *)

Global Instance obs_eq_dec : EqDecision obs.
Proof. solve_decision. Defined.

Record astate := {
  a_id : tid;
  a_kind : akind;
  a_deps : list tid;          (* metadata.dependencies: a Vec, duplicates possible *)
  to_execute : bool;
  executed : bool;
  unavB : gset tid;           (* unavailable_dependencies[Build] *)
  unavS : gset tid;           (* unavailable_dependencies[Service] *)
  reqB : gset aid;            (* requesters[Build] *)
  reqS : gset aid;            (* requesters[Service] *)
  ongoing : bool;             (* build: ongoing_build_cancellation_sender.is_some() *)
  cancel_sent : bool;         (* build: the capacity-1 cancellation channel holds a message *)
  term_recv : bool;           (* build: termination_event_received *)
  exited : bool;              (* the loop was left *)
  running : bool;             (* service: service_process.is_some() *)
  actB : gset tid;            (* aggregate: dependencies[Build] (those acknowledged with actual = true) *)
  actS : gset tid             (* aggregate: dependencies[Service] *)
}.

Definition init_actor (t : tid) (k : akind) (deps : list tid) : astate := {|
  a_id := t; a_kind := k; a_deps := deps;
  to_execute := true; executed := false;
  unavB := list_to_set deps; unavS := list_to_set deps;
  reqB := ∅; reqS := ∅;
  ongoing := false; cancel_sent := false; term_recv := false; exited := false; running := false;
  actB := ∅; actS := ∅
|}.

Definition unav (a : astate) (k : kind) : gset tid := match k with KB => unavB a | KS => unavS a end.
Definition reqs (a : astate) (k : kind) : gset aid := match k with KB => reqB a | KS => reqS a end.
Definition acts (a : astate) (k : kind) : gset tid := match k with KB => actB a | KS => actS a end.

Definition set_unav (a : astate) (k : kind) (s : gset tid) : astate :=
  match k with
  | KB => {| a_id := a_id a; a_kind := a_kind a; a_deps := a_deps a; to_execute := to_execute a; executed := executed a;
             unavB := s; unavS := unavS a; reqB := reqB a; reqS := reqS a; ongoing := ongoing a;
             cancel_sent := cancel_sent a; term_recv := term_recv a; exited := exited a; running := running a;
             actB := actB a; actS := actS a |}
  | KS => {| a_id := a_id a; a_kind := a_kind a; a_deps := a_deps a; to_execute := to_execute a; executed := executed a;
             unavB := unavB a; unavS := s; reqB := reqB a; reqS := reqS a; ongoing := ongoing a;
             cancel_sent := cancel_sent a; term_recv := term_recv a; exited := exited a; running := running a;
             actB := actB a; actS := actS a |}
  end.

Definition set_reqs (a : astate) (k : kind) (s : gset aid) : astate :=
  match k with
  | KB => {| a_id := a_id a; a_kind := a_kind a; a_deps := a_deps a; to_execute := to_execute a; executed := executed a;
             unavB := unavB a; unavS := unavS a; reqB := s; reqS := reqS a; ongoing := ongoing a;
             cancel_sent := cancel_sent a; term_recv := term_recv a; exited := exited a; running := running a;
             actB := actB a; actS := actS a |}
  | KS => {| a_id := a_id a; a_kind := a_kind a; a_deps := a_deps a; to_execute := to_execute a; executed := executed a;
             unavB := unavB a; unavS := unavS a; reqB := reqB a; reqS := s; ongoing := ongoing a;
             cancel_sent := cancel_sent a; term_recv := term_recv a; exited := exited a; running := running a;
             actB := actB a; actS := actS a |}
  end.

Definition set_acts (a : astate) (k : kind) (s : gset tid) : astate :=
  match k with
  | KB => {| a_id := a_id a; a_kind := a_kind a; a_deps := a_deps a; to_execute := to_execute a; executed := executed a;
             unavB := unavB a; unavS := unavS a; reqB := reqB a; reqS := reqS a; ongoing := ongoing a;
             cancel_sent := cancel_sent a; term_recv := term_recv a; exited := exited a; running := running a;
             actB := s; actS := actS a |}
  | KS => {| a_id := a_id a; a_kind := a_kind a; a_deps := a_deps a; to_execute := to_execute a; executed := executed a;
             unavB := unavB a; unavS := unavS a; reqB := reqB a; reqS := reqS a; ongoing := ongoing a;
             cancel_sent := cancel_sent a; term_recv := term_recv a; exited := exited a; running := running a;
             actB := actB a; actS := s |}
  end.

(* flags: (to_execute, executed) *)
Definition set_flags (a : astate) (te ex : bool) : astate :=
  {| a_id := a_id a; a_kind := a_kind a; a_deps := a_deps a; to_execute := te; executed := ex;
     unavB := unavB a; unavS := unavS a; reqB := reqB a; reqS := reqS a; ongoing := ongoing a;
     cancel_sent := cancel_sent a; term_recv := term_recv a; exited := exited a; running := running a;
     actB := actB a; actS := actS a |}.

(* process/loop flags: (ongoing, cancel_sent, term_recv, exited, running) *)
Definition set_proc (a : astate) (og cs tr ex rn : bool) : astate :=
  {| a_id := a_id a; a_kind := a_kind a; a_deps := a_deps a; to_execute := to_execute a; executed := executed a;
     unavB := unavB a; unavS := unavS a; reqB := reqB a; reqS := reqS a; ongoing := og;
     cancel_sent := cs; term_recv := tr; exited := ex; running := rn;
     actB := actB a; actS := actS a |}.

Definition set_empty {A} `{Countable A} (s : gset A) : bool := bool_decide (s = ∅).

(* TargetActorHelper::should_execute *)
Definition should_execute (a : astate) (k : kind) : bool :=
  to_execute a && negb (set_empty (reqs a k)) && set_empty (unavB a) && set_empty (unavS a).

(* send helpers; a HashSet is iterated in an unspecified order: the system model delivers per destination,
   so the order inside these lists is immaterial (each destination occurs once in a requester set) *)
Definition send_to_requesters (a : astate) (k : kind) (m : msg) : list out :=
  (fun r => OMsg r m) <$> elements (reqs a k).
Definition send_to_deps (a : astate) (m : msg) : list out :=
  (fun d => OMsg (ATarget d) m) <$> a_deps a.
Definition request_deps (a : astate) (k : kind) : list out :=
  send_to_deps a (MRequested k (ATarget (a_id a))).
Definition unrequest_deps (a : astate) (k : kind) : list out :=
  send_to_deps a (MUnrequested k (ATarget (a_id a))).

(* notify_invalidated *)
Definition notify_invalidated (a : astate) (k : kind) : astate * list out :=
  if to_execute a then (a, [])
  else (set_flags a true false, send_to_requesters a k (MInvalidated k (a_id a))).

(* notify_success *)
Definition notify_success (a : astate) (k : kind) : astate * list out :=
  let ex := negb (to_execute a) in
  (set_flags a (to_execute a) ex,
   if ex then send_to_requesters a k (MOk k (a_id a) true) else []).

(* handle_unrequested: (new state, was_last_requester) *)
Definition handle_unrequested (a : astate) (k : kind) (r : aid) : astate * bool :=
  let removed := bool_decide (r ∈ reqs a k) in
  let s := reqs a k ∖ {[r]} in
  (set_reqs a k s, removed && set_empty s).

(* ---- build actor ---- *)

(* the `select!` arm for an input message; [late_ack] = the repair FX1 (acknowledge a requester that
   registers after completion); the pinned code is [late_ack := false] *)
Definition build_handle_msg (late_ack : bool) (a : astate) (m : msg) : astate * list out :=
  match m with
  | MOk k d _ => (set_unav a k (unav a k ∖ {[d]}), [])
  | MInvalidated k d =>
      let a1 := set_unav a k (unav a k ∪ {[d]}) in
      match k with
      | KB => notify_invalidated a1 KB
      | KS => (a1, [])
      end
  | MRequested KB r =>
      let inserted := negb (bool_decide (r ∈ reqB a)) in
      let a1 := set_reqs a KB (reqB a ∪ {[r]}) in
      let o1 := if inserted && bool_decide (size (reqB a1) = 1)
                then request_deps a1 KB ++ request_deps a1 KS else [] in
      let o2 := if late_ack && inserted && executed a then [OMsg r (MOk KB (a_id a) true)] else [] in
      (a1, o1 ++ o2)
  | MRequested KS r => (a, [OMsg r (MOk KS (a_id a) false)])
  | MUnrequested k r =>
      let '(a1, last) := handle_unrequested a k r in
      (a1, if last && bool_decide (k = KB) then unrequest_deps a1 KB ++ unrequest_deps a1 KS else [])
  end.

(* top of the loop: start a build when due *)
Definition build_top (a : astate) : astate * list obs :=
  if should_execute a KB && negb (ongoing a)
  then (set_proc (set_flags a false false) true false (term_recv a) (exited a) (running a), [ObStart (a_id a)])
  else (a, []).

Definition build_step (late_ack : bool) (a : astate) (e : event) : option (astate * list out * list obs) :=
  if exited a then None else
  match e with
  | ETerm =>
      if ongoing a
      then Some (set_proc a true true true false (running a), [], [])       (* try_send cancellation; keep looping *)
      else Some (set_proc a false (cancel_sent a) true true (running a), [], [ObExit (a_id a)])   (* break *)
  | EInval =>
      let '(a1, o) := notify_invalidated a KB in
      let '(a2, ob) := build_top a1 in Some (a2, o, ob)
  | EMsg m =>
      let '(a1, o) := build_handle_msg late_ack a m in
      let '(a2, ob) := build_top a1 in Some (a2, o, ob)
  | EBuildDone r =>
      if negb (ongoing a) then None else
      let a0 := set_proc a false false (term_recv a) (exited a) (running a) in
      let '(a1, o, ob) :=
        match r with
        | RFailed => (set_flags a0 (to_execute a0) false, [OErr (a_id a)], [ObFail (a_id a)])
        | RCompleted | RSkipped => let '(a1, o) := notify_success a0 KB in (a1, o, [ObSucc (a_id a)])
        | RCancelled => (a0, [], [ObCancel (a_id a)])
        end in
      if term_recv a1
      then Some (set_proc a1 false false true true (running a1), o, ob ++ [ObExit (a_id a)])
      else let '(a2, ob2) := build_top a1 in Some (a2, o, ob ++ ob2)
  end.

(* ---- service actor ---- *)

Definition service_handle_msg (late_ack : bool) (a : astate) (m : msg) : astate * list out * list obs :=
  match m with
  | MOk k d _ => (set_unav a k (unav a k ∖ {[d]}), [], [])
  | MInvalidated k d =>
      let a1 := set_unav a k (unav a k ∪ {[d]}) in
      let '(a2, o) := notify_invalidated a1 KS in (a2, o, [])
  | MRequested KB r => (a, [OMsg r (MOk KB (a_id a) false)], [])
  | MRequested KS r =>
      let inserted := negb (bool_decide (r ∈ reqS a)) in
      let a1 := set_reqs a KS (reqS a ∪ {[r]}) in
      let o1 := if inserted && bool_decide (size (reqS a1) = 1)
                then request_deps a1 KB ++ request_deps a1 KS else [] in
      let o2 := if late_ack && inserted && executed a then [OMsg r (MOk KS (a_id a) true)] else [] in
      (a1, o1 ++ o2, [])
  | MUnrequested k r =>
      let '(a1, last) := handle_unrequested a k r in
      if last && bool_decide (k = KS)
      then (set_proc a1 (ongoing a1) (cancel_sent a1) (term_recv a1) (exited a1) false,
            unrequest_deps a1 KB ++ unrequest_deps a1 KS,
            if running a1 then [ObStop (a_id a)] else [])
      else (a1, [], [])
  end.

(* top of the loop: (re)start the service when due; [spawn_ok] = whether Command::spawn succeeds *)
Definition service_top (spawn_ok : bool) (a : astate) : astate * list out * list obs :=
  if should_execute a KS then
    let a1 := set_flags a false false in
    let stop := if running a1 then [ObStop (a_id a)] else [] in
    if spawn_ok then
      let a2 := set_proc a1 (ongoing a1) (cancel_sent a1) (term_recv a1) (exited a1) true in
      let '(a3, o) := notify_success a2 KS in
      (a3, o, stop ++ [ObStart (a_id a); ObSucc (a_id a)])
    else
      let a2 := set_proc a1 (ongoing a1) (cancel_sent a1) (term_recv a1) (exited a1) false in
      (set_flags a2 (to_execute a2) false, [OErr (a_id a)], stop ++ [ObStart (a_id a); ObFail (a_id a)])
  else (a, [], []).

Definition service_step (late_ack spawn_ok : bool) (a : astate) (e : event) : option (astate * list out * list obs) :=
  if exited a then None else
  match e with
  | ETerm =>
      Some (set_proc a (ongoing a) (cancel_sent a) true true false, [],
            (if running a then [ObStop (a_id a)] else []) ++ [ObExit (a_id a)])
  | EInval =>
      let '(a1, o) := notify_invalidated a KS in
      let '(a2, o2, ob) := service_top spawn_ok a1 in Some (a2, o ++ o2, ob)
  | EMsg m =>
      let '(a1, o, ob) := service_handle_msg late_ack a m in
      let '(a2, o2, ob2) := service_top spawn_ok a1 in Some (a2, o ++ o2, ob ++ ob2)
  | EBuildDone _ => None
  end.

(* ---- aggregate actor ---- *)

Definition aggregate_handle_msg (a : astate) (m : msg) : astate * list out :=
  match m with
  | MOk k d actual =>
      let removed := bool_decide (d ∈ unav a k) in
      let a1 := set_unav a k (unav a k ∖ {[d]}) in
      let a2 := if actual then set_acts a1 k (acts a1 k ∪ {[d]}) else a1 in
      (a2, if removed && set_empty (unav a2 k)
           then send_to_requesters a2 k (MOk k (a_id a) (negb (set_empty (acts a2 k)))) else [])
  | MInvalidated k d =>
      let inserted := negb (bool_decide (d ∈ unav a k)) in
      let a1 := set_unav a k (unav a k ∪ {[d]}) in
      (a1, if inserted && bool_decide (size (unav a1 k) = 1)
           then send_to_requesters a1 k (MInvalidated k (a_id a)) else [])
  | MRequested k r =>
      let inserted := negb (bool_decide (r ∈ reqs a k)) in
      let a1 := set_reqs a k (reqs a k ∪ {[r]}) in
      if inserted then
        (a1, (if bool_decide (size (reqs a1 k) = 1) then request_deps a1 k else [])
             ++ (if set_empty (unav a1 k)
                 then [OMsg r (MOk k (a_id a) (negb (set_empty (acts a1 k))))] else []))
      else (a1, [])
  | MUnrequested k r =>
      let '(a1, last) := handle_unrequested a k r in
      (a1, if last then unrequest_deps a1 k else [])
  end.

Definition aggregate_step (a : astate) (e : event) : option (astate * list out * list obs) :=
  if exited a then None else
  match e with
  | ETerm => Some (set_proc a (ongoing a) (cancel_sent a) true true (running a), [], [ObExit (a_id a)])
  | EMsg m => let '(a1, o) := aggregate_handle_msg a m in Some (a1, o, [])
  | EInval => None               (* the aggregate loop has no arm for the invalidation channel *)
  | EBuildDone _ => None
  end.

Definition actor_step (late_ack spawn_ok : bool) (a : astate) (e : event) : option (astate * list out * list obs) :=
  match a_kind a with
  | ABuild => build_step late_ack a e
  | AService => service_step late_ack spawn_ok a e
  | AAggregate => aggregate_step a e
  end.
