(* Proofs about the state-file codec (Model/Codec.v), part 1: decoders are prefix-free parsers.
   `Parser d`: whenever d succeeds it has consumed a prefix `used` of its input, the result does not depend on what follows,
   and no strict prefix of `used` decodes. The property is closed under `dbind`, so it is proved once per primitive. *)
From Zinoma.Model Require Import Bytes Codec.
From Coq Require Import Lia.
Local Open Scope nat_scope.

Definition strict_prefix (p b : bytes) : Prop := exists t, t <> [] /\ b = p ++ t.

Definition Parser {A} (d : decoder A) : Prop :=
  forall bs x rest, d bs = Some (x, rest) ->
    exists used, bs = used ++ rest /\
      (forall rest', d (used ++ rest') = Some (x, rest')) /\
      (forall p, strict_prefix p used -> d p = None).

(* every success consumes at least one byte *)
Definition Consumes {A} (d : decoder A) : Prop :=
  forall bs x rest, d bs = Some (x, rest) -> length rest < length bs.

Lemma strict_prefix_nil p : ~ strict_prefix p [].
Proof. intros [t [Ht H]]. destruct p; destruct t; cbn in H; congruence. Qed.

Lemma strict_prefix_length p b : strict_prefix p b -> length p < length b.
Proof. intros [t [Ht ->]]. rewrite app_length. destruct t; [congruence | cbn; lia]. Qed.

(* a strict prefix of a ++ b is a strict prefix of a, or a followed by a strict prefix of b *)
Lemma strict_prefix_app p a b :
  strict_prefix p (a ++ b) -> strict_prefix p a \/ exists p2, p = a ++ p2 /\ strict_prefix p2 b.
Proof.
  revert p. induction a as [|x a IH]; intros p H.
  - right. exists p. split; [reflexivity | exact H].
  - destruct p as [|y p].
    + left. exists (x :: a). split; [discriminate | reflexivity].
    + destruct H as [t [Ht H]]. cbn in H. injection H as <- H.
      destruct (IH p) as [[t' [Ht' ->]] | [p2 [-> Hp2]]].
      * exists t. split; assumption.
      * left. exists t'. split; [assumption | reflexivity].
      * right. exists p2. split; [reflexivity | assumption].
Qed.

Lemma strict_prefix_app_r a p2 b : strict_prefix p2 b -> strict_prefix (a ++ p2) (a ++ b).
Proof. intros [t [Ht ->]]. exists t. split; [assumption | now rewrite app_assoc]. Qed.

Lemma strict_prefix_app_l p a b : strict_prefix p a -> strict_prefix p (a ++ b).
Proof.
  intros [t [Ht ->]]. exists (t ++ b). split; [destruct t; [congruence | discriminate] | now rewrite app_assoc].
Qed.

(* ---- the monad ---- *)
Lemma Parser_ret {A} (a : A) : Parser (dret a).
Proof.
  intros bs x rest H. injection H as <- <-. exists []. split; [reflexivity|]. split; [reflexivity|].
  intros p Hp. now apply strict_prefix_nil in Hp.
Qed.

Lemma Parser_fail {A} : Parser (@dfail A).
Proof. intros bs x rest H. discriminate. Qed.

Lemma Parser_bind {A B} (d : decoder A) (f : A -> decoder B) :
  Parser d -> (forall a, Parser (f a)) -> Parser (dbind d f).
Proof.
  intros Hd Hf bs y rest H. unfold dbind in H.
  destruct (d bs) as [[a r1]|] eqn:E1; [|discriminate].
  destruct (Hd _ _ _ E1) as [u1 [-> [H1a H1b]]].
  destruct (Hf a _ _ _ H) as [u2 [-> [H2a H2b]]].
  exists (u1 ++ u2). split; [now rewrite app_assoc|]. split.
  - intros rest'. unfold dbind. now rewrite <- app_assoc, H1a, H2a.
  - intros p Hp. unfold dbind. apply strict_prefix_app in Hp as [Hp | [p2 [-> Hp2]]].
    + now rewrite (H1b _ Hp).
    + rewrite H1a. now apply H2b.
Qed.

Lemma Parser_nongrowing {A} (d : decoder A) :
  Parser d -> forall bs x rest, d bs = Some (x, rest) -> length rest <= length bs.
Proof. intros Hd bs x rest H. destruct (Hd _ _ _ H) as [u [-> _]]. rewrite app_length. lia. Qed.

Lemma Consumes_bind {A B} (d : decoder A) (f : A -> decoder B) :
  Consumes d -> (forall a, Parser (f a)) -> Consumes (dbind d f).
Proof.
  intros Hd Hf bs y rest H. unfold dbind in H.
  destruct (d bs) as [[a r1]|] eqn:E1; [|discriminate].
  apply Hd in E1. apply (Parser_nongrowing _ (Hf a)) in H. lia.
Qed.

Lemma Parser_ext {A} (d d' : decoder A) : (forall bs, d bs = d' bs) -> Parser d -> Parser d'.
Proof.
  intros He Hd bs x rest H. rewrite <- He in H. destruct (Hd _ _ _ H) as [u [-> [Ha Hb]]].
  exists u. split; [reflexivity|]. split; [intros r; now rewrite <- He | intros p Hp; rewrite <- He; now apply Hb].
Qed.

(* ---- fixed-width fields ---- *)
Lemma take_n_spec n bs h t : take_n n bs = Some (h, t) <-> bs = h ++ t /\ length h = n.
Proof.
  revert bs h t. induction n as [|n IH]; intros bs h t; cbn [take_n].
  - split.
    + intros [= <- <-]. split; reflexivity.
    + intros [-> Hl]. destruct h; [reflexivity | discriminate].
  - destruct bs as [|b r].
    + split; [discriminate|]. intros [H Hl]. destruct h; discriminate.
    + destruct (take_n n r) as [[h' t']|] eqn:E.
      * apply IH in E as [-> Hl]. split.
        -- intros [= <- <-]. split; [reflexivity | cbn; lia].
        -- intros [H Hl']. destruct h as [|b0 h]; [discriminate|]. cbn in H, Hl'. injection H as <- H.
           assert (Hh : length h = length h') by lia.
           assert (h = h' /\ t = t') as [-> ->]; [|reflexivity].
           { clear -H Hh. revert h' H Hh. induction h as [|x h IHh]; intros [|y h'] H Hh; try discriminate.
             - cbn in H. now split.
             - cbn in H. injection H as -> H. injection Hh as Hh. destruct (IHh _ H Hh) as [-> ->]. now split. }
      * split; [discriminate|]. intros [H Hl]. destruct h as [|b0 h]; [discriminate|].
        cbn in H, Hl. injection H as <- ->. injection Hl as Hl.
        assert (take_n n (h ++ t) = Some (h, t)) by (apply IH; now split). congruence.
Qed.

Lemma take_n_app h t : take_n (length h) (h ++ t) = Some (h, t).
Proof. apply take_n_spec. now split. Qed.

Lemma take_n_short n bs : length bs < n -> take_n n bs = None.
Proof.
  intros Hl. destruct (take_n n bs) as [[h t]|] eqn:E; [|reflexivity].
  apply take_n_spec in E as [-> Hh]. rewrite app_length in Hl. lia.
Qed.

Lemma Parser_take_n n : Parser (take_n n).
Proof.
  intros bs h t H. apply take_n_spec in H as [-> Hl]. exists h. split; [reflexivity|]. split.
  - intros rest'. rewrite <- Hl. apply take_n_app.
  - intros p Hp. apply take_n_short. apply strict_prefix_length in Hp. lia.
Qed.

Lemma Parser_fixed n : Parser (dec_fixed n).
Proof.
  apply (Parser_ext (dbind (take_n n) (fun h => dret (le_value h)))).
  - intros bs. unfold dbind, dec_fixed, dret. now destruct (take_n n bs) as [[h t]|].
  - apply Parser_bind; [apply Parser_take_n | intros a; apply Parser_ret].
Qed.

Lemma Consumes_fixed n : n <> O -> Consumes (dec_fixed n).
Proof.
  intros Hn bs x rest H. unfold dec_fixed in H. destruct (take_n n bs) as [[h t]|] eqn:E; [|discriminate].
  injection H as <- <-. apply take_n_spec in E as [-> Hl]. rewrite app_length. lia.
Qed.

Lemma Parser_take_N n : Parser (take_N n).
Proof.
  intros bs h t H. unfold take_N in H.
  destruct (n <=? N.of_nat (length bs))%N eqn:El; [|discriminate].
  apply take_n_spec in H as [-> Hl]. exists h. split; [reflexivity|].
  assert (Hn : n = N.of_nat (length h)) by lia.
  split.
  - intros rest'. unfold take_N. rewrite Hn, app_length, Nat2N.id.
    replace (N.of_nat (length h) <=? N.of_nat (length h + length rest'))%N with true
      by (symmetry; apply N.leb_le; lia).
    apply take_n_app.
  - intros p Hp. unfold take_N. apply strict_prefix_length in Hp.
    replace (n <=? N.of_nat (length p))%N with false; [reflexivity|]. symmetry. apply N.leb_gt. lia.
Qed.

(* ---- composite decoders ---- *)
Lemma Parser_u64 : Parser dec_u64. Proof. apply Parser_fixed. Qed.
Lemma Parser_u32 : Parser dec_u32. Proof. apply Parser_fixed. Qed.
Lemma Parser_u8 : Parser dec_u8. Proof. apply Parser_fixed. Qed.
Lemma Consumes_u64 : Consumes dec_u64. Proof. now apply Consumes_fixed. Qed.
Lemma Consumes_u8 : Consumes dec_u8. Proof. now apply Consumes_fixed. Qed.

Lemma Parser_str : Parser dec_str.
Proof.
  unfold dec_str. apply Parser_bind; [apply Parser_u64|]. intros n.
  apply Parser_bind; [apply Parser_take_N|]. intros s.
  destruct (utf8_ok s); [apply Parser_ret | apply Parser_fail].
Qed.

Lemma Parser_duration : Parser dec_duration.
Proof.
  unfold dec_duration. apply Parser_bind; [apply Parser_u64|]. intros secs.
  apply Parser_bind; [apply Parser_u32|]. intros nanos. cbv zeta.
  destruct (_ <? two64)%N; [apply Parser_ret | apply Parser_fail].
Qed.

Lemma Parser_fentry : Parser dec_fentry.
Proof.
  unfold dec_fentry. apply Parser_bind; [apply Parser_str|]. intros p.
  apply Parser_bind; [apply Parser_duration|]. intros d.
  apply Parser_bind; [apply Parser_u64|]. intros h. apply Parser_ret.
Qed.

Lemma Parser_centry : Parser dec_centry.
Proof.
  unfold dec_centry. apply Parser_bind; [apply Parser_str|]. intros c.
  apply Parser_bind; [apply Parser_str|]. intros d.
  apply Parser_bind; [apply Parser_str|]. intros o. apply Parser_ret.
Qed.

Lemma Consumes_str : Consumes dec_str.
Proof.
  unfold dec_str. apply Consumes_bind; [apply Consumes_u64|]. intros n.
  apply Parser_bind; [apply Parser_take_N|]. intros s.
  destruct (utf8_ok s); [apply Parser_ret | apply Parser_fail].
Qed.

Lemma Consumes_fentry : Consumes dec_fentry.
Proof.
  unfold dec_fentry. apply Consumes_bind; [apply Consumes_str|]. intros p.
  apply Parser_bind; [apply Parser_duration|]. intros d.
  apply Parser_bind; [apply Parser_u64|]. intros h. apply Parser_ret.
Qed.

Lemma Consumes_centry : Consumes dec_centry.
Proof.
  unfold dec_centry. apply Consumes_bind; [apply Consumes_str|]. intros c.
  apply Parser_bind; [apply Parser_str|]. intros d.
  apply Parser_bind; [apply Parser_str|]. intros o. apply Parser_ret.
Qed.

(* ---- sequences: the fuel never runs out ---- *)
Lemma Consumes_nil {A} (d : decoder A) : Consumes d -> d [] = None.
Proof.
  intros Hc. destruct (d []) as [[a r]|] eqn:E; [|reflexivity]. apply Hc in E. cbn in E. lia.
Qed.

(* any two amounts of fuel that cover the input give the same result: `length input` is never exhausted *)
Lemma dec_elems_fuel {A} (d : decoder A) : Consumes d ->
  forall f1 f2 n bs, length bs <= f1 -> length bs <= f2 -> dec_elems d f1 n bs = dec_elems d f2 n bs.
Proof.
  intros Hc. induction f1 as [|f1 IH]; intros f2 n bs H1 H2.
  - destruct bs; [|cbn in H1; lia]. destruct f2; cbn [dec_elems]; [reflexivity|].
    destruct (n =? 0)%N; [reflexivity|]. now rewrite (Consumes_nil _ Hc).
  - destruct f2 as [|f2].
    + destruct bs; [|cbn in H2; lia]. cbn [dec_elems]. destruct (n =? 0)%N; [reflexivity|].
      now rewrite (Consumes_nil _ Hc).
    + cbn [dec_elems]. destruct (n =? 0)%N; [reflexivity|].
      destruct (d bs) as [[a r]|] eqn:E; [|reflexivity]. apply Hc in E.
      rewrite (IH f2 (n - 1)%N r) by lia. reflexivity.
Qed.

Lemma dec_elems_parser {A} (d : decoder A) : Parser d -> Consumes d ->
  forall fuel n bs l rest, dec_elems d fuel n bs = Some (l, rest) ->
    exists used, bs = used ++ rest /\
      (forall rest' fuel', length (used ++ rest') <= fuel' -> dec_elems d fuel' n (used ++ rest') = Some (l, rest')) /\
      (forall p fuel', strict_prefix p used -> dec_elems d fuel' n p = None).
Proof.
  intros Hp Hc. induction fuel as [|fuel IH]; intros n bs l rest H; cbn [dec_elems] in H.
  - destruct (n =? 0)%N eqn:En; [|discriminate]. injection H as <- <-. exists []. split; [reflexivity|]. split.
    + intros rest' fuel' _. cbn [app]. destruct fuel'; cbn [dec_elems]; now rewrite En.
    + intros p fuel' Hsp. now apply strict_prefix_nil in Hsp.
  - destruct (n =? 0)%N eqn:En.
    + injection H as <- <-. exists []. split; [reflexivity|]. split.
      * intros rest' fuel' _. cbn [app]. destruct fuel'; cbn [dec_elems]; now rewrite En.
      * intros p fuel' Hsp. now apply strict_prefix_nil in Hsp.
    + destruct (d bs) as [[a r]|] eqn:E; [|discriminate].
      destruct (dec_elems d fuel (n - 1) r) as [[l' r']|] eqn:E2; [|discriminate].
      injection H as <- <-.
      destruct (Hp _ _ _ E) as [u1 [-> [H1a H1b]]].
      destruct (IH _ _ _ _ E2) as [u2 [-> [H2a H2b]]].
      exists (u1 ++ u2). split; [now rewrite app_assoc|]. split.
      * intros rest' fuel' Hl. destruct fuel' as [|fuel'].
        { assert (Hlen : length u1 = 0) by (rewrite !app_length in Hl; lia).
          apply Hc in E. rewrite !app_length in E. lia. }
        cbn [dec_elems]. rewrite En, <- app_assoc, H1a.
        rewrite H2a; [reflexivity|].
        specialize (H1a (u2 ++ rest')). apply Hc in H1a. rewrite <- app_assoc in Hl. cbn in Hl. lia.
      * intros p fuel' Hsp. destruct fuel' as [|fuel']; cbn [dec_elems]; rewrite En; [reflexivity|].
        apply strict_prefix_app in Hsp as [Hsp | [p2 [-> Hsp2]]].
        -- now rewrite (H1b _ Hsp).
        -- rewrite H1a. now rewrite (H2b _ fuel' Hsp2).
Qed.

Lemma Parser_seq {A} (d : decoder A) : Parser d -> Consumes d -> Parser (dec_seq d).
Proof.
  intros Hp Hc. unfold dec_seq. apply Parser_bind; [apply Parser_u64|]. intros n bs l rest H.
  destruct (dec_elems_parser d Hp Hc _ _ _ _ _ H) as [u [-> [Ha Hb]]].
  exists u. split; [reflexivity|]. split.
  - intros rest'. now apply Ha.
  - intros p Hsp. now apply Hb.
Qed.

Lemma Parser_rstate : Parser dec_rstate.
Proof.
  unfold dec_rstate. apply Parser_bind; [apply Parser_seq; [apply Parser_fentry | apply Consumes_fentry]|]. intros fs.
  apply Parser_bind; [apply Parser_seq; [apply Parser_centry | apply Consumes_centry]|]. intros cs. apply Parser_ret.
Qed.

Lemma Parser_opt {A} (d : decoder A) : Parser d -> Parser (dec_opt d).
Proof.
  intros Hd. unfold dec_opt. apply Parser_bind; [apply Parser_u8|]. intros tag.
  destruct (tag =? 0)%N; [apply Parser_ret|]. destruct (tag =? 1)%N; [|apply Parser_fail].
  apply Parser_bind; [exact Hd|]. intros a. apply Parser_ret.
Qed.

Lemma Parser_env_raw : Parser dec_env_raw.
Proof.
  unfold dec_env_raw. apply Parser_bind; [apply Parser_rstate|]. intros i.
  apply Parser_bind; [apply Parser_opt, Parser_rstate|]. intros o. apply Parser_ret.
Qed.

(* the decoder of the state file: same consumed prefix as the raw one, entries collected into maps *)
Lemma dec_env_none bs : dec_env bs = None <-> dec_env_raw bs = None.
Proof. unfold dec_env. destruct (dec_env_raw bs) as [[e r]|]; split; congruence. Qed.

Lemma dec_env_some bs e rest :
  dec_env bs = Some (e, rest) <-> exists e0, dec_env_raw bs = Some (e0, rest) /\ e = canon_env e0.
Proof.
  unfold dec_env. destruct (dec_env_raw bs) as [[e0 r]|]; split.
  - intros [= <- <-]. now exists e0.
  - intros [e1 [[= <- <-] ->]]. reflexivity.
  - discriminate.
  - intros [e1 [H _]]. discriminate.
Qed.

(* whatever decodes, decodes from a prefix that is itself prefix-free and independent of trailing bytes *)
Lemma dec_env_parser : Parser dec_env.
Proof.
  intros bs e rest H. apply dec_env_some in H as [e0 [H ->]].
  destruct (Parser_env_raw _ _ _ H) as [u [-> [Ha Hb]]]. exists u. split; [reflexivity|]. split.
  - intros rest'. apply dec_env_some. exists e0. split; [apply Ha | reflexivity].
  - intros p Hp. apply dec_env_none. now apply Hb.
Qed.

(* totality: the decoder is a function into `option`, so it answers on every byte string *)
Lemma dec_env_total bs : dec_env bs = None \/ exists e rest, dec_env bs = Some (e, rest).
Proof. destruct (dec_env bs) as [[e r]|]; [right; now exists e, r | now left]. Qed.
