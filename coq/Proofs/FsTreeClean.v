(* Lemmas about Model/FsTree.v, part 2: deletions (clean.rs, work_dir.rs, storage.rs) and the clean phase (C12). *)
From Zinoma.Model Require Import Bytes Ext Cfg Names FsTree.
From Zinoma.Proofs Require Import Bytes Ext FsTree.
From Coq Require Import Lia.

(* ---------------------------------------------------------------- prefixes of physical locations *)
Fixpoint strip_prefix (a b : phys) : option phys :=
  match a, b with
  | [], _ => Some b
  | x :: a', y :: b' => if beq x y then strip_prefix a' b' else None
  | _ :: _, [] => None
  end.

Lemma strip_prefix_some a b s : strip_prefix a b = Some s <-> b = a ++ s.
Proof.
  revert b; induction a as [|x a IH]; intros b; cbn [strip_prefix app].
  - split; [now intros [= ->] | now intros ->].
  - destruct b as [|y b]; [split; [discriminate | intros H; discriminate]|].
    destruct (beq x y) eqn:E.
    + apply beq_eq in E. subst y. rewrite IH. split; [now intros -> | now intros [= ->]].
    + split; [discriminate|]. intros [= -> _]. now rewrite beq_refl in E.
Qed.

Lemma strip_prefix_app a s : strip_prefix a (a ++ s) = Some s.
Proof. now apply strip_prefix_some. Qed.

Definition Below (e q : phys) : Prop := exists s, q = e ++ s.

Lemma strip_prefix_none a b : strip_prefix a b = None <-> ~ Below a b.
Proof.
  split.
  - intros H [s Hs]. apply strip_prefix_some in Hs. congruence.
  - intros H. destruct (strip_prefix a b) as [s|] eqn:E; [|reflexivity].
    exfalso. apply H. exists s. now apply strip_prefix_some.
Qed.

(* ---------------------------------------------------------------- entries *)
Lemma lookup_map_entry es nm g nm' :
  lookup (map_entry es nm g) nm' =
  if beq nm nm' then match lookup es nm' with Some c => Some (g c) | None => None end else lookup es nm'.
Proof.
  induction es as [|[n c] r IH]; cbn [map_entry lookup].
  - now destruct (beq nm nm').
  - destruct (beq n nm) eqn:E1.
    + apply beq_eq in E1. subst n. cbn [lookup]. destruct (beq nm nm'); reflexivity.
    + cbn [lookup]. destruct (beq n nm') eqn:E2.
      * apply beq_eq in E2. subst n. destruct (beq nm nm') eqn:E3; [|reflexivity].
        apply beq_eq in E3. subst. now rewrite beq_refl in E1.
      * exact IH.
Qed.

Lemma lookup_remove_entries es nm nm' :
  lookup (remove_entries es nm) nm' = if beq nm nm' then None else lookup es nm'.
Proof.
  induction es as [|[n c] r IH]; cbn [remove_entries lookup].
  - now destruct (beq nm nm').
  - destruct (beq n nm) eqn:E1.
    + apply beq_eq in E1. subst n. rewrite IH. destruct (beq nm nm'); reflexivity.
    + cbn [lookup]. destruct (beq n nm') eqn:E2.
      * apply beq_eq in E2. subst n. destruct (beq nm nm') eqn:E3; [|reflexivity].
        apply beq_eq in E3. subst. now rewrite beq_refl in E1.
      * exact IH.
Qed.

(* ---------------------------------------------------------------- update_at *)
Lemma shallow_update_at_cons g t nm r : shallow (update_at g t (nm :: r)) = shallow t.
Proof. destruct t; reflexivity. Qed.

(* the kind found at q' after g was applied at q, for a g that keeps the kind of the node it is applied to *)
Lemma kind_at_update_at g (Hg : forall n, shallow (g n) = shallow n) : forall q t q',
  kind_at (update_at g t q) q' =
  match strip_prefix q q' with
  | Some s => match get t q with Some n => kind_at (g n) s | None => None end
  | None => kind_at t q'
  end.
Proof.
  induction q as [|nm r IH]; intros t q'.
  - reflexivity.
  - destruct q' as [|nm' r'].
    + cbn [strip_prefix]. unfold kind_at. cbn [get]. now rewrite shallow_update_at_cons.
    + cbn [strip_prefix]. destruct t as [c m | es | tg].
      * cbn [update_at]. destruct (beq nm nm'); [|reflexivity]. destruct (strip_prefix r r'); reflexivity.
      * cbn [update_at]. unfold kind_at at 1. cbn [get]. rewrite lookup_map_entry.
        destruct (beq nm nm') eqn:E.
        -- apply beq_eq in E. subst nm'. destruct (lookup es nm) as [c|] eqn:El.
           ++ specialize (IH c r'). unfold kind_at at 1 in IH. rewrite IH.
              unfold kind_at. cbn [get]. rewrite El. reflexivity.
           ++ unfold kind_at. cbn [get]. rewrite El. destruct (strip_prefix r r'); reflexivity.
        -- reflexivity.
      * cbn [update_at]. destruct (beq nm nm'); [|reflexivity]. destruct (strip_prefix r r'); reflexivity.
Qed.

Definition rm_in (l : bytes) (n : node) : node :=
  match n with Dir es => Dir (remove_entries es l) | _ => n end.
Definition mk_empty (n : node) : node := match n with Dir _ => Dir [] | _ => n end.

Lemma remove_child_eq t q l : remove_child t q l = update_at (rm_in l) t q.
Proof. reflexivity. Qed.
Lemma empty_dir_at_eq t q : empty_dir_at t q = update_at mk_empty t q.
Proof. reflexivity. Qed.

Lemma shallow_rm_in l n : shallow (rm_in l n) = shallow n.
Proof. destruct n; reflexivity. Qed.
Lemma shallow_mk_empty n : shallow (mk_empty n) = shallow n.
Proof. destruct n; reflexivity. Qed.

Lemma kind_at_rm_in l n s :
  kind_at (rm_in l n) s = match strip_prefix [l] s with Some _ => None | None => kind_at n s end.
Proof.
  destruct s as [|x s]; [cbn; unfold kind_at; cbn; now rewrite shallow_rm_in|].
  cbn [strip_prefix]. destruct n as [| es |]; cbn [rm_in]; unfold kind_at; cbn [get].
  - destruct (beq l x); reflexivity.
  - rewrite lookup_remove_entries. destruct (beq l x); reflexivity.
  - destruct (beq l x); reflexivity.
Qed.

Lemma strip_prefix_snoc q l q' :
  strip_prefix (q ++ [l]) q' =
  match strip_prefix q q' with Some s => strip_prefix [l] s | None => None end.
Proof.
  revert q'; induction q as [|x q IH]; intros q'; cbn [app strip_prefix]; [reflexivity|].
  destruct q' as [|y q']; [reflexivity|]. destruct (beq x y); [apply IH | reflexivity].
Qed.

(* removing the entry l of the directory at q: everything at or below q/l disappears, nothing else changes *)
Lemma kind_at_remove_child t q l q' :
  kind_at (remove_child t q l) q' =
  match strip_prefix (q ++ [l]) q' with Some _ => None | None => kind_at t q' end.
Proof.
  rewrite remove_child_eq, (kind_at_update_at _ (shallow_rm_in l)), strip_prefix_snoc.
  destruct (strip_prefix q q') as [s|] eqn:E; [|reflexivity].
  apply strip_prefix_some in E. subst q'.
  unfold kind_at at 2. rewrite get_app. destruct (get t q) as [n|]; [|destruct (strip_prefix [l] s); reflexivity].
  rewrite kind_at_rm_in. reflexivity.
Qed.

Lemma kind_at_mk_empty n s :
  kind_at (mk_empty n) s = match s with [] => kind_at n [] | _ :: _ => match n with Dir _ => None | _ => kind_at n s end end.
Proof.
  destruct s as [|x s]; [unfold kind_at; cbn; now rewrite shallow_mk_empty|].
  destruct n; reflexivity.
Qed.

(* emptying the directory at q: everything strictly below q disappears, nothing else changes *)
Lemma kind_at_empty_dir_at t q q' :
  kind_at (empty_dir_at t q) q' =
  match strip_prefix q q' with
  | Some (_ :: _) => match kind_at t q with Some KDir => None | _ => kind_at t q' end
  | _ => kind_at t q'
  end.
Proof.
  rewrite empty_dir_at_eq, (kind_at_update_at _ shallow_mk_empty).
  destruct (strip_prefix q q') as [s|] eqn:E; [|reflexivity].
  apply strip_prefix_some in E. subst q'.
  destruct s as [|x s].
  - rewrite app_nil_r. destruct (get t q) as [n|] eqn:G.
    + rewrite kind_at_mk_empty. unfold kind_at. cbn [get]. now rewrite G.
    + unfold kind_at. now rewrite G.
  - destruct (get t q) as [n|] eqn:G.
    + rewrite kind_at_mk_empty. unfold kind_at. rewrite get_app, G. destruct n; reflexivity.
    + unfold kind_at. rewrite get_app, G. reflexivity.
Qed.

Lemma remove_entry_snoc t q l : remove_entry t (q ++ [l]) = remove_child t q l.
Proof. unfold remove_entry. rewrite rev_app_distr. cbn [rev app]. now rewrite rev_involutive. Qed.

Lemma kind_at_remove_entry t e q' :
  e <> [] ->
  kind_at (remove_entry t e) q' = match strip_prefix e q' with Some _ => None | None => kind_at t q' end.
Proof.
  intros He. destruct (exists_last He) as [q [l ->]]. rewrite remove_entry_snoc. apply kind_at_remove_child.
Qed.

(* ---------------------------------------------------------------- the sub-tree order *)
(* t' is t with some entries removed: whatever t' has, t has with the same kind (content, link target) *)
Definition sub (t' t : node) : Prop := forall q k, kind_at t' q = Some k -> kind_at t q = Some k.

Lemma sub_refl t : sub t t.
Proof. now intros q k H. Qed.

Lemma sub_trans a b c : sub a b -> sub b c -> sub a c.
Proof. intros H1 H2 q k H. apply H2, H1, H. Qed.

Lemma sub_remove_child t q l : sub (remove_child t q l) t.
Proof.
  intros q' k. rewrite kind_at_remove_child. destruct (strip_prefix (q ++ [l]) q'); [discriminate | tauto].
Qed.

Lemma sub_remove_entry t e : sub (remove_entry t e) t.
Proof.
  unfold remove_entry. destruct (rev e); [apply sub_refl | apply sub_remove_child].
Qed.

Lemma sub_empty_dir_at t q : sub (empty_dir_at t q) t.
Proof.
  intros q' k. rewrite kind_at_empty_dir_at. destruct (strip_prefix q q') as [[|x s]|]; try tauto.
  destruct (kind_at t q) as [[| |]|]; try tauto. discriminate.
Qed.

(* ---------------------------------------------------------------- path resolution *)




(* resolution only looks at the kinds found along the way: what resolves in a sub-tree resolves identically in the tree *)
Lemma resolve_comps_mono t' t (Hs : sub t' t) : forall n cs cur f q,
  resolve_comps n t' cur cs f = RFound q -> resolve_comps n t cur cs f = RFound q.
Proof.
  induction n as [|n IHn].
  - induction cs as [|c rest IH]; intros cur f q; [now rewrite !resolve_comps_nil|].
    rewrite !resolve_comps_cons.
    destruct (beq c dot1); [apply IH|]. destruct (beq c dotdot); [apply IH|].
    destruct (kind_at t' (cur ++ [c])) as [k|] eqn:E; [|discriminate].
    rewrite (Hs _ _ E). destruct k as [cc m| |tg]; [tauto | apply IH |].
    destruct (is_nil rest && negb f); [tauto|]. destruct (is_nil tg); discriminate.
  - induction cs as [|c rest IH]; intros cur f q; [now rewrite !resolve_comps_nil|].
    rewrite !resolve_comps_cons.
    destruct (beq c dot1); [apply IH|]. destruct (beq c dotdot); [apply IH|].
    destruct (kind_at t' (cur ++ [c])) as [k|] eqn:E; [|discriminate].
    rewrite (Hs _ _ E). destruct k as [cc m| |tg]; [tauto | apply IH |].
    destruct (is_nil rest && negb f); [tauto|]. destruct (is_nil tg); [discriminate|]. apply IHn.
Qed.

Lemma resolve_mono t' t p f q : sub t' t -> resolve t' p f = RFound q -> resolve t p f = RFound q.
Proof.
  intros Hs. unfold resolve. destruct (is_nil p); [discriminate|]. now apply resolve_comps_mono.
Qed.

Lemma stat_gen_mono t' t p f q k : sub t' t -> stat_gen t' p f = Some (q, k) -> stat_gen t p f = Some (q, k).
Proof.
  intros Hs H. pose proof (stat_gen_resolve _ _ _ _ _ H) as Hr. pose proof (stat_gen_kind _ _ _ _ _ H) as Hk.
  unfold stat_gen. rewrite (resolve_mono _ _ _ _ _ Hs Hr), (Hs _ _ Hk). reflexivity.
Qed.

Lemma is_file_mono t' t p : sub t' t -> is_file t' p = true -> is_file t p = true.
Proof.
  intros Hs. unfold is_file, stat. destruct (stat_gen t' p true) as [[q k]|] eqn:E; [|discriminate].
  rewrite (stat_gen_mono _ _ _ _ _ _ Hs E). tauto.
Qed.

Lemma is_dir_mono t' t p : sub t' t -> is_dir t' p = true -> is_dir t p = true.
Proof.
  intros Hs. unfold is_dir, stat. destruct (stat_gen t' p true) as [[q k]|] eqn:E; [|discriminate].
  rewrite (stat_gen_mono _ _ _ _ _ _ Hs E). tauto.
Qed.

Lemma exists_mono t' t p : sub t' t -> exists_ t' p = true -> exists_ t p = true.
Proof.
  intros Hs. unfold exists_, stat. destruct (stat_gen t' p true) as [[q k]|] eqn:E; [|discriminate].
  now rewrite (stat_gen_mono _ _ _ _ _ _ Hs E).
Qed.

(* whatever resolves with the final symlink followed also resolves without following it *)
Lemma resolve_comps_nofollow t : forall n cs cur q,
  resolve_comps n t cur cs true = RFound q -> exists e, resolve_comps n t cur cs false = RFound e.
Proof.
  induction n as [|n IHn].
  - induction cs as [|c rest IH]; intros cur q; [rewrite !resolve_comps_nil; eauto|].
    rewrite !resolve_comps_cons.
    destruct (beq c dot1); [apply IH|]. destruct (beq c dotdot); [apply IH|].
    destruct (kind_at t (cur ++ [c])) as [[cc m| |tg]|]; [eauto | apply IH | | discriminate].
    rewrite andb_false_r, andb_true_r. destruct (is_nil rest); [eauto|].
    destruct (is_nil tg); discriminate.
  - induction cs as [|c rest IH]; intros cur q; [rewrite !resolve_comps_nil; eauto|].
    rewrite !resolve_comps_cons.
    destruct (beq c dot1); [apply IH|]. destruct (beq c dotdot); [apply IH|].
    destruct (kind_at t (cur ++ [c])) as [[cc m| |tg]|]; [eauto | apply IH | | discriminate].
    rewrite andb_false_r, andb_true_r. destruct (is_nil rest); [eauto|].
    destruct (is_nil tg); [discriminate|]. apply IHn.
Qed.

Lemma stat_lstat t p q k : stat t p = Some (q, k) -> exists e, resolve t p false = RFound e.
Proof.
  intros H. apply stat_gen_resolve in H. unfold resolve in *. destruct (is_nil p); [discriminate|].
  now apply resolve_comps_nofollow in H.
Qed.

(* ---------------------------------------------------------------- well-formedness is preserved by deletions *)
Lemma map_fst_map_entry es nm g : map fst (map_entry es nm g) = map fst es.
Proof.
  induction es as [|[n c] r IH]; [reflexivity|]. cbn [map_entry]. destruct (beq n nm); cbn [map fst]; [reflexivity | now rewrite IH].
Qed.

Lemma in_map_entry es nm g n c :
  In (n, c) (map_entry es nm g) -> exists c0, In (n, c0) es /\ (c = c0 \/ c = g c0).
Proof.
  induction es as [|[n0 c0] r IH]; [intros []|]. cbn [map_entry]. destruct (beq n0 nm).
  - intros [[= <- <-]|H]; [exists c0; split; [now left | now right] | exists c; split; [now right | now left]].
  - intros [[= <- <-]|H]; [exists c0; split; [now left | now left]|].
    destruct (IH H) as [c1 [H1 H2]]. exists c1. split; [now right | exact H2].
Qed.

Lemma wf_update_at g (Hg : forall n, wf n = true -> wf (g n) = true) : forall q t,
  wf t = true -> wf (update_at g t q) = true.
Proof.
  induction q as [|nm r IH]; intros t Hw; [now apply Hg|].
  destruct t as [| es |]; try exact Hw. cbn [update_at]. apply wf_dir in Hw as [Hu Hall].
  apply wf_dir. rewrite map_fst_map_entry. split; [exact Hu|].
  rewrite Forall_forall in *. intros [n c] Hin. apply in_map_entry in Hin as [c0 [Hin Hc]].
  destruct (Hall _ Hin) as [Hv Hwc]. cbn [fst snd] in *. split; [exact Hv|].
  destruct Hc as [->| ->]; [exact Hwc | now apply IH].
Qed.

Lemma existsb_remove_entries x es nm :
  existsb (beq x) (map fst (remove_entries es nm)) = true -> existsb (beq x) (map fst es) = true.
Proof.
  induction es as [|[n c] r IH]; [tauto|]. cbn [remove_entries]. destruct (beq n nm); cbn [map fst existsb].
  - intros H. rewrite (IH H). apply orb_true_r.
  - rewrite !orb_true_iff. intros [H|H]; [now left | right; now apply IH].
Qed.

Lemma names_unique_remove_entries es nm :
  names_unique (map fst es) = true -> names_unique (map fst (remove_entries es nm)) = true.
Proof.
  induction es as [|[n c] r IH]; [tauto|]. cbn [map fst names_unique remove_entries].
  rewrite andb_true_iff, negb_true_iff. intros [H1 H2]. destruct (beq n nm); [now apply IH|].
  cbn [map fst names_unique]. rewrite andb_true_iff, negb_true_iff. split; [|now apply IH].
  destruct (existsb (beq n) (map fst (remove_entries r nm))) eqn:E; [|reflexivity].
  apply existsb_remove_entries in E. congruence.
Qed.

Lemma in_remove_entries es nm e : In e (remove_entries es nm) -> In e es.
Proof.
  induction es as [|[n c] r IH]; [tauto|]. cbn [remove_entries]. destruct (beq n nm).
  - intros H. right. now apply IH.
  - intros [<-|H]; [now left | right; now apply IH].
Qed.

Lemma wf_rm_in l n : wf n = true -> wf (rm_in l n) = true.
Proof.
  destruct n as [| es |]; try tauto. intros Hw. apply wf_dir in Hw as [Hu Hall]. apply wf_dir.
  split; [now apply names_unique_remove_entries|]. rewrite Forall_forall in *.
  intros e Hin. apply Hall. now apply in_remove_entries in Hin.
Qed.

Lemma wf_mk_empty n : wf n = true -> wf (mk_empty n) = true.
Proof. destruct n; tauto. Qed.

Lemma wf_remove_child t q l : wf t = true -> wf (remove_child t q l) = true.
Proof. rewrite remove_child_eq. apply wf_update_at, wf_rm_in. Qed.

Lemma wf_remove_entry t e : wf t = true -> wf (remove_entry t e) = true.
Proof. unfold remove_entry. destruct (rev e); [tauto | apply wf_remove_child]. Qed.

Lemma wf_empty_dir_at t q : wf t = true -> wf (empty_dir_at t q) = true.
Proof. rewrite empty_dir_at_eq. apply wf_update_at, wf_mk_empty. Qed.

(* ---------------------------------------------------------------- what an operation removed *)
Definition removed (t t' : node) (q : phys) : Prop := kind_at t q <> None /\ kind_at t' q = None.

Lemma removed_remove_entry t e q : removed t (remove_entry t e) q -> Below e q.
Proof.
  intros [H1 H2]. destruct e as [|x e]; [now exists q|].
  rewrite kind_at_remove_entry in H2 by discriminate.
  destruct (strip_prefix (x :: e) q) as [s|] eqn:E; [|congruence].
  exists s. now apply strip_prefix_some.
Qed.

Lemma removed_empty_dir_at t e q : removed t (empty_dir_at t e) q -> Below e q.
Proof.
  intros [H1 H2]. rewrite kind_at_empty_dir_at in H2.
  destruct (strip_prefix e q) as [s|] eqn:E; [|congruence]. exists s. now apply strip_prefix_some.
Qed.

Lemma removed_trans t t1 t2 q : sub t2 t1 -> removed t t2 q -> removed t t1 q \/ removed t1 t2 q.
Proof.
  intros Hs [H1 H2]. destruct (kind_at t1 q) eqn:E; [right | left]; split; congruence.
Qed.

(* nothing exists below a regular file or a symlink *)
Lemma below_nondir t e k q : kind_at t e = Some k -> k <> KDir -> Below e q -> kind_at t q <> None -> q = e.
Proof.
  intros Hk Hn [s ->] Hq. destruct s as [|x s]; [now rewrite app_nil_r|].
  rewrite (kind_at_below_is_dir t e (x :: s)) in Hk; [congruence | discriminate | exact Hq].
Qed.

Lemma Below_refl e : Below e e.
Proof. exists []. now rewrite app_nil_r. Qed.

(* ---------------------------------------------------------------- unlink *)
Lemma unlink_done t p t' :
  unlink t p = UDone t' -> exists e k, lstat t p = Some (e, k) /\ k <> KDir /\ t' = remove_entry t e.
Proof.
  unfold unlink, lstat, stat_gen. destruct (resolve t p false) as [e| |]; try discriminate.
  destruct (kind_at t e) as [k|]; [|discriminate].
  destruct k; try discriminate; intros [= <-]; eexists _, _; repeat split; discriminate.
Qed.

Lemma unlink_noent_or_done t p e k :
  lstat t p = Some (e, k) -> k <> KDir -> unlink t p = UDone (remove_entry t e).
Proof.
  unfold unlink, lstat, stat_gen. destruct (resolve t p false) as [e'| |]; try discriminate.
  destruct (kind_at t e') as [k'|]; [|discriminate]. intros [= -> ->] Hk. destruct k; congruence.
Qed.

(* ---------------------------------------------------------------- remove_dir_all *)
(* paths without a trailing slash: lstat and rmdir look at the same entry *)
Definition plain_spelling (p : bytes) : Prop := path_comps p = segs p.

Lemma resolve_plain t p f : plain_spelling p -> is_nil p = false ->
  resolve t p f = resolve_comps max_links t [] (segs p) f.
Proof. intros Hp Hn. unfold resolve. now rewrite Hn, Hp. Qed.

(* the tree remove_dir_all leaves behind, whether it succeeds or fails half-way *)
Lemma remove_dir_all_tree_done t p t' : remove_dir_all t p = UDone t' -> remove_dir_all_tree t p = t'.
Proof. unfold remove_dir_all_tree. now intros ->. Qed.

Lemma rmdir_done t p t' :
  rmdir t p = UDone t' -> exists e, resolve_comps max_links t [] (segs p) false = RFound e /\ t' = remove_entry t e.
Proof.
  unfold rmdir. destruct (last_seg p) as [l|]; [|discriminate].
  destruct (resolve_comps max_links t [] (segs p) false) as [e| |]; try discriminate.
  destruct (beq l dot1 || beq l dotdot); [discriminate|].
  destruct (get t e) as [[| [|x es] |]|]; try discriminate. intros [= <-]. now exists e.
Qed.

Lemma remove_dir_all_spec t p :
  plain_spelling p ->
  let t' := remove_dir_all_tree t p in
  sub t' t /\ (wf t = true -> wf t' = true) /\
  forall q, removed t t' q -> exists e k, lstat t p = Some (e, k) /\ Below e q.
Proof.
  intros Hp t'. subst t'. unfold remove_dir_all_tree, remove_dir_all.
  destruct (is_nil p) eqn:Hnil.
  { destruct p; [|discriminate]. cbn. repeat split; [apply sub_refl | tauto | intros q [H1 H2]; congruence]. }
  destruct (resolve t p false) as [e| |] eqn:Er;
    [| repeat split; [apply sub_refl | tauto | intros q [H1 H2]; congruence] ..].
  destruct (kind_at t e) as [k|] eqn:Ek;
    [| repeat split; [apply sub_refl | tauto | intros q [H1 H2]; congruence]].
  assert (Hl : lstat t p = Some (e, k)) by (unfold lstat, stat_gen; now rewrite Er, Ek).
  destruct k as [c m| |tg].
  - repeat split; [apply sub_refl | tauto | intros q [H1 H2]; congruence].
  - (* a directory: emptied, then rmdir *)
    set (t1 := empty_dir_at t e).
    assert (Hs1 : sub t1 t) by apply sub_empty_dir_at.
    assert (Hr1 : forall q, removed t t1 q -> exists e0 k0, lstat t p = Some (e0, k0) /\ Below e0 q).
    { intros q Hq. exists e, KDir. split; [exact Hl | exact (removed_empty_dir_at t e q Hq)]. }
    destruct e as [|x e'].
    + repeat split; [exact Hs1 | apply wf_empty_dir_at | exact Hr1].
    + destruct (rmdir t1 p) as [t2| |] eqn:Erm.
      * apply rmdir_done in Erm as [e2 [He2 ->]].
        apply (resolve_comps_mono _ _ Hs1) in He2.
        rewrite (resolve_plain _ _ _ Hp Hnil) in Er. rewrite Er in He2. injection He2 as <-.
        repeat split.
        -- eapply sub_trans; [apply sub_remove_entry | exact Hs1].
        -- intros Hw. now apply wf_remove_entry, wf_empty_dir_at.
        -- intros q Hq. destruct (removed_trans t t1 (remove_entry t1 (x :: e')) q (sub_remove_entry t1 (x :: e')) Hq) as [H|H]; [now apply Hr1|].
           exists (x :: e'), KDir. split; [exact Hl | exact (removed_remove_entry t1 (x :: e') q H)].
      * repeat split; [exact Hs1 | apply wf_empty_dir_at | exact Hr1].
      * repeat split; [exact Hs1 | apply wf_empty_dir_at | exact Hr1].
  - (* a symlink: unlinked *)
    rewrite (unlink_noent_or_done _ _ _ _ Hl) by discriminate.
    repeat split; [apply sub_remove_entry | apply wf_remove_entry |].
    intros q Hq. exists e, (KLink tg). split; [exact Hl | exact (removed_remove_entry t e q Hq)].
Qed.

(* ---------------------------------------------------------------- clean_path *)
(* what a plain declared output path p may take with it: the entry it names (a symlink: the link itself) and
   everything physically below it *)
Definition PathSpec (t : node) (p : bytes) (q : phys) : Prop :=
  exists e k, lstat t p = Some (e, k) /\ exists_ t p = true /\ Below e q.

Ltac nothing_removed := cbn [fst]; repeat split; [apply sub_refl | tauto | intros ? [? ?]; congruence].

Lemma clean_path_pinned_spec t p :
  plain_spelling p ->
  let t' := fst (clean_path_pinned t p) in
  sub t' t /\ (wf t = true -> wf t' = true) /\ forall q, removed t t' q -> PathSpec t p q.
Proof.
  intros Hp t'. subst t'. unfold clean_path_pinned.
  destruct (exists_ t p) eqn:Ex; [|nothing_removed].
  destruct (is_file t p) eqn:Ef.
  - destruct (unlink t p) as [t1| |] eqn:Eu;
      [| nothing_removed ..].
    apply unlink_done in Eu as [e [k (Hl & Hk & ->)]]. cbn [fst].
    repeat split; [apply sub_remove_entry | apply wf_remove_entry |].
    intros q Hq. exists e, k. repeat split; [exact Hl | exact Ex | exact (removed_remove_entry t e q Hq)].
  - destruct (is_dir t p) eqn:Ed; [|nothing_removed].
    destruct (remove_dir_all_spec t p Hp) as (Hs & Hw & Hr).
    assert (Ht : fst (match remove_dir_all t p with
                      | UDone t' => (t', true) | _ => (remove_dir_all_tree t p, false) end) = remove_dir_all_tree t p).
    { destruct (remove_dir_all t p) eqn:E; try reflexivity. cbn [fst]. symmetry. now apply remove_dir_all_tree_done. }
    rewrite Ht. repeat split; [exact Hs | exact Hw |].
    intros q Hq. destruct (Hr q Hq) as [e [k [Hl Hb]]]. exists e, k. now repeat split.
Qed.

(* ---------------------------------------------------------------- folds with an error flag *)
Section Fold.
  Context {A : Type} (f : node -> A -> node * bool) (Spec : node -> A -> phys -> Prop).
  Hypothesis f_sub : forall t x, sub (fst (f t x)) t.
  Hypothesis f_wf : forall t x, wf t = true -> wf (fst (f t x)) = true.
  Hypothesis f_spec : forall t x q, wf t = true -> removed t (fst (f t x)) q -> Spec t x q.
  Hypothesis Spec_mono : forall t' t x q, wf t' = true -> wf t = true -> sub t' t -> Spec t' x q -> Spec t x q.

  Lemma fold_ok_spec : forall l t,
    let t' := fst (fold_ok f t l) in
    sub t' t /\ (wf t = true -> wf t' = true) /\
    (wf t = true -> forall q, removed t t' q -> exists x, In x l /\ Spec t x q).
  Proof.
    induction l as [|x r IH]; intros t; cbn [fold_ok].
    - cbn [fst]. repeat split; [apply sub_refl | tauto | intros _ q [H1 H2]; congruence].
    - destruct (f t x) as [t1 ok] eqn:E.
      pose proof (f_sub t x) as Hs1. pose proof (f_wf t x) as Hw1. pose proof (f_spec t x) as Hsp1.
      rewrite E in Hs1, Hw1, Hsp1. cbn [fst] in *.
      destruct ok.
      + destruct (IH t1) as (Hs & Hw & Hr). repeat split.
        * eapply sub_trans; eassumption.
        * intros H. now apply Hw, Hw1.
        * intros Hwt q Hq. destruct (removed_trans t t1 _ q Hs Hq) as [H|H].
          -- exists x. split; [now left | now apply Hsp1].
          -- destruct (Hr (Hw1 Hwt) q H) as [y [Hy Hsy]]. exists y. split; [now right|].
             apply (Spec_mono t1 t y q (Hw1 Hwt) Hwt Hs1 Hsy).
      + cbn [fst]. repeat split; [exact Hs1 | exact Hw1 |].
        intros Hwt q Hq. exists x. split; [now left | now apply Hsp1].
  Qed.
End Fold.

(* ---------------------------------------------------------------- normalised spellings have no trailing slash *)
Lemma split_on_no_sep_in sep s c : In c (split_on sep s) -> ~ In sep c.
Proof.
  revert c; induction s as [|x s IH]; intros c; cbn [split_on].
  - intros [<-|[]] [].
  - destruct (N.eqb_spec x sep) as [->|Hne].
    + intros [<-|H]; [intros [] | now apply IH].
    + destruct (split_on sep s) as [|c0 cs] eqn:E; [now apply split_on_nonnil in E|].
      intros [<-|H].
      * intros [H|H]; [congruence|]. apply (IH c0); [now left | exact H].
      * apply IH. now right.
Qed.

Lemma components_facts p c : In c (components p) -> c <> [] /\ ~ In slash c.
Proof.
  unfold components. rewrite filter_In. intros [Hin Hf]. split.
  - intros ->. discriminate.
  - now apply split_on_no_sep_in in Hin.
Qed.

Lemma ends_slash_app a b : b <> [] -> ends_slash (a ++ b) = ends_slash b.
Proof.
  intros Hb. unfold ends_slash. rewrite rev_app_distr.
  destruct (rev b) as [|x r] eqn:E; [|reflexivity].
  apply (f_equal (@rev N)) in E. rewrite rev_involutive in E. cbn in E. congruence.
Qed.

Lemma ends_slash_no_slash c : ~ In slash c -> ends_slash c = false.
Proof.
  intros Hn. unfold ends_slash. destruct (rev c) as [|x r] eqn:E; [reflexivity|].
  destruct (N.eqb_spec x slash) as [->|]; [|reflexivity].
  exfalso. apply Hn. apply in_rev. rewrite E. now left.
Qed.

Lemma intercalate_nonnil cs : cs <> [] -> (forall c, In c cs -> c <> []) -> intercalate cs <> [].
Proof.
  destruct cs as [|c r]; [congruence|]. intros _ H. cbn [intercalate].
  destruct r; [apply H; now left|]. specialize (H c (or_introl eq_refl)). destruct c; [congruence | discriminate].
Qed.

Lemma ends_slash_intercalate cs :
  (forall c, In c cs -> c <> [] /\ ~ In slash c) -> ends_slash (intercalate cs) = false.
Proof.
  induction cs as [|c r IH]; intros H; [reflexivity|]. cbn [intercalate].
  destruct r as [|c' r'].
  - apply ends_slash_no_slash, H. now left.
  - assert (Hr : forall c0, In c0 (c' :: r') -> c0 <> [] /\ ~ In slash c0) by (intros c0 Hc; apply H; now right).
    assert (Hn : intercalate (c' :: r') <> []).
    { apply intercalate_nonnil; [discriminate|]. intros c0 Hc. now apply Hr. }
    rewrite ends_slash_app by discriminate.
    change (slash :: intercalate (c' :: r')) with ([slash] ++ intercalate (c' :: r')).
    rewrite ends_slash_app by exact Hn. now apply IH.
Qed.

Lemma plain_spelling_normalise p : plain_spelling (normalise p).
Proof.
  unfold plain_spelling, path_comps.
  destruct (components p) as [|c r] eqn:E.
  - unfold normalise. rewrite E. destruct (starts_with p [slash]); reflexivity.
  - assert (He : ends_slash (normalise p) = false).
    { unfold normalise.
      assert (Hi : ends_slash (intercalate (components p)) = false) by (apply ends_slash_intercalate, components_facts).
      destruct (starts_with p [slash]); [|exact Hi].
      change (slash :: intercalate (components p)) with ([slash] ++ intercalate (components p)).
      rewrite ends_slash_app; [exact Hi|]. rewrite E. apply intercalate_nonnil; [discriminate|].
      intros c0 Hc. rewrite <- E in Hc. now apply components_facts in Hc. }
    now rewrite He.
Qed.

Lemma clean_path_spec t p :
  let t' := fst (clean_path t p) in
  sub t' t /\ (wf t = true -> wf t' = true) /\ forall q, removed t t' q -> PathSpec t (normalise p) q.
Proof. unfold clean_path. apply clean_path_pinned_spec, plain_spelling_normalise. Qed.

(* ---------------------------------------------------------------- monotonicity of what a declaration denotes *)
Lemma PathSpec_mono t' t p q : sub t' t -> PathSpec t' p q -> PathSpec t p q.
Proof.
  intros Hs [e [k (Hl & Hx & Hb)]]. exists e, k. repeat split;
    [exact (stat_gen_mono _ _ _ _ _ _ Hs Hl) | exact (exists_mono _ _ _ Hs Hx) | exact Hb].
Qed.

Lemma get_mono t' t q : sub t' t -> get t' q <> None -> get t q <> None.
Proof.
  intros Hs H. destruct (kind_at t' q) as [k|] eqn:E.
  - apply Hs in E. intros Hn. apply kind_at_none in Hn. congruence.
  - apply kind_at_none in E. congruence.
Qed.

Lemma Reached_mono t' t root p : sub t' t -> Reached t' root p -> Reached t root p.
Proof.
  intros Hs [q [k [Hl H]]]. exists q, k. split; [exact (stat_gen_mono _ _ _ _ _ _ Hs Hl)|].
  destruct H as [H|[qd [names (Hne & Hb & Hg & Hz & Hp)]]]; [now left|]. right. exists qd, names.
  repeat split; try assumption.
  - destruct Hb as [Hb|[Hk Hst]]; [now left | right]. split; [exact Hk | exact (stat_gen_mono _ _ _ _ _ _ Hs Hst)].
  - now apply (get_mono t' t).
Qed.

Lemma listing_mono t' t r p :
  wf t' = true -> wf t = true -> sub t' t -> In p (listing t' r) -> In p (listing t r).
Proof.
  intros Hw' Hw Hs H. apply (listing_spec t' r p Hw') in H as [root (Hr & Hre & Hf & Hm)].
  apply (listing_spec t r p Hw). exists root. repeat split;
    [exact Hr | exact (Reached_mono _ _ _ _ Hs Hre) | exact (is_file_mono _ _ _ Hs Hf) | exact Hm].
Qed.

(* ---------------------------------------------------------------- extension-filtered outputs: remove_file of each listed file *)
Definition EntrySpec (t : node) (p : bytes) (q : phys) : Prop :=
  exists e k, lstat t p = Some (e, k) /\ k <> KDir /\ q = e.

Lemma EntrySpec_mono t' t p q : sub t' t -> EntrySpec t' p q -> EntrySpec t p q.
Proof.
  intros Hs [e [k (Hl & Hk & ->)]]. exists e, k. repeat split; [exact (stat_gen_mono _ _ _ _ _ _ Hs Hl) | exact Hk].
Qed.

Lemma remove_listed_spec strict t p :
  let t' := fst (remove_listed strict t p) in
  sub t' t /\ (wf t = true -> wf t' = true) /\ forall q, removed t t' q -> EntrySpec t p q.
Proof.
  unfold remove_listed. destruct (unlink t p) as [t1| |] eqn:Eu; [|nothing_removed ..].
  apply unlink_done in Eu as [e [k (Hl & Hk & ->)]]. cbn [fst].
  repeat split; [apply sub_remove_entry | apply wf_remove_entry |].
  intros q Hq. exists e, k. repeat split; [exact Hl | exact Hk |].
  pose proof (stat_gen_kind _ _ _ _ _ Hl) as Hke.
  apply (below_nondir t e k q Hke Hk (removed_remove_entry t e q Hq)). exact (proj1 Hq).
Qed.





(* ---------------------------------------------------------------- one files resource of an output *)
Definition ResourceSpec (t : node) (r : files_resource) (q : phys) : Prop :=
  match fr_exts r with
  | Some _ => exists p, In p (listing t r) /\ EntrySpec t p q
  | None => exists p, In p (fr_paths r) /\ PathSpec t (normalise p) q
  end.

Lemma ResourceSpec_mono t' t r q :
  wf t' = true -> wf t = true -> sub t' t -> ResourceSpec t' r q -> ResourceSpec t r q.
Proof.
  intros Hw' Hw Hs. unfold ResourceSpec. destruct (fr_exts r).
  - intros [p [Hin Hsp]]. exists p. split; [now apply (listing_mono t' t) | now apply (EntrySpec_mono t' t)].
  - intros [p [Hin Hsp]]. exists p. split; [exact Hin | now apply (PathSpec_mono t' t)].
Qed.

Lemma clean_resource_spec t r :
  let t' := fst (clean_resource t r) in
  sub t' t /\ (wf t = true -> wf t' = true) /\
  (wf t = true -> forall q, removed t t' q -> ResourceSpec t r q).
Proof.
  unfold clean_resource, clean_resource_gen, ResourceSpec. destruct (fr_exts r) as [es|].
  - destruct (fold_ok_spec (remove_listed false) EntrySpec
                (fun t x => proj1 (remove_listed_spec false t x))
                (fun t x => proj1 (proj2 (remove_listed_spec false t x)))
                (fun t x q _ => proj2 (proj2 (remove_listed_spec false t x)) q)
                (fun t' t x q _ _ => EntrySpec_mono t' t x q)
                (listing_set t r) t) as (Hs & Hw & Hr).
    repeat split; [exact Hs | exact Hw |].
    intros Hwt q Hq. destruct (Hr Hwt q Hq) as [p [Hin Hsp]]. exists p. split; [now apply listing_set_sound | exact Hsp].
  - destruct (fold_ok_spec clean_path (fun t p q => PathSpec t (normalise p) q)
                (fun t x => proj1 (clean_path_spec t x))
                (fun t x => proj1 (proj2 (clean_path_spec t x)))
                (fun t x q _ => proj2 (proj2 (clean_path_spec t x)) q)
                (fun t' t x q _ _ => PathSpec_mono t' t (normalise x) q)
                (fr_paths r) t) as (Hs & Hw & Hr).
    repeat split; [exact Hs | exact Hw | exact Hr].
Qed.

(* ---------------------------------------------------------------- one target *)
Definition OutputSpec (t : node) (tg : rtarget) (q : phys) : Prop :=
  rt_kind tg = TBuild /\ exists r, In r (r_files (rt_output tg)) /\ ResourceSpec t r q.

Lemma OutputSpec_mono t' t tg q :
  wf t' = true -> wf t = true -> sub t' t -> OutputSpec t' tg q -> OutputSpec t tg q.
Proof.
  intros Hw' Hw Hs [Hk [r [Hin Hsp]]]. split; [exact Hk|]. exists r. split; [exact Hin|].
  now apply (ResourceSpec_mono t' t).
Qed.

Lemma clean_outputs_spec t tg :
  let t' := fst (clean_outputs t tg) in
  sub t' t /\ (wf t = true -> wf t' = true) /\
  (wf t = true -> forall q, removed t t' q -> OutputSpec t tg q).
Proof.
  unfold clean_outputs, clean_outputs_gen, OutputSpec.
  destruct (rt_kind tg) eqn:Ek;
    [| cbn [fst]; split; [apply sub_refl | split; [tauto | intros _ q [H1 H2]; congruence]] ..].
  destruct (fold_ok_spec clean_resource ResourceSpec
              (fun t x => proj1 (clean_resource_spec t x))
              (fun t x => proj1 (proj2 (clean_resource_spec t x)))
              (fun t x q Hw => proj2 (proj2 (clean_resource_spec t x)) Hw q)
              ResourceSpec_mono
              (r_files (rt_output tg)) t) as (Hs & Hw & Hr).
  split; [exact Hs | split; [exact Hw|]]. intros Hwt q0 Hq0. split; [reflexivity | now apply Hr].
Qed.

(* ---------------------------------------------------------------- recorded state: per target, per project *)
Definition StateSpec (t : node) (tg : rtarget) (q : phys) : Prop := EntrySpec t (state_path tg) q.

Lemma delete_state_spec t tg :
  let t' := fst (delete_state t tg) in
  sub t' t /\ (wf t = true -> wf t' = true) /\ forall q, removed t t' q -> StateSpec t tg q.
Proof.
  unfold delete_state, StateSpec. destruct (exists_ t (state_path tg)); [|nothing_removed].
  destruct (unlink t (state_path tg)) as [t1| |] eqn:Eu; [|nothing_removed ..].
  apply unlink_done in Eu as [e [k (Hl & Hk & ->)]]. cbn [fst].
  repeat split; [apply sub_remove_entry | apply wf_remove_entry |].
  intros q Hq. exists e, k. repeat split; [exact Hl | exact Hk |].
  pose proof (stat_gen_kind _ _ _ _ _ Hl) as Hke.
  apply (below_nondir t e k q Hke Hk (removed_remove_entry t e q Hq)). exact (proj1 Hq).
Qed.

Definition WorkDirSpec (t : node) (d : bytes) (q : phys) : Prop :=
  exists e k, lstat t (work_dir_path d) = Some (e, k) /\ Below e q.

Lemma WorkDirSpec_mono t' t d q : sub t' t -> WorkDirSpec t' d q -> WorkDirSpec t d q.
Proof.
  intros Hs [e [k [Hl Hb]]]. exists e, k. split; [exact (stat_gen_mono _ _ _ _ _ _ Hs Hl) | exact Hb].
Qed.

Lemma ends_slash_zinoma_name : ends_slash zinoma_name = false.
Proof. reflexivity. Qed.

Lemma plain_spelling_work_dir d : plain_spelling (work_dir_path d).
Proof.
  unfold plain_spelling, path_comps, work_dir_path.
  assert (He : ends_slash (join d zinoma_name) = false).
  { destruct (join_cases d zinoma_name) as [[-> ->]|[[r' [-> ->]]|[_ ->]]]; [reflexivity| |].
    - change (slash :: zinoma_name) with ([slash] ++ zinoma_name). now rewrite !ends_slash_app by discriminate.
    - change (slash :: zinoma_name) with ([slash] ++ zinoma_name). now rewrite !ends_slash_app by discriminate. }
  now rewrite He.
Qed.

Lemma remove_dir_all_noent_tree t p : remove_dir_all t p = UNoEnt -> remove_dir_all_tree t p = t.
Proof.
  unfold remove_dir_all_tree. intros H. rewrite H. unfold remove_dir_all in H.
  destruct (resolve t p false) as [e| |]; try reflexivity.
  destruct (kind_at t e) as [[c m| |tg]|]; try reflexivity.
  destruct e as [|x e']; [discriminate|]. destruct (rmdir (empty_dir_at t (x :: e')) p); discriminate.
Qed.

Lemma remove_work_dir_tree t d : fst (remove_work_dir t d) = remove_dir_all_tree t (work_dir_path d).
Proof.
  unfold remove_work_dir. destruct (remove_dir_all t (work_dir_path d)) eqn:E; cbn [fst].
  - symmetry. now apply remove_dir_all_tree_done.
  - symmetry. now apply remove_dir_all_noent_tree.
  - reflexivity.
Qed.

Lemma remove_work_dir_spec t d :
  let t' := fst (remove_work_dir t d) in
  sub t' t /\ (wf t = true -> wf t' = true) /\ forall q, removed t t' q -> WorkDirSpec t d q.
Proof.
  cbv zeta. rewrite remove_work_dir_tree.
  destruct (remove_dir_all_spec t (work_dir_path d) (plain_spelling_work_dir d)) as (Hs & Hw & Hr).
  repeat split; [exact Hs | exact Hw | exact Hr].
Qed.

(* ---------------------------------------------------------------- the clean phase *)
(* what `--clean` may delete, read on the tree before it started (physical locations):
   - with targets on the command line: the state file of each target in scope;
     without: every project's .zinoma (the entry itself - a symlink is removed as a link - and all below it);
   - for each build target in scope, for each files resource of its output: without extensions the entry each declared
     path names and all below it; with extensions the entry of each listed file (never a directory). *)
Definition DeletedSpec (t : node) (targets : list rtarget) (dirs : list bytes) (requested : bool) (q : phys) : Prop :=
  (requested = true /\ exists tg, In tg targets /\ StateSpec t tg q) \/
  (requested = false /\ exists d, In d dirs /\ WorkDirSpec t d q) \/
  (exists tg, In tg targets /\ OutputSpec t tg q).

Lemma clean_phase_sound t targets dirs requested :
  wf t = true ->
  let t' := fst (clean_phase t targets dirs requested) in
  sub t' t /\ wf t' = true /\ forall q, removed t t' q -> DeletedSpec t targets dirs requested q.
Proof.
  intros Hwt. cbv zeta. unfold clean_phase, clean_phase_gen.
  (* phase 1: recorded state *)
  assert (H1 : let t1 := fst (if requested then fold_ok delete_state t targets else fold_ok remove_work_dir t dirs) in
               sub t1 t /\ wf t1 = true /\
               forall q, removed t t1 q ->
                 (requested = true /\ exists tg, In tg targets /\ StateSpec t tg q) \/
                 (requested = false /\ exists d, In d dirs /\ WorkDirSpec t d q)).
  { cbv zeta. destruct requested.
    - destruct (fold_ok_spec delete_state StateSpec
                  (fun t x => proj1 (delete_state_spec t x))
                  (fun t x => proj1 (proj2 (delete_state_spec t x)))
                  (fun t x q _ => proj2 (proj2 (delete_state_spec t x)) q)
                  (fun t' t x q _ _ => EntrySpec_mono t' t (state_path x) q)
                  targets t) as (Hs & Hw & Hr).
      split; [exact Hs | split; [now apply Hw|]]. intros q Hq. left. split; [reflexivity | now apply Hr].
    - destruct (fold_ok_spec remove_work_dir WorkDirSpec
                  (fun t x => proj1 (remove_work_dir_spec t x))
                  (fun t x => proj1 (proj2 (remove_work_dir_spec t x)))
                  (fun t x q _ => proj2 (proj2 (remove_work_dir_spec t x)) q)
                  (fun t' t x q _ _ => WorkDirSpec_mono t' t x q)
                  dirs t) as (Hs & Hw & Hr).
      split; [exact Hs | split; [now apply Hw|]]. intros q Hq. right. split; [reflexivity | now apply Hr]. }
  cbv zeta in H1.
  destruct (if requested then fold_ok delete_state t targets else fold_ok remove_work_dir t dirs) as [t1 ok] eqn:E1.
  cbn [fst] in H1. destruct H1 as (Hs1 & Hw1 & Hr1).
  destruct ok.
  2:{ cbn [fst]. split; [exact Hs1 | split; [exact Hw1|]]. intros q Hq. destruct (Hr1 q Hq) as [H|H]; [now left | right; now left]. }
  (* phase 2: outputs *)
  destruct (fold_ok_spec clean_outputs OutputSpec
              (fun t x => proj1 (clean_outputs_spec t x))
              (fun t x => proj1 (proj2 (clean_outputs_spec t x)))
              (fun t x q Hw => proj2 (proj2 (clean_outputs_spec t x)) Hw q)
              OutputSpec_mono targets t1) as (Hs2 & Hw2 & Hr2).
  split; [eapply sub_trans; eassumption | split; [now apply Hw2|]].
  intros q Hq. destruct (removed_trans t t1 _ q Hs2 Hq) as [H|H].
  - destruct (Hr1 q H) as [H'|H']; [now left | right; now left].
  - right; right. destruct (Hr2 Hw1 q H) as [tg [Hin Hsp]]. exists tg. split; [exact Hin|].
    now apply (OutputSpec_mono t1 t).
Qed.

(* ---------------------------------------------------------------- by definition *)
Lemma clean_resource_ext t r es :
  fr_exts r = Some es -> clean_resource t r = fold_ok (remove_listed false) t (listing_set t r).
Proof. unfold clean_resource, clean_resource_gen. now intros ->. Qed.

Lemma clean_outputs_non_build t tg : rt_kind tg <> TBuild -> clean_outputs t tg = (t, true).
Proof. unfold clean_outputs, clean_outputs_gen. destruct (rt_kind tg); congruence. Qed.

(* ================================================================ what is gone after a successful clean *)
Lemma removelast_exists t cur : kind_at t cur <> None -> kind_at t (removelast cur) <> None.
Proof.
  intros H. destruct cur as [|x c] using rev_ind; [exact H|]. rewrite removelast_last.
  rewrite (kind_at_below_is_dir t c [x]); [discriminate | discriminate | exact H].
Qed.

Lemma kind_at_root t : kind_at t [] = Some (shallow t).
Proof. reflexivity. Qed.

(* a successful resolution ends on something that exists *)
Lemma resolve_comps_exists t : forall n cs cur f q,
  resolve_comps n t cur cs f = RFound q -> kind_at t cur <> None -> kind_at t q <> None.
Proof.
  induction n as [|n IHn].
  - induction cs as [|c rest IH]; intros cur f q; [rewrite resolve_comps_nil; now intros [= <-]|].
    rewrite resolve_comps_cons.
    destruct (beq c dot1); [apply IH|]. destruct (beq c dotdot); [intros H Hc; apply (IH _ _ _ H), removelast_exists, Hc|].
    destruct (kind_at t (cur ++ [c])) as [[cc m| |tg]|] eqn:E; [| | |discriminate].
    + destruct (is_nil rest); [|discriminate]. intros [= <-] _. congruence.
    + intros H _. apply (IH _ _ _ H). congruence.
    + destruct (is_nil rest && negb f); [intros [= <-] _; congruence|]. destruct (is_nil tg); discriminate.
  - induction cs as [|c rest IH]; intros cur f q; [rewrite resolve_comps_nil; now intros [= <-]|].
    rewrite resolve_comps_cons.
    destruct (beq c dot1); [apply IH|]. destruct (beq c dotdot); [intros H Hc; apply (IH _ _ _ H), removelast_exists, Hc|].
    destruct (kind_at t (cur ++ [c])) as [[cc m| |tg]|] eqn:E; [| | |discriminate].
    + destruct (is_nil rest); [|discriminate]. intros [= <-] _. congruence.
    + intros H _. apply (IH _ _ _ H). congruence.
    + destruct (is_nil rest && negb f); [intros [= <-] _; congruence|]. destruct (is_nil tg); [discriminate|].
      intros H Hc. apply (IHn _ _ _ _ H). destruct (starts_with tg [slash]); [rewrite kind_at_root; discriminate | exact Hc].
Qed.

Lemma resolve_exists t p f q : resolve t p f = RFound q -> kind_at t q <> None.
Proof.
  unfold resolve. destruct (is_nil p); [discriminate|]. intros H. apply (resolve_comps_exists _ _ _ _ _ _ H).
  rewrite kind_at_root. discriminate.
Qed.

Lemma stat_gen_some t p f q : resolve t p f = RFound q -> exists k, stat_gen t p f = Some (q, k).
Proof.
  intros H. pose proof (resolve_exists _ _ _ _ H) as He. unfold stat_gen. rewrite H.
  destruct (kind_at t q) as [k|]; [now exists k | congruence].
Qed.

(* what does not resolve as an entry does not resolve at all *)
Lemma lstat_none_stat_none t p : lstat t p = None -> stat t p = None.
Proof.
  intros Hl. destruct (stat t p) as [[q k]|] eqn:Es; [|reflexivity].
  destruct (stat_lstat _ _ _ _ Es) as [e He]. destruct (stat_gen_some _ _ _ _ He) as [k' Hk'].
  unfold lstat in Hl. congruence.
Qed.

Lemma lstat_none_not_exists t p : lstat t p = None -> exists_ t p = false.
Proof. intros H. unfold exists_. now rewrite (lstat_none_stat_none _ _ H). Qed.

Lemma strip_prefix_refl e : strip_prefix e e = Some [].
Proof. apply strip_prefix_some. now rewrite app_nil_r. Qed.

(* once the entry a path names is removed, the path names nothing - in the resulting tree and in every sub-tree of it *)
Lemma lstat_gone t p e k t' :
  lstat t p = Some (e, k) -> e <> [] -> sub t' (remove_entry t e) -> lstat t' p = None.
Proof.
  intros Hl He Hs. destruct (lstat t' p) as [[e' k']|] eqn:El'; [|reflexivity]. exfalso.
  pose proof (stat_gen_mono _ _ _ _ _ _ (sub_trans _ _ _ Hs (sub_remove_entry t e)) El') as Hl2.
  unfold lstat in Hl. rewrite Hl in Hl2. injection Hl2 as <- <-.
  apply stat_gen_kind in El'. apply Hs in El'. rewrite kind_at_remove_entry in El' by exact He.
  now rewrite strip_prefix_refl in El'.
Qed.

Lemma lstat_none_anti t' t p : sub t' t -> lstat t p = None -> lstat t' p = None.
Proof.
  intros Hs H. destruct (lstat t' p) as [[e k]|] eqn:E; [|reflexivity].
  apply (stat_gen_mono _ _ _ _ _ _ Hs) in E. unfold lstat in H. congruence.
Qed.

Lemma not_exists_anti t' t p : sub t' t -> exists_ t p = false -> exists_ t' p = false.
Proof.
  intros Hs H. destruct (exists_ t' p) eqn:E; [|reflexivity]. apply (exists_mono _ _ _ Hs) in E. congruence.
Qed.

Definition RootDir (t : node) : Prop := kind_at t [] = Some KDir.

Lemma RootDir_anti t' t : sub t' t -> RootDir t -> RootDir t'.
Proof.
  unfold RootDir. intros Hs H. pose proof (Hs [] _ (kind_at_root t')) as H'. rewrite H in H'. rewrite kind_at_root. congruence.
Qed.

Lemma lstat_entry_nonroot t p e k : RootDir t -> lstat t p = Some (e, k) -> k <> KDir -> e <> [].
Proof. intros Hr Hl Hk ->. apply stat_gen_kind in Hl. unfold RootDir in Hr. congruence. Qed.

(* ---------------------------------------------------------------- folds: what each item left *)
Section FoldGone.
  Context {A : Type} (f : node -> A -> node * bool) (Pre : A -> node -> Prop) (Gone : A -> node -> node -> Prop).
  Hypothesis f_sub : forall t x, sub (fst (f t x)) t.
  Hypothesis Pre_anti : forall t' t x, sub t' t -> Pre x t -> Pre x t'.
  Hypothesis f_gone : forall t x, Pre x t -> snd (f t x) = true -> Gone x t (fst (f t x)).
  Hypothesis Gone_anti : forall x ti t' t'', sub t'' t' -> Gone x ti t' -> Gone x ti t''.

  Lemma fold_ok_sub : forall l t, sub (fst (fold_ok f t l)) t.
  Proof.
    induction l as [|x r IH]; intros t; cbn [fold_ok]; [apply sub_refl|].
    pose proof (f_sub t x) as H. destruct (f t x) as [t1 ok]. cbn [fst] in H. destruct ok; [|exact H].
    eapply sub_trans; [apply IH | exact H].
  Qed.

  Lemma fold_ok_gone : forall l t,
    (forall x, In x l -> Pre x t) -> snd (fold_ok f t l) = true ->
    forall x, In x l ->
      exists ti, sub (fst (fold_ok f t l)) ti /\ sub ti t /\ Gone x ti (fst (fold_ok f t l)).
  Proof.
    induction l as [|y r IH]; intros t Hpre Hok x Hin; [destruct Hin|].
    cbn [fold_ok] in *. pose proof (f_sub t y) as Hs1. pose proof (f_gone t y (Hpre y (or_introl eq_refl))) as Hg1.
    destruct (f t y) as [t1 ok]. cbn [fst snd] in *. destruct ok; [|discriminate].
    destruct Hin as [->|Hin].
    - exists t. split; [eapply sub_trans; [apply fold_ok_sub | exact Hs1]|]. split; [apply sub_refl|].
      apply (Gone_anti x t t1 _ (fold_ok_sub r t1)). now apply Hg1.
    - destruct (IH t1 (fun z Hz => Pre_anti t1 t z Hs1 (Hpre z (or_intror Hz))) Hok x Hin) as [ti (H1 & H2 & H3)].
      exists ti. split; [exact H1|]. split; [eapply sub_trans; eassumption | exact H3].
  Qed.
End FoldGone.

(* ---------------------------------------------------------------- items *)
Lemma remove_listed_gone t p :
  RootDir t -> snd (remove_listed false t p) = true -> lstat (fst (remove_listed false t p)) p = None.
Proof.
  intros Hr. unfold remove_listed, unlink.
  destruct (resolve t p false) as [e| |] eqn:Er; cbn [fst snd]; try discriminate.
  - destruct (stat_gen_some _ _ _ _ Er) as [k Hl]. pose proof (stat_gen_kind _ _ _ _ _ Hl) as Hk. rewrite Hk.
    destruct k as [c m| |tg]; cbn [fst snd]; try discriminate; intros _.
    + apply (lstat_gone t p e _ _ Hl); [apply (lstat_entry_nonroot t p e _ Hr Hl); discriminate | apply sub_refl].
    + apply (lstat_gone t p e _ _ Hl); [apply (lstat_entry_nonroot t p e _ Hr Hl); discriminate | apply sub_refl].
  - intros _. unfold lstat, stat_gen. now rewrite Er.
Qed.

Lemma delete_state_gone t tg :
  RootDir t -> snd (delete_state t tg) = true -> exists_ (fst (delete_state t tg)) (state_path tg) = false.
Proof.
  intros Hr. unfold delete_state. destruct (exists_ t (state_path tg)) eqn:Ex; [|now intros _].
  destruct (unlink t (state_path tg)) as [t1| |] eqn:Eu; cbn [fst snd]; try discriminate. intros _.
  apply unlink_done in Eu as [e [k (Hl & Hk & ->)]]. apply lstat_none_not_exists.
  apply (lstat_gone t _ e k _ Hl); [now apply (lstat_entry_nonroot t _ e k Hr Hl) | apply sub_refl].
Qed.

Lemma rmdir_noent t p : plain_spelling p -> is_nil p = false -> rmdir t p = UNoEnt -> lstat t p = None.
Proof.
  intros Hp Hn. unfold rmdir, lstat, stat_gen. rewrite (resolve_plain _ _ _ Hp Hn).
  destruct (last_seg p) as [l|]; [|discriminate].
  destruct (resolve_comps max_links t [] (segs p) false) as [e| |] eqn:Er; try discriminate; [|reflexivity].
  destruct (beq l dot1 || beq l dotdot); [discriminate|].
  unfold kind_at. destruct (get t e) as [[| [|x es] |]|]; try discriminate. reflexivity.
Qed.

(* remove_dir_all succeeded on a path that does not denote the root: the path names nothing any more *)
Lemma remove_dir_all_gone t p t' :
  plain_spelling p -> (forall k, lstat t p <> Some ([], k)) ->
  remove_dir_all t p = UDone t' -> lstat t' p = None.
Proof.
  intros Hp Hroot. unfold remove_dir_all.
  destruct (is_nil p) eqn:Hnil; [destruct p; [|discriminate]; discriminate|].
  destruct (resolve t p false) as [e| |] eqn:Er; try discriminate.
  destruct (stat_gen_some _ _ _ _ Er) as [k Hl]. pose proof (stat_gen_kind _ _ _ _ _ Hl) as Hk. rewrite Hk.
  assert (He : e <> []) by (intros ->; now apply (Hroot k)).
  destruct k as [c m| |tg]; try discriminate.
  - destruct e as [|x e']; [congruence|].
    set (t1 := empty_dir_at t (x :: e')).
    assert (Hl1 : sub t1 t) by apply sub_empty_dir_at.
    destruct (rmdir t1 p) as [t2| |] eqn:Erm; try discriminate.
    + intros [= <-]. apply rmdir_done in Erm as [e2 [He2 ->]].
      pose proof He2 as He2'. apply (resolve_comps_mono _ _ Hl1) in He2'.
      rewrite (resolve_plain _ _ _ Hp Hnil) in Er. rewrite Er in He2'. injection He2' as <-.
      assert (Hl2 : exists k2, lstat t1 p = Some (x :: e', k2)).
      { apply stat_gen_some. now rewrite (resolve_plain _ _ _ Hp Hnil). }
      destruct Hl2 as [k2 Hl2]. apply (lstat_gone t1 p (x :: e') k2 _ Hl2); [discriminate | apply sub_refl].
    + intros [= <-]. now apply rmdir_noent.
  - intros Hu. apply unlink_done in Hu as [e2 [k2 (Hl2 & Hk2 & ->)]].
    unfold lstat in Hl2. rewrite Hl in Hl2. injection Hl2 as <- <-.
    apply (lstat_gone t p e _ _ Hl He), sub_refl.
Qed.

Lemma removelast_dir t cur : kind_at t cur = Some KDir -> kind_at t (removelast cur) = Some KDir.
Proof.
  intros H. destruct cur as [|x c] using rev_ind; [exact H|]. rewrite removelast_last.
  apply (kind_at_below_is_dir t c [x]); [discriminate | congruence].
Qed.

(* a resolution that follows a final symlink never stops on a symlink *)
Lemma resolve_comps_follow_kind t (Hr : RootDir t) : forall n cs cur q,
  resolve_comps n t cur cs true = RFound q -> kind_at t cur = Some KDir ->
  forall tg, kind_at t q <> Some (KLink tg).
Proof.
  induction n as [|n IHn].
  - induction cs as [|c rest IH]; intros cur q; [rewrite resolve_comps_nil; intros [= <-] H tg; congruence|].
    rewrite resolve_comps_cons.
    destruct (beq c dot1); [apply IH|].
    destruct (beq c dotdot); [intros H Hc; apply (IH _ _ H), removelast_dir, Hc|].
    destruct (kind_at t (cur ++ [c])) as [[cc m| |tg']|] eqn:E; [| | |discriminate].
    + destruct (is_nil rest); [|discriminate]. intros [= <-] _ tg. congruence.
    + intros H _. now apply (IH _ _ H).
    + rewrite andb_false_r. destruct (is_nil tg'); discriminate.
  - induction cs as [|c rest IH]; intros cur q; [rewrite resolve_comps_nil; intros [= <-] H tg; congruence|].
    rewrite resolve_comps_cons.
    destruct (beq c dot1); [apply IH|].
    destruct (beq c dotdot); [intros H Hc; apply (IH _ _ H), removelast_dir, Hc|].
    destruct (kind_at t (cur ++ [c])) as [[cc m| |tg']|] eqn:E; [| | |discriminate].
    + destruct (is_nil rest); [|discriminate]. intros [= <-] _ tg. congruence.
    + intros H _. now apply (IH _ _ H).
    + rewrite andb_false_r. destruct (is_nil tg'); [discriminate|].
      intros H Hc. apply (IHn _ _ _ H). destruct (starts_with tg' [slash]); [exact Hr | exact Hc].
Qed.

Lemma stat_not_link t p q tg : RootDir t -> stat t p = Some (q, KLink tg) -> False.
Proof.
  intros Hr H. pose proof (stat_gen_kind _ _ _ _ _ H) as Hk. apply stat_gen_resolve in H.
  unfold resolve in H. destruct (is_nil p); [discriminate|].
  exact (resolve_comps_follow_kind t Hr _ _ _ _ H Hr tg Hk).
Qed.

Lemma clean_path_gone t p :
  RootDir t -> (forall k, lstat t (normalise p) <> Some ([], k)) ->
  snd (clean_path t p) = true -> exists_ (fst (clean_path t p)) (normalise p) = false.
Proof.
  intros Hrd Hroot. unfold clean_path, clean_path_pinned.
  destruct (exists_ t (normalise p)) eqn:Ex; [|now intros _].
  destruct (is_file t (normalise p)) eqn:Ef.
  - destruct (unlink t (normalise p)) as [t1| |] eqn:Eu; cbn [fst snd]; try discriminate. intros _.
    apply unlink_done in Eu as [e [k (Hl & Hk & ->)]]. apply lstat_none_not_exists.
    apply (lstat_gone t _ e k _ Hl); [intros ->; now apply (Hroot k) | apply sub_refl].
  - destruct (is_dir t (normalise p)) eqn:Ed.
    + destruct (remove_dir_all t (normalise p)) as [t1| |] eqn:Er; cbn [fst snd]; try discriminate. intros _.
      apply lstat_none_not_exists.
      exact (remove_dir_all_gone t _ t1 (plain_spelling_normalise p) Hroot Er).
    + (* exists, neither a regular file nor a directory: not in this model (a followed resolution never ends on a link) *)
      exfalso. unfold exists_, is_file, is_dir in *.
      destruct (stat t (normalise p)) as [[q k]|] eqn:Es; [|discriminate].
      destruct k as [c m| |tg]; try discriminate. exact (stat_not_link t _ q tg Hrd Es).
Qed.

(* ---------------------------------------------------------------- prefixes of a path *)
(* if a path resolves, every prefix of its components resolves as an entry *)
Lemma resolve_comps_prefix t : forall n cs1 cs2 cur f q,
  resolve_comps n t cur (cs1 ++ cs2) f = RFound q -> exists q1, resolve_comps n t cur cs1 false = RFound q1.
Proof.
  induction n as [|n IHn].
  - induction cs1 as [|c r IH]; intros cs2 cur f q; [rewrite resolve_comps_nil; eauto|].
    cbn [app]. rewrite !resolve_comps_cons.
    destruct (beq c dot1); [apply IH|]. destruct (beq c dotdot); [apply IH|].
    destruct (kind_at t (cur ++ [c])) as [[cc m| |tg]|]; [| apply IH | | discriminate].
    + destruct r; [cbn; eauto|]. cbn [app is_nil]. discriminate.
    + rewrite andb_true_r. destruct (is_nil r) eqn:Er; [eauto|].
      assert (is_nil (r ++ cs2) = false) as -> by (destruct r; [discriminate | reflexivity]).
      cbn [andb]. destruct (is_nil tg); discriminate.
  - induction cs1 as [|c r IH]; intros cs2 cur f q; [rewrite resolve_comps_nil; eauto|].
    cbn [app]. rewrite !resolve_comps_cons.
    destruct (beq c dot1); [apply IH|]. destruct (beq c dotdot); [apply IH|].
    destruct (kind_at t (cur ++ [c])) as [[cc m| |tg]|]; [| apply IH | | discriminate].
    + destruct r; [cbn; eauto|]. cbn [app is_nil]. discriminate.
    + rewrite andb_true_r. destruct (is_nil r) eqn:Er; [eauto|].
      assert (is_nil (r ++ cs2) = false) as -> by (destruct r; [discriminate | reflexivity]).
      cbn [andb]. destruct (is_nil tg); [discriminate|]. rewrite app_assoc. apply IHn.
Qed.

Lemma segs_app_sep a b : segs (a ++ slash :: b) = segs a ++ segs b.
Proof. unfold segs. now rewrite split_on_app_sep, filter_app. Qed.

Lemma segs_nil : segs [] = [].
Proof. reflexivity. Qed.

Lemma segs_join root nm : segs (join root nm) = segs root ++ segs nm.
Proof.
  destruct (join_cases root nm) as [[-> ->]|[[r' [-> ->]]|[_ ->]]].
  - reflexivity.
  - now rewrite !segs_app_sep, segs_nil, app_nil_r.
  - apply segs_app_sep.
Qed.

Lemma path_comps_join_prefix root nm : exists x, path_comps (join root nm) = segs root ++ x.
Proof.
  unfold path_comps. rewrite segs_join.
  destruct (ends_slash (join root nm) && negb (is_nil (segs root ++ segs nm))).
  - exists (segs nm ++ [dot1]). now rewrite app_assoc.
  - now exists (segs nm).
Qed.

Lemma is_nil_join root nm : is_nil root = false -> is_nil (join root nm) = false.
Proof.
  intros H. destruct (join_cases root nm) as [[-> _]|[[r' [-> ->]]|[_ ->]]]; [discriminate | |].
  - destruct r'; reflexivity.
  - destruct root; [discriminate | reflexivity].
Qed.

(* nothing exists beneath a path that names nothing *)
Lemma not_exists_below t wd nm :
  plain_spelling wd -> is_nil wd = false -> lstat t wd = None -> exists_ t (join wd nm) = false.
Proof.
  intros Hp Hn Hl. destruct (exists_ t (join wd nm)) eqn:Ex; [|reflexivity]. exfalso.
  unfold exists_ in Ex. destruct (stat t (join wd nm)) as [[q k]|] eqn:Es; [|discriminate].
  apply stat_gen_resolve in Es. unfold resolve in Es. rewrite (is_nil_join _ _ Hn) in Es.
  destruct (path_comps_join_prefix wd nm) as [x Hx]. rewrite Hx in Es.
  apply resolve_comps_prefix in Es as [q1 Hq1].
  assert (Hr : resolve t wd false = RFound q1) by (now rewrite (resolve_plain _ _ _ Hp Hn)).
  destruct (stat_gen_some _ _ _ _ Hr) as [k1 Hk1]. unfold lstat in Hl. congruence.
Qed.

Lemma is_nil_work_dir d : is_nil (work_dir_path d) = false.
Proof.
  unfold work_dir_path. destruct (join_cases d zinoma_name) as [[-> ->]|[[r' [-> ->]]|[_ ->]]]; [reflexivity | |].
  - destruct r'; reflexivity.
  - destruct d; reflexivity.
Qed.

(* the entry named by a path whose last segment is an ordinary name is never the root *)
Lemma resolve_comps_last_normal t c :
  beq c dot1 = false -> beq c dotdot = false ->
  forall n cs cur q, resolve_comps n t cur (cs ++ [c]) false = RFound q -> q <> [].
Proof.
  intros Hd Hdd. induction n as [|n IHn].
  - induction cs as [|c0 r IH]; intros cur q.
    + cbn [app]. rewrite resolve_comps_cons, Hd, Hdd.
      destruct (kind_at t (cur ++ [c])) as [[cc m| |tg]|]; try discriminate;
        cbn [is_nil andb negb]; rewrite ?resolve_comps_nil; intros [= <-]; now destruct cur.
    + cbn [app]. rewrite resolve_comps_cons.
      destruct (beq c0 dot1); [apply IH|]. destruct (beq c0 dotdot); [apply IH|].
      destruct (kind_at t (cur ++ [c0])) as [[cc m| |tg]|]; [| apply IH | | discriminate].
      * destruct r; discriminate.
      * assert (is_nil (r ++ [c]) = false) as -> by (destruct r; reflexivity).
        cbn [andb]. destruct (is_nil tg); discriminate.
  - induction cs as [|c0 r IH]; intros cur q.
    + cbn [app]. rewrite resolve_comps_cons, Hd, Hdd.
      destruct (kind_at t (cur ++ [c])) as [[cc m| |tg]|]; try discriminate;
        cbn [is_nil andb negb]; rewrite ?resolve_comps_nil; intros [= <-]; now destruct cur.
    + cbn [app]. rewrite resolve_comps_cons.
      destruct (beq c0 dot1); [apply IH|]. destruct (beq c0 dotdot); [apply IH|].
      destruct (kind_at t (cur ++ [c0])) as [[cc m| |tg]|]; [| apply IH | | discriminate].
      * destruct r; discriminate.
      * assert (is_nil (r ++ [c]) = false) as -> by (destruct r; reflexivity).
        cbn [andb]. destruct (is_nil tg); [discriminate|]. rewrite app_assoc. apply IHn.
Qed.

Lemma segs_zinoma_name : segs zinoma_name = [zinoma_name].
Proof. reflexivity. Qed.

Lemma work_dir_not_root t d k : lstat t (work_dir_path d) <> Some ([], k).
Proof.
  intros H. apply stat_gen_resolve in H.
  rewrite (resolve_plain _ _ _ (plain_spelling_work_dir d) (is_nil_work_dir d)) in H.
  unfold work_dir_path in H. rewrite segs_join, segs_zinoma_name in H.
  now apply (resolve_comps_last_normal t zinoma_name eq_refl eq_refl) in H.
Qed.

Lemma remove_work_dir_gone t d :
  snd (remove_work_dir t d) = true -> lstat (fst (remove_work_dir t d)) (work_dir_path d) = None.
Proof.
  unfold remove_work_dir. destruct (remove_dir_all t (work_dir_path d)) as [t1| |] eqn:Er; cbn [fst snd]; try discriminate; intros _.
  - apply (remove_dir_all_gone t _ t1 (plain_spelling_work_dir d)); [intros k; apply work_dir_not_root | exact Er].
  - (* NotFound: nothing was there *)
    unfold remove_dir_all in Er. unfold lstat, stat_gen.
    destruct (resolve t (work_dir_path d) false) as [e| |] eqn:E; try discriminate; [|reflexivity].
    destruct (stat_gen_some _ _ _ _ E) as [k Hl]. pose proof (stat_gen_kind _ _ _ _ _ Hl) as Hk. rewrite Hk in Er.
    destruct k as [c m| |tg]; try discriminate.
    + destruct e as [|x e']; [discriminate|]. destruct (rmdir (empty_dir_at t (x :: e')) (work_dir_path d)); discriminate.
    + rewrite (unlink_noent_or_done _ _ _ _ Hl) in Er; discriminate.
Qed.

(* ---------------------------------------------------------------- a resource, a target, the phase *)
(* `ti`: the tree at the moment the resource was cleaned; `t'`: a tree afterwards *)
Definition ResourceGone (r : files_resource) (ti t' : node) : Prop :=
  match fr_exts r with
  | Some _ => forall p, In p (listing_set ti r) -> lstat t' p = None
  | None => forall p, In p (fr_paths r) -> exists_ t' (normalise p) = false
  end.

(* no plain declared output path denotes the root of the tree *)
Definition NotRoot (t : node) (r : files_resource) : Prop :=
  fr_exts r = None -> forall p, In p (fr_paths r) -> forall k, lstat t (normalise p) <> Some ([], k).

Lemma NotRoot_anti t' t r : sub t' t -> NotRoot t r -> NotRoot t' r.
Proof.
  intros Hs H He p Hp k Hl. apply (H He p Hp k). exact (stat_gen_mono _ _ _ _ _ _ Hs Hl).
Qed.

Lemma ResourceGone_anti r ti t' t'' : sub t'' t' -> ResourceGone r ti t' -> ResourceGone r ti t''.
Proof.
  unfold ResourceGone. intros Hs. destruct (fr_exts r); intros H p Hp.
  - apply (lstat_none_anti _ _ _ Hs), H, Hp.
  - apply (not_exists_anti _ _ _ Hs), H, Hp.
Qed.

Lemma clean_resource_gone t r :
  RootDir t /\ NotRoot t r -> snd (clean_resource t r) = true -> ResourceGone r t (fst (clean_resource t r)).
Proof.
  intros [Hrd Hnr]. unfold clean_resource, clean_resource_gen, ResourceGone, NotRoot in *.
  destruct (fr_exts r) as [es|].
  - intros Hok p Hp.
    destruct (fold_ok_gone (remove_listed false) (fun _ t => RootDir t) (fun x _ t' => lstat t' x = None)
                (fun t x => proj1 (remove_listed_spec false t x))
                (fun t' t _ => RootDir_anti t' t)
                remove_listed_gone
                (fun x _ t' t'' Hs => lstat_none_anti t'' t' x Hs)
                (listing_set t r) t (fun _ _ => Hrd) Hok p Hp) as [ti (_ & _ & H)]. exact H.
  - intros Hok p Hp.
    destruct (fold_ok_gone clean_path
                (fun x t => RootDir t /\ forall k, lstat t (normalise x) <> Some ([], k))
                (fun x _ t' => exists_ t' (normalise x) = false)
                (fun t x => proj1 (clean_path_spec t x))
                (fun t' t x Hs H => conj (RootDir_anti t' t Hs (proj1 H))
                                         (fun k Hl => proj2 H k (stat_gen_mono _ _ _ _ _ _ Hs Hl)))
                (fun t x H => clean_path_gone t x (proj1 H) (proj2 H))
                (fun x _ t' t'' Hs => not_exists_anti t'' t' (normalise x) Hs)
                (fr_paths r) t (fun x Hx => conj Hrd (Hnr eq_refl x Hx)) Hok p Hp) as [ti (_ & _ & H)]. exact H.
Qed.

Definition TargetGone (tg : rtarget) (ti t' : node) : Prop :=
  rt_kind tg = TBuild ->
  forall r, In r (r_files (rt_output tg)) -> exists tj, sub t' tj /\ sub tj ti /\ ResourceGone r tj t'.

Lemma TargetGone_anti tg ti t' t'' : sub t'' t' -> TargetGone tg ti t' -> TargetGone tg ti t''.
Proof.
  intros Hs H Hk r Hr. destruct (H Hk r Hr) as [tj (H1 & H2 & H3)]. exists tj.
  split; [eapply sub_trans; eassumption|]. split; [exact H2 | now apply (ResourceGone_anti r tj t')].
Qed.

Definition OutputsNotRoot (tg : rtarget) (t : node) : Prop :=
  RootDir t /\ forall r, In r (r_files (rt_output tg)) -> NotRoot t r.

Lemma OutputsNotRoot_anti t' t tg : sub t' t -> OutputsNotRoot tg t -> OutputsNotRoot tg t'.
Proof.
  intros Hs [H1 H2]. split; [now apply (RootDir_anti t' t) | intros r Hr; apply (NotRoot_anti t' t r Hs), H2, Hr].
Qed.

Lemma clean_outputs_gone t tg :
  OutputsNotRoot tg t -> snd (clean_outputs t tg) = true -> TargetGone tg t (fst (clean_outputs t tg)).
Proof.
  intros [Hrd Hnr] Hok Hk r Hr. unfold clean_outputs, clean_outputs_gen in *. rewrite Hk in *.
  exact (fold_ok_gone clean_resource (fun r t => RootDir t /\ NotRoot t r) ResourceGone
           (fun t x => proj1 (clean_resource_spec t x))
           (fun t' t r Hs H => conj (RootDir_anti t' t Hs (proj1 H)) (NotRoot_anti t' t r Hs (proj2 H)))
           clean_resource_gone ResourceGone_anti
           (r_files (rt_output tg)) t (fun x Hx => conj Hrd (Hnr x Hx)) Hok r Hr).
Qed.

Lemma plain_spelling_nonnil_work_dir d : plain_spelling (work_dir_path d) /\ is_nil (work_dir_path d) = false.
Proof. split; [apply plain_spelling_work_dir | apply is_nil_work_dir]. Qed.

(* after a clean phase that reported no error: every output resource of every build target in scope denotes nothing
   any more (read at the moment it was cleaned), and no state of a target in scope is left *)
Lemma clean_phase_gone t targets dirs requested :
  RootDir t ->
  (forall tg, In tg targets -> forall r, In r (r_files (rt_output tg)) -> NotRoot t r) ->
  snd (clean_phase t targets dirs requested) = true ->
  let t' := fst (clean_phase t targets dirs requested) in
  (forall tg, In tg targets -> rt_kind tg = TBuild -> forall r, In r (r_files (rt_output tg)) ->
     exists tj, sub t' tj /\ sub tj t /\ ResourceGone r tj t') /\
  (requested = true -> forall tg, In tg targets -> exists_ t' (state_path tg) = false) /\
  (requested = false -> forall d, In d dirs ->
     lstat t' (work_dir_path d) = None /\
     forall tg, rt_dir tg = d -> exists_ t' (state_path tg) = false).
Proof.
  intros Hrd Hnr. unfold clean_phase, clean_phase_gen.
  destruct (if requested then fold_ok delete_state t targets else fold_ok remove_work_dir t dirs) as [t1 ok1] eqn:E1.
  destruct ok1; [|discriminate]. intros Hok2. cbv zeta.
  set (t' := fst (fold_ok (clean_outputs_gen false) t1 targets)).
  assert (Hs1 : sub t1 t).
  { destruct requested.
    - pose proof (fold_ok_sub delete_state (fun t x => proj1 (delete_state_spec t x)) targets t) as H. now rewrite E1 in H.
    - pose proof (fold_ok_sub remove_work_dir (fun t x => proj1 (remove_work_dir_spec t x)) dirs t) as H. now rewrite E1 in H. }
  assert (Hs2 : sub t' t1) by apply (fold_ok_sub clean_outputs (fun t x => proj1 (clean_outputs_spec t x))).
  split; [|split].
  - intros tg Hin Hk r Hr.
    destruct (fold_ok_gone clean_outputs OutputsNotRoot TargetGone
                (fun t x => proj1 (clean_outputs_spec t x))
                (fun t' t tg => OutputsNotRoot_anti t' t tg)
                clean_outputs_gone TargetGone_anti targets t1
                (fun tg Htg => OutputsNotRoot_anti t1 t tg Hs1 (conj Hrd (Hnr tg Htg))) Hok2 tg Hin)
      as [ti (H1 & H2 & H3)].
    destruct (H3 Hk r Hr) as [tj (H4 & H5 & H6)]. exists tj.
    split; [exact H4|]. split; [|exact H6]. eapply sub_trans; [exact H5|]. eapply sub_trans; eassumption.
  - intros -> tg Hin.
    assert (Hok1 : snd (fold_ok delete_state t targets) = true) by now rewrite E1.
    destruct (fold_ok_gone delete_state (fun _ t => RootDir t) (fun x _ t' => exists_ t' (state_path x) = false)
                (fun t x => proj1 (delete_state_spec t x))
                (fun t' t _ => RootDir_anti t' t)
                delete_state_gone
                (fun x _ t' t'' Hs => not_exists_anti t'' t' (state_path x) Hs)
                targets t (fun _ _ => Hrd) Hok1 tg Hin) as [ti (_ & _ & H)].
    rewrite E1 in H. cbn [fst] in H. exact (not_exists_anti _ _ _ Hs2 H).
  - intros -> d Hin.
    assert (Hok1 : snd (fold_ok remove_work_dir t dirs) = true) by now rewrite E1.
    destruct (fold_ok_gone remove_work_dir (fun _ _ => True) (fun x _ t' => lstat t' (work_dir_path x) = None)
                (fun t x => proj1 (remove_work_dir_spec t x))
                (fun _ _ _ _ _ => I)
                (fun t x _ => remove_work_dir_gone t x)
                (fun x _ t' t'' Hs => lstat_none_anti t'' t' (work_dir_path x) Hs)
                dirs t (fun _ _ => I) Hok1 d Hin) as [ti (_ & _ & H)].
    rewrite E1 in H. cbn [fst] in H. pose proof (lstat_none_anti _ _ _ Hs2 H) as H'.
    split; [exact H'|]. intros tg <-. unfold state_path.
    destruct (plain_spelling_nonnil_work_dir (rt_dir tg)) as [Hp Hn].
    exact (not_exists_below t' _ _ Hp Hn H').
Qed.

(* ---------------------------------------------------------------- corollaries used by the property theorems *)
(* whatever is not in the deletion spec is exactly as before *)
Lemma unchanged_outside t t' (S : phys -> Prop) :
  sub t' t -> (forall q, removed t t' q -> S q) -> forall q, ~ S q -> kind_at t' q = kind_at t q.
Proof.
  intros Hs Hr q Hq. destruct (kind_at t' q) as [k|] eqn:E; [symmetry; now apply Hs|].
  destruct (kind_at t q) as [k|] eqn:E2; [|reflexivity]. exfalso. apply Hq, Hr. split; congruence.
Qed.

Lemma clean_phase_frame t targets dirs requested :
  wf t = true ->
  forall q, ~ DeletedSpec t targets dirs requested q ->
  kind_at (fst (clean_phase t targets dirs requested)) q = kind_at t q.
Proof.
  intros Hw. destruct (clean_phase_sound t targets dirs requested Hw) as (Hs & _ & Hr).
  now apply (unchanged_outside t _ _ Hs Hr).
Qed.

(* a plain declared output that is a symlink: at most the link itself disappears *)
Lemma clean_path_symlink t p e tg :
  lstat t (normalise p) = Some (e, KLink tg) ->
  forall q, q <> e -> kind_at (fst (clean_path t p)) q = kind_at t q.
Proof.
  intros Hl. destruct (clean_path_spec t p) as (Hs & _ & Hr).
  apply (unchanged_outside t _ (fun q => q = e) Hs).
  intros q Hq. destruct (Hr q Hq) as [e' [k' (Hl' & _ & Hb)]]. unfold lstat in *. rewrite Hl in Hl'. injection Hl' as <- <-.
  apply (below_nondir t e (KLink tg) q (stat_gen_kind _ _ _ _ _ Hl)); [discriminate | exact Hb | exact (proj1 Hq)].
Qed.

(* extension-filtered outputs: only entries of listed files disappear - each a regular file or a symlink, never a
   directory, and a listed symlink is removed as a link (its target stays unless listed itself) *)
Lemma clean_resource_ext_entries t r es :
  wf t = true -> fr_exts r = Some es ->
  forall q, removed t (fst (clean_resource t r)) q ->
  exists p e k, In p (listing t r) /\ lstat t p = Some (e, k) /\ k <> KDir /\ q = e.
Proof.
  intros Hw He q Hq. destruct (clean_resource_spec t r) as (_ & _ & Hr). specialize (Hr Hw q Hq).
  unfold ResourceSpec in Hr. rewrite He in Hr. destruct Hr as [p [Hin [e [k (Hl & Hk & ->)]]]]. now exists p, e, k.
Qed.

(* scope *)
Lemma clean_phase_requested_scope t targets dirs :
  wf t = true ->
  forall q, removed t (fst (clean_phase t targets dirs true)) q ->
  exists tg, In tg targets /\ (StateSpec t tg q \/ OutputSpec t tg q).
Proof.
  intros Hw q Hq. destruct (clean_phase_sound t targets dirs true Hw) as (_ & _ & Hr).
  destruct (Hr q Hq) as [[_ [tg [Hin H]]]|[[H _]|[tg [Hin H]]]]; [exists tg; tauto | discriminate | exists tg; tauto].
Qed.

Lemma clean_phase_bare_scope t targets dirs :
  wf t = true ->
  forall q, removed t (fst (clean_phase t targets dirs false)) q ->
  (exists d, In d dirs /\ WorkDirSpec t d q) \/ (exists tg, In tg targets /\ OutputSpec t tg q).
Proof.
  intros Hw q Hq. destruct (clean_phase_sound t targets dirs false Hw) as (_ & _ & Hr).
  destruct (Hr q Hq) as [[H _]|[[_ H]|H]]; [discriminate | now left | now right].
Qed.

Lemma clean_phase_state_absent t targets dirs requested :
  RootDir t ->
  (forall tg, In tg targets -> forall r, In r (r_files (rt_output tg)) -> NotRoot t r) ->
  snd (clean_phase t targets dirs requested) = true ->
  forall tg, In tg targets -> (requested = false -> In (rt_dir tg) dirs) ->
  exists_ (fst (clean_phase t targets dirs requested)) (state_path tg) = false.
Proof.
  intros Hrd Hnr Hok tg Hin Hd. destruct (clean_phase_gone t targets dirs requested Hrd Hnr Hok) as (_ & H1 & H2).
  destruct requested; [now apply H1|]. destruct (H2 eq_refl _ (Hd eq_refl)) as [_ H]. now apply H.
Qed.

Lemma clean_phase_outputs_gone t targets dirs requested :
  RootDir t ->
  (forall tg, In tg targets -> forall r, In r (r_files (rt_output tg)) -> NotRoot t r) ->
  snd (clean_phase t targets dirs requested) = true ->
  let t' := fst (clean_phase t targets dirs requested) in
  forall tg, In tg targets -> rt_kind tg = TBuild -> forall r, In r (r_files (rt_output tg)) ->
    exists tj, sub t' tj /\ sub tj t /\ ResourceGone r tj t'.
Proof. intros Hrd Hnr Hok. exact (proj1 (clean_phase_gone t targets dirs requested Hrd Hnr Hok)). Qed.

Lemma clean_phase_work_dirs_gone t targets dirs :
  RootDir t ->
  (forall tg, In tg targets -> forall r, In r (r_files (rt_output tg)) -> NotRoot t r) ->
  snd (clean_phase t targets dirs false) = true ->
  forall d, In d dirs -> lstat (fst (clean_phase t targets dirs false)) (work_dir_path d) = None.
Proof.
  intros Hrd Hnr Hok d Hd. destruct (clean_phase_gone t targets dirs false Hrd Hnr Hok) as (_ & _ & H).
  exact (proj1 (H eq_refl d Hd)).
Qed.

(* ================================================================ witnesses (evaluated by vm_compute) *)
Definition b_real : bytes := [114;101;97;108].          (* "real" *)
Definition b_out : bytes := [111;117;116].              (* "out" *)
Definition b_r_o : bytes := [114;46;111].               (* "r.o" *)
Definition b_sub : bytes := [115;117;98].               (* "sub" *)
Definition b_dot_o : bytes := [46;111].                 (* ".o" *)
Definition p_out_slash : bytes := [47;111;117;116;47].  (* "/out/" *)
Definition p_out : bytes := [47;111;117;116].           (* "/out" *)
Definition p_real : bytes := [47;114;101;97;108].       (* "/real" *)
Definition p_out_sub : bytes := [47;111;117;116;47;115;117;98].   (* "/out/sub" *)

(* /real/r.o, /real/sub/r.o, /out -> real *)
Definition w_tree : node :=
  Dir [ (b_real, Dir [ (b_r_o, File 1 0); (b_sub, Dir [ (b_r_o, File 2 0) ]) ]); (b_out, Link b_real) ].

Definition w_target (name : bytes) (rs : list files_resource) : rtarget :=
  {| rt_id := {| t_project := None; t_name := name |}; rt_dir := [47]; rt_deps := []; rt_kind := TBuild;
     rt_script := []; rt_input := resources_empty; rt_output := {| r_files := rs; r_cmds := [] |} |}.

(* D14 (pinned clean.rs): the declared output "out/" is a symlink to a directory. The pinned code empties the directory
   the link points to - files reached only through the symlink are deleted -, fails on the final rmdir and aborts the
   clean; the link itself stays. The repaired code removes the link and nothing else. *)
Lemma pinned_trailing_slash_witness :
  let tg := w_target [116] [ {| fr_paths := [p_out_slash]; fr_exts := None |} ] in
  wf w_tree = true /\
  (let '(t', ok) := clean_outputs_gen true w_tree tg in
   ok = false /\ kind_at w_tree [b_real; b_r_o] = Some (KFile 1 0) /\ kind_at t' [b_real; b_r_o] = None /\
   kind_at t' [b_real; b_sub] = None /\ kind_at t' [b_out] = Some (KLink b_real)) /\
  (let '(t', ok) := clean_outputs w_tree tg in
   ok = true /\ kind_at t' [b_out] = None /\ kind_at t' [b_real; b_r_o] = Some (KFile 1 0) /\
   kind_at t' [b_real; b_sub; b_r_o] = Some (KFile 2 0)).
Proof. vm_compute. repeat split. Qed.

(* D15 (pinned clean.rs): an extension-filtered output whose paths reach one file under two spellings ("real" and the
   symlink "out"): the second remove_file fails with NotFound and the whole clean aborts. Repaired: NotFound is ignored. *)
Lemma pinned_alias_witness :
  let tg := w_target [116] [ {| fr_paths := [p_real; p_out]; fr_exts := Some [b_dot_o] |} ] in
  snd (clean_outputs_gen true w_tree tg) = false /\
  (let '(t', ok) := clean_outputs w_tree tg in
   ok = true /\ kind_at t' [b_real; b_r_o] = None /\ kind_at t' [b_real; b_sub; b_r_o] = None /\
   kind_at t' [b_out] = Some (KLink b_real)).
Proof. vm_compute. repeat split. Qed.

(* why every theorem quantifies over the iteration order of the target map: target a declares the plain output "/out"
   (the symlink), target b the .o files beneath "/out/sub" (spelled through that symlink). a before b: the link is gone
   when b is listed, /real/sub/r.o stays; b before a: it is deleted. Both results satisfy the theorems above. *)
Lemma order_matters_witness :
  let a := w_target [97] [ {| fr_paths := [p_out]; fr_exts := None |} ] in
  let b := w_target [98] [ {| fr_paths := [p_out_sub]; fr_exts := Some [b_dot_o] |} ] in
  kind_at (fst (clean_phase w_tree [a; b] [] true)) [b_real; b_sub; b_r_o] = Some (KFile 2 0) /\
  kind_at (fst (clean_phase w_tree [b; a] [] true)) [b_real; b_sub; b_r_o] = None /\
  snd (clean_phase w_tree [a; b] [] true) = true /\ snd (clean_phase w_tree [b; a] [] true) = true.
Proof. vm_compute. repeat split. Qed.

(* non-vacuity of the main theorems: a clean that deletes a state file, a directory output, one listed file and a
   listed symlink (as a link), and keeps the rest *)
Definition b_zin_state : bytes := [116] ++ checksums_suffix.     (* "t.checksums" *)
Definition w_tree2 : node :=
  Dir [ (zinoma_name, Dir [ (b_zin_state, File 9 0); ([117] ++ checksums_suffix, File 8 0) ]);
        (b_out, Dir [ (b_r_o, File 1 0); ([107;46;99], File 2 0); ([108;46;111], Link b_r_o);
                      (zinoma_name, Dir [ (b_r_o, File 3 0) ]) ]);
        (b_real, Dir [ (b_r_o, File 4 0) ]);
        ([103;101;110], Link b_real) ].
Lemma clean_phase_nonvacuous :
  let tg := w_target [116] [ {| fr_paths := [p_out]; fr_exts := Some [b_dot_o] |};
                             {| fr_paths := [[47;103;101;110]]; fr_exts := None |} ] in
  wf w_tree2 = true /\ RootDir w_tree2 /\
  (let '(t', ok) := clean_phase w_tree2 [tg] [[47]] true in
   ok = true /\
   kind_at t' [zinoma_name; b_zin_state] = None /\ kind_at t' [zinoma_name; [117] ++ checksums_suffix] = Some (KFile 8 0) /\
   kind_at t' [b_out; b_r_o] = None /\ kind_at t' [b_out; [108;46;111]] = None /\
   kind_at t' [b_out; [107;46;99]] = Some (KFile 2 0) /\ kind_at t' [b_out; zinoma_name; b_r_o] = Some (KFile 3 0) /\
   kind_at t' [[103;101;110]] = None /\ kind_at t' [b_real; b_r_o] = Some (KFile 4 0)).
Proof. vm_compute. repeat split. Qed.

Lemma pinned_trailing_slash_refuted :
  exists t tg q, wf t = true /\ rt_kind tg = TBuild /\
    (exists p, r_files (rt_output tg) = [ {| fr_paths := [p]; fr_exts := None |} ] /\
               exists e tgt, lstat t (normalise p) = Some (e, KLink tgt) /\ ~ Below e q) /\
    removed t (fst (clean_outputs_gen true t tg)) q /\ snd (clean_outputs_gen true t tg) = false.
Proof.
  exists w_tree, (w_target [116] [ {| fr_paths := [p_out_slash]; fr_exts := None |} ]), [b_real; b_r_o].
  split; [reflexivity|]. split; [reflexivity|]. split.
  - exists p_out_slash. split; [reflexivity|]. exists [b_out], b_real. split; [reflexivity|].
    intros [s Hs]. discriminate.
  - split; [split; [discriminate | reflexivity] | reflexivity].
Qed.

Lemma pinned_alias_refuted :
  exists t tg, wf t = true /\ snd (clean_outputs_gen true t tg) = false /\ snd (clean_outputs t tg) = true.
Proof.
  exists w_tree, (w_target [116] [ {| fr_paths := [p_real; p_out]; fr_exts := Some [b_dot_o] |} ]).
  repeat split.
Qed.

Lemma order_matters :
  exists t a b, snd (clean_phase t [a; b] [] true) = true /\ snd (clean_phase t [b; a] [] true) = true /\
    fst (clean_phase t [a; b] [] true) <> fst (clean_phase t [b; a] [] true).
Proof.
  exists w_tree, (w_target [97] [ {| fr_paths := [p_out]; fr_exts := None |} ]),
         (w_target [98] [ {| fr_paths := [p_out_sub]; fr_exts := Some [b_dot_o] |} ]).
  split; [reflexivity|]. split; [reflexivity|]. vm_compute. discriminate.
Qed.

(* ================================================================ where a listed path lives *)
(* descending from a directory through real directories never needs the symlink budget *)
Lemma resolve_comps_descend t : forall names n q,
  kind_at t q = Some KDir -> get t (q ++ names) <> None ->
  Forall (fun nm => valid_entry_name nm = true) names ->
  resolve_comps n t q names false = RFound (q ++ names).
Proof.
  induction names as [|nm r IH]; intros n q Hq Hg Hv; [now rewrite resolve_comps_nil, app_nil_r|].
  inversion Hv as [|? ? Hnm Hr]; subst. destruct (valid_entry_name_facts _ Hnm) as (_ & _ & Hd & Hdd).
  rewrite resolve_comps_cons.
  destruct (beq nm dot1) eqn:E1; [apply beq_eq in E1; unfold dot1 in E1; congruence|].
  destruct (beq nm dotdot) eqn:E2; [apply beq_eq in E2; congruence|].
  assert (Hg' : get t ((q ++ [nm]) ++ r) <> None) by now rewrite <- app_assoc.
  destruct r as [|nm2 r'].
  - rewrite app_nil_r in Hg'. destruct (kind_at t (q ++ [nm])) as [[c m| |tg]|] eqn:Ek.
    + reflexivity.
    + now rewrite resolve_comps_nil.
    + reflexivity.
    + apply kind_at_none in Ek. congruence.
  - rewrite (kind_at_below_is_dir t (q ++ [nm]) (nm2 :: r')); [| discriminate | intros H; apply kind_at_none in H; congruence].
    rewrite (IH n (q ++ [nm])); [now rewrite <- app_assoc | | exact Hg' | exact Hr].
    apply (kind_at_below_is_dir t (q ++ [nm]) (nm2 :: r')); [discriminate | intros H; apply kind_at_none in H; congruence].
Qed.

(* resolving cs1 (following) to a directory q, then cs2 from q: the same as resolving cs1 ++ cs2, when the second part
   does not depend on the remaining symlink budget *)
Lemma resolve_comps_compose t cs2 f R :
  cs2 <> [] -> forall n cs1 cur q,
  resolve_comps n t cur cs1 true = RFound q -> kind_at t q = Some KDir ->
  (forall n', resolve_comps n' t q cs2 f = R) ->
  resolve_comps n t cur (cs1 ++ cs2) f = R.
Proof.
  intros Hne. induction n as [|n IHn].
  - induction cs1 as [|c r IH]; intros cur q; [rewrite resolve_comps_nil; intros [= <-] _ H; apply H|].
    cbn [app]. rewrite !resolve_comps_cons.
    destruct (beq c dot1); [apply IH|]. destruct (beq c dotdot); [apply IH|].
    destruct (kind_at t (cur ++ [c])) as [[cc m| |tg]|] eqn:Ek; [| apply IH | | discriminate].
    + destruct r; [|discriminate]. cbn [is_nil]. intros [= <-] Hq. congruence.
    + rewrite andb_false_r. assert (is_nil (r ++ cs2) = false) as -> by (destruct r; [now destruct cs2 | reflexivity]).
      cbn [andb]. destruct (is_nil tg); discriminate.
  - induction cs1 as [|c r IH]; intros cur q; [rewrite resolve_comps_nil; intros [= <-] _ H; apply H|].
    cbn [app]. rewrite !resolve_comps_cons.
    destruct (beq c dot1); [apply IH|]. destruct (beq c dotdot); [apply IH|].
    destruct (kind_at t (cur ++ [c])) as [[cc m| |tg]|] eqn:Ek; [| apply IH | | discriminate].
    + destruct r; [|discriminate]. cbn [is_nil]. intros [= <-] Hq. congruence.
    + rewrite andb_false_r. assert (is_nil (r ++ cs2) = false) as -> by (destruct r; [now destruct cs2 | reflexivity]).
      cbn [andb]. destruct (is_nil tg); [discriminate|]. rewrite app_assoc. apply IHn.
Qed.

(* a trailing "." (trailing slash) does not change where a followed resolution ends *)
Lemma resolve_comps_drop_dot t : forall n cs cur q,
  resolve_comps n t cur (cs ++ [dot1]) true = RFound q -> resolve_comps n t cur cs true = RFound q.
Proof.
  induction n as [|n IHn].
  - induction cs as [|c r IH]; intros cur q.
    + cbn [app]. rewrite resolve_comps_cons, beq_refl, !resolve_comps_nil. tauto.
    + cbn [app]. rewrite !resolve_comps_cons.
      destruct (beq c dot1); [apply IH|]. destruct (beq c dotdot); [apply IH|].
      destruct (kind_at t (cur ++ [c])) as [[cc m| |tg]|]; [| apply IH | | discriminate].
      * assert (is_nil (r ++ [dot1]) = false) as -> by (destruct r; reflexivity). discriminate.
      * rewrite !andb_false_r. destruct (is_nil tg); discriminate.
  - induction cs as [|c r IH]; intros cur q.
    + cbn [app]. rewrite resolve_comps_cons, beq_refl, !resolve_comps_nil. tauto.
    + cbn [app]. rewrite !resolve_comps_cons.
      destruct (beq c dot1); [apply IH|]. destruct (beq c dotdot); [apply IH|].
      destruct (kind_at t (cur ++ [c])) as [[cc m| |tg]|]; [| apply IH | | discriminate].
      * assert (is_nil (r ++ [dot1]) = false) as -> by (destruct r; reflexivity). discriminate.
      * rewrite !andb_false_r. destruct (is_nil tg); [discriminate|]. rewrite app_assoc. apply IHn.
Qed.

Lemma resolve_segs t root qd :
  resolve t root true = RFound qd -> resolve_comps max_links t [] (segs root) true = RFound qd.
Proof.
  unfold resolve, path_comps. destruct (is_nil root); [discriminate|].
  destruct (ends_slash root && negb (is_nil (segs root))); [apply resolve_comps_drop_dot | tauto].
Qed.

Lemma segs_valid_name nm : valid_entry_name nm = true -> segs nm = [nm].
Proof.
  intros Hv. destruct (valid_entry_name_facts _ Hv) as (H1 & H2 & _ & _).
  unfold segs. rewrite split_on_no_sep by exact H2. cbn [filter]. destruct nm; [congruence | reflexivity].
Qed.

Lemma ends_slash_join root nm : valid_entry_name nm = true -> ends_slash (join root nm) = false.
Proof.
  intros Hv. destruct (valid_entry_name_facts _ Hv) as (H1 & H2 & _ & _).
  destruct (join_cases root nm) as [[-> ->]|[[r' [-> ->]]|[_ ->]]].
  - now apply ends_slash_no_slash.
  - rewrite ends_slash_app by discriminate. change (slash :: nm) with ([slash] ++ nm).
    rewrite ends_slash_app by exact H1. now apply ends_slash_no_slash.
  - rewrite ends_slash_app by discriminate. change (slash :: nm) with ([slash] ++ nm).
    rewrite ends_slash_app by exact H1. now apply ends_slash_no_slash.
Qed.

Lemma path_comps_joins root names :
  names <> [] -> Forall (fun nm => valid_entry_name nm = true) names ->
  path_comps (joins root names) = segs root ++ names /\ is_nil (joins root names) = false.
Proof.
  intros Hne Hv. destruct (exists_last Hne) as [ns [nm ->]].
  assert (Hnm : valid_entry_name nm = true) by (rewrite Forall_forall in Hv; apply Hv, in_or_app; right; now left).
  assert (Hseg : forall l r0, Forall (fun nm => valid_entry_name nm = true) l -> segs (joins r0 l) = segs r0 ++ l).
  { induction l as [|x l IH]; intros r0 Hl; [now rewrite app_nil_r|]. inversion Hl as [|? ? Hx Hl']; subst.
    change (joins r0 (x :: l)) with (joins (join r0 x) l). rewrite (IH _ Hl').
    rewrite segs_join, (segs_valid_name x Hx). now rewrite <- app_assoc. }
  rewrite joins_snoc. split.
  - unfold path_comps. rewrite ends_slash_join by exact Hnm. cbn [andb].
    rewrite <- joins_snoc. now apply Hseg.
  - destruct (valid_entry_name_facts _ Hnm) as (H1 & _).
    destruct (join_cases (joins root ns) nm) as [[_ ->]|[[r' [_ ->]]|[_ ->]]].
    + destruct nm; [congruence | reflexivity].
    + destruct r'; reflexivity.
    + destruct (joins root ns); reflexivity.
Qed.

(* the entry named by a path the walk produced below the declared path is the physical node the walk found:
   root's directory qd (the root alone may have been reached through symlinks) extended by the names of the descent *)
Lemma lstat_joins t root qd names n :
  wf t = true -> stat t root = Some (qd, KDir) -> names <> [] -> get t (qd ++ names) = Some n ->
  lstat t (joins root names) = Some (qd ++ names, shallow n).
Proof.
  intros Hw Hs Hne Hg.
  destruct (wf_get _ _ _ Hw Hg) as [_ Hv]. apply Forall_app_r in Hv.
  destruct (path_comps_joins root names Hne Hv) as [Hpc Hnil].
  pose proof (stat_gen_kind _ _ _ _ _ Hs) as Hk. apply stat_gen_resolve, resolve_segs in Hs.
  unfold lstat, stat_gen, resolve. rewrite Hnil, Hpc.
  rewrite (resolve_comps_compose t names false (RFound (qd ++ names)) Hne _ _ _ _ Hs Hk).
  - unfold kind_at. now rewrite Hg.
  - intros n'. apply resolve_comps_descend; [exact Hk | congruence | exact Hv].
Qed.

(* a directory that is not a symlink: lstat and stat agree (used for a declared path that is a real directory) *)
Lemma reached_entry_location t root p :
  wf t = true -> Reached t root p -> p <> root ->
  exists qd names n, stat t root = Some (qd, KDir) /\ names <> [] /\ NoZinoma names /\
                     get t (qd ++ names) = Some n /\ p = joins root names /\
                     lstat t p = Some (qd ++ names, shallow n).
Proof.
  intros Hw [q [k [Hl H]]] Hp. destruct H as [[-> _]|[qd [names (Hne & Hb & Hg & Hz & ->)]]]; [congruence|].
  destruct (get t (qd ++ names)) as [n|] eqn:Eg; [|congruence].
  assert (Hs : stat t root = Some (qd, KDir)).
  { destruct Hb as [(-> & -> & _)|[_ Hs]]; [|exact Hs].
    apply (lstat_nonlink_stat _ _ _ _ Hl). intros tg. discriminate. }
  exists qd, names, n. repeat split; try assumption. now apply lstat_joins.
Qed.

(* extension-filtered clean, physically: every removed location is either the entry of a declared path itself or lies,
   through real directories only, below the directory a declared path denotes (qd ++ names); it held a regular file or a
   symlink, and no name on the way is ".zinoma" *)
Lemma clean_resource_ext_physical t r es :
  wf t = true -> fr_exts r = Some es ->
  forall q, removed t (fst (clean_resource t r)) q ->
  exists root, In root (fr_paths r) /\
    ((exists k, lstat t root = Some (q, k) /\ k <> KDir) \/
     (exists qd names, stat t root = Some (qd, KDir) /\ names <> [] /\ NoZinoma names /\ q = qd ++ names /\
                       kind_at t q <> Some KDir)).
Proof.
  intros Hw He q Hq. destruct (clean_resource_ext_entries t r es Hw He q Hq) as [p [e [k (Hin & Hl & Hk & ->)]]].
  apply (listing_spec t r p Hw) in Hin as [root (Hr & Hre & _ & _)]. exists root. split; [exact Hr|].
  destruct (list_eq_dec N.eq_dec p root) as [->|Hne].
  - left. now exists k.
  - right. destruct (reached_entry_location t root p Hw Hre Hne) as [qd [names [n (Hs & Hnn & Hz & Hg & _ & Hl')]]].
    unfold lstat in *. rewrite Hl in Hl'. injection Hl' as -> ->. exists qd, names. repeat split; try assumption.
    unfold kind_at. rewrite Hg. congruence.
Qed.
