(* Witnesses against the PINNED code (before the repairs FX3 and FX4), evaluated on the model instances
   `current_env_pinned` / `skip_on_record_pinned` / `decide_skip_pinned` (command map keyed by the command text only; the
   record consulted even when the target declares no input) — and the same inputs on the repaired model.
   Replays on the real binary: DESIGN.md §7 D5, D6, D7. *)
From Zinoma.Model Require Import Bytes Cfg Codec Incremental.

Definition cat_val : bytes := [99; 97; 116; 32; 118; 97; 108; 46; 116; 120; 116].     (* "cat val.txt" *)
Definition dir_p : bytes := [47; 112].                                                  (* "/p" *)
Definition dir_q : bytes := [47; 112; 47; 115; 117; 98].                                (* "/p/sub" *)
Definition txt_a : bytes := [97; 10].                                                   (* "a\n" *)
Definition txt_b : bytes := [98; 10].                                                   (* "b\n" *)

(* a consumer declaring `cmd_stdout: cat val.txt` in its own directory and inheriting the same command text from
   `sub::x.output`, whose directory is another one *)
Definition two_cmds : resources :=
  {| r_files := [];
     r_cmds := [ {| cr_cmd := cat_val; cr_dir := dir_p |}; {| cr_cmd := cat_val; cr_dir := dir_q |} ] |}.

(* a world without declared files where `cat val.txt` prints `op` in /p and `oq` in /p/sub *)
Definition world_pq (op oq : bytes) : iworld :=
  {| w_list := fun _ => [];
     w_mtime := fun _ => None;
     w_read := fun _ => None;
     w_cmd := fun c d => if beq d dir_p then Some op else if beq d dir_q then Some oq else None |}.

(* D6 (C02): recorded in the world (a, b); /p/val.txt then changes to b; the pinned code skips *)
Lemma keyed_by_text_wrong_skip (hash : bytes -> N) :
  exists input output w0 w1 e,
    current_env_pinned hash w0 input output = CurSome e /\
    (exists c, In c (r_cmds input) /\ w_cmd w1 (cr_cmd c) (cr_dir c) <> w_cmd w0 (cr_cmd c) (cr_dir c)) /\
    skip_on_record_pinned hash w1 (Some e) input output = true.
Proof.
  exists two_cmds, (Some resources_empty), (world_pq txt_a txt_b), (world_pq txt_b txt_b).
  eexists. split; [vm_compute; reflexivity|]. split.
  - exists {| cr_cmd := cat_val; cr_dir := dir_p |}. split; [now left | vm_compute; discriminate].
  - vm_compute. reflexivity.
Qed.

(* the repaired model on the same history: rebuilt *)
Lemma keyed_by_dir_no_wrong_skip (hash : bytes -> N) :
  exists e, current_env hash ckey_eqb (world_pq txt_a txt_b) two_cmds (Some resources_empty) = CurSome e /\
            skip_on_record hash ckey_eqb true (world_pq txt_b txt_b) (Some e) two_cmds (Some resources_empty) = false.
Proof. eexists. split; vm_compute; reflexivity. Qed.

(* D5 (C03): recorded in the world (a, b), nothing changes, the pinned code rebuilds — on every invocation *)
Lemma keyed_by_text_spurious_rebuild (hash : bytes -> N) :
  exists input output w e,
    current_env_pinned hash w input output = CurSome e /\
    skip_on_record_pinned hash w (Some e) input output = false.
Proof.
  exists two_cmds, (Some resources_empty), (world_pq txt_a txt_b).
  eexists. split; vm_compute; reflexivity.
Qed.

Lemma keyed_by_dir_skips (hash : bytes -> N) :
  exists e, current_env hash ckey_eqb (world_pq txt_a txt_b) two_cmds (Some resources_empty) = CurSome e /\
            skip_on_record hash ckey_eqb true (world_pq txt_a txt_b) (Some e) two_cmds (Some resources_empty) = true.
Proof. eexists. split; vm_compute; reflexivity. Qed.

(* D7 (C03): the 33-byte record of a target whose (missing) input paths listed no file — or of any other target —
   makes the pinned code skip a target that declares NO input *)
Definition empty_record_bytes : bytes := repeat 0 16 ++ [1] ++ repeat 0 16.

Definition empty_world : iworld :=
  {| w_list := fun _ => []; w_mtime := fun _ => None; w_read := fun _ => None; w_cmd := fun _ _ => None |}.

Lemma stale_empty_record_skips (hash : bytes -> N) :
  exists bs w, resources_is_empty resources_empty = true /\
               decide_skip_pinned hash w (Some bs) resources_empty (Some resources_empty) = true.
Proof. exists empty_record_bytes, empty_world. split; vm_compute; reflexivity. Qed.

Lemma stale_empty_record_ignored (hash : bytes -> N) :
  decide_skip hash empty_world (Some empty_record_bytes) resources_empty (Some resources_empty) = false.
Proof. vm_compute. reflexivity. Qed.
