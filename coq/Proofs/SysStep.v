(* Inversion of the system step: every step of Sys.exec is either one actor step (with routing of its
   outputs), a step of the root loop, or a change notification. All system invariants are proved from here. *)
From Zinoma.Model Require Export Sys.
From Zinoma.Proofs Require Export ActorFactsAll.

Definition msg_in (s : sys) (dst : aid) (m : msg) : Prop :=
  match dst with
  | ATarget d => exists l, inbox s !! d = Some l /\ m ∈ l
  | ARoot => OMsg ARoot m ∈ rootq s
  end.

Definition err_in (s : sys) (t : tid) : Prop := OErr t ∈ rootq s.

(* the root queue only ever holds messages to Root and errors *)
Definition rootq_ok (s : sys) : Prop :=
  forall o, o ∈ rootq s -> match o with OMsg (ATarget _) _ => False | _ => True end.

Lemma lookup_push_inbox ib d m d' :
  push_inbox ib d m !! d' = if decide (d' = d) then Some (default [] (ib !! d) ++ [m]) else ib !! d'.
Proof.
  unfold push_inbox. destruct (decide (d' = d)) as [->|Hne].
  - by rewrite lookup_insert.
  - by rewrite lookup_insert_ne.
Qed.

Lemma route_in ib rq os ib' rq' :
  route ib rq os = (ib', rq') ->
  (forall d l m, ib' !! d = Some l -> m ∈ l ->
     (exists l0, ib !! d = Some l0 /\ m ∈ l0) \/ OMsg (ATarget d) m ∈ os) /\
  (forall o, o ∈ rq' -> o ∈ rq \/ (o ∈ os /\ match o with OMsg (ATarget _) _ => False | _ => True end)).
Proof.
  revert ib rq. induction os as [|o os IH]; intros ib rq Hr; cbn [route] in Hr.
  - injection Hr as <- <-. split; [intros d l m Hl Hm; left; eauto | intros o Ho; by left].
  - destruct o as [[|d0] m0|t0].
    + apply IH in Hr as [H1 H2]. split.
      * intros d l m Hl Hm. destruct (H1 d l m Hl Hm) as [?|?]; [by left|right; by apply elem_of_list_further].
      * intros o Ho. destruct (H2 o Ho) as [Ho'|[Ho' Hk]].
        -- apply elem_of_app in Ho' as [?|Ho']; [by left|]. apply elem_of_list_singleton in Ho' as ->.
           right. split; [apply elem_of_list_here|done].
        -- right. split; [by apply elem_of_list_further|done].
    + apply IH in Hr as [H1 H2]. split.
      * intros d l m Hl Hm. destruct (H1 d l m Hl Hm) as [(l0&Hl0&Hm0)|?]; [|right; by apply elem_of_list_further].
        rewrite lookup_push_inbox in Hl0. destruct (decide (d = d0)) as [->|Hne].
        -- injection Hl0 as <-. apply elem_of_app in Hm0 as [Hm0|Hm0].
           ++ left. destruct (ib !! d0) as [l1|] eqn:E; cbn in Hm0; [eauto|by apply elem_of_nil in Hm0].
           ++ apply elem_of_list_singleton in Hm0 as ->. right. apply elem_of_list_here.
        -- left. eauto.
      * intros o Ho. destruct (H2 o Ho) as [?|[? ?]]; [by left|right; split; [by apply elem_of_list_further|done]].
    + apply IH in Hr as [H1 H2]. split.
      * intros d l m Hl Hm. destruct (H1 d l m Hl Hm) as [?|?]; [by left|right; by apply elem_of_list_further].
      * intros o Ho. destruct (H2 o Ho) as [Ho'|[Ho' Hk]].
        -- apply elem_of_app in Ho' as [?|Ho']; [by left|]. apply elem_of_list_singleton in Ho' as ->.
           right. split; [apply elem_of_list_here|done].
        -- right. split; [by apply elem_of_list_further|done].
Qed.

(* messages are never lost by routing *)
Lemma route_keeps ib rq os ib' rq' :
  route ib rq os = (ib', rq') ->
  (forall d l m, ib !! d = Some l -> m ∈ l -> exists l', ib' !! d = Some l' /\ m ∈ l') /\
  (forall o, o ∈ rq -> o ∈ rq') /\
  (forall d m, OMsg (ATarget d) m ∈ os -> exists l', ib' !! d = Some l' /\ m ∈ l') /\
  (forall o, o ∈ os -> match o with OMsg (ATarget _) _ => True | _ => o ∈ rq' end).
Proof.
  revert ib rq. induction os as [|o os IH]; intros ib rq Hr; cbn [route] in Hr.
  - injection Hr as <- <-. repeat split; eauto; intros; by (try apply elem_of_nil in H).
  - assert (Hpush : forall d0 m0 d l m, ib !! d = Some l -> m ∈ l ->
                exists l', push_inbox ib d0 m0 !! d = Some l' /\ m ∈ l').
    { intros d0 m0 d l m Hl Hm. rewrite lookup_push_inbox. destruct (decide (d = d0)) as [->|]; [|eauto].
      rewrite Hl. cbn. eexists; split; [done|]. apply elem_of_app; by left. }
    destruct o as [[|d0] m0|t0]; apply IH in Hr as (H1 & H2 & H3 & H4).
    + repeat split.
      * eauto.
      * intros o Ho. apply H2. apply elem_of_app; by left.
      * intros d m Hin. apply elem_of_cons in Hin as [?|Hin]; [done|]. eauto.
      * intros o Ho. apply elem_of_cons in Ho as [->|Ho]; [|by apply H4].
        apply H2. apply elem_of_app; right. apply elem_of_list_here.
    + repeat split.
      * intros d l m Hl Hm. destruct (Hpush d0 m0 d l m Hl Hm) as (l'&Hl'&Hm'). eauto.
      * done.
      * intros d m Hin. apply elem_of_cons in Hin as [Heq|Hin]; [|eauto]. injection Heq as -> ->.
        apply (H1 d0 (default [] (ib !! d0) ++ [m0])).
        -- rewrite lookup_push_inbox. by rewrite decide_True.
        -- apply elem_of_app; right. apply elem_of_list_here.
      * intros o Ho. apply elem_of_cons in Ho as [->|Ho]; [done|by apply H4].
    + repeat split.
      * eauto.
      * intros o Ho. apply H2. apply elem_of_app; by left.
      * intros d m Hin. apply elem_of_cons in Hin as [?|Hin]; [done|]. eauto.
      * intros o Ho. apply elem_of_cons in Ho as [->|Ho]; [|by apply H4].
        apply H2. apply elem_of_app; right. apply elem_of_list_here.
Qed.

(* ---- inversion of exec ---- *)

Definition root_same (s s' : sys) : Prop :=
  ph s' = ph s /\ r_unavB s' = r_unavB s /\ r_unavS s' = r_unavS s /\ r_svc s' = r_svc s /\ sigq s' = sigq s.


(* what the root loop / the signal / the final join may do *)
Definition root_keeps (s s' : sys) : Prop :=
  r_unavB s' = r_unavB s /\ r_unavS s' = r_unavS s /\ r_svc s' = r_svc s.

Inductive root_step (watch : bool) (s s' : sys) : Prop :=
| RS_drop pre o rest :                      (* a message the root ignores (watch mode: every message) *)
    ph s = PRun -> rootq s = pre ++ o :: rest -> rootq s' = pre ++ rest ->
    (watch = true \/ match o with OErr _ => False | OMsg ARoot (MOk _ _ _) => False | _ => True end) ->
    ph s' = ph s -> root_keeps s s' -> termq s' = termq s -> sigq s' = sigq s -> root_step watch s s'
| RS_err pre t rest :
    watch = false -> ph s = PRun -> rootq s = pre ++ OErr t :: rest -> rootq s' = pre ++ rest ->
    ph s' = PTerminating (SErr t) -> root_keeps s s' -> termq s' = dom (actors s) -> sigq s' = sigq s ->
    root_step watch s s'
| RS_okB pre t act rest :
    watch = false -> ph s = PRun -> rootq s = pre ++ OMsg ARoot (MOk KB t act) :: rest -> rootq s' = pre ++ rest ->
    ph s' = PRun -> r_unavB s' = r_unavB s ∖ {[t]} -> r_unavS s' = r_unavS s -> r_svc s' = r_svc s ->
    termq s' = termq s -> sigq s' = sigq s -> root_step watch s s'
| RS_okS pre t act rest :
    watch = false -> ph s = PRun -> rootq s = pre ++ OMsg ARoot (MOk KS t act) :: rest -> rootq s' = pre ++ rest ->
    ph s' = PRun -> r_unavB s' = r_unavB s -> r_unavS s' = r_unavS s ∖ {[t]} ->
    r_svc s' = (if act then r_svc s ∪ {[t]} else r_svc s) ->
    termq s' = termq s -> sigq s' = sigq s -> root_step watch s s'
| RS_idle_exit :
    watch = false -> ph s = PRun -> r_unavB s = ∅ -> r_unavS s = ∅ -> r_svc s = ∅ ->
    ph s' = PTerminating SOk -> rootq s' = rootq s -> root_keeps s s' -> termq s' = dom (actors s) -> sigq s' = sigq s ->
    root_step watch s s'
| RS_idle_wait :
    watch = false -> ph s = PRun -> r_unavB s = ∅ -> r_unavS s = ∅ -> r_svc s <> ∅ ->
    ph s' = PWaitTerm -> rootq s' = rootq s -> root_keeps s s' -> termq s' = termq s -> sigq s' = sigq s ->
    root_step watch s s'
| RS_signal :
    (forall st, ph s <> PExited st) ->
    ph s' = ph s -> rootq s' = rootq s -> root_keeps s s' -> termq s' = termq s -> sigq s' = true ->
    root_step watch s s'
| RS_rootsignal :
    sigq s = true -> (ph s = PRun \/ ph s = PWaitTerm) ->
    ph s' = PTerminating SOk -> rootq s' = rootq s -> root_keeps s s' -> termq s' = dom (actors s) -> sigq s' = false ->
    root_step watch s s'
| RS_join st :
    ph s = PTerminating st -> all_exited s = true ->
    ph s' = PExited st -> rootq s' = rootq s -> root_keeps s s' -> termq s' = termq s -> sigq s' = sigq s ->
    root_step watch s s'.

Inductive step_inv (fx watch : bool) (s s' : sys) : Prop :=
| SI_actor (t : tid) (a : astate) (e : event) (ok : bool) (a' : astate) (os : list out) (ob : list obs) :
    actors s !! t = Some a ->
    actor_step fx ok a e = Some (a', os, ob) ->
    actors s' = <[t := a']> (actors s) ->
    hist s' = hist s ++ ob ->
    (forall dst m, msg_in s' dst m -> msg_in s dst m \/ OMsg dst m ∈ os) ->
    (forall x, err_in s' x -> err_in s x \/ OErr x ∈ os) ->
    (forall m, e = EMsg m -> msg_in s (ATarget t) m) ->
    (e = EInval -> t ∈ slot s) ->
    (e = ETerm -> t ∈ termq s) ->
    slot s' ⊆ slot s -> termq s' ⊆ termq s ->
    root_same s s' ->
    (* nothing is lost: every message in flight stays, except the one being consumed; every output is delivered *)
    (forall dst m, msg_in s dst m -> msg_in s' dst m \/ (dst = ATarget t /\ e = EMsg m)) ->
    (forall dst m, OMsg dst m ∈ os -> msg_in s' dst m) ->
    (e = EBuildDone RCancelled -> cancel_sent a = true) ->
    step_inv fx watch s s'
| SI_root :
    actors s' = actors s -> inbox s' = inbox s -> hist s' = hist s -> slot s' = slot s ->
    (forall o, o ∈ rootq s' -> o ∈ rootq s) ->
    root_step watch s s' ->
    step_inv fx watch s s'
| SI_change (ts : list tid) :
    watch = true ->
    actors s' = actors s -> inbox s' = inbox s -> hist s' = hist s -> rootq s' = rootq s ->
    termq s' = termq s -> root_same s s' ->
    slot s' = slot s ∪ list_to_set ts ->
    step_inv fx watch s s'.

Lemma apply_step_inv fx watch s t a e ok ib sl tq s' :
  actors s !! t = Some a ->
  apply_step s t ib sl tq (actor_step fx ok a e) = Some s' ->
  (forall d l m, ib !! d = Some l -> m ∈ l -> exists l0, inbox s !! d = Some l0 /\ m ∈ l0) ->
  (forall d l m, inbox s !! d = Some l -> m ∈ l -> (exists l', ib !! d = Some l' /\ m ∈ l') \/ (d = t /\ e = EMsg m)) ->
  (forall m, e = EMsg m -> msg_in s (ATarget t) m) ->
  (e = EInval -> t ∈ slot s) -> (e = ETerm -> t ∈ termq s) ->
  sl ⊆ slot s -> tq ⊆ termq s ->
  (e = EBuildDone RCancelled -> cancel_sent a = true) ->
  step_inv fx watch s s'.
Proof.
  intros Ha Happ Hib Hkeep Hm Hi Ht Hsl Htq Hcan. unfold apply_step in Happ.
  destruct (actor_step fx ok a e) as [[[a' os] ob]|] eqn:Hstep; [|done].
  destruct (route ib (rootq s) os) as [ib' rq'] eqn:Hr. injection Happ as <-.
  pose proof (route_keeps _ _ _ _ _ Hr) as (Hk1 & Hk2 & Hk3 & Hk4).
  apply route_in in Hr as [Hr1 Hr2].
  eapply (SI_actor fx watch s _ t a e ok a' os ob); try done.
  - intros [|d] m Hin; cbn in *.
    + destruct (Hr2 _ Hin) as [?|[? _]]; [by left|by right].
    + destruct Hin as (l&Hl&Hin). destruct (Hr1 d l m Hl Hin) as [(l0&Hl0&Hm0)|?]; [|by right].
      left. eauto.
  - intros x Hin. unfold err_in in *; cbn in *. destruct (Hr2 _ Hin) as [?|[? _]]; [by left|by right].
  - intros [|d] m Hin; cbn in *.
    + left. by apply Hk2.
    + destruct Hin as (l & Hl & Hin). destruct (Hkeep d l m Hl Hin) as [(l' & Hl' & Hin')|[-> ->]]; [|by right].
      left. by eapply Hk1.
  - intros [|d] m Hin; cbn.
    + by apply (Hk4 _ Hin).
    + by apply Hk3.
Qed.

Lemma elem_of_mid {A} (pre : list A) x rest : x ∈ pre ++ x :: rest.
Proof. apply elem_of_app. right. apply elem_of_list_here. Qed.

Lemma elem_of_mid_inv {A} (pre : list A) x y rest : x ∈ pre ++ y :: rest -> x = y \/ x ∈ pre ++ rest.
Proof.
  intros H. apply elem_of_app in H as [H|H]; [right; apply elem_of_app; by left|].
  apply elem_of_cons in H as [->|H]; [by left|right; apply elem_of_app; by right].
Qed.

Lemma pick_spec {A} (i : nat) (l : list A) pre x rest : pick i l = Some (pre, x, rest) -> l = pre ++ x :: rest.
Proof.
  revert i pre x rest. induction l as [|y l IH]; intros i pre x rest H; [by destruct i|].
  destruct i as [|i]; cbn in H.
  - by injection H as <- <- <-.
  - destruct (pick i l) as [[[pre' x'] rest']|] eqn:Hp; [|done]. injection H as <- <- <-.
    cbn. f_equal. by apply (IH i).
Qed.

(* the root loop takes one entry out of its queue *)
Lemma root_consume_inv fx watch s pre o rest :
  ph s = PRun -> rootq s = pre ++ o :: rest ->
  step_inv fx watch s (root_consume watch s o (pre ++ rest)).
Proof.
  intros Hrun Hq.
  assert (Hsub : forall o', o' ∈ pre ++ rest -> o' ∈ rootq s).
  { intros o' Hin. rewrite Hq. apply elem_of_app in Hin as [?|?]; apply elem_of_app; [by left|right; by apply elem_of_list_further]. }
  unfold root_consume. destruct watch.
  - apply SI_root; cbn; try done. eapply (RS_drop _ _ _ pre o rest); cbn; try done; by left.
  - destruct o as [[|d] [k r|k r|[] t act|k t]|t]; apply SI_root; cbn; try done;
      first [ by (eapply (RS_drop _ _ _ pre _ rest); cbn; try done; by right)
            | by (eapply (RS_okB _ _ _ pre t act rest); cbn; done)
            | by (eapply (RS_okS _ _ _ pre t act rest); cbn; done)
            | by (eapply (RS_err _ _ _ pre t rest); cbn; done) ].
Qed.

Lemma exec_inv fx watch s l s' : exec fx watch s l = Some s' -> step_inv fx watch s s'.
Proof.
  destruct l as [t ok|t ok|t|t r| | | | |ts| |t i ok|i]; cbn [exec]; intros H.
  - destruct (actors s !! t) as [a|] eqn:Ha; [|done].
    destruct (inbox s !! t) as [[|m rest]|] eqn:Hib; try done.
    eapply (apply_step_inv fx watch s t a (EMsg m) ok); try done.
    + intros d l m0 Hl Hm0. destruct (decide (d = t)) as [->|Hne].
      * rewrite lookup_insert in Hl. injection Hl as <-. exists (m :: rest). split; [done|by apply elem_of_list_further].
      * rewrite lookup_insert_ne in Hl by done. eauto.
    + intros d l m0 Hl Hm0. destruct (decide (d = t)) as [->|Hne].
      * assert (l = m :: rest) as -> by congruence. apply elem_of_cons in Hm0 as [->|Hm0]; [by right|].
        left. exists rest. by rewrite lookup_insert.
      * left. exists l. by rewrite lookup_insert_ne.
    + intros m0 [= <-]. cbn. exists (m :: rest). split; [done|apply elem_of_list_here].
  - destruct (actors s !! t) as [a|] eqn:Ha; [|done]. case_bool_decide; [|done].
    eapply (apply_step_inv fx watch s t a EInval ok); try done; [eauto|eauto|set_solver].
  - destruct (actors s !! t) as [a|] eqn:Ha; [|done]. case_bool_decide; [|done].
    eapply (apply_step_inv fx watch s t a ETerm true); try done; [eauto|eauto|set_solver].
  - destruct (actors s !! t) as [a|] eqn:Ha; [|done].
    destruct (match r with RCancelled => cancel_sent a | _ => true end) eqn:Hcs; [|done].
    eapply (apply_step_inv fx watch s t a (EBuildDone r) true); try done; eauto.
    intros [= ->]. exact Hcs.
  - destruct (root_running s && (watch || negb (root_sets_empty s))) eqn:Hc; [|done].
    apply andb_true_iff in Hc as [Hrun Hc]. apply bool_decide_eq_true in Hrun.
    destruct (rootq s) as [|o rest] eqn:Hq; [done|]. injection H as <-.
    by apply (root_consume_inv fx watch s [] o rest).
  - destruct (root_running s && negb watch && root_sets_empty s) eqn:Hc; [|done].
    apply andb_true_iff in Hc as [Hc Hemp]. apply andb_true_iff in Hc as [Hrun Hw].
    apply bool_decide_eq_true in Hrun. apply negb_true_iff in Hw. subst watch.
    unfold root_sets_empty in Hemp. apply andb_true_iff in Hemp as [HB HS].
    apply set_empty_true in HB. apply set_empty_true in HS.
    destruct (set_empty (r_svc s)) eqn:Hsv; injection H as <-; apply SI_root; cbn; try done.
    + apply set_empty_true in Hsv. by eapply RS_idle_exit.
    + apply set_empty_false in Hsv. by eapply RS_idle_wait.
  - destruct (ph s) eqn:Hph; try done; injection H as <-; apply SI_root; cbn; try done;
      eapply RS_signal; cbn; try done; intros st0; by rewrite Hph.
  - destruct (sigq s && _) eqn:Hc; [|done]. injection H as <-.
    apply andb_true_iff in Hc as [Hsg Hp]. apply orb_true_iff in Hp.
    apply SI_root; cbn; try done. eapply RS_rootsignal; cbn; try done.
    destruct Hp as [Hp|Hp]; apply bool_decide_eq_true in Hp; [by left|by right].
  - destruct (watch && _) eqn:Hw; [|done]. injection H as <-.
    apply andb_true_iff in Hw as [-> _]. eapply SI_change; cbn; done.
  - destruct (ph s) eqn:Hph; try done. destruct (all_exited s) eqn:Hall; [|done]. injection H as <-.
    apply SI_root; cbn; try done. by eapply RS_join.
  - (* LDeliverAt: the i-th message, no earlier one from the same sender *)
    destruct (actors s !! t) as [a|] eqn:Ha; [|done].
    destruct (inbox s !! t) as [l|] eqn:Hib; [|done].
    destruct (pick i l) as [[[pre m] rest]|] eqn:Hp; [|done].
    destruct (none_from sender (sender m) pre); [|done].
    apply pick_spec in Hp. subst l.
    eapply (apply_step_inv fx watch s t a (EMsg m) ok); try done.
    + intros d l m0 Hl Hm0. destruct (decide (d = t)) as [->|Hne].
      * rewrite lookup_insert in Hl. injection Hl as <-. exists (pre ++ m :: rest). split; [done|].
        apply elem_of_app in Hm0 as [?|?]; apply elem_of_app; [by left|right; by apply elem_of_list_further].
      * rewrite lookup_insert_ne in Hl by done. eauto.
    + intros d l m0 Hl Hm0. destruct (decide (d = t)) as [->|Hne].
      * assert (l = pre ++ m :: rest) as -> by congruence. apply elem_of_app in Hm0 as [Hm0|Hm0].
        -- left. exists (pre ++ rest). rewrite lookup_insert. split; [done|]. apply elem_of_app. by left.
        -- apply elem_of_cons in Hm0 as [->|Hm0]; [by right|].
           left. exists (pre ++ rest). rewrite lookup_insert. split; [done|]. apply elem_of_app. by right.
      * left. exists l. by rewrite lookup_insert_ne.
    + intros m0 [= <-]. cbn. exists (pre ++ m :: rest). split; [done|]. apply elem_of_app. right. apply elem_of_list_here.
  - (* LRootAt *)
    destruct (root_running s && (watch || negb (root_sets_empty s))) eqn:Hc; [|done].
    apply andb_true_iff in Hc as [Hrun Hc]. apply bool_decide_eq_true in Hrun.
    destruct (pick i (rootq s)) as [[[pre o] rest]|] eqn:Hp; [|done].
    destruct (none_from out_sender (out_sender o) pre); [|done]. injection H as <-.
    apply pick_spec in Hp. by apply (root_consume_inv fx watch s pre o rest).
Qed.
