(* Definitions for the progress (liveness) argument of C04. *)
From Zinoma.Proofs Require Export ActorFactsAll.

(* the kind of request an actor registers (the other kind is answered at once) *)
Definition own (a : astate) (k : kind) : Prop :=
  match a_kind a with ABuild => k = KB | AService => k = KS | AAggregate => True end.

Global Instance own_dec a k : Decision (own a k).
Proof. unfold own. destruct (a_kind a); apply _. Defined.

(* the actor can acknowledge kind k *)
Definition done (a : astate) (k : kind) : Prop :=
  match a_kind a with ABuild | AService => executed a = true | AAggregate => unav a k = ∅ end.

(* the actor has asked its dependencies for kind k *)
Definition fanned (a : astate) (k : kind) : Prop :=
  match a_kind a with ABuild => reqB a <> ∅ | AService => reqS a <> ∅ | AAggregate => reqs a k <> ∅ end.

(* events that exist while a one-shot run is inside the root loop *)
Definition plain (e : event) : Prop :=
  match e with
  | EMsg (MRequested _ _) | EMsg (MOk _ _ _) => True
  | EBuildDone RCompleted | EBuildDone RSkipped | EBuildDone RFailed => True
  | _ => False
  end.

Definition calm (a : astate) : Prop := exited a = false /\ term_recv a = false /\ cancel_sent a = false.

Definition no_pending (a : astate) : Prop :=
  forall k, a_kind a = (match k with KB => ABuild | KS => AService end) ->
    to_execute a = true -> reqs a k <> ∅ -> unavB a = ∅ -> unavS a = ∅ -> ongoing a = true.
