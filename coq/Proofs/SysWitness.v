(* Concrete executions of the system model, evaluated by vm_compute (refutation witnesses and non-vacuity examples). *)
From Zinoma.Proofs Require Export SysC20.

Lemma witness_intro fx w s0 ls (P : sys -> bool) :
  (match run_labels fx w s0 ls with Some s => P s | None => false end) = true ->
  exists s, run_labels fx w s0 ls = Some s /\ P s = true.
Proof. destruct (run_labels fx w s0 ls) as [s|]; [eauto|done]. Qed.

Definition g_d1 : graph := <[1%N := (AService, [])]> (<[2%N := (ABuild, [1%N])]> ∅).
Definition sched_d1 : list label :=
  [LDeliver 2%N true; LDeliver 2%N true; LRoot; LDeliver 1%N true; LRoot; LDeliver 1%N true; LRoot;
   LDeliver 1%N true; LDeliver 2%N true; LDeliver 1%N true].

(* pinned handlers: the D1 schedule ends in a deadlock (quiescent, root still waiting, nothing failed) *)
Lemma d1_pinned_deadlock :
  exists s, run_labels false false (init_sys g_d1 [2%N; 1%N]) sched_d1 = Some s /\
            (quiescent false false s && is_running s && negb (has_failure s)) = true.
Proof. apply witness_intro. vm_compute. reflexivity. Qed.

(* repaired handlers: after the same schedule something is still enabled (the late requester was acknowledged) *)
Lemma d1_repaired_goes_on :
  exists s, run_labels true false (init_sys g_d1 [2%N; 1%N]) sched_d1 = Some s /\
            negb (quiescent true false s) = true.
Proof. apply witness_intro. vm_compute. reflexivity. Qed.
