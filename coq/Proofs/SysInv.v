(* System invariants, part 1: well-formedness and the readiness invariant behind C01. *)
From Zinoma.Proofs Require Export SysStep.

Section inv.
  Context (fx watch : bool) (g : graph) (roots : list tid).

  Lemma reachable_ind (P : sys -> Prop) :
    P (init_sys g roots) ->
    (forall s l s', reachable fx watch g roots s -> P s -> exec fx watch s l = Some s' -> P s') ->
    forall s, reachable fx watch g roots s -> P s.
  Proof.
    intros Hinit Hstep s [ls Hls].
    assert (Hgen : forall ls0 s0, reachable fx watch g roots s0 -> P s0 ->
                     run_labels fx watch s0 ls0 = Some s -> P s).
    { clear ls Hls. induction ls0 as [|l ls0 IH]; intros s0 Hr Hp Hrun; cbn in Hrun.
      - by injection Hrun as <-.
      - destruct (exec fx watch s0 l) as [s1|] eqn:He; [|done].
        apply (IH s1); [|by eapply Hstep|done].
        destruct Hr as [ls1 Hls1]. exists (ls1 ++ [l]).
        clear -Hls1 He. revert Hls1. generalize (init_sys g roots). induction ls1 as [|l1 ls1 IH1]; intros s2 H; cbn in *.
        + injection H as ->. by rewrite He.
        + destruct (exec fx watch s2 l1); [by apply IH1|done]. }
    apply (Hgen ls (init_sys g roots)); [by exists []|done|done].
  Qed.

  (* every actor carries its own id and the kind/dependencies of the graph *)
  Definition wf (s : sys) : Prop :=
    forall t a, actors s !! t = Some a -> a_id a = t /\ g !! t = Some (a_kind a, a_deps a).

  Lemma init_actor_lookup t a :
    actors (init_sys g roots) !! t = Some a ->
    exists k deps, g !! t = Some (k, deps) /\ a = init_actor t k deps.
  Proof.
    cbn. rewrite map_lookup_imap. intros H. apply bind_Some in H as ([k deps] & Hg & H).
    injection H as <-. eauto.
  Qed.

  Lemma wf_init : wf (init_sys g roots).
  Proof. intros t a Ha. apply init_actor_lookup in Ha as (k & deps & Hg & ->). by cbn. Qed.

  Lemma wf_step s s' : wf s -> step_inv fx watch s s' -> wf s'.
  Proof.
    intros Hwf [t a e ok a' os ob Ha Hst Hact _ _ _ _ _ _ _ _ _ _ _ _|Hact _ _ _ _ _|ts _ Hact _ _ _ _ _ _]; intros t' b Hb.
    - rewrite Hact in Hb. destruct (decide (t' = t)) as [->|Hne].
      + rewrite lookup_insert in Hb. injection Hb as <-.
        destruct (step_same_id _ _ _ _ _ _ _ Hst) as (Hi & Hk & Hd). destruct (Hwf t a Ha) as [H1 H2].
        rewrite Hi, Hk, Hd. done.
      + rewrite lookup_insert_ne in Hb by done. by apply Hwf.
    - rewrite Hact in Hb. by apply Hwf.
    - rewrite Hact in Hb. by apply Hwf.
  Qed.

  Lemma wf_reachable s : reachable fx watch g roots s -> wf s.
  Proof.
    apply reachable_ind; [apply wf_init|]. intros s0 l s1 _ Hwf He. eapply wf_step; [done|by eapply exec_inv].
  Qed.

  (* ---- readiness: what an acknowledgement Ok{k, d} stands for ---- *)
  Inductive ready (h : list obs) : kind -> tid -> Prop :=
  | ready_build k d deps :
      g !! d = Some (ABuild, deps) -> (k = KB -> ObSucc d ∈ h) -> ready h k d
  | ready_service k d deps :
      g !! d = Some (AService, deps) -> (k = KS -> ObSucc d ∈ h) -> ready h k d
  | ready_aggregate k d deps :
      g !! d = Some (AAggregate, deps) -> (forall x, x ∈ deps -> ready h k x) -> ready h k d.

  Lemma ready_mono h h' k d : ready h k d -> ready (h ++ h') k d.
  Proof.
    induction 1 as [k d deps Hg Hs|k d deps Hg Hs|k d deps Hg _ IH].
    - eapply ready_build; [done|]. intros Hk. apply elem_of_app; left; auto.
    - eapply ready_service; [done|]. intros Hk. apply elem_of_app; left; auto.
    - eapply ready_aggregate; [done|]. auto.
  Qed.

  (* the invariant: acknowledgements in flight, acknowledged dependencies and `executed` flags are all justified *)
  Record ready_inv (s : sys) : Prop := {
    ri_msg : forall dst k d act, msg_in s dst (MOk k d act) -> ready (hist s) k d;
    ri_unav : forall t a k d, actors s !! t = Some a -> d ∈ a_deps a -> d ∉ unav a k -> ready (hist s) k d;
    ri_exec : forall t a, actors s !! t = Some a -> executed a = true -> a_kind a <> AAggregate -> ObSucc t ∈ hist s
  }.

  Lemma ready_inv_init : ready_inv (init_sys g roots).
  Proof.
    split.
    - intros [|d0] k d act Hin; cbn in Hin.
      + by apply elem_of_nil in Hin.
      + destruct Hin as (l & Hl & Hin). exfalso. revert Hl Hin. unfold init_inbox.
        assert (Hgen : forall rs ib, (forall d1 l1, ib !! d1 = Some l1 -> MOk k d act ∉ l1) ->
                  forall l1, foldl (fun ib r => push_inbox (push_inbox ib r (MRequested KB ARoot)) r (MRequested KS ARoot)) ib rs !! d0 = Some l1 ->
                  MOk k d act ∉ l1).
        { induction rs as [|r rs IH]; intros ib Hib l1; cbn; [by apply Hib|]. apply IH.
          intros d1 l2. rewrite !lookup_push_inbox. destruct (decide (d1 = r)) as [->|Hne].
          - rewrite decide_True by done. intros [= <-]. intros Hin.
            rewrite !elem_of_app, !elem_of_list_singleton in Hin. destruct Hin as [[Hin|?]|?]; try done.
            destruct (ib !! r) eqn:E; cbn in Hin; [by eapply Hib|by apply elem_of_nil in Hin].
          - apply Hib. }
        intros Hl Hin. eapply (Hgen roots ∅); [|done|done]. intros d1 l1. by rewrite lookup_empty.
    - intros t a k d Ha Hd Hn. apply init_actor_lookup in Ha as (kk & deps & Hg & ->). exfalso. apply Hn.
      destruct k; cbn in *; by apply elem_of_list_to_set.
    - intros t a Ha Hex. by apply init_actor_lookup in Ha as (kk & deps & Hg & ->).
  Qed.
End inv.
