(* Concrete layouts: the witness of the pinned duplicate-name defect (D10), non-vacuity of the loader theorems
   (a layout with an import cycle and a self-import), and documents showing what serde accepts beyond the
   documented mapping form. Everything here is closed by computation. *)
From Zinoma.Model Require Import Config.
From Zinoma.Proofs Require Import Bytes ConfigLoad ConfigSchema ConfigMain.
From Coq Require Import Permutation.

Definition b_r : bytes := [114].            (* "r"   *)
Definition b_s : bytes := [115].            (* "s"   *)
Definition b_x : bytes := [120].            (* "x"   *)
Definition b_t : bytes := [116].            (* "t"   *)
Definition b_sub : bytes := [115; 117; 98].   (* "sub" *)
Definition b_up : bytes := [46; 46].          (* ".."  *)
Definition b_dot : bytes := [46].             (* "."   *)

Definition target_doc (script : bytes) : yv := YMap [(YStr k_build, YStr script)].

(* D10: root `name: x, imports: {x: sub}`, sub/zinoma.yml `name: x`; both define t *)
Definition d10_root : yv :=
  YMap [(YStr k_name, YStr b_x); (YStr k_imports, YMap [(YStr b_x, YStr b_sub)]);
        (YStr k_targets, YMap [(YStr b_t, target_doc b_r)])].
Definition d10_sub : yv :=
  YMap [(YStr k_name, YStr b_x); (YStr k_targets, YMap [(YStr b_t, target_doc b_s)])].

Definition d10_fs (d : cdir) : cfile :=
  if beq d b_r then FValue d10_root else if beq d b_s then FValue d10_sub else FAbsent.
Definition d10_canon (d : cdir) (rel : bytes) : option cdir :=
  if beq d b_r && beq rel b_sub then Some b_s else None.
Definition id_order (d : cdir) (l : list (bytes * bytes)) := l.
Definition rev_order (d : cdir) (l : list (bytes * bytes)) := rev l.

Lemma id_order_ok : OrderOk id_order.
Proof. intros d l. apply Permutation_refl. Qed.

Lemma rev_order_ok : OrderOk rev_order.
Proof. intros d l. apply Permutation_sym, Permutation_rev. Qed.

Definition d10_meaning (order : list (cdir * yproject)) : option (bytes * yproject) :=
  match load_config_pinned d10_fs d10_canon id_order 3 b_r with
  | LOk c => match to_ir_ordered c order with
             | Some ic => ir_lookup (Some b_x) (ic_projects ic)
             | None => None
             end
  | LErr _ => None
  end.

(* the pinned loader accepts the layout; which directory `x` (hence `x::t`) denotes depends on the order in which
   ir::Config::from happens to iterate the loaded projects *)
Lemma d10_refuted :
  exists c o1 o2,
    load_config_pinned d10_fs d10_canon id_order 3 b_r = LOk c /\
    Permutation (yc_projects c) o1 /\ Permutation (yc_projects c) o2 /\
    option_map fst (d10_meaning o1) = Some b_r /\ option_map fst (d10_meaning o2) = Some b_s.
Proof.
  eexists. exists [(b_r, {| yp_name := Some b_x; yp_imports := [(b_x, b_sub)]; yp_targets := [(b_t, YBuild [] b_r [] [])] |});
                   (b_s, {| yp_name := Some b_x; yp_imports := []; yp_targets := [(b_t, YBuild [] b_s [] [])] |})].
  exists [(b_s, {| yp_name := Some b_x; yp_imports := []; yp_targets := [(b_t, YBuild [] b_s [] [])] |});
          (b_r, {| yp_name := Some b_x; yp_imports := [(b_x, b_sub)]; yp_targets := [(b_t, YBuild [] b_r [] [])] |})].
  split; [vm_compute; reflexivity|]. split; [apply perm_swap|]. split; [apply Permutation_refl|].
  split; vm_compute; reflexivity.
Qed.

(* the repaired loader rejects it *)
Lemma d10_fixed : load_config d10_fs d10_canon id_order 3 b_r = LErr LE_DuplicateProjectName.
Proof. vm_compute. reflexivity. Qed.

(* a loadable layout with an import cycle (r -> s -> r), a self-import (s -> s) and two spellings *)
Definition cyc_root : yv :=
  YMap [(YStr k_name, YStr b_r); (YStr k_imports, YMap [(YStr b_s, YStr b_sub)]);
        (YStr k_targets, YMap [(YStr b_t, target_doc b_r)])].
Definition cyc_sub : yv :=
  YMap [(YStr k_name, YStr b_s); (YStr k_imports, YMap [(YStr b_r, YStr b_up); (YStr b_s, YStr b_dot)]);
        (YStr k_targets, YMap [(YStr b_t, target_doc b_s)])].
Definition cyc_fs (d : cdir) : cfile :=
  if beq d b_r then FValue cyc_root else if beq d b_s then FValue cyc_sub else FAbsent.
Definition cyc_canon (d : cdir) (rel : bytes) : option cdir :=
  if beq d b_r && beq rel b_sub then Some b_s
  else if beq d b_s && beq rel b_up then Some b_r
  else if beq d b_s && beq rel b_dot then Some b_s else None.

Lemma cyc_covers : Covers cyc_fs cyc_canon b_r [b_r; b_s].
Proof.
  apply covers_of_range; [now left|]. intros d rel y. unfold cyc_canon.
  destruct (beq d b_r && beq rel b_sub); [intros [= <-]; right; now left|].
  destruct (beq d b_s && beq rel b_up); [intros [= <-]; now left|].
  destruct (beq d b_s && beq rel b_dot); [intros [= <-]; right; now left | discriminate].
Qed.

Lemma cyc_loads :
  exists c1 c2, load_config cyc_fs cyc_canon id_order 3 b_r = LOk c1 /\
                load_config cyc_fs cyc_canon rev_order 3 b_r = LOk c2 /\
                map fst (yc_projects c1) = [b_s; b_r] /\ map fst (yc_projects c2) = [b_s; b_r].
Proof. eexists. eexists. repeat split; vm_compute; reflexivity. Qed.

Lemma cyc_front_proceeds :
  fst (main_front cyc_fs cyc_canon id_order (fun _ _ => true) unit (fun _ _ _ _ => [tt]) 3 b_r
         (Some [b_t; b_s ++ [58; 58] ++ b_t]) true false)
  = FO_Proceed [ {| t_project := Some b_r; t_name := b_t |}; {| t_project := Some b_s; t_name := b_t |} ].
Proof. vm_compute. reflexivity. Qed.

(* what serde accepts beyond the documented mapping form: a sequence document, an integer as a field key, a number as a name *)
Lemma lenient_forms :
  accept_project (YSeq []) = Some {| yp_name := None; yp_imports := []; yp_targets := [] |} /\
  accept_project (YMap [(YStr k_targets, YMap [(YStr b_t, YMap [(YNat 1 [49], YStr b_x)])])])
    = Some {| yp_name := None; yp_imports := []; yp_targets := [(b_t, YBuild [] b_x [] [])] |} /\
  accept_project (YMap [(YStr k_name, YNat 5 [53])]) = Some {| yp_name := Some [53]; yp_imports := []; yp_targets := [] |}.
Proof. repeat split; vm_compute; reflexivity. Qed.

(* ... and what it rejects *)
Lemma strict_examples :
  accept_project (YMap [(YStr [102; 111; 111], YNat 1 [49])]) = None /\                                   (* foo: 1 *)
  accept_project (YMap [(YStr k_targets, YMap [(YStr b_t, YMap [(YStr k_build, YStr b_x); (YStr k_service, YStr b_x)])])]) = None /\
  accept_project (YMap [(YStr k_targets, YMap [(YStr b_t, YMap [])])]) = None /\                              (* t: {} *)
  accept_project (YMap [(YStr k_targets, YMap [(YStr b_t, YMap [(YStr k_build, YNat 5 [53])])])]) = None /\  (* build: 5 *)
  accept_project (YMap [(YStr k_targets, YMap [(YStr b_t, YMap [(YStr k_dependencies, YNull [126])])])]) = None /\
  accept_project (YMap [(YStr k_targets, YNull [126])]) = None /\
  accept_project (YNull [126]) = None.
Proof. repeat split; vm_compute; reflexivity. Qed.

(* the one overlap of the three kinds: `{1: x}` reads as a build AND as a service; serde takes the first, build *)
Lemma index_key_overlap :
  IsBuild (YMap [(YNat 1 [49], YStr b_x)]) /\ IsService (YMap [(YNat 1 [49], YStr b_x)]) /\
  accept_target (YMap [(YNat 1 [49], YStr b_x)]) = Some (YBuild [] b_x [] []).
Proof.
  split; [|split].
  - exists [], b_x, [], []. apply accept_build_spec. vm_compute. reflexivity.
  - exists [], b_x, []. apply accept_service_spec. vm_compute. reflexivity.
  - vm_compute. reflexivity.
Qed.
