(* C07 "a failing target fails the run": one-shot, no termination signal — once a target has failed the run can only end with
   an error status naming a failed target; it never exits 0, never stays alive waiting for a signal, never hangs in the loop. *)
From Zinoma.Proofs Require Export SysNeeded SysTerm.

Lemma apply_step_rootside fx ok s t a e ib sl tq s' :
  apply_step s t ib sl tq (actor_step fx ok a e) = Some s' ->
  exists a' os ob, actor_step fx ok a e = Some (a', os, ob) /\ hist s' = hist s ++ ob /\ ph s' = ph s /\
    r_unavB s' = r_unavB s /\ r_unavS s' = r_unavS s /\ sigq s' = sigq s /\
    (forall o, o ∈ rootq s -> o ∈ rootq s') /\ (forall x, OErr x ∈ os -> OErr x ∈ rootq s').
Proof.
  unfold apply_step. destruct (actor_step fx ok a e) as [[[a' os] ob]|]; [|done].
  destruct (route ib (rootq s) os) as [ib' rq'] eqn:Hr. intros [= <-].
  pose proof (route_keeps _ _ _ _ _ Hr) as (_ & Hk2 & _ & Hk4).
  exists a', os, ob. repeat split; try done. intros x Hx. exact (Hk4 _ Hx).
Qed.

Section failrun.
  Context (fx : bool) (g : graph) (roots : list tid).

  Record fr_inv (s : sys) : Prop := {
    fr_sig : sigq s = false;
    fr_err : forall x, ObFail x ∈ hist s -> ph s = PRun -> OErr x ∈ rootq s;
    fr_ok : ph s = PWaitTerm \/ ph s = PTerminating SOk \/ ph s = PExited SOk -> r_unavB s = ∅ /\ r_unavS s = ∅
  }.

  Lemma fr_inv_init : fr_inv (init_sys g roots).
  Proof.
    split; cbn; [done| |].
    - intros x Hx. by apply elem_of_nil in Hx.
    - intros [?|[?|?]]; done.
  Qed.

  Lemma fr_consume s o pre rest :
    fr_inv s -> ph s = PRun -> rootq s = pre ++ o :: rest -> fr_inv (root_consume false s o (pre ++ rest)).
  Proof.
    intros Hfr Hp Hq.
    assert (Hkeep : forall x, match o with OErr _ => False | _ => True end -> ObFail x ∈ hist s -> OErr x ∈ pre ++ rest).
    { intros x Ho Hx. pose proof (fr_err _ Hfr x Hx Hp) as Hin. rewrite Hq in Hin.
      apply elem_of_mid_inv in Hin as [<-|Hin]; done. }
    unfold root_consume.
    destruct o as [[|d] [k r|k r|[] t act|k t]|t]; (split; cbn; [by apply (fr_sig _ Hfr)| |]);
      try (intros x Hx _; by apply Hkeep); try (rewrite Hp; intros [?|[?|?]]; done).
    - done.
    - intros [?|[?|?]]; done.
  Qed.

  Lemma fr_inv_step s l s' : exec fx false s l = Some s' -> l <> LSignal -> fr_inv s -> fr_inv s'.
  Proof.
    intros H Hl Hfr.
    assert (Hact : forall ok t a e ib sl tq, apply_step s t ib sl tq (actor_step fx ok a e) = Some s' -> fr_inv s').
    { intros ok t a e ib sl tq Ha.
      destruct (apply_step_rootside _ _ _ _ _ _ _ _ _ _ Ha) as (a' & os & ob & Hst & Hh & Hp & HB & HS & Hsig & Hq1 & Hq2).
      split.
      - rewrite Hsig. apply (fr_sig _ Hfr).
      - intros x Hx Hp'. rewrite Hh in Hx. apply elem_of_app in Hx as [Hx|Hx].
        + apply Hq1. apply (fr_err _ Hfr x Hx). by rewrite <- Hp.
        + apply Hq2. by apply (step_fail_err _ _ _ _ _ _ _ Hst).
      - rewrite Hp, HB, HS. apply (fr_ok _ Hfr). }
    destruct l as [t ok|t ok|t|t r| | | | |ts| |t i ok|i]; cbn [exec] in H.
    - destruct (actors s !! t); [|done]. destruct (inbox s !! t) as [[|m rest]|]; try done. by eapply Hact.
    - destruct (actors s !! t); [|done]. case_bool_decide; [|done]. by eapply Hact.
    - destruct (actors s !! t); [|done]. case_bool_decide; [|done]. by eapply Hact.
    - destruct (actors s !! t) as [a|]; [|done]. destruct (match r with RCancelled => cancel_sent a | _ => true end); [|done].
      by eapply Hact.
    - destruct (root_running s) eqn:Hrr; [|done]. unfold root_running in Hrr. apply bool_decide_eq_true in Hrr.
      destruct (false || _); [|done]. destruct (rootq s) as [|o rest] eqn:Hq; [done|]. injection H as <-.
      apply (fr_consume s o [] rest Hfr Hrr Hq).
    - destruct (root_running s) eqn:Hrr; [|done]. unfold root_running in Hrr. apply bool_decide_eq_true in Hrr.
      cbn in H. destruct (root_sets_empty s) eqn:Hse; [|done]. unfold root_sets_empty in Hse.
      apply andb_true_iff in Hse as [HB HS]. apply bool_decide_eq_true in HB, HS.
      destruct (set_empty (r_svc s)); injection H as <-; (split; cbn; [by apply (fr_sig _ Hfr)|done|done]).
    - done.
    - rewrite (fr_sig _ Hfr) in H. done.
    - done.
    - destruct (ph s) as [| |st|st] eqn:Hp; try done. destruct (all_exited s); [|done]. injection H as <-.
      split; cbn; [by apply (fr_sig _ Hfr)|done|].
      intros [?|[?|Hst]]; try done. injection Hst as ->. apply (fr_ok _ Hfr). right. by left.
    - destruct (actors s !! t); [|done]. destruct (inbox s !! t) as [l|]; [|done].
      destruct (pick i l) as [[[pre m] rest]|]; [|done]. destruct (none_from _ _ pre); [|done]. by eapply Hact.
    - destruct (root_running s) eqn:Hrr; [|done]. unfold root_running in Hrr. apply bool_decide_eq_true in Hrr.
      destruct (false || _); [|done]. destruct (pick i (rootq s)) as [[[pre o] rest]|] eqn:Hpk; [|done].
      destruct (none_from _ _ pre); [|done]. injection H as <-.
      apply (fr_consume s o pre rest Hfr Hrr). by apply pick_spec in Hpk.
  Qed.

  Lemma fr_inv_run : forall ls s0 s, fr_inv s0 -> LSignal ∉ ls -> run_labels fx false s0 ls = Some s -> fr_inv s.
  Proof.
    induction ls as [|l ls IH]; intros s0 s Hfr Hns Hrun; cbn in Hrun.
    - by injection Hrun as <-.
    - destruct (exec fx false s0 l) as [s1|] eqn:He; [|done].
      apply (IH s1 s); [|by intros ?; apply Hns; apply elem_of_list_further|done].
      apply (fr_inv_step s0 l s1 He); [|done]. intros ->. apply Hns. apply elem_of_list_here.
  Qed.

  Section thm.
    Context (ls : list label) (s : sys) (t : tid).
    Context (Hrun : run_labels fx false (init_sys g roots) ls = Some s) (Hns : LSignal ∉ ls) (Hfail : ObFail t ∈ hist s).

    Lemma fr_reach : reachable fx false g roots s.
    Proof using Hrun. by exists ls. Qed.

    Lemma fr_sets : ~ (r_unavB s = ∅ /\ r_unavS s = ∅).
    Proof using Hrun Hfail.
      pose proof fr_reach as Hr.
      pose proof (result_needs_start fx g roots false s t Hr (or_intror Hfail)) as Hst.
      destruct (only_needed_targets_start fx g roots false s t Hr Hst) as (r & Hin & Hd).
      apply (no_normal_completion_after_failure fx g roots s t r Hr Hfail Hin).
      destruct Hd as [->|?]; [by left|by right].
    Qed.

    (* never a successful end *)
    Theorem failure_excludes_success : ph s <> PWaitTerm /\ ph s <> PTerminating SOk /\ ph s <> PExited SOk.
    Proof using Hrun Hns Hfail.
      pose proof (fr_inv_run ls _ s fr_inv_init Hns Hrun) as Hfr.
      repeat split; intros Hp; apply fr_sets; apply (fr_ok _ Hfr); rewrite Hp; auto.
    Qed.

    (* when nothing can happen any more: exited with an error status naming a target that failed *)
    Theorem failure_fails_the_run : quiescent fx false s = true -> exists t', ph s = PExited (SErr t') /\ ObFail t' ∈ hist s.
    Proof using Hrun Hns Hfail.
      intros Hq. pose proof fr_reach as Hr.
      pose proof (fr_inv_run ls _ s fr_inv_init Hns Hrun) as Hfr.
      destruct failure_excludes_success as (H1 & H2 & H3).
      destruct (ph s) as [| |st|st] eqn:Hp.
      - exfalso. pose proof (fr_err _ Hfr t Hfail Hp) as Hin.
        assert (Hex : is_Some (exec fx false s LRoot)).
        { cbn. unfold root_running. rewrite bool_decide_eq_true_2 by done. cbn.
          destruct (root_sets_empty s) eqn:Hse.
          - exfalso. apply fr_sets. unfold root_sets_empty in Hse. apply andb_true_iff in Hse as [HB HS].
            apply bool_decide_eq_true in HB, HS. done.
          - cbn. destruct (rootq s); [by apply elem_of_nil in Hin|done]. }
        unfold quiescent in Hq. destruct (enabled fx false s) as [|l0 rest] eqn:Hen; [|done].
        assert (Hl : LRoot ∈ enabled fx false s).
        { unfold enabled. apply elem_of_list_filter. split; [by apply bool_decide_pack|].
          unfold candidate_labels. apply elem_of_app. right. apply elem_of_list_here. }
        rewrite Hen in Hl. by apply elem_of_nil in Hl.
      - done.
      - pose proof (shutdown_never_stuck fx false g roots s st Hr Hp). congruence.
      - destruct st as [|t']; [done|]. exists t'. split; [done|].
        apply (status_names_failure fx g roots false s t' Hr). by rewrite Hp.
    Qed.
  End thm.
End failrun.
