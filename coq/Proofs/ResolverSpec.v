(* Declarative reading of what the resolver must compute: the reference graph of a configuration, reachability from
   the requested targets, the classes of defects that make a configuration broken, and — for every target — the
   resolved target the property texts ask for (`rtarget_of`, a function of the configuration and the target alone).
   Plus the basic facts tying `transform_input/output/target` to these definitions. *)
From Zinoma.Model Require Import Bytes Cfg Names Ext Resolver.
From Zinoma.Proofs Require Import Bytes Names.
From Coq Require Import Relations Lia.

(* ---- generic association-list facts ---- *)
Section Assoc.
  Context {K V : Type} (eqb : K -> K -> bool) (eqb_eq : forall a b, eqb a b = true <-> a = b).

  Lemma eqb_refl' a : eqb a a = true.
  Proof. now apply eqb_eq. Qed.

  Lemma assoc_in k (l : list (K * V)) v : assoc eqb k l = Some v -> In (k, v) l.
  Proof.
    induction l as [|[k' v'] l IH]; cbn [assoc]; [discriminate|].
    destruct (eqb k k') eqn:E.
    - intros [= ->]. apply eqb_eq in E. subst. now left.
    - intros H. right. now apply IH.
  Qed.

  Lemma in_assoc k (l : list (K * V)) v : In (k, v) l -> exists v', assoc eqb k l = Some v'.
  Proof.
    induction l as [|[k' v'] l IH]; cbn [assoc]; [intros []|].
    intros [[= -> ->]|Hin].
    - rewrite eqb_refl'. eauto.
    - destruct (eqb k k'); eauto.
  Qed.

  Lemma assoc_none k (l : list (K * V)) : assoc eqb k l = None <-> ~ In k (map fst l).
  Proof.
    induction l as [|[k' v'] l IH]; cbn [assoc map fst In]; [tauto|].
    destruct (eqb k k') eqn:E.
    - apply eqb_eq in E. subst. split; [discriminate | intros H; exfalso; apply H; now left].
    - rewrite IH. split.
      + intros H [->|Hin]; [now rewrite eqb_refl' in E | contradiction].
      + intros H Hin. apply H. now right.
  Qed.

  Lemma assoc_update_first k f p (l : list (K * V)) :
    assoc eqb p (update_first eqb k f l) = if eqb p k then option_map f (assoc eqb p l) else assoc eqb p l.
  Proof.
    induction l as [|[k' v] l IH]; cbn [update_first assoc].
    - now destruct (eqb p k).
    - destruct (eqb k k') eqn:Ek; cbn [assoc].
      + apply eqb_eq in Ek. subst k'. destruct (eqb p k); reflexivity.
      + destruct (eqb p k') eqn:Ep.
        * destruct (eqb p k) eqn:Epk; [|reflexivity].
          apply eqb_eq in Ep, Epk. subst. now rewrite eqb_refl' in Ek.
        * exact IH.
  Qed.

  Lemma assoc_remove_key k p (l : list (K * V)) :
    assoc eqb p (remove_key eqb k l) = if eqb k p then None else assoc eqb p l.
  Proof.
    unfold remove_key. induction l as [|[k' v] l IH]; cbn [filter assoc fst].
    - now destruct (eqb k p).
    - destruct (eqb k k') eqn:Ek; cbn [negb assoc].
      + apply eqb_eq in Ek. subst k'. rewrite IH. destruct (eqb k p) eqn:Ekp; [reflexivity|].
        destruct (eqb p k) eqn:Epk; [|reflexivity]. apply eqb_eq in Epk. subst. now rewrite eqb_refl' in Ekp.
      + destruct (eqb p k') eqn:Ep.
        * destruct (eqb k p) eqn:Ekp; [|reflexivity]. apply eqb_eq in Ep, Ekp. subst. now rewrite eqb_refl' in Ek.
        * exact IH.
  Qed.
End Assoc.

(* ---- lookups ---- *)
Definition lookup_yt (cfg : iconfig) (t : target_id) : option (bytes * ytarget) :=
  match lookup_project cfg (t_project t) with
  | Some (dir, pr) => match lookup_ytarget pr (t_name t) with Some yt => Some (dir, yt) | None => None end
  | None => None
  end.

Definition proj_dir (cfg : iconfig) (p : option bytes) : option bytes := option_map fst (lookup_project cfg p).

Lemma lookup_yt_in_all cfg t dy : lookup_yt cfg t = Some dy -> In t (list_all_targets cfg).
Proof.
  unfold lookup_yt, lookup_project, lookup_ytarget.
  destruct (assoc opt_beq (t_project t) (ic_projects cfg)) as [[dir pr]|] eqn:Ep; [|discriminate].
  destruct (assoc beq (t_name t) (yp_targets pr)) as [yt|] eqn:Et; [|discriminate]. intros _.
  apply (assoc_in _ opt_beq_eq) in Ep. apply (assoc_in _ beq_eq) in Et.
  unfold list_all_targets. apply in_flat_map. exists (t_project t, (dir, pr)). split; [exact Ep|].
  cbn. unfold project_targets. apply in_map_iff. exists (t_name t, yt). split; [now destruct t | exact Et].
Qed.

(* ---- the reference graph ---- *)
Definition output_strings (inp : list yinput) : list bytes :=
  flat_map (fun i => match i with YIDepOutput s => [s] | _ => [] end) inp.

Definition parse_oref (cur : option bytes) (s : bytes) : option target_id :=
  match parse_output_ref s with Some r => try_parse r cur | None => None end.

(* the references of target t as written, each parsed in t's own project (None = malformed) *)
Definition declared_refs (t : target_id) (yt : ytarget) : list (option target_id) :=
  map (fun s => try_parse s (t_project t)) (yt_deps yt).
Definition output_refs (t : target_id) (yt : ytarget) : list (option target_id) :=
  map (parse_oref (t_project t)) (output_strings (yt_input yt)).

Definition somes {A} (l : list (option A)) : list A :=
  flat_map (fun o => match o with Some a => [a] | None => [] end) l.

Fixpoint all_some {A} (l : list (option A)) : option (list A) :=
  match l with
  | [] => Some []
  | Some a :: r => match all_some r with Some r' => Some (a :: r') | None => None end
  | None :: _ => None
  end.

Lemma all_some_somes {A} (l : list (option A)) r : all_some l = Some r -> somes l = r.
Proof.
  revert r. induction l as [|[a|] l IH]; intros r; cbn [all_some].
  - now intros [= <-].
  - destruct (all_some l) as [r'|]; [|discriminate]. intros [= <-].
    change (somes (Some a :: l)) with (a :: somes l). now rewrite (IH r' eq_refl).
  - discriminate.
Qed.

Lemma all_some_in {A} (l : list (option A)) r : all_some l = Some r -> forall o, In o l -> exists a, o = Some a /\ In a r.
Proof.
  revert r. induction l as [|[a|] l IH]; cbn; intros r.
  - intros _ o [].
  - destruct (all_some l) as [r'|]; [|discriminate]. intros [= <-] o [<-|Hin].
    + exists a. split; [reflexivity | now left].
    + destruct (IH r' eq_refl o Hin) as [b [-> Hb]]. exists b. split; [reflexivity | now right].
  - discriminate.
Qed.

Lemma all_some_none {A} (l : list (option A)) : all_some l = None -> In None l.
Proof.
  induction l as [|[a|] l IH]; cbn.
  - discriminate.
  - destruct (all_some l); [discriminate|]. intros _. right. now apply IH.
  - intros _. now left.
Qed.

Lemma all_some_map_in {A B} (f : A -> option B) l r :
  all_some (map f l) = Some r -> forall a, In a l -> exists b, f a = Some b /\ In b r.
Proof.
  intros H a Hin. apply (all_some_in _ _ H). now apply in_map.
Qed.

Lemma in_somes {A} (l : list (option A)) a : In a (somes l) <-> In (Some a) l.
Proof.
  unfold somes. rewrite in_flat_map. split.
  - intros [[b|] [Hin Hb]]; [|destruct Hb]. destruct Hb as [->|[]]. exact Hin.
  - intros H. exists (Some a). split; [exact H | now left].
Qed.

(* the successors of t: every reference that parses (a malformed one is a defect of its own) *)
Definition refs (cfg : iconfig) (t : target_id) : list target_id :=
  match lookup_yt cfg t with
  | Some (_, yt) => somes (declared_refs t yt) ++ somes (output_refs t yt)
  | None => []
  end.

Definition edge (cfg : iconfig) (a b : target_id) : Prop := In b (refs cfg a).

Definition reach (cfg : iconfig) (roots : list target_id) (t : target_id) : Prop :=
  exists r, In r roots /\ clos_refl_trans _ (edge cfg) r t.

Lemma reach_root cfg roots r : In r roots -> reach cfg roots r.
Proof. intros H. exists r. split; [exact H | apply rt_refl]. Qed.

Lemma reach_step cfg roots a b : reach cfg roots a -> edge cfg a b -> reach cfg roots b.
Proof.
  intros [r [Hr Hp]] He. exists r. split; [exact Hr|]. eapply rt_trans; [exact Hp | now apply rt_step].
Qed.

(* ---- what makes a configuration broken (R = the targets under consideration, normally `reach cfg roots`) ---- *)
Inductive defect (cfg : iconfig) (R : target_id -> Prop) : err -> Prop :=
| DProject t p :
    R t -> t_project t = Some p -> lookup_project cfg (Some p) = None -> defect cfg R EProjectNotFound
| DTarget t dir pr :
    R t -> lookup_project cfg (t_project t) = Some (dir, pr) -> lookup_ytarget pr (t_name t) = None ->
    defect cfg R ETargetNotFound
| DCycle t :
    R t -> clos_trans _ (edge cfg) t t -> defect cfg R ECircular
| DNotBuild t dir yt x dx yx :
    R t -> lookup_yt cfg t = Some (dir, yt) -> In (Some x) (output_refs t yt) ->
    lookup_yt cfg x = Some (dx, yx) -> yt_kind yx <> TBuild -> defect cfg R ENotABuildOutput
| DInvalidInput t dir yt s :
    R t -> lookup_yt cfg t = Some (dir, yt) -> In s (output_strings (yt_input yt)) -> parse_output_ref s = None ->
    defect cfg R EInvalidInput
| DInvalidName t dir yt s :
    R t -> lookup_yt cfg t = Some (dir, yt) -> In s (yt_deps yt) -> try_parse s (t_project t) = None ->
    defect cfg R EInvalidTargetName
(* API level only: an unqualified id although no project is unnamed. The code panics here (`unwrap` of ir.rs:78).
   Unreachable from main: requests are parsed with the root project's name (`roots_wf`, lemma no_unwrap_defect). *)
| DUnwrap t :
    R t -> t_project t = None -> lookup_project cfg None = None -> defect cfg R EPanicUnwrap.

Definition broken (cfg : iconfig) (roots : list target_id) : Prop := exists e, defect cfg (reach cfg roots) e.

(* hypotheses on the loaded configuration / the request (established by the loader and by main, see C14) *)
Definition root_present (cfg : iconfig) : Prop := lookup_project cfg (ic_root_name cfg) <> None.

Definition names_valid (cfg : iconfig) : Prop :=
  forall pn dir pr, In (pn, (dir, pr)) (ic_projects cfg) ->
    (forall p, pn = Some p -> valid_name p = true) /\ (forall n yt, In (n, yt) (yp_targets pr) -> valid_name n = true).

(* an unqualified root id needs an unnamed project (main parses requests with the root project's name, so this
   holds for every request; it rules out the `unwrap` of ir.rs:78) *)
Definition roots_wf (cfg : iconfig) (roots : list target_id) : Prop :=
  forall r, In r roots -> t_project r = None -> lookup_project cfg None <> None.

(* ---- the resolved target asked for by the property texts: a function of cfg and t alone ---- *)
Definition own_files (inp : list yinput) (dir : bytes) : list files_resource :=
  flat_map (fun i => match i with YIFiles p e => [files_of dir p e] | _ => [] end) inp.
Definition own_cmds (inp : list yinput) (dir : bytes) : list cmd_resource :=
  flat_map (fun i => match i with YICmd c => [{| cr_cmd := c; cr_dir := dir |}] | _ => [] end) inp.
Definition out_files (out : list youtput) (dir : bytes) : list files_resource :=
  flat_map (fun o => match o with YOFiles p e => [files_of dir p e] | _ => [] end) out.
Definition out_cmds (out : list youtput) (dir : bytes) : list cmd_resource :=
  flat_map (fun o => match o with YOCmd c => [{| cr_cmd := c; cr_dir := dir |}] | _ => [] end) out.

(* the output resources of a producer: defined for build targets only, bound to the PRODUCER's directory *)
Definition producer_output (cfg : iconfig) (x : target_id) : option resources :=
  match lookup_yt cfg x with
  | Some (dir, yt) =>
      match yt_kind yt with
      | TBuild => Some {| r_files := out_files (yt_output yt) dir; r_cmds := out_cmds (yt_output yt) dir |}
      | _ => None
      end
  | None => None
  end.

Definition rtarget_of (cfg : iconfig) (t : target_id) : option rtarget :=
  match lookup_yt cfg t with
  | None => None
  | Some (dir, yt) =>
      match all_some (declared_refs t yt), all_some (output_refs t yt) with
      | Some deps, Some orefs =>
          match all_some (map (producer_output cfg) orefs) with
          | Some outs =>
              Some {| rt_id := t; rt_dir := dir; rt_deps := deps ++ orefs; rt_kind := yt_kind yt;
                      rt_script := yt_script yt;
                      rt_input := {| r_files := own_files (yt_input yt) dir ++ flat_map r_files outs;
                                     r_cmds := own_cmds (yt_input yt) dir ++ flat_map r_cmds outs |};
                      rt_output := {| r_files := out_files (yt_output yt) dir; r_cmds := out_cmds (yt_output yt) dir |} |}
          | None => None
          end
      | _, _ => None
      end
  end.

Lemma rtarget_of_deps cfg t rt : rtarget_of cfg t = Some rt -> rt_deps rt = refs cfg t.
Proof.
  unfold rtarget_of, refs. destruct (lookup_yt cfg t) as [[dir yt]|]; [|discriminate].
  destruct (all_some (declared_refs t yt)) as [deps|] eqn:Ed; [|discriminate].
  destruct (all_some (output_refs t yt)) as [orefs|] eqn:Eo; [|discriminate].
  destruct (all_some (map _ orefs)); [|discriminate]. intros [= <-]. cbn.
  now rewrite (all_some_somes _ _ Ed), (all_some_somes _ _ Eo).
Qed.

Lemma rtarget_of_id cfg t rt : rtarget_of cfg t = Some rt -> rt_id rt = t.
Proof.
  unfold rtarget_of. destruct (lookup_yt cfg t) as [[dir yt]|]; [|discriminate].
  destruct (all_some (declared_refs t yt)); [|discriminate].
  destruct (all_some (output_refs t yt)); [|discriminate].
  destruct (all_some (map _ _)); [|discriminate]. now intros [= <-].
Qed.

(* ---- transform_input / transform_output against the declarative pieces ---- *)
Lemma try_parse_many_all_some l cur : try_parse_many l cur = all_some (map (fun s => try_parse s cur) l).
Proof.
  induction l as [|s l IH]; cbn [try_parse_many map all_some]; [reflexivity|].
  destruct (try_parse s cur); [|reflexivity]. rewrite IH. reflexivity.
Qed.

Lemma transform_output_spec out dir :
  transform_output out dir = {| r_files := out_files out dir; r_cmds := out_cmds out dir |}.
Proof.
  induction out as [|[p e|c] out IH]; cbn [transform_output]; [reflexivity| |]; rewrite IH; reflexivity.
Qed.

Lemma transform_input_ok inp cur dir r ds :
  transform_input inp cur dir = Ok (r, ds) ->
  r = {| r_files := own_files inp dir; r_cmds := own_cmds inp dir |} /\
  all_some (map (parse_oref cur) (output_strings inp)) = Some ds.
Proof.
  revert r ds. induction inp as [|[p e|c|s] inp IH]; intros r ds; cbn [transform_input].
  - intros [= <- <-]. now split.
  - destruct (transform_input inp cur dir) as [[r' ds']|]; [|discriminate]. intros [= <- <-].
    destruct (IH r' ds' eq_refl) as [-> H]. split; [reflexivity | exact H].
  - destruct (transform_input inp cur dir) as [[r' ds']|]; [|discriminate]. intros [= <- <-].
    destruct (IH r' ds' eq_refl) as [-> H]. split; [reflexivity | exact H].
  - destruct (parse_output_ref s) as [ref|] eqn:Es; [|discriminate].
    destruct (try_parse ref cur) as [id|] eqn:Ei; [|discriminate].
    destruct (transform_input inp cur dir) as [[r' ds']|]; [|discriminate]. intros [= <- <-].
    destruct (IH r' ds' eq_refl) as [-> H]. split; [reflexivity|].
    cbn [output_strings flat_map app map all_some]. unfold parse_oref at 1. rewrite Es, Ei.
    unfold output_strings in H. now rewrite H.
Qed.

Lemma transform_input_err inp cur dir e :
  transform_input inp cur dir = Err e ->
  e = EInvalidInput /\ exists s, In s (output_strings inp) /\ parse_output_ref s = None.
Proof.
  induction inp as [|[p e'|c|s] inp IH]; cbn [transform_input].
  - discriminate.
  - destruct (transform_input inp cur dir) as [[r' ds']|e'']; [discriminate|]. intros [= <-].
    exact (IH eq_refl).
  - destruct (transform_input inp cur dir) as [[r' ds']|e'']; [discriminate|]. intros [= <-].
    exact (IH eq_refl).
  - destruct (parse_output_ref s) as [ref|] eqn:Es.
    + destruct (parse_output_ref_parses s ref cur Es) as [id Ei]. rewrite Ei.
      destruct (transform_input inp cur dir) as [[r' ds']|e'']; [discriminate|]. intros [= <-].
      destruct (IH eq_refl) as [-> [s' [Hin Hs']]]. split; [reflexivity|]. exists s'. split; [|exact Hs'].
      cbn. now right.
    + intros [= <-]. split; [reflexivity|]. exists s. split; [cbn; now left | exact Es].
Qed.

(* transform_target, completely *)
Lemma transform_target_ok t yt dir rt fi :
  transform_target t yt dir = Ok (rt, fi) ->
  exists deps,
    all_some (declared_refs t yt) = Some deps /\ all_some (output_refs t yt) = Some fi /\
    rt = {| rt_id := t; rt_dir := dir; rt_deps := deps; rt_kind := yt_kind yt; rt_script := yt_script yt;
            rt_input := {| r_files := own_files (yt_input yt) dir; r_cmds := own_cmds (yt_input yt) dir |};
            rt_output := {| r_files := out_files (yt_output yt) dir; r_cmds := out_cmds (yt_output yt) dir |} |}.
Proof.
  unfold transform_target, declared_refs, output_refs. rewrite try_parse_many_all_some.
  destruct (all_some (map _ (yt_deps yt))) as [deps|]; [|discriminate].
  destruct yt as [d s inp out|d s inp|d]; cbn [yt_input yt_output yt_kind yt_script].
  - destruct (transform_input inp (t_project t) dir) as [[r ds]|] eqn:Ei; [|discriminate]. intros [= <- <-].
    destruct (transform_input_ok _ _ _ _ _ Ei) as [-> H]. exists deps. repeat split; [exact H|].
    now rewrite transform_output_spec.
  - destruct (transform_input inp (t_project t) dir) as [[r ds]|] eqn:Ei; [|discriminate]. intros [= <- <-].
    destruct (transform_input_ok _ _ _ _ _ Ei) as [-> H]. exists deps. repeat split; exact H.
  - intros [= <- <-]. exists deps. repeat split.
Qed.

Lemma transform_target_err t yt dir e :
  transform_target t yt dir = Err e ->
  (e = EInvalidTargetName /\ exists s, In s (yt_deps yt) /\ try_parse s (t_project t) = None) \/
  (e = EInvalidInput /\ exists s, In s (output_strings (yt_input yt)) /\ parse_output_ref s = None).
Proof.
  unfold transform_target. destruct (try_parse_many (yt_deps yt) (t_project t)) as [deps|] eqn:Ed.
  - destruct yt as [d s inp out|d s inp|d]; cbn [yt_input].
    + destruct (transform_input inp (t_project t) dir) as [[r ds]|e'] eqn:Ei; [discriminate|]. intros [= <-].
      right. exact (transform_input_err _ _ _ _ Ei).
    + destruct (transform_input inp (t_project t) dir) as [[r ds]|e'] eqn:Ei; [discriminate|]. intros [= <-].
      right. exact (transform_input_err _ _ _ _ Ei).
    + discriminate.
  - intros [= <-]. left. split; [reflexivity|]. now apply try_parse_many_none.
Qed.

(* aggregates never have `.output` references *)
Lemma output_refs_aggregate t yt : yt_kind yt = TAggregate -> output_refs t yt = [].
Proof. destruct yt; try discriminate. reflexivity. Qed.
