(* Per-step fact(s) about actor_step: unav_shrink. *)
From Zinoma.Proofs Require Export ActorFacts.
Section facts.
  Context (fx ok : bool) (a : astate) (e : event) (a' : astate) (os : list out) (ob : list obs).
  Context (Hstep : actor_step fx ok a e = Some (a', os, ob)).
  Lemma step_unav_shrink k d : d ∈ unav a k -> d ∉ unav a' k -> exists act, e = EMsg (MOk k d act).
  Proof using Hstep.
    clear -Hstep. intros Hin Hout. crush_step Hstep; aproj_all; try done; subst;
      try (match goal with
           | Hi : ?d ∈ _, Ho : ?d ∉ _ ∖ {[?t]} |- _ =>
               destruct (decide (d = t)) as [->|]; [eauto|exfalso; set_solver]
           end); exfalso; set_solver.
  Qed.
End facts.
