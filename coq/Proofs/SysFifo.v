(* The exact FIFO content of the inboxes across a step: what an actor consumes is the head of its inbox, what it sends is
   appended, in order, to the destinations' inboxes. *)
From Zinoma.Proofs Require Export SysSvcKeep Words.

Definition inb (ib : gmap tid (list msg)) (R : tid) : list msg := default [] (ib !! R).

Lemma inb_push ib d m R : inb (push_inbox ib d m) R = if decide (R = d) then inb ib d ++ [m] else inb ib R.
Proof.
  unfold inb, push_inbox. destruct (decide (R = d)) as [->|Hne].
  - by rewrite lookup_insert.
  - by rewrite lookup_insert_ne.
Qed.

Lemma route_inb os : forall ib rq ib' rq' R,
  route ib rq os = (ib', rq') -> inb ib' R = inb ib R ++ msgs_to R os.
Proof.
  induction os as [|o os IH]; intros ib rq ib' rq' R H; cbn in H.
  - injection H as <- <-. unfold msgs_to. cbn. by rewrite app_nil_r.
  - destruct o as [[|d] m|t].
    + rewrite (IH _ _ _ _ R H). done.
    + rewrite (IH _ _ _ _ R H). rewrite inb_push. unfold msgs_to at 2. cbn.
      destruct (decide (d = R)) as [->|Hne].
      * rewrite decide_True by done. cbn. by rewrite <- app_assoc.
      * rewrite decide_False by done. done.
    + rewrite (IH _ _ _ _ R H). done.
Qed.

Lemma msg_in_inb s R m : msg_in s (ATarget R) m <-> m ∈ inb (inbox s) R.
Proof.
  cbn. unfold inb. split.
  - intros (l & Hl & Hin). by rewrite Hl.
  - intros Hin. destruct (inbox s !! R) as [l|] eqn:E; cbn in Hin; [eauto|by apply elem_of_nil in Hin].
Qed.

(* one step, seen from the inboxes: the message an actor handles is one that no earlier message of the same sender
   precedes in its inbox (the head, for LDeliver); what it sends is appended, in order, to the destinations' inboxes *)
Inductive fifo_step (fx w : bool) (s s' : sys) : Prop :=
| FS_actor (t : tid) (a : astate) (e : event) (ok : bool) (a' : astate) (os : list out) (ob : list obs) (pre rest : list msg) :
    actors s !! t = Some a ->
    actor_step fx ok a e = Some (a', os, ob) ->
    actors s' = <[t := a']> (actors s) ->
    (match e with
     | EMsg m => inb (inbox s) t = pre ++ m :: rest /\ none_from sender (sender m) pre = true
     | _ => pre = [] /\ rest = inb (inbox s) t
     end) ->
    (forall R, inb (inbox s') R = (if decide (R = t) then pre ++ rest else inb (inbox s) R) ++ msgs_to R os) ->
    ph s' = ph s -> termq s' ⊆ termq s -> (e = ETerm -> t ∈ termq s) -> hist s' = hist s ++ ob ->
    fifo_step fx w s s'
| FS_other :
    actors s' = actors s -> inbox s' = inbox s -> (ph s' = PRun -> ph s = PRun /\ termq s' = termq s) -> hist s' = hist s ->
    fifo_step fx w s s'.

Lemma apply_step_fifo fx w s t a e ok ib sl tq pre rest s' :
  actors s !! t = Some a ->
  apply_step s t ib sl tq (actor_step fx ok a e) = Some s' ->
  (match e with
   | EMsg m => inb (inbox s) t = pre ++ m :: rest /\ none_from sender (sender m) pre = true
   | _ => pre = [] /\ rest = inb (inbox s) t
   end) ->
  (forall R, inb ib R = if decide (R = t) then pre ++ rest else inb (inbox s) R) ->
  tq ⊆ termq s -> (e = ETerm -> t ∈ termq s) ->
  fifo_step fx w s s'.
Proof.
  intros Ha Happ Hhead Hib Htq Hterm. unfold apply_step in Happ.
  destruct (actor_step fx ok a e) as [[[a' os] ob]|] eqn:Hst; [|done].
  destruct (route ib (rootq s) os) as [ib' rq'] eqn:Hr. injection Happ as <-.
  eapply (FS_actor fx w s _ t a e ok a' os ob pre rest); try done.
  intros R. cbn. rewrite (route_inb _ _ _ _ _ R Hr). by rewrite Hib.
Qed.

Lemma root_consume_same w s o rest : actors (root_consume w s o rest) = actors s /\ inbox (root_consume w s o rest) = inbox s /\
  (ph (root_consume w s o rest) = PRun -> termq (root_consume w s o rest) = termq s) /\ hist (root_consume w s o rest) = hist s.
Proof.
  unfold root_consume. destruct w; [done|]. by destruct o as [[|d] [k r|k r|[] t act|k t]|t].
Qed.

Lemma exec_fifo fx w s l s' : exec fx w s l = Some s' -> fifo_step fx w s s'.
Proof.
  destruct l as [t ok|t ok|t|t r| | | | |ts| |t i ok|i]; cbn [exec]; intros H.
  - destruct (actors s !! t) as [a|] eqn:Ha; [|done].
    destruct (inbox s !! t) as [[|m rest]|] eqn:Hib; try done.
    eapply (apply_step_fifo fx w s t a (EMsg m) ok _ _ _ [] rest); try done.
    + unfold inb. by rewrite Hib.
    + intros R. unfold inb. destruct (decide (R = t)) as [->|Hne]; [by rewrite lookup_insert|by rewrite lookup_insert_ne].
  - destruct (actors s !! t) as [a|] eqn:Ha; [|done]. case_bool_decide as Hin; [|done].
    eapply (apply_step_fifo fx w s t a EInval ok _ _ _ [] (inb (inbox s) t)); try done.
    intros R. by destruct (decide (R = t)) as [->|].
  - destruct (actors s !! t) as [a|] eqn:Ha; [|done]. case_bool_decide as Hin; [|done].
    eapply (apply_step_fifo fx w s t a ETerm true _ _ _ [] (inb (inbox s) t)); try done.
    + intros R. by destruct (decide (R = t)) as [->|].
    + set_solver.
  - destruct (actors s !! t) as [a|] eqn:Ha; [|done].
    destruct (match r with RCancelled => cancel_sent a | _ => true end) eqn:Hcs; [|done].
    eapply (apply_step_fifo fx w s t a (EBuildDone r) true _ _ _ [] (inb (inbox s) t)); try done.
    intros R. by destruct (decide (R = t)) as [->|].
  - destruct (root_running s && _) eqn:Hc; [|done]. apply andb_true_iff in Hc as [Hrun _].
    unfold root_running in Hrun. apply bool_decide_eq_true in Hrun. destruct (rootq s) as [|o rest]; [done|].
    injection H as <-. destruct (root_consume_same w s o rest) as (H1 & H2 & H3 & H4). apply FS_other; try done. intros Hp. split; [done|by apply H3].
  - destruct (root_running s && negb w && root_sets_empty s); [|done].
    destruct (set_empty (r_svc s)); injection H as <-; by apply FS_other.
  - destruct (ph s) eqn:Hp; try done; injection H as <-; apply FS_other; cbn; try done.
  - destruct (sigq s && _); [|done]. injection H as <-. by apply FS_other.
  - destruct (w && _); [|done]. injection H as <-. by apply FS_other.
  - destruct (ph s); try done. destruct (all_exited s); [|done]. injection H as <-. by apply FS_other.
  - destruct (actors s !! t) as [a|] eqn:Ha; [|done].
    destruct (inbox s !! t) as [l|] eqn:Hib; [|done].
    destruct (pick i l) as [[[pre m] rest]|] eqn:Hpk; [|done].
    destruct (none_from sender (sender m) pre) eqn:Hnf; [|done]. apply pick_spec in Hpk. subst l.
    eapply (apply_step_fifo fx w s t a (EMsg m) ok _ _ _ pre rest); try done.
    + split; [|done]. unfold inb. by rewrite Hib.
    + intros R. unfold inb. destruct (decide (R = t)) as [->|Hne]; [by rewrite lookup_insert|by rewrite lookup_insert_ne].
  - destruct (root_running s && _) eqn:Hc; [|done]. apply andb_true_iff in Hc as [Hrun _].
    unfold root_running in Hrun. apply bool_decide_eq_true in Hrun.
    destruct (pick i (rootq s)) as [[[pre o] rest]|]; [|done]. destruct (none_from _ _ pre); [|done].
    injection H as <-. destruct (root_consume_same w s o (pre ++ rest)) as (H1 & H2 & H3 & H4). apply FS_other; try done. intros Hp. split; [done|by apply H3].
Qed.
