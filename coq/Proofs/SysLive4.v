(* C04 progress argument, part 4: quiescence and the theorem — no lost wake-up, no deadlock, whatever the graph. *)
From Zinoma.Proofs Require Export SysLive3.

Lemma filter_nil_all {A} (P : A -> bool) (l : list A) :
  filter (fun x => P x) l = [] -> forall x, x ∈ l -> P x = false.
Proof.
  induction l as [|y l IH]; intros Hf x Hx; [by apply elem_of_nil in Hx|].
  cbn in Hf. destruct (decide (P y)) as [Hy|Hy]; [done|].
  apply elem_of_cons in Hx as [->|Hx]; [by destruct (P y)|by apply IH].
Qed.

Lemma quiescent_spec fx w s l :
  quiescent fx w s = true -> l ∈ candidate_labels s -> exec fx w s l = None.
Proof.
  unfold quiescent, enabled. intros Hq Hl.
  destruct (filter _ (candidate_labels s)) eqn:Hf; [|done].
  pose proof (filter_nil_all (fun l => bool_decide (is_Some (exec fx w s l))) _ Hf l Hl) as Hb.
  apply bool_decide_eq_false in Hb. destruct (exec fx w s l); [exfalso; apply Hb; eauto|done].
Qed.

Lemma candidate_actor s t a l :
  actors s !! t = Some a ->
  l ∈ [LDeliver t true; LInval t true; LTermActor t; LBuildDone t RCompleted; LBuildDone t RCancelled] ->
  l ∈ candidate_labels s.
Proof.
  intros Ha Hl. unfold candidate_labels. apply elem_of_app; left.
  apply elem_of_list_bind. exists t. split; [done|].
  apply elem_of_list_fmap. exists (t, a). split; [done|]. by apply elem_of_map_to_list.
Qed.

Lemma candidate_root s l : l ∈ [LRoot; LRootIdle; LRootSignal; LJoin] -> l ∈ candidate_labels s.
Proof. intros Hl. unfold candidate_labels. apply elem_of_app; by right. Qed.

Lemma cand_deliver s t a : actors s !! t = Some a -> LDeliver t true ∈ candidate_labels s.
Proof. intros Ha. eapply candidate_actor; [done|]. apply elem_of_list_here. Qed.
Lemma cand_done s t a : actors s !! t = Some a -> LBuildDone t RCompleted ∈ candidate_labels s.
Proof. intros Ha. eapply candidate_actor; [done|]. do 3 apply elem_of_list_further. apply elem_of_list_here. Qed.
Lemma cand_root s : LRoot ∈ candidate_labels s.
Proof. apply candidate_root. apply elem_of_list_here. Qed.
Lemma cand_idle s : LRootIdle ∈ candidate_labels s.
Proof. apply candidate_root. apply elem_of_list_further, elem_of_list_here. Qed.

(* an actor that has not exited accepts any message *)
Lemma actor_step_msg_some fx ok a m : exited a = false -> is_Some (actor_step fx ok a (EMsg m)).
Proof.
  intros Hex. unfold actor_step, build_step, service_step, aggregate_step. rewrite Hex.
  destruct (a_kind a).
  - destruct (build_handle_msg fx a m) as [a1 o]. destruct (build_top a1). eauto.
  - destruct (service_handle_msg fx a m) as [[a1 o] ob]. destruct (service_top ok a1) as [[a2 o2] ob2]. eauto.
  - destruct (aggregate_handle_msg a m). eauto.
Qed.

Lemma actor_step_done_some fx ok a :
  exited a = false -> a_kind a = ABuild -> ongoing a = true -> is_Some (actor_step fx ok a (EBuildDone RCompleted)).
Proof.
  intros Hex Hk Ho. unfold actor_step, build_step. rewrite Hk, Hex, Ho. cbn [negb].
  destruct (notify_success _ KB) as [a1 o]. destruct (term_recv a1); [eauto|]. destruct (build_top a1). eauto.
Qed.

Lemma apply_step_some s t ib sl tq r : is_Some r -> is_Some (apply_step s t ib sl tq r).
Proof. intros [[[a' os] ob] ->]. cbn. destruct (route ib (rootq s) os). eauto. Qed.

Section live4.
  Context (g : graph) (roots : list tid).
  Context (rank : tid -> nat).
  Context (Hclosed : forall t k deps d, g !! t = Some (k, deps) -> d ∈ deps -> is_Some (g !! d)).
  Context (Hroots : forall r, r ∈ roots -> is_Some (g !! r)).
  Context (Hrank : forall t k deps d, g !! t = Some (k, deps) -> d ∈ deps -> rank d < rank t).
  Notation wf := (SysInv.wf g).

  Section quiet.
    Context (s : sys).
    Context (Hr : reachable true false g roots s) (Hp : ph s = PRun).
    Context (Hq : quiescent true false s = true) (Hnf : forall t, ObFail t ∉ hist s).

    Let Hli := live_inv_reachable g roots s Hr Hp.
    Let Hwf := wf_reachable true false g roots s Hr.

    Lemma q_inbox_empty t a l : actors s !! t = Some a -> inbox s !! t = Some l -> l = [].
    Proof.
      intros Ha Hl. destruct l as [|m rest]; [done|]. exfalso.
      pose proof (quiescent_spec _ _ _ (LDeliver t true) Hq (cand_deliver s t a Ha)) as He.
      cbn in He. rewrite Ha, Hl in He.
      destruct (li_calm _ _ _ Hli t a Ha) as (Hex & _).
      destruct (apply_step_some s t (<[t:=rest]> (inbox s)) (slot s) (termq s) _ (actor_step_msg_some true true a m Hex)) as [x Hx].
      by rewrite Hx in He.
    Qed.

    Lemma q_no_msg_to_actor t a m : actors s !! t = Some a -> ~ msg_in s (ATarget t) m.
    Proof.
      intros Ha (l & Hl & Hin). rewrite (q_inbox_empty t a l Ha Hl) in Hin. by apply elem_of_nil in Hin.
    Qed.

    Lemma q_not_ongoing t a : actors s !! t = Some a -> ongoing a = false.
    Proof.
      intros Ha. destruct (ongoing a) eqn:Ho; [|done]. exfalso.
      pose proof (quiescent_spec _ _ _ (LBuildDone t RCompleted) Hq (cand_done s t a Ha)) as He.
      cbn in He. rewrite Ha in He.
      destruct (li_calm _ _ _ Hli t a Ha) as (Hex & _).
      pose proof (bi_kind _ (bal_inv_reachable true g roots false s Hr) t a Ha) as [Hk _].
      destruct (apply_step_some s t (inbox s) (slot s) (termq s) _ (actor_step_done_some true true a Hex (Hk Ho) Ho)) as [x Hx].
      by rewrite Hx in He.
    Qed.

    Lemma q_rootq_empty : ~ (r_unavB s = ∅ /\ r_unavS s = ∅) -> rootq s = [].
    Proof.
      intros Hne. destruct (rootq s) as [|o rest] eqn:Hrq; [done|]. exfalso.
      pose proof (quiescent_spec _ _ _ LRoot Hq (cand_root s)) as He.
      cbn in He. unfold root_running, root_sets_empty in He. rewrite Hp, Hrq in He.
      rewrite bool_decide_eq_true_2 in He by done. cbn in He.
      destruct (set_empty (r_unavB s) && set_empty (r_unavS s)) eqn:Hemp.
      - apply andb_true_iff in Hemp as [H1 H2]. apply set_empty_true in H1. apply set_empty_true in H2. by apply Hne.
      - cbn in He. destruct o as [[|d] [k r|k r|[] t0 act|k t0]|t0]; done.
    Qed.

    Lemma q_root_waiting : ~ (r_unavB s = ∅ /\ r_unavS s = ∅).
    Proof.
      intros [HB HS].
      pose proof (quiescent_spec _ _ _ LRootIdle Hq (cand_idle s)) as He.
      cbn in He. unfold root_running, root_sets_empty in He. rewrite Hp, HB, HS in He.
      rewrite bool_decide_eq_true_2 in He by done. cbn in He.
      assert (Hse : set_empty (∅ : gset tid) = true) by (by apply set_empty_true).
      rewrite Hse in He. cbn in He. destruct (set_empty (r_svc s)); done.
    Qed.

    (* every actor that was asked has answered, and the answer was taken note of *)
    Definition settled (d : tid) : Prop :=
      forall ad k, actors s !! d = Some ad -> own ad k -> reqs ad k <> ∅ ->
        done ad k /\ forall R, R ∈ reqs ad k -> consumed s R k d.

    Lemma acked_consumed R k d : acked s R k d -> (R = ARoot \/ exists t a, R = ATarget t /\ actors s !! t = Some a) -> consumed s R k d.
    Proof.
      intros [[act Hm]|Hc] HR; [|done]. exfalso. destruct HR as [->|(t & a & -> & Ha)].
      - cbn in Hm. rewrite (q_rootq_empty q_root_waiting) in Hm. by apply elem_of_nil in Hm.
      - by eapply q_no_msg_to_actor.
    Qed.

    Lemma requester_exists d R k ad :
      actors s !! d = Some ad -> R ∈ reqs ad k -> R = ARoot \/ exists t a, R = ATarget t /\ actors s !! t = Some a.
    Proof.
      intros Had HR. destruct R as [|t]; [by left|right].
      pose proof (ti_reqs _ _ _ (talk_inv_reachable true g roots false s Hr) d ad k _ Had HR) as Hreq. cbn in Hreq.
      destruct Hreq as (kt & deps & Hg & _).
      destruct (li_dom _ _ _ Hli t (ex_intro _ _ Hg)) as [a Ha]. eauto.
    Qed.

    Lemma all_settled : forall n d, rank d < n -> settled d.
    Proof.
      induction n as [|n IH]; intros d Hlt; [lia|].
      intros ad k Had Ho Hne.
      destruct (Hwf d ad Had) as [Hid Hg].
      (* every dependency asked for kind k' has become available *)
      assert (Hdep : forall x k', x ∈ a_deps ad -> fanned ad k' -> x ∉ unav ad k').
      { intros x k' Hx Hf.
        destruct (Hclosed d _ _ x Hg Hx) as [gx Hgx].
        destruct (li_dom _ _ _ Hli x (ex_intro _ _ Hgx)) as [ax Hax].
        assert (Hw : wants roots s (ATarget d) x k') by (cbn; eauto).
        assert (Hcons : consumed s (ATarget d) k' x).
        { destruct (li_req _ _ _ Hli _ _ _ ax Hw Hax) as [Hpend|[[Hox HRx]|[Hno Hack]]].
          - exfalso. by eapply q_no_msg_to_actor.
          - assert (Hsx : settled x) by (apply IH; specialize (Hrank d _ _ x Hg Hx); lia).
            destruct (Hsx ax k' Hax Hox ltac:(set_solver)) as [_ Hall]. by apply Hall.
          - apply acked_consumed; [done|]. right. eauto. }
        cbn in Hcons. destruct Hcons as (a0 & Ha0 & Hn). by assert (a0 = ad) as -> by congruence. }
      assert (Hdone : done ad k).
      { unfold done, own, fanned in *. destruct (a_kind ad) eqn:Hk.
        - subst k.
          assert (HB : unavB ad = ∅).
          { apply set_eq. intros x. split; [|set_solver]. intros Hx. exfalso.
            eapply (Hdep x KB); [by eapply (li_unavsub _ _ _ Hli d ad KB)|done|done]. }
          assert (HS : unavS ad = ∅).
          { apply set_eq. intros x. split; [|set_solver]. intros Hx. exfalso.
            eapply (Hdep x KS); [by eapply (li_unavsub _ _ _ Hli d ad KS)|done|done]. }
          destruct (to_execute ad) eqn:Hte.
          + pose proof (li_nopend _ _ _ Hli d ad Had KB Hk Hte Hne HB HS) as Hon.
            rewrite (q_not_ongoing d ad Had) in Hon. done.
          + destruct (li_flags _ _ _ Hli d ad Had ltac:(by rewrite Hk) Hte) as [Hon|[?|Hf]]; [|done|by apply Hnf in Hf].
            rewrite (q_not_ongoing d ad Had) in Hon. done.
        - subst k.
          assert (HB : unavB ad = ∅).
          { apply set_eq. intros x. split; [|set_solver]. intros Hx. exfalso.
            eapply (Hdep x KB); [by eapply (li_unavsub _ _ _ Hli d ad KB)|done|done]. }
          assert (HS : unavS ad = ∅).
          { apply set_eq. intros x. split; [|set_solver]. intros Hx. exfalso.
            eapply (Hdep x KS); [by eapply (li_unavsub _ _ _ Hli d ad KS)|done|done]. }
          destruct (to_execute ad) eqn:Hte.
          + pose proof (li_nopend _ _ _ Hli d ad Had KS Hk Hte Hne HB HS) as Hon.
            rewrite (q_not_ongoing d ad Had) in Hon. done.
          + destruct (li_flags _ _ _ Hli d ad Had ltac:(by rewrite Hk) Hte) as [Hon|[?|Hf]]; [|done|by apply Hnf in Hf].
            rewrite (q_not_ongoing d ad Had) in Hon. done.
        - apply set_eq. intros x. split; [|set_solver]. intros Hx. exfalso.
          eapply (Hdep x k); [by eapply (li_unavsub _ _ _ Hli d ad k)|done|done]. }
      split; [done|]. intros R HR.
      apply acked_consumed; [by eapply (li_ack _ _ _ Hli d ad)|by eapply requester_exists].
    Qed.

    (* the contradiction: the root cannot still be waiting *)
    Lemma root_not_waiting : False.
    Proof.
      apply q_root_waiting.
      assert (Hall : forall k r, r ∈ roots -> r ∉ r_unav s k).
      { intros k r Hin. destruct (Hroots r Hin) as [gr Hgr].
        destruct (li_dom _ _ _ Hli r (ex_intro _ _ Hgr)) as [ar Har].
        assert (Hc : consumed s ARoot k r); [|done].
        destruct (li_req _ _ _ Hli ARoot r k ar Hin Har) as [Hpend|[[Ho HR]|[Hno Hack]]].
        - exfalso. by eapply q_no_msg_to_actor.
        - destruct (all_settled (S (rank r)) r ltac:(lia) ar k Har Ho ltac:(set_solver)) as [_ Hcons]. by apply Hcons.
        - apply acked_consumed; [done|by left]. }
      split; apply set_eq; intros x; (split; [|set_solver]); intros Hx; exfalso.
      - by eapply (Hall KB x), Hx; eapply (li_rsub _ _ _ Hli KB).
      - by eapply (Hall KS x), Hx; eapply (li_rsub _ _ _ Hli KS).
    Qed.
  End quiet.

  (* C04: with the repaired handlers, for every closed acyclic graph, every requested set and every interleaving: a
     reachable state of a one-shot run in which nothing can happen any more and no script has failed is never a state in
     which the root is still waiting — zinoma never idles waiting for an acknowledgement that will not come *)
  Theorem no_lost_wakeup s :
    reachable true false g roots s -> quiescent true false s = true -> (forall t, ObFail t ∉ hist s) -> ph s <> PRun.
  Proof. intros Hr Hq Hnf Hp. by eapply (root_not_waiting s). Qed.
End live4.
