(* C10 "a termination signal is always honoured, also while many messages are in flight": whatever the queues hold, a pending signal
   can be consumed by the root as long as it has not begun to terminate, and that begins the termination of every actor. *)
From Zinoma.Proofs Require Export SysTerm.

Lemma signal_can_always_arrive fx w s : (forall st, ph s <> PExited st) -> exists s', exec fx w s LSignal = Some s' /\ sigq s' = true /\ ph s' = ph s.
Proof.
  intros Hne. cbn [exec]. destruct (ph s) as [| |st|st] eqn:Hp; try (eexists; split; [reflexivity|cbn; split; [reflexivity|done]]).
  by destruct (Hne st).
Qed.

Lemma signal_always_honoured fx w s :
  sigq s = true -> (ph s = PRun \/ ph s = PWaitTerm) ->
  exists s', exec fx w s LRootSignal = Some s' /\ ph s' = PTerminating SOk /\ termq s' = dom (actors s) /\
             inbox s' = inbox s /\ rootq s' = rootq s /\ actors s' = actors s.
Proof.
  intros Hs Hp. cbn [exec]. rewrite Hs.
  assert (H : bool_decide (ph s = PRun) || bool_decide (ph s = PWaitTerm) = true).
  { destruct Hp as [-> | ->]; [by rewrite bool_decide_eq_true_2|].
    rewrite (bool_decide_eq_true_2 (PWaitTerm = PWaitTerm)) by done. by rewrite orb_true_r. }
  rewrite H. cbn. eexists. split; [reflexivity|]. cbn. done.
Qed.

(* ... and from there the shutdown never gets stuck (shutdown_never_stuck) and completes (SysShutdownW / SysBound) *)
