(* Concrete instances used by the non-vacuity examples of Properties/C02.v C03.v C05.v C18.v. *)
From Zinoma.Model Require Import Bytes Cfg Codec Incremental.
From Zinoma.Proofs Require Import IncrementalPinned.

Definition ex_path : bytes := [47; 112; 47; 97].                  (* "/p/a" *)
Definition ex_files : files_resource := {| fr_paths := [[47; 112]]; fr_exts := None |}.
Definition ex_input : resources :=
  {| r_files := [ex_files]; r_cmds := [ {| cr_cmd := cat_val; cr_dir := dir_p |} ] |}.
Definition ex_output : resources := resources_empty.

(* one declared file /p/a with the given mtime and content; `cat val.txt` in /p prints `out` *)
Definition ex_world (mt : N) (content out : bytes) : iworld :=
  {| w_list := fun fs => match fs with [] => [] | _ => [ex_path] end;
     w_mtime := fun p => if beq p ex_path then Some {| d_secs := mt; d_nanos := 0 |} else None;
     w_read := fun p => if beq p ex_path then Some content else None;
     w_cmd := fun c d => if beq d dir_p then Some out else None |}.

Definition ex_cycle (o : script_outcome) : cycle :=
  {| cy_input := ex_input; cy_output := Some ex_output;
     cy_w0 := ex_world 5 [1] txt_a; cy_outcome := o; cy_w1 := ex_world 5 [1] txt_a |}.

(* the state file after one complete successful cycle from an absent record *)
Definition ex_disk : option bytes := c_disk (run_cycle le_value ckey_eqb true (ex_cycle ScriptSucceeded) None None).

Definition ex_skip (w : iworld) (disk : option bytes) : bool := decide_skip le_value w disk ex_input (Some ex_output).

(* the decision of the next invocation (same world) after the cycle died at step n *)
Definition ex_skip_after_crash (o : script_outcome) (n : nat) : bool :=
  ex_skip (ex_world 5 [1] txt_a) (c_disk (run_cycle le_value ckey_eqb true (ex_cycle o) (Some n) None)).

Definition ex_t (project : option bytes) (name dir : bytes) : rtarget :=
  {| rt_id := {| t_project := project; t_name := name |}; rt_dir := dir; rt_deps := []; rt_kind := TBuild; rt_script := [];
     rt_input := ex_input; rt_output := ex_output |}.

(* the encoding of the state computed in the example world (None if it cannot be computed) *)
Definition ex_state_bytes : option bytes :=
  match current_env le_value ckey_eqb (ex_world 5 [1] txt_a) ex_input (Some ex_output) with
  | CurSome e => Some (enc_env e)
  | _ => None
  end.

Definition is_some {A} (o : option A) : bool := match o with Some _ => true | None => false end.
