(* The skip decision (Model/Incremental.v): what a skip implies (C02), when a skip is guaranteed (C03), and the witnesses
   that refute both statements for the pinned code (command outputs keyed by text; record consulted without inputs). *)
From Zinoma.Model Require Import Bytes Cfg Codec Incremental.
From Zinoma.Proofs Require Import Bytes Codec CodecRoundtrip IncrementalKeys.
From Coq Require Import Lia PeanoNat.

(* ------------------------------------------------------------------------------------------------ declarative reading *)
(* the listing is a set of paths (a HashSet<PathBuf>): no two entries with equal components *)
Definition listing_ok (l : list bytes) : Prop := NoDup (map pkey l).

(* "the set of files denoted by the resources is the same as the recorded one" *)
Definition same_file_set (l : list bytes) (rec : list fentry) : Prop :=
  (forall p, In p l -> In (pkey p) (keys pkey rec)) /\ (forall k, In k (keys pkey rec) -> In k (map pkey l)).

(* "the file still has the recorded modification time or the recorded content" (content = content with the recorded hash) *)
Definition file_matches (hash : bytes -> N) (w : iworld) (rec : list fentry) (p : bytes) : Prop :=
  exists m h, alookup path_eqb p rec = Some (m, h) /\
              (w_mtime w p = Some m \/ exists m' c, w_mtime w p = Some m' /\ w_read w p = Some c /\ hash c = h).

(* "the command still prints the recorded text" *)
Definition cmd_matches (w : iworld) (rec : list centry) (c : cmd_resource) : Prop :=
  exists o, w_cmd w (cr_cmd c) (cr_dir c) = Some o /\ alookup ckey_eqb (cr_cmd c, cr_dir c) rec = Some o.

Definition res_matches (hash : bytes -> N) (w : iworld) (r : res_state) (res : resources) : Prop :=
  same_file_set (w_list w (r_files res)) (rs_fs r) /\
  (forall p, In p (w_list w (r_files res)) -> file_matches hash w (rs_fs r) p) /\
  (forall c, In c (r_cmds res) -> cmd_matches w (rs_cmd r) c).

Definition env_matches (hash : bytes -> N) (w : iworld) (e : env_state) (input : resources) (output : option resources) : Prop :=
  res_matches hash w (es_input e) input /\
  match output with
  | None => True
  | Some o => exists ro, es_output e = Some ro /\ res_matches hash w ro o
  end.

Definition worlds_ok (w : iworld) (input : resources) (output : option resources) : Prop :=
  listing_ok (w_list w (r_files input)) /\
  match output with None => True | Some o => listing_ok (w_list w (r_files o)) end.

Definition rstate_nodup (r : res_state) : Prop := NoDup (keys pkey (rs_fs r)) /\ NoDup (keys ckey (rs_cmd r)).
Definition env_nodup (e : env_state) : Prop :=
  rstate_nodup (es_input e) /\ match es_output e with None => True | Some r => rstate_nodup r end.

(* ------------------------------------------------------------------------------------------------ small facts *)
Lemma dur_eqb_eq a b : dur_eqb a b = true <-> a = b.
Proof.
  destruct a as [s n], b as [s' n']. unfold dur_eqb. cbn [d_secs d_nanos].
  rewrite andb_true_iff, !N.eqb_eq. split; [intros [-> ->]; reflexivity | intros [= -> ->]; now split].
Qed.

Lemma canon_env_nodup e : env_nodup (canon_env e).
Proof.
  destruct e as [i o]. unfold env_nodup, canon_env. cbn [es_input es_output]. split.
  - apply canon_rstate_nodup.
  - destruct o as [r|]; cbn [option_map]; [apply canon_rstate_nodup | exact I].
Qed.

Lemma decoded_nodup bs e rest : dec_env bs = Some (e, rest) -> env_nodup e.
Proof. intros H. apply dec_env_some in H as [e0 [_ ->]]. apply canon_env_nodup. Qed.

Lemma keys_length {K K' V} (key : K -> K') (m : list (K * V)) : length (keys key m) = length m.
Proof. unfold keys. apply map_length. Qed.

(* ------------------------------------------------------------------------------------------------ C02: a skip implies a match *)
Lemma eq_file_spec hash w rec p : eq_file hash w rec p = true <-> file_matches hash w rec p.
Proof.
  unfold eq_file, file_matches. destruct (alookup path_eqb p rec) as [[m h]|].
  - destruct (w_mtime w p) as [m'|].
    + rewrite orb_true_iff, dur_eqb_eq. split.
      * intros [-> | H]; [exists m, h; split; [reflexivity | now left]|].
        destruct (w_read w p) as [c|]; [|discriminate]. apply N.eqb_eq in H.
        exists m, h. split; [reflexivity|]. right. exists m', c. repeat split; assumption.
      * intros [m0 [h0 [[= <- <-] [[= ->] | [m1 [c [_ [Hr Hh]]]]]]]]; [now left|].
        right. rewrite Hr. now apply N.eqb_eq.
    + split; [discriminate|]. intros [m0 [h0 [_ [H | [m1 [c [H _]]]]]]]; discriminate.
  - split; [discriminate|]. intros [m0 [h0 [H _]]]. discriminate.
Qed.

(* cardinality + membership = equality of the two sets (pigeonhole), given that neither side repeats a key *)
Lemma eq_files_sound hash w rec fs :
  listing_ok (w_list w fs) -> NoDup (keys pkey rec) -> eq_files hash w rec fs = true ->
  same_file_set (w_list w fs) rec /\ forall p, In p (w_list w fs) -> file_matches hash w rec p.
Proof.
  unfold eq_files, listing_ok. set (l := w_list w fs). intros Hl Hr H.
  apply andb_true_iff in H as [Hlen Hall]. apply Nat.eqb_eq in Hlen. rewrite forallb_forall in Hall.
  assert (Hm : forall p, In p l -> file_matches hash w rec p) by (intros p Hp; apply eq_file_spec, Hall, Hp).
  assert (Hincl : incl (map pkey l) (keys pkey rec)).
  { intros k Hk. apply in_map_iff in Hk as [p [<- Hp]]. destruct (Hm p Hp) as [m [h [Hlk _]]].
    apply (alookup_some path_eqb pkey path_eqb_spec) in Hlk as [k' [Hin ->]].
    unfold keys. apply in_map_iff. exists (k', (m, h)). split; [reflexivity | exact Hin]. }
  split; [|exact Hm]. split.
  - intros p Hp. apply Hincl. now apply in_map.
  - apply NoDup_length_incl; [exact Hl | | exact Hincl]. rewrite keys_length, map_length.
    apply Nat.eq_le_incl. symmetry. exact Hlen.
Qed.

Lemma eq_cmd_spec w rec c : eq_cmd ckey_eqb w rec c = true <-> cmd_matches w rec c.
Proof.
  unfold eq_cmd, cmd_matches. destruct (w_cmd w (cr_cmd c) (cr_dir c)) as [o|].
  - destruct (alookup ckey_eqb (cr_cmd c, cr_dir c) rec) as [o'|].
    + rewrite beq_eq. split; [intros ->; now exists o | intros [o0 [[= <-] [= <-]]]; reflexivity].
    + split; [discriminate | intros [o0 [_ H]]; discriminate].
  - split; [discriminate | intros [o0 [H _]]; discriminate].
Qed.

Lemma eq_res_sound hash w r res :
  listing_ok (w_list w (r_files res)) -> rstate_nodup r ->
  eq_res hash ckey_eqb w r res = true -> res_matches hash w r res.
Proof.
  intros Hl [Hnd _] H. unfold eq_res in H. apply andb_true_iff in H as [Hf Hc].
  destruct (eq_files_sound _ _ _ _ Hl Hnd Hf) as [Hs Hm]. split; [exact Hs|]. split; [exact Hm|].
  intros c Hin. apply eq_cmd_spec. unfold eq_cmds in Hc. rewrite forallb_forall in Hc. now apply Hc.
Qed.

Lemma eq_env_sound hash w e input output :
  worlds_ok w input output -> env_nodup e ->
  eq_env hash ckey_eqb w e input output = true -> env_matches hash w e input output.
Proof.
  intros [Hli Hlo] [Hni Hno] H. unfold eq_env in H. apply andb_true_iff in H as [Hi Ho].
  split; [now apply eq_res_sound|]. destruct output as [o|]; [|exact I].
  destruct (es_output e) as [ro|]; [|discriminate]. exists ro. split; [reflexivity | now apply eq_res_sound].
Qed.

(* C02: the build is skipped only if a record exists, decodes, the target has inputs, and the record matches the world *)
Lemma skip_sound hash w disk input output :
  worlds_ok w input output ->
  decide_skip hash w disk input output = true ->
  exists bs e rest, disk = Some bs /\ dec_env bs = Some (e, rest) /\ resources_is_empty input = false /\
                    env_matches hash w e input output.
Proof.
  intros Hw H. unfold decide_skip, decide_skip_gen, skip_on_record, decode_disk in H. cbn [andb] in H.
  destruct (resources_is_empty input) eqn:Ei; [discriminate|].
  destruct disk as [bs|]; [|discriminate]. destruct (dec_env bs) as [[e rest]|] eqn:Ed; [|discriminate].
  exists bs, e, rest. split; [reflexivity|]. split; [exact Ed|]. split; [reflexivity|].
  apply eq_env_sound; [exact Hw | now apply (decoded_nodup bs e rest) | exact H].
Qed.

(* contrapositives named by the property: no record, an undecodable record or a target without input force the script *)
Lemma no_record_runs hash w input output : decide_skip hash w None input output = false.
Proof. unfold decide_skip, decide_skip_gen, skip_on_record, decode_disk. now destruct (true && resources_is_empty input). Qed.

Lemma undecodable_runs hash w bs input output : dec_env bs = None -> decide_skip hash w (Some bs) input output = false.
Proof.
  intros H. unfold decide_skip, decide_skip_gen, skip_on_record, decode_disk. rewrite H.
  now destruct (true && resources_is_empty input).
Qed.

Lemma no_input_runs hash w disk input output :
  resources_is_empty input = true -> decide_skip hash w disk input output = false.
Proof. intros H. unfold decide_skip, decide_skip_gen, skip_on_record. now rewrite H. Qed.

(* ------------------------------------------------------------------------------------------------ C03: unchanged => skipped *)
(* nothing among the resources `res` differs between the world w1 (at the completion) and the world w' (now) *)
Definition unchanged (hash : bytes -> N) (w1 w' : iworld) (res : resources) : Prop :=
  (forall k, In k (map pkey (w_list w1 (r_files res))) <-> In k (map pkey (w_list w' (r_files res)))) /\
  (forall p p', In p (w_list w1 (r_files res)) -> In p' (w_list w' (r_files res)) -> pkey p = pkey p' ->
     (exists m, w_mtime w1 p = Some m /\ w_mtime w' p' = Some m) \/
     (exists c c' m', w_read w1 p = Some c /\ w_read w' p' = Some c' /\ hash c = hash c' /\ w_mtime w' p' = Some m')) /\
  (forall c, In c (r_cmds res) -> w_cmd w' (cr_cmd c) (cr_dir c) = w_cmd w1 (cr_cmd c) (cr_dir c)).

(* two declared commands with the same text in the same directory print the same *)
Definition cmds_consistent (w : iworld) (cs : list cmd_resource) : Prop :=
  forall c c', In c cs -> In c' cs -> ckey (cr_cmd c, cr_dir c) = ckey (cr_cmd c', cr_dir c') ->
               w_cmd w (cr_cmd c) (cr_dir c) = w_cmd w (cr_cmd c') (cr_dir c').

Lemma all_present_in {A} (l : list (option A)) r : all_present l = Some r -> forall a, In a r <-> In (Some a) l.
Proof.
  revert r. induction l as [|[x|] l IH]; intros r H; cbn [all_present] in H; [injection H as <-; cbn; tauto | | discriminate].
  destruct (all_present l) as [r'|]; [|discriminate]. injection H as <-. intros a. cbn [In]. rewrite (IH r' eq_refl).
  split; [intros [->|H]; [now left | now right] | intros [[= ->]|H]; [now left | now right]].
Qed.

Lemma all_present_map_keys {A B K} (f : A -> option B) (ka : A -> K) (kb : B -> K) (l : list A) r :
  (forall a b, f a = Some b -> kb b = ka a) -> all_present (map f l) = Some r -> map kb r = map ka l.
Proof.
  intros Hk. revert r. induction l as [|a l IH]; intros r H; cbn [map all_present] in H; [now injection H as <-|].
  destruct (f a) as [b|] eqn:E; [|discriminate]. destruct (all_present (map f l)) as [r'|]; [|discriminate].
  injection H as <-. cbn [map]. now rewrite (Hk a b E), (IH r' eq_refl).
Qed.

Lemma current_files_keys hash w fs rec :
  current_files hash w fs = Some rec -> keys pkey rec = map pkey (w_list w fs).
Proof.
  unfold current_files, keys. apply all_present_map_keys. intros p e H. unfold file_state in H.
  destruct (w_mtime w p), (w_read w p); try discriminate. now injection H as <-.
Qed.

Lemma current_files_entry hash w fs rec p :
  current_files hash w fs = Some rec -> In p (w_list w fs) ->
  exists m c, w_mtime w p = Some m /\ w_read w p = Some c /\ In (p, (m, hash c)) rec.
Proof.
  unfold current_files. intros H Hin.
  assert (Hs : In (file_state hash w p) (map (file_state hash w) (w_list w fs))) by now apply in_map.
  unfold file_state in Hs at 1. destruct (w_mtime w p) as [m|] eqn:Em.
  - destruct (w_read w p) as [c|] eqn:Er.
    + exists m, c. repeat split. now apply (all_present_in _ _ H).
    + exfalso. clear -H Hs. revert rec H. induction (map (file_state hash w) (w_list w fs)) as [|[x|] l IH]; intros rec H.
      * destruct Hs.
      * destruct Hs as [Hs|Hs]; [discriminate|]. cbn in H. destruct (all_present l); [|discriminate]. now apply (IH Hs l0).
      * discriminate.
  - exfalso. clear -H Hs. revert rec H. induction (map (file_state hash w) (w_list w fs)) as [|[x|] l IH]; intros rec H.
    + destruct Hs.
    + destruct Hs as [Hs|Hs]; [discriminate|]. cbn in H. destruct (all_present l); [|discriminate]. now apply (IH Hs l0).
    + discriminate.
Qed.

Lemma unchanged_eq_files hash w1 w' res rec :
  listing_ok (w_list w1 (r_files res)) -> listing_ok (w_list w' (r_files res)) ->
  current_files hash w1 (r_files res) = Some rec -> unchanged hash w1 w' res ->
  eq_files hash w' rec (r_files res) = true.
Proof.
  intros Hl1 Hl' Hcur [Hset [Hfile _]]. unfold eq_files.
  pose proof (current_files_keys _ _ _ _ Hcur) as Hk.
  apply andb_true_iff. split.
  - apply Nat.eqb_eq.
    assert (Hlen : length (map pkey (w_list w' (r_files res))) = length (map pkey (w_list w1 (r_files res)))).
    { apply Nat.le_antisymm; apply NoDup_incl_length; try assumption; intros k Hin; now apply Hset. }
    rewrite !map_length in Hlen. rewrite Hlen, <- (map_length pkey (w_list w1 (r_files res))), <- Hk.
    apply keys_length.
  - apply forallb_forall. intros p' Hp'. apply eq_file_spec.
    assert (Hin1 : In (pkey p') (map pkey (w_list w1 (r_files res)))) by (apply Hset; now apply in_map).
    apply in_map_iff in Hin1 as [p [Hpk Hp]].
    destruct (current_files_entry _ _ _ _ _ Hcur Hp) as [m [c [Hm [Hr Hin]]]].
    assert (Hnd : NoDup (keys pkey rec)) by (rewrite Hk; exact Hl1).
    exists m, (hash c). split.
    + apply (alookup_in path_eqb pkey path_eqb_spec p' p); [exact Hnd | exact Hin | now symmetry].
    + destruct (Hfile p p' Hp Hp' Hpk) as [[m0 [H1 H2]] | [c0 [c' [m' [H1 [H2 [H3 H4]]]]]]].
      * left. congruence.
      * right. exists m', c'. repeat split; try assumption. congruence.
Qed.

Lemma all_present_cmds w cs l :
  all_present (map (cmd_state w) cs) = Some l ->
  forall k o, In (k, o) l <-> exists c, In c cs /\ k = (cr_cmd c, cr_dir c) /\ w_cmd w (cr_cmd c) (cr_dir c) = Some o.
Proof.
  intros H k o. rewrite (all_present_in _ _ H). rewrite in_map_iff. unfold cmd_state. split.
  - intros [c [Hc Hin]]. exists c. destruct (w_cmd w (cr_cmd c) (cr_dir c)) as [o'|]; [|discriminate].
    injection Hc as <- <-. now repeat split.
  - intros [c [Hin [-> Ho]]]. exists c. now rewrite Ho.
Qed.

Lemma unchanged_eq_cmds hash w1 w' res rec :
  cmds_consistent w1 (r_cmds res) ->
  current_cmds ckey_eqb w1 (r_cmds res) = Some rec -> unchanged hash w1 w' res ->
  eq_cmds ckey_eqb w' rec (r_cmds res) = true.
Proof.
  intros Hcons Hcur [_ [_ Hcmd]]. unfold current_cmds in Hcur.
  destruct (all_present (map (cmd_state w1) (r_cmds res))) as [l|] eqn:El; [|discriminate]. injection Hcur as <-.
  unfold eq_cmds. apply forallb_forall. intros c Hc. apply eq_cmd_spec. unfold cmd_matches.
  rewrite (Hcmd c Hc).
  (* the command ran at w1, otherwise the state could not have been computed *)
  assert (Hex : exists o, w_cmd w1 (cr_cmd c) (cr_dir c) = Some o).
  { destruct (w_cmd w1 (cr_cmd c) (cr_dir c)) as [o|] eqn:E; [now exists o|]. exfalso.
    assert (Hs : In (cmd_state w1 c) (map (cmd_state w1) (r_cmds res))) by now apply in_map.
    unfold cmd_state in Hs at 1. rewrite E in Hs. clear -El Hs.
    revert l El. induction (map (cmd_state w1) (r_cmds res)) as [|[x|] r IH]; intros l El.
    - destruct Hs.
    - destruct Hs as [Hs|Hs]; [discriminate|]. cbn in El. destruct (all_present r); [|discriminate]. now apply (IH Hs l0).
    - discriminate. }
  destruct Hex as [o Ho]. exists o. split; [exact Ho|].
  rewrite (alookup_amap_of ckey_eqb ckey ckey_eqb_spec).
  assert (Hin : In ((cr_cmd c, cr_dir c), o) l) by (apply (all_present_cmds _ _ _ El); exists c; now repeat split).
  destruct (alast_in ckey_eqb ckey ckey_eqb_spec (cr_cmd c, cr_dir c) _ _ _ Hin eq_refl) as [o' Hl].
  rewrite Hl. f_equal.
  apply (alast_some ckey_eqb ckey ckey_eqb_spec) in Hl as [k [Hink Hk]].
  apply (all_present_cmds _ _ _ El) in Hink as [c' [Hc' [-> Ho']]].
  rewrite (Hcons c c' Hc Hc' Hk) in Ho. congruence.
Qed.

Lemma unchanged_eq_res hash w1 w' res r :
  listing_ok (w_list w1 (r_files res)) -> listing_ok (w_list w' (r_files res)) -> cmds_consistent w1 (r_cmds res) ->
  current_res hash ckey_eqb w1 res = Some r -> unchanged hash w1 w' res ->
  eq_res hash ckey_eqb w' r res = true.
Proof.
  intros Hl1 Hl' Hcons Hcur Hun. unfold current_res in Hcur.
  destruct (current_files hash w1 (r_files res)) as [f|] eqn:Ef; [|discriminate].
  destruct (current_cmds ckey_eqb w1 (r_cmds res)) as [c|] eqn:Ec; [|discriminate]. injection Hcur as <-.
  unfold eq_res. cbn [rs_fs rs_cmd]. apply andb_true_iff. split.
  - now apply (unchanged_eq_files hash w1 w' res f).
  - now apply (unchanged_eq_cmds hash w1 w' res c).
Qed.

Definition unchanged_all (hash : bytes -> N) (w1 w' : iworld) (input : resources) (output : option resources) : Prop :=
  unchanged hash w1 w' input /\ match output with None => True | Some o => unchanged hash w1 w' o end.

Definition cmds_consistent_all (w : iworld) (input : resources) (output : option resources) : Prop :=
  cmds_consistent w (r_cmds input) /\ match output with None => True | Some o => cmds_consistent w (r_cmds o) end.

(* C03 on the decoded record *)
Lemma unchanged_skips_record hash w1 w' input output e :
  worlds_ok w1 input output -> worlds_ok w' input output -> cmds_consistent_all w1 input output ->
  current_env hash ckey_eqb w1 input output = CurSome e ->
  unchanged_all hash w1 w' input output ->
  skip_on_record hash ckey_eqb true w' (Some e) input output = true.
Proof.
  intros [Hl1 Hlo1] [Hl' Hlo'] [Hc Hco] Hcur [Hu Huo]. unfold current_env in Hcur. unfold skip_on_record.
  destruct (resources_is_empty input); [discriminate|]. cbn [andb].
  destruct (current_res hash ckey_eqb w1 input) as [i|] eqn:Ei; [|discriminate].
  unfold eq_env. destruct output as [o|].
  - destruct (current_res hash ckey_eqb w1 o) as [ro|] eqn:Eo; [|discriminate]. injection Hcur as <-.
    cbn [es_input es_output]. apply andb_true_iff. split.
    + now apply (unchanged_eq_res hash w1 w' input i).
    + now apply (unchanged_eq_res hash w1 w' o ro).
  - injection Hcur as <-. cbn [es_input es_output]. rewrite andb_true_r. now apply (unchanged_eq_res hash w1 w' input i).
Qed.

(* the state computed at a completion holds each key once, so it is what its encoding decodes to *)
Lemma nodup_distinct {K K' V} (keq : K -> K -> bool) (key : K -> K') (m : list (K * V)) :
  (forall a b, keq a b = true <-> key a = key b) -> NoDup (keys key m) -> distinct_keys keq m.
Proof.
  intros Hs. induction m as [|[k v] m IH]; intros Hnd; cbn [distinct_keys]; [exact I|].
  cbn [keys map fst] in Hnd. apply NoDup_cons_iff in Hnd as [Hni Hnd]. split; [|now apply IH].
  intros [k' v'] Hin. cbn [fst]. apply (keq_false keq key Hs). intros Heq. apply Hni. rewrite <- Heq.
  change (key k') with ((fun kv : K * V => key (fst kv)) (k', v')). now apply in_map.
Qed.

Lemma current_res_distinct hash w res r :
  listing_ok (w_list w (r_files res)) -> current_res hash ckey_eqb w res = Some r -> rstate_distinct r.
Proof.
  intros Hl H. unfold current_res in H.
  destruct (current_files hash w (r_files res)) as [f|] eqn:Ef; [|discriminate].
  destruct (current_cmds ckey_eqb w (r_cmds res)) as [c|] eqn:Ec; [|discriminate]. injection H as <-.
  split; cbn [rs_fs rs_cmd].
  - apply (nodup_distinct path_eqb pkey _ path_eqb_spec). rewrite (current_files_keys _ _ _ _ Ef). exact Hl.
  - unfold current_cmds in Ec. destruct (all_present _) as [l|]; [|discriminate]. injection Ec as <-.
    apply (nodup_distinct ckey_eqb ckey _ ckey_eqb_spec). apply (amap_of_nodup ckey_eqb ckey ckey_eqb_spec).
Qed.

Lemma current_env_distinct hash w input output e :
  worlds_ok w input output -> current_env hash ckey_eqb w input output = CurSome e -> env_distinct e.
Proof.
  intros [Hli Hlo] H. unfold current_env in H. destruct (resources_is_empty input); [discriminate|].
  destruct (current_res hash ckey_eqb w input) as [i|] eqn:Ei; [|discriminate].
  destruct output as [o|].
  - destruct (current_res hash ckey_eqb w o) as [ro|] eqn:Eo; [|discriminate]. injection H as <-.
    split; cbn [es_input es_output]; [now apply (current_res_distinct hash w input) | now apply (current_res_distinct hash w o)].
  - injection H as <-. split; cbn [es_input es_output]; [now apply (current_res_distinct hash w input) | exact I].
Qed.

(* C03 on the bytes of the state file: the record written in full at the completion, nothing changed since => skipped *)
Lemma unchanged_skips hash w1 w' input output e trailing :
  worlds_ok w1 input output -> worlds_ok w' input output -> cmds_consistent_all w1 input output ->
  current_env hash ckey_eqb w1 input output = CurSome e -> env_ok e ->
  unchanged_all hash w1 w' input output ->
  decide_skip hash w' (Some (enc_env e ++ trailing)) input output = true.
Proof.
  intros Hw1 Hw' Hc Hcur Hok Hun. unfold decide_skip, decide_skip_gen, decode_disk.
  rewrite dec_enc_env; [| exact Hok | now apply (current_env_distinct hash w1 input output)].
  now apply (unchanged_skips_record hash w1 w' input output e).
Qed.

Lemma nodup_map_inj {A B} (f : A -> B) (l : list A) a b :
  NoDup (map f l) -> In a l -> In b l -> f a = f b -> a = b.
Proof.
  induction l as [|x l IH]; intros Hnd Ha Hb Hf; [destruct Ha|].
  cbn [map] in Hnd. apply NoDup_cons_iff in Hnd as [Hni Hnd].
  destruct Ha as [->|Ha], Hb as [->|Hb]; try reflexivity.
  - exfalso. apply Hni. rewrite Hf. now apply in_map.
  - exfalso. apply Hni. rewrite <- Hf. now apply in_map.
  - now apply IH.
Qed.

(* an untouched world is in particular unchanged, provided the state could be computed at all *)
Lemma unchanged_refl_res hash w res r :
  listing_ok (w_list w (r_files res)) -> current_res hash ckey_eqb w res = Some r -> unchanged hash w w res.
Proof.
  intros Hl Hr. unfold current_res in Hr.
  destruct (current_files hash w (r_files res)) as [f|] eqn:Ef; [|discriminate]. split; [tauto|]. split; [|reflexivity].
  intros p p' Hp Hp' Hk. left.
  assert (p = p') as <- by (apply (nodup_map_inj pkey _ _ _ Hl Hp Hp' Hk)).
  destruct (current_files_entry _ _ _ _ _ Ef Hp) as [m [c [Hm _]]]. now exists m.
Qed.

Lemma unchanged_refl hash w input output e :
  worlds_ok w input output -> current_env hash ckey_eqb w input output = CurSome e -> unchanged_all hash w w input output.
Proof.
  intros [Hli Hlo] Hcur. unfold current_env in Hcur. destruct (resources_is_empty input); [discriminate|].
  destruct (current_res hash ckey_eqb w input) as [i|] eqn:Ei; [|discriminate].
  split; [now apply (unchanged_refl_res hash w input i)|].
  destruct output as [o|]; [|exact I].
  destruct (current_res hash ckey_eqb w o) as [ro|] eqn:Eo; [|discriminate]. now apply (unchanged_refl_res hash w o ro).
Qed.
