(* A potential for the actor step that also covers watch mode: every event pays for the step and for everything the
   step sends, including the out-of-date notices and the re-run they cause.  Message weights depend on the destination
   (an out-of-date notice to R must pay for R's own notices to its requesters and for R's re-run); the weights are
   abstract here and constructed from the graph in Weights.v. *)
From Zinoma.Proofs Require Export Potential.

Section potw.
  Context (wok winv : aid -> nat).       (* weight of an Ok / an Invalidated message, by destination *)
  Context (sok sinv : tid -> nat).       (* bounds on the sums of those weights over the requesters of a target *)

  Definition sumw (f : aid -> nat) (X : gset aid) : nat := sum_list_with f (elements X).

  Definition wreq (r : aid) : nat := 2 + wok r.
  Definition wmsgW (dest : aid) (m : msg) : nat :=
    match m with
    | MRequested _ r => wreq r
    | MOk _ _ _ => wok dest
    | MInvalidated _ _ => winv dest
    | MUnrequested _ _ => 0
    end.
  Definition woutW (o : out) : nat := match o with OMsg (ATarget R) m => wmsgW (ATarget R) m | _ => 1 end.
  Definition woutsW (os : list out) : nat := sum_list_with woutW os.

  Definition armed (id : tid) : nat := 2 + sok id.
  Definition fanW (a : astate) (k : kind) (c : nat) : nat :=
    if set_empty (reqs a k) then c * (length (a_deps a) * wreq (ATarget (a_id a))) else 0.

  Definition potW (a : astate) : nat :=
    match a_kind a with
    | ABuild => fanW a KB 2 + bnat (to_execute a) (armed (a_id a)) + bnat (ongoing a) (armed (a_id a))
    | AService => fanW a KS 2 + bnat (to_execute a) (armed (a_id a))
    | AAggregate => fanW a KB 1 + fanW a KS 1
    end.

  (* what an event is worth: a message by its weight, a change notice as an out-of-date message, a termination message 1 *)
  Definition wevW (me : aid) (e : event) : nat :=
    match e with EMsg m => wmsgW me m | EInval => winv me | ETerm => 1 | EBuildDone _ => 0 end.

  (* the static conditions on the weights, for one actor *)
  Record weights_ok (a : astate) : Prop := {
    wk_root : 1 <= wok ARoot /\ 1 <= winv ARoot;
    wk_ok : 1 + (if decide (a_kind a = AAggregate) then sok (a_id a) else 0) <= wok (ATarget (a_id a));
    wk_inv : 1 + sinv (a_id a) + armed (a_id a) <= winv (ATarget (a_id a))
  }.

  Lemma woutsW_nil : woutsW [] = 0.
  Proof. done. Qed.
  Lemma woutsW_app o1 o2 : woutsW (o1 ++ o2) = woutsW o1 + woutsW o2.
  Proof. apply sum_list_with_app. Qed.

  Lemma woutsW_requesters_ok a k k' t act :
    1 <= wok ARoot -> woutsW (send_to_requesters a k (MOk k' t act)) <= sumw wok (reqs a k).
  Proof.
    intros Hr. unfold send_to_requesters, woutsW, sumw. generalize (elements (reqs a k)).
    induction l as [|r l IH]; [done|]. cbn in *. destruct r; cbn; lia.
  Qed.
  Lemma woutsW_requesters_inval a k k' t :
    1 <= winv ARoot -> woutsW (send_to_requesters a k (MInvalidated k' t)) <= sumw winv (reqs a k).
  Proof.
    intros Hr. unfold send_to_requesters, woutsW, sumw. generalize (elements (reqs a k)).
    induction l as [|r l IH]; [done|]. cbn in *. destruct r; cbn; lia.
  Qed.
  Lemma woutsW_req_list (ds : list tid) k r :
    woutsW ((fun d => OMsg (ATarget d) (MRequested k r)) <$> ds) = length ds * wreq r.
  Proof. unfold woutsW. induction ds as [|d l IH]; [done|]. cbn in *. by rewrite IH. Qed.
  Lemma woutsW_request_deps a k : woutsW (request_deps a k) = length (a_deps a) * wreq (ATarget (a_id a)).
  Proof. apply woutsW_req_list. Qed.
  Lemma woutsW_unreq_list (ds : list tid) k r :
    woutsW ((fun d => OMsg (ATarget d) (MUnrequested k r)) <$> ds) = 0.
  Proof. unfold woutsW. induction ds as [|d l IH]; [done|]. cbn in *. by rewrite IH. Qed.
  Lemma woutsW_single_ok r k t act : 1 <= wok ARoot -> woutsW [OMsg r (MOk k t act)] <= wok r.
  Proof. intros Hr. unfold woutsW. destruct r; cbn; lia. Qed.

  Definition sums_ok (a : astate) : Prop :=
    forall k, sumw wok (reqs a k) <= sok (a_id a) /\ sumw winv (reqs a k) <= sinv (a_id a).

  Definition potB' (a : astate) : nat :=
    fanW a KB 2 + bnat (to_execute a) (armed (a_id a)) + bnat (ongoing a) (armed (a_id a)).
  Definition potS' (a : astate) : nat := fanW a KS 2 + bnat (to_execute a) (armed (a_id a)).
  Definition potA' (a : astate) : nat := fanW a KB 1 + fanW a KS 1.

  Lemma build_top_potW a a2 ob : build_top a = (a2, ob) -> potB' a2 = potB' a /\ a_id a2 = a_id a /\ (forall k, reqs a2 k = reqs a k).
  Proof.
    unfold build_top. destruct (should_execute a KB && negb (ongoing a)) eqn:Hc; intros [= <- <-]; [|done].
    apply andb_true_iff in Hc as [Hs Ho]. apply negb_true_iff in Ho.
    apply should_execute_true in Hs as (Hte & _).
    split; [|split; [done|by intros []]]. unfold potB', fanW. cbn. rewrite Hte, Ho. cbn. lia.
  Qed.

  (* notify_invalidated, for the kind the actor runs *)
  Lemma notify_invalidated_potW a k a1 o :
    notify_invalidated a k = (a1, o) -> 1 <= winv ARoot -> sumw winv (reqs a k) <= sinv (a_id a) ->
    a_id a1 = a_id a /\ (forall k', reqs a1 k' = reqs a k') /\ ongoing a1 = ongoing a /\ a_deps a1 = a_deps a /\
    bnat (to_execute a1) (armed (a_id a)) + woutsW o <= bnat (to_execute a) (armed (a_id a)) + sinv (a_id a) + armed (a_id a).
  Proof.
    intros H Hr Hs. unfold notify_invalidated in H. destruct (to_execute a) eqn:Hte; injection H as <- <-.
    - rewrite Hte, woutsW_nil. repeat split; try done. cbn. lia.
    - repeat split; try done. cbn. pose proof (woutsW_requesters_inval a k k (a_id a) Hr). lia.
  Qed.

  Definition not_unreq (e : event) : Prop := match e with EMsg (MUnrequested _ _) => False | _ => True end.

  Lemma build_handle_msg_potW a m a1 o :
    build_handle_msg true a m = (a1, o) -> not_unreq (EMsg m) -> weights_ok a -> sums_ok a -> a_kind a = ABuild ->
    potB' a1 + woutsW o + 1 <= potB' a + wmsgW (ATarget (a_id a)) m /\ a_id a1 = a_id a.
  Proof.
    intros H Hp [[Hr1 Hr2] Hwok Hwinv] Hs Hk. rewrite Hk in Hwok. rewrite decide_False in Hwok by done.
    destruct m as [k r|k r|k d act|k d]; cbn [not_unreq] in Hp; try done; cbn [build_handle_msg] in H.
    - destruct k.
      + injection H as <- <-. split; [|done]. rewrite !woutsW_app.
        destruct (decide (r ∈ reqB a)) as [Hin|Hnin].
        * rewrite (bool_decide_eq_true_2 _ Hin). cbn [negb andb]. cbn [woutsW sum_list_with].
          unfold potB', fanW. cbn. rewrite (union_old _ _ Hin). unfold wreq. lia.
        * rewrite (bool_decide_eq_false_2 _ Hnin). cbn [negb andb].
          unfold potB', fanW. cbn [reqs set_reqs reqB to_execute ongoing a_deps a_id]. rewrite set_empty_insert.
          assert (Ho2 : woutsW (if executed a then [OMsg r (MOk KB (a_id a) true)] else []) <= wok r).
          { destruct (executed a); [by apply woutsW_single_ok|cbn; lia]. }
          revert Ho2. generalize (woutsW (if executed a then [OMsg r (MOk KB (a_id a) true)] else [])). intros w2 Ho2.
          rewrite (size_insert_new _ _ Hnin). rewrite (set_empty_size (reqB a)).
          destruct (decide (size (reqB a) = 0)) as [Hz|Hnz].
          -- rewrite (bool_decide_eq_true_2 _ Hz). rewrite bool_decide_eq_true_2 by lia.
             rewrite woutsW_app, !woutsW_request_deps. cbn [a_deps a_id set_reqs wmsgW]. unfold wreq in *. lia.
          -- rewrite (bool_decide_eq_false_2 _ Hnz). rewrite bool_decide_eq_false_2 by lia. rewrite woutsW_nil.
             cbn [wmsgW]. unfold wreq. lia.
      + injection H as <- <-. split; [|done]. pose proof (woutsW_single_ok r KS (a_id a) false Hr1). cbn [wmsgW]. unfold wreq. lia.
    - injection H as <- <-. split; [|by destruct k]. rewrite woutsW_nil.
      assert (potB' (set_unav a k (unav a k ∖ {[d]})) = potB' a) as -> by (by destruct k).
      cbn [wmsgW]. lia.
    - destruct k.
      + set (a0 := set_unav a KB (unav a KB ∪ {[d]})) in *.
        assert (Hs0 : sumw winv (reqs a0 KB) <= sinv (a_id a0)) by (apply (Hs KB)).
        destruct (notify_invalidated_potW a0 KB a1 o H Hr2 Hs0) as (Hid & Hrq & Hog & Hdp & Hineq).
        split; [|exact Hid]. unfold potB', fanW in *. rewrite Hid, Hog, Hdp, (Hrq KB).
        unfold a0 in *. cbn [a_id set_unav to_execute a_deps ongoing reqs reqB] in *. cbn [wmsgW]. lia.
      + injection H as <- <-. split; [|done]. rewrite woutsW_nil. unfold potB', fanW. cbn. lia.
  Qed.

  Lemma sums_ok_same a a1 : a_id a1 = a_id a -> (forall k, reqs a1 k = reqs a k) -> sums_ok a -> sums_ok a1.
  Proof. intros Hid Hrq Hs k. rewrite Hid, Hrq. apply Hs. Qed.

  Lemma build_step_potW a e a' os ob :
    build_step true a e = Some (a', os, ob) -> not_unreq e -> weights_ok a -> sums_ok a -> a_kind a = ABuild ->
    potB' a' + woutsW os + 1 <= potB' a + wevW (ATarget (a_id a)) e.
  Proof.
    unfold build_step. destruct (exited a); [done|]. intros H Hp Hw Hs Hk.
    pose proof Hw as [[Hr1 Hr2] Hwok Hwinv].
    destruct e as [m| | |r].
    - destruct (build_handle_msg true a m) as [a1 o] eqn:Hm. destruct (build_top a1) as [a2 ob2] eqn:Ht.
      injection H as <- <- <-. destruct (build_top_potW _ _ _ Ht) as (Hpot & _). rewrite Hpot.
      by destruct (build_handle_msg_potW a m a1 o Hm Hp Hw Hs Hk).
    - destruct (notify_invalidated a KB) as [a1 o] eqn:Hn. destruct (build_top a1) as [a2 ob2] eqn:Ht. injection H as <- <- <-.
      destruct (build_top_potW _ _ _ Ht) as (Hpot & _). rewrite Hpot.
      destruct (notify_invalidated_potW a KB a1 o Hn Hr2 (proj2 (Hs KB))) as (Hid & Hrq & Hog & Hdp & Hineq).
      unfold potB', fanW in *. rewrite Hid, Hog, Hdp, (Hrq KB). cbn [wevW]. lia.
    - destruct (ongoing a) eqn:Ho; injection H as <- <- <-; unfold potB', fanW; cbn; rewrite ?Ho; cbn; lia.
    - destruct (ongoing a) eqn:Ho; [|done]. cbn [negb] in H.
      set (a0 := set_proc a false false (term_recv a) false (running a)) in *.
      assert (H0 : potB' a0 + armed (a_id a) = potB' a).
      { unfold potB', fanW, a0. cbn. rewrite Ho. cbn. lia. }
      destruct (match r with
                | RFailed => (set_flags a0 (to_execute a0) false, [OErr (a_id a)], [ObFail (a_id a)])
                | RCancelled => (a0, [], [ObCancel (a_id a)])
                | _ => let '(a1, o) := notify_success a0 KB in (a1, o, [ObSucc (a_id a)])
                end) as [[a1 o] ob1] eqn:Hr.
      assert (H1 : potB' a1 + woutsW o + 1 <= potB' a0 + armed (a_id a)).
      { clear H H0. pose proof (woutsW_requesters_ok a0 KB KB (a_id a0) true Hr1) as Hb.
        pose proof (proj1 (Hs KB)) as Hsum. change (reqs a0 KB) with (reqs a KB) in Hb. change (a_id a0) with (a_id a) in Hb.
        unfold armed. unfold a0 in *. clear a0.
        destruct r; cbn in Hr; injection Hr as <- <- _; unfold potB', fanW; cbn -[woutsW];
          destruct (to_execute a); cbn -[woutsW]; rewrite ?woutsW_nil; unfold armed in *; try lia; cbn; lia. }
      destruct (term_recv a1).
      + injection H as <- <- _.
        assert (potB' (set_proc a1 false false true true (running a1)) <= potB' a1).
        { unfold potB', fanW. cbn. destruct (ongoing a1); cbn; lia. }
        cbn [wevW]. lia.
      + destruct (build_top a1) as [a2 ob2] eqn:Ht. injection H as <- <- _.
        destruct (build_top_potW _ _ _ Ht) as (Hpot & _). rewrite Hpot. cbn [wevW]. lia.
  Qed.

  (* service *)
  Lemma service_top_potW ok a a2 o ob :
    service_top ok a = (a2, o, ob) -> 1 <= wok ARoot -> sumw wok (reqs a KS) <= sok (a_id a) ->
    potS' a2 + woutsW o <= potS' a /\ a_id a2 = a_id a.
  Proof.
    unfold service_top. intros H Hr Hsum. destruct (should_execute a KS) eqn:Hs; [|injection H as <- <- _; rewrite woutsW_nil; split; [lia|done]].
    apply should_execute_true in Hs as (Hte & _).
    destruct ok; cbn in H; injection H as <- <- _; (split; [|done]).
    - match goal with |- context [send_to_requesters ?x KS ?m] => pose proof (woutsW_requesters_ok x KS KS (a_id a) true Hr) as Hb end.
      cbn [reqs reqS set_proc set_flags] in Hb. unfold potS', fanW, armed in *. cbn -[woutsW]. rewrite Hte. cbn -[woutsW]. cbn [reqs] in Hsum. lia.
    - unfold potS', fanW, armed. cbn. rewrite Hte. cbn. lia.
  Qed.

  Lemma service_handle_msg_potW a m a1 o ob :
    service_handle_msg true a m = (a1, o, ob) -> not_unreq (EMsg m) -> weights_ok a -> sums_ok a -> a_kind a = AService ->
    potS' a1 + woutsW o + 1 <= potS' a + wmsgW (ATarget (a_id a)) m /\ a_id a1 = a_id a /\
    (forall k, reqs a1 k = reqs a k \/ exists r, m = MRequested k r /\ reqs a1 k = reqs a k ∪ {[r]}).
  Proof.
    intros H Hp [[Hr1 Hr2] Hwok Hwinv] Hs Hk. rewrite Hk in Hwok. rewrite decide_False in Hwok by done.
    destruct m as [k r|k r|k d act|k d]; cbn [not_unreq] in Hp; try done; cbn [service_handle_msg] in H.
    - destruct k.
      + injection H as <- <- _. split; [|split; [done|by left]].
        pose proof (woutsW_single_ok r KB (a_id a) false Hr1). cbn [wmsgW]. unfold wreq. lia.
      + injection H as <- <- _. split; [|split; [done|]].
        2:{ intros []; [by left|]. right. by exists r. }
        rewrite !woutsW_app.
        destruct (decide (r ∈ reqS a)) as [Hin|Hnin].
        * rewrite (bool_decide_eq_true_2 _ Hin). cbn [negb andb]. cbn [woutsW sum_list_with].
          unfold potS', fanW. cbn. rewrite (union_old _ _ Hin). unfold wreq. lia.
        * rewrite (bool_decide_eq_false_2 _ Hnin). cbn [negb andb].
          unfold potS', fanW. cbn [reqs set_reqs reqS to_execute ongoing a_deps a_id]. rewrite set_empty_insert.
          assert (Ho2 : woutsW (if executed a then [OMsg r (MOk KS (a_id a) true)] else []) <= wok r).
          { destruct (executed a); [by apply woutsW_single_ok|cbn; lia]. }
          revert Ho2. generalize (woutsW (if executed a then [OMsg r (MOk KS (a_id a) true)] else [])). intros w2 Ho2.
          rewrite (size_insert_new _ _ Hnin). rewrite (set_empty_size (reqS a)).
          destruct (decide (size (reqS a) = 0)) as [Hz|Hnz].
          -- rewrite (bool_decide_eq_true_2 _ Hz). rewrite bool_decide_eq_true_2 by lia.
             rewrite woutsW_app, !woutsW_request_deps. cbn [a_deps a_id set_reqs wmsgW]. unfold wreq in *. lia.
          -- rewrite (bool_decide_eq_false_2 _ Hnz). rewrite bool_decide_eq_false_2 by lia. rewrite woutsW_nil.
             cbn [wmsgW]. unfold wreq. lia.
    - injection H as <- <- _. split; [|split; [by destruct k|intros k0; left; by destruct k, k0]]. rewrite woutsW_nil.
      assert (potS' (set_unav a k (unav a k ∖ {[d]})) = potS' a) as -> by (by destruct k).
      cbn [wmsgW]. lia.
    - set (a0 := set_unav a k (unav a k ∪ {[d]})) in *.
      destruct (notify_invalidated a0 KS) as [a2 o2] eqn:Hn. injection H as <- <- _.
      assert (Hs0 : sumw winv (reqs a0 KS) <= sinv (a_id a0)).
      { assert (reqs a0 KS = reqs a KS) as -> by (unfold a0; by destruct k). assert (a_id a0 = a_id a) as -> by (unfold a0; by destruct k). apply (Hs KS). }
      destruct (notify_invalidated_potW a0 KS a2 o2 Hn Hr2 Hs0) as (Hid & Hrq & Hog & Hdp & Hineq).
      assert (Hid0 : a_id a0 = a_id a) by (unfold a0; by destruct k).
      split; [|split; [by rewrite Hid|]].
      2:{ intros k0. left. rewrite Hrq. unfold a0. by destruct k, k0. }
      unfold potS', fanW in *. rewrite Hid, Hdp, (Hrq KS), Hid0 in *.
      assert (reqs a0 KS = reqs a KS) as -> by (unfold a0; by destruct k).
      assert (to_execute a0 = to_execute a) as Hte0 by (unfold a0; by destruct k). rewrite Hte0 in Hineq.
      assert (a_deps a0 = a_deps a) as -> by (unfold a0; by destruct k).
      cbn [wmsgW]. lia.
  Qed.

  Lemma service_step_potW ok a e a' os ob :
    service_step true ok a e = Some (a', os, ob) -> not_unreq e -> weights_ok a -> sums_ok a -> sums_ok a' -> a_kind a = AService ->
    potS' a' + woutsW os + 1 <= potS' a + wevW (ATarget (a_id a)) e.
  Proof.
    unfold service_step. destruct (exited a); [done|]. intros H Hp Hw Hs Hs' Hk.
    pose proof Hw as [[Hr1 Hr2] Hwok Hwinv].
    destruct e as [m| | |r]; [| | |done].
    - destruct (service_handle_msg true a m) as [[a1 o] ob1] eqn:Hm. destruct (service_top ok a1) as [[a2 o2] ob2] eqn:Ht.
      injection H as <- <- _. rewrite woutsW_app.
      destruct (service_handle_msg_potW a m a1 o ob1 Hm Hp Hw Hs Hk) as (H1 & Hid1 & Hrq1).
      assert (Hsum1 : sumw wok (reqs a1 KS) <= sok (a_id a1)).
      { (* the requester set after the handler is the final one *)
        unfold service_top in Ht. destruct (should_execute a1 KS).
        - destruct ok; cbn in Ht; injection Ht as <- _ _; apply (Hs' KS).
        - injection Ht as <- _ _. apply (Hs' KS). }
      destruct (service_top_potW ok a1 a2 o2 ob2 Ht Hr1 Hsum1) as (H2 & _). cbn [wevW]. lia.
    - destruct (notify_invalidated a KS) as [a1 o] eqn:Hn. destruct (service_top ok a1) as [[a2 o2] ob2] eqn:Ht.
      injection H as <- <- _. rewrite woutsW_app.
      destruct (notify_invalidated_potW a KS a1 o Hn Hr2 (proj2 (Hs KS))) as (Hid & Hrq & Hog & Hdp & Hineq).
      assert (Hsum1 : sumw wok (reqs a1 KS) <= sok (a_id a1)) by (rewrite Hid, (Hrq KS); apply (Hs KS)).
      destruct (service_top_potW ok a1 a2 o2 ob2 Ht Hr1 Hsum1) as (H2 & _).
      unfold potS', fanW in *. rewrite Hid, Hdp, (Hrq KS) in *. cbn [wevW]. lia.
    - injection H as <- <- _. unfold potS', fanW. cbn. lia.
  Qed.

  (* aggregate *)
  Lemma aggregate_step_potW a e a' os ob :
    aggregate_step a e = Some (a', os, ob) -> not_unreq e -> weights_ok a -> sums_ok a -> sums_ok a' -> a_kind a = AAggregate ->
    potA' a' + woutsW os + 1 <= potA' a + wevW (ATarget (a_id a)) e.
  Proof.
    unfold aggregate_step. destruct (exited a); [done|]. intros H Hp [[Hr1 Hr2] Hwok Hwinv] Hs Hs' Hk.
    rewrite Hk in Hwok. rewrite decide_True in Hwok by done.
    destruct e as [m| | |r]; [|done| |done].
    2:{ injection H as <- <- _. unfold potA', fanW. cbn. lia. }
    destruct (aggregate_handle_msg a m) as [a1 o] eqn:Hm. injection H as <- <- _.
    destruct m as [k r|k r|k d act|k d]; cbn [not_unreq] in Hp; try done; cbn [aggregate_handle_msg] in Hm.
    - destruct (decide (r ∈ reqs a k)) as [Hin|Hnin].
      + rewrite (bool_decide_eq_true_2 _ Hin) in Hm. cbn [negb] in Hm. injection Hm as <- <-. rewrite woutsW_nil.
        rewrite (union_old _ _ Hin). assert (set_reqs a k (reqs a k) = a) as -> by (by destruct a, k). cbn [wevW wmsgW]. unfold wreq. lia.
      + rewrite (bool_decide_eq_false_2 _ Hnin) in Hm. cbn [negb] in Hm. injection Hm as <- <-. rewrite woutsW_app.
        assert (Hack : forall (b : bool) x, woutsW (if b then [OMsg r (MOk k (a_id a) x)] else []) <= wok r).
        { intros [] x; [by apply woutsW_single_ok|cbn; lia]. }
        specialize (Hack (set_empty (unav (set_reqs a k (reqs a k ∪ {[r]})) k)) (negb (set_empty (acts (set_reqs a k (reqs a k ∪ {[r]})) k)))).
        revert Hack. generalize (woutsW (if set_empty (unav (set_reqs a k (reqs a k ∪ {[r]})) k) then [OMsg r (MOk k (a_id a) (negb (set_empty (acts (set_reqs a k (reqs a k ∪ {[r]})) k))))] else [])).
        intros w2 Hack. rewrite reqs_set_reqs, decide_True by done.
        rewrite (size_insert_new _ _ Hnin).
        destruct k; unfold potA', fanW; cbn [reqs set_reqs reqB reqS a_deps a_id]; rewrite set_empty_insert.
        * rewrite (set_empty_size (reqB a)). destruct (decide (size (reqB a) = 0)) as [Hz|Hnz].
          -- rewrite (bool_decide_eq_true_2 _ Hz). rewrite bool_decide_eq_true_2 by lia. rewrite woutsW_request_deps.
             cbn [a_deps a_id set_reqs wevW wmsgW]. unfold wreq in *. lia.
          -- rewrite (bool_decide_eq_false_2 _ Hnz). rewrite bool_decide_eq_false_2 by lia. rewrite woutsW_nil.
             cbn [wevW wmsgW]. unfold wreq in *. lia.
        * rewrite (set_empty_size (reqS a)). destruct (decide (size (reqS a) = 0)) as [Hz|Hnz].
          -- rewrite (bool_decide_eq_true_2 _ Hz). rewrite bool_decide_eq_true_2 by lia. rewrite woutsW_request_deps.
             cbn [a_deps a_id set_reqs wevW wmsgW]. unfold wreq in *. lia.
          -- rewrite (bool_decide_eq_false_2 _ Hnz). rewrite bool_decide_eq_false_2 by lia. rewrite woutsW_nil.
             cbn [wevW wmsgW]. unfold wreq in *. lia.
    - injection Hm as <- <-.
      set (a1 := set_unav a k (unav a k ∖ {[d]})).
      set (a2 := if act then set_acts a1 k (acts a1 k ∪ {[d]}) else a1).
      assert (Hp2 : potA' a2 = potA' a) by (unfold a2, a1; destruct act, k; done).
      assert (Hr2' : reqs a2 k = reqs a k) by (unfold a2, a1; destruct act, k; done).
      rewrite Hp2.
      assert (Hb : forall (b : bool) x, woutsW (if b then send_to_requesters a2 k (MOk k (a_id a) x) else []) <= sok (a_id a)).
      { intros [] x; [|cbn; lia]. pose proof (woutsW_requesters_ok a2 k k (a_id a) x Hr1). rewrite Hr2' in H. pose proof (proj1 (Hs k)). lia. }
      specialize (Hb (bool_decide (d ∈ unav a k) && set_empty (unav a2 k)) (negb (set_empty (acts a2 k)))).
      cbn [wevW wmsgW]. lia.
    - injection Hm as <- <-.
      set (a1 := set_unav a k (unav a k ∪ {[d]})).
      assert (Hp1 : potA' a1 = potA' a) by (unfold a1; destruct k; done).
      assert (Hr1' : reqs a1 k = reqs a k) by (unfold a1; destruct k; done).
      rewrite Hp1.
      assert (Hb : forall (b : bool), woutsW (if b then send_to_requesters a1 k (MInvalidated k (a_id a)) else []) <= sinv (a_id a)).
      { intros []; [|cbn; lia]. pose proof (woutsW_requesters_inval a1 k k (a_id a) Hr2). rewrite Hr1' in H. pose proof (proj2 (Hs k)). lia. }
      specialize (Hb (negb (bool_decide (d ∈ unav a k)) && bool_decide (size (unav a1 k) = 1))).
      cbn [wevW wmsgW]. unfold armed in Hwinv. lia.
  Qed.

  Definition potWk (a : astate) : nat :=
    match a_kind a with ABuild => potB' a | AService => potS' a | AAggregate => potA' a end.

  (* every step of every actor, in every mode, pays for itself and for everything it sends *)
  Lemma actor_step_potW ok a e a' os ob :
    actor_step true ok a e = Some (a', os, ob) -> not_unreq e -> weights_ok a -> sums_ok a -> sums_ok a' ->
    potWk a' + woutsW os + 1 <= potWk a + wevW (ATarget (a_id a)) e.
  Proof.
    intros H Hp Hw Hs Hs'. destruct (step_same_id _ _ _ _ _ _ _ H) as (_ & Hk & _). unfold potWk. rewrite Hk.
    unfold actor_step in H. destruct (a_kind a) eqn:Hkind.
    - by eapply build_step_potW.
    - by eapply service_step_potW.
    - by eapply aggregate_step_potW.
  Qed.
End potw.
