(* C03, the composition over the targets of one invocation: every target of the first invocation ran its script once,
   recorded its state under its own state file, and nothing it declares changed afterwards (up to the end of the invocation
   and until the second one starts); then the second invocation skips every one of them, whatever the order, and leaves every
   state file as it is.  Stdlib style, like Proofs/IncrementalCycle.v. *)
From Zinoma.Proofs Require Import Bytes Codec CodecRoundtrip CodecWrite IncrementalKeys Incremental IncrementalCycle.
From Zinoma.Model Require Import Bytes Cfg Codec Incremental.
From Coq Require Import List Lia.
Import ListNotations.

Definition spath (t : rtarget) : bytes := checksums_path (rt_dir t) (rt_id t).

(* an invocation: the cycles of its targets, in the order in which they run *)
Fixpoint run_invocation (hash : bytes -> N) (inv : list (rtarget * cycle)) (st : state_store) : state_store :=
  match inv with
  | [] => st
  | (t, c) :: r => run_invocation hash r (cycle_on_store hash t c None st)
  end.

Lemma store_set_other st p v q : q <> p -> store_set st p v q = st q.
Proof. intros Hne. unfold store_set. destruct (beq q p) eqn:E; [|reflexivity]. apply beq_eq in E. contradiction. Qed.
Lemma store_set_same st p v : store_set st p v p = v.
Proof. unfold store_set. now rewrite beq_refl. Qed.

Lemma run_invocation_other hash inv : forall st q,
  (forall t c, In (t, c) inv -> spath t <> q) -> run_invocation hash inv st q = st q.
Proof.
  induction inv as [|[t c] r IH]; intros st q H; cbn; [reflexivity|].
  rewrite IH by (intros t' c' Hin; apply (H t' c'); now right).
  unfold cycle_on_store. apply store_set_other. intros ->. now apply (H t c (or_introl eq_refl)).
Qed.

(* with distinct state files, what an invocation leaves in the file of one of its targets is what that target's cycle left *)
Lemma run_invocation_at hash inv : forall st t c,
  NoDup (map (fun tc => spath (fst tc)) inv) -> In (t, c) inv ->
  run_invocation hash inv st (spath t) = c_disk (run_cycle hash ckey_eqb true c None (st (spath t))).
Proof.
  induction inv as [|[t0 c0] r IH]; intros st t c Hnd Hin; [contradiction|].
  cbn in Hnd. inversion Hnd as [|x l Hnot Hnd' Heq]; subst. cbn [run_invocation].
  destruct Hin as [Heq|Hin].
  - injection Heq as -> ->. rewrite run_invocation_other.
    + unfold cycle_on_store. apply store_set_same.
    + intros t' c' Hin' Hp. apply Hnot. apply in_map_iff. exists (t', c'). split; [exact Hp|exact Hin'].
  - rewrite (IH _ t c Hnd' Hin). unfold cycle_on_store at 1.
    rewrite store_set_other; [reflexivity|]. intros Hp. apply Hnot. apply in_map_iff. exists (t, c). split; [now symmetry|exact Hin].
Qed.

Section compose.
  Context (hash : bytes -> N).

  (* what the first invocation did for target t with cycle c, and what the world W of the second invocation looks like to t *)
  Definition built_and_unchanged (st0 : state_store) (W : iworld) (t : rtarget) (c : cycle) : Prop :=
    cycle_ok hash c /\ cmds_consistent_all (cy_w1 c) (cy_input c) (cy_output c) /\
    decide_skip hash (cy_w0 c) (st0 (spath t)) (cy_input c) (cy_output c) = false /\
    cy_outcome c = ScriptSucceeded /\
    (exists e, current_env hash ckey_eqb (cy_w1 c) (cy_input c) (cy_output c) = CurSome e /\ snd (wr_env e) = true) /\
    worlds_ok W (cy_input c) (cy_output c) /\
    unchanged_all hash (cy_w1 c) W (cy_input c) (cy_output c).

  (* the cycle c' of the second invocation is the same target in the world W *)
  Definition same_target_in (W : iworld) (c c' : cycle) : Prop :=
    cy_input c' = cy_input c /\ cy_output c' = cy_output c /\ cy_w0 c' = W.

  Theorem rerun_untouched_tree (inv inv2 : list (rtarget * cycle)) (st0 : state_store) (W : iworld) :
    NoDup (map (fun tc => spath (fst tc)) inv) ->
    (forall t c, In (t, c) inv -> built_and_unchanged st0 W t c) ->
    (forall t c', In (t, c') inv2 -> exists c, In (t, c) inv /\ same_target_in W c c') ->
    let st1 := run_invocation hash inv st0 in
    (* every target of the second invocation is skipped at its first step, from the store the first invocation left ... *)
    (forall t c', In (t, c') inv2 ->
       run_cycle hash ckey_eqb true c' None (st1 (spath t)) = {| c_phase := PEnd CySkipped; c_disk := st1 (spath t) |}) /\
    (* ... and the second invocation, in whatever order, leaves every state file as it is *)
    (forall q, run_invocation hash inv2 st1 q = st1 q).
  Proof.
    intros Hnd Hfirst Hsecond st1.
    assert (Hskip : forall t c', In (t, c') inv2 ->
              run_cycle hash ckey_eqb true c' None (st1 (spath t)) = {| c_phase := PEnd CySkipped; c_disk := st1 (spath t) |}).
    { intros t c' Hin. destruct (Hsecond t c' Hin) as (c & Hc & Hi & Ho & Hw).
      destruct (Hfirst t c Hc) as (Hok & Hcons & Hdec & Hout & (e & Hcur & Hwr) & HwW & Hun).
      unfold st1. rewrite (run_invocation_at hash inv st0 t c Hnd Hc).
      unfold run_cycle at 1. unfold cycle_fuel.
      rewrite <- Hw in HwW, Hun.
      apply (rerun_unchanged_skips hash c c' (st0 (spath t)) e Hok Hcons Hdec Hout Hcur Hwr Hi Ho HwW Hun). }
    split; [exact Hskip|].
    assert (Hgen : forall l st, (forall q, st q = st1 q) -> (forall t c', In (t, c') l -> In (t, c') inv2) ->
              forall q, run_invocation hash l st q = st1 q).
    { induction l as [|[t c'] r IH]; intros st Hst Hsub q; cbn; [apply Hst|].
      apply IH; [|intros t' c'' Hin'; apply Hsub; now right].
      intros q'. unfold cycle_on_store, store_set. change (checksums_path (rt_dir t) (rt_id t)) with (spath t).
      destruct (beq q' (spath t)) eqn:E; [|apply Hst].
      apply beq_eq in E. subst q'. rewrite (Hst (spath t)). rewrite (Hskip t c' (Hsub t c' (or_introl eq_refl))). reflexivity. }
    apply Hgen; [reflexivity|auto].
  Qed.
End compose.
