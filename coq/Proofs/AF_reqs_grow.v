(* Per-step fact(s) about actor_step: reqs_grow. *)
From Zinoma.Proofs Require Export ActorFacts.
Section facts.
  Context (fx ok : bool) (a : astate) (e : event) (a' : astate) (os : list out) (ob : list obs).
  Context (Hstep : actor_step fx ok a e = Some (a', os, ob)).
  Lemma step_reqs_grow k r : r ∈ reqs a' k -> r ∈ reqs a k \/ e = EMsg (MRequested k r).
  Proof using Hstep.
    clear -Hstep. intros Hin. crush_step Hstep; aproj_all; try (by left); try (left; set_solver);
      try (destruct_decide (decide (r ∈ reqs a k)); [by left|right; f_equal; f_equal; set_solver]).
  Qed.
End facts.
