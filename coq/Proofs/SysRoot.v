(* Root-side invariants: exit status names a real failure (C07), the root leaves its loop normally only when every
   requested target is acknowledged for both kinds (C04/C07/C20), exited actors hold no process (C10). *)
From Zinoma.Proofs Require Export SysC07.

Section root.
  Context (fx : bool) (g : graph) (roots : list tid).
  Notation wf := (wf g).
  Notation ready := (ready g).

  Definition status_of (p : phase) : option status :=
    match p with PTerminating st | PExited st => Some st | _ => None end.

  Record root_inv (s : sys) : Prop := {
    ro_err : forall t, err_in s t -> ObFail t ∈ hist s;
    ro_status : forall t, status_of (ph s) = Some (SErr t) -> ObFail t ∈ hist s;
    ro_ack : forall r k, r ∈ roots -> r ∉ (match k with KB => r_unavB s | KS => r_unavS s end) -> ready (hist s) k r;
    ro_sub : r_unavB s ⊆ list_to_set roots /\ r_unavS s ⊆ list_to_set roots
  }.

  Lemma root_inv_init : root_inv (init_sys g roots).
  Proof.
    split; cbn.
    - intros t Hin. unfold err_in in Hin. cbn in Hin. by apply elem_of_nil in Hin.
    - done.
    - intros r k Hr Hn. exfalso. apply Hn. destruct k; by apply elem_of_list_to_set.
    - done.
  Qed.

  Lemma root_inv_step w s s' :
    wf s -> ready_inv g s -> root_inv s -> step_inv fx w s s' -> root_inv s'.
  Proof.
    intros Hwf Hri Hro [t a e ok a' os ob Ha Hst Hact Hh Hmsg Herr _ _ _ _ _ (Hph & HuB & HuS & Hsv & _) _ _ _
                       |Hact Hib Hh _ Hrq Hrs|ts _ Hact Hib Hh Hrq _ (Hph & HuB & HuS & Hsv & _) _].
    - destruct (Hwf t a Ha) as [Hid _]. split.
      + intros x Hin. rewrite Hh. apply elem_of_app. destruct (Herr x Hin) as [Hold|Hnew].
        * left. by apply (ro_err _ Hro).
        * right. destruct (step_out_err _ _ _ _ _ _ _ Hst _ Hnew) as [_ Hf]. done.
      + intros x Hs. rewrite Hph in Hs. rewrite Hh. apply elem_of_app; left. by apply (ro_status _ Hro).
      + intros r k Hr Hn. rewrite Hh. apply ready_mono. apply (ro_ack _ Hro r k Hr). destruct k; [by rewrite <- HuB|by rewrite <- HuS].
      + rewrite HuB, HuS. apply (ro_sub _ Hro).
    - assert (Herr' : forall x, err_in s' x -> ObFail x ∈ hist s').
      { intros x Hin. rewrite Hh. apply (ro_err _ Hro). by apply Hrq. }
      assert (Hkeep : r_unavB s' = r_unavB s -> r_unavS s' = r_unavS s -> forall r k, r ∈ roots ->
                r ∉ (match k with KB => r_unavB s' | KS => r_unavS s' end) -> ready (hist s') k r).
      { intros H1 H2 r k Hr Hn. rewrite Hh. apply (ro_ack _ Hro r k Hr). destruct k; [by rewrite <- H1|by rewrite <- H2]. }
      destruct Hrs as [pre o rest Hp Hq Hq' _ Hp' (H1&H2&H3) _ _
                      |pre t rest _ Hp Hq Hq' Hp' (H1&H2&H3) _ _
                      |pre t act rest _ Hp Hq Hq' Hp' H1 H2 H3 _ _
                      |pre t act rest _ Hp Hq Hq' Hp' H1 H2 H3 _ _
                      |_ Hp HB HS Hsv0 Hp' _ (H1&H2&H3) _ _
                      |_ Hp HB HS Hsv0 Hp' _ (H1&H2&H3) _ _
                      |_ Hp' _ (H1&H2&H3) _ _
                      |_ _ Hp' _ (H1&H2&H3) _ _
                      |st Hp _ Hp' _ (H1&H2&H3) _ _].
      + split; [done| |by apply Hkeep|by rewrite H1, H2; apply (ro_sub _ Hro)].
        intros x Hs. rewrite Hp' in Hs. rewrite Hh. by apply (ro_status _ Hro).
      + split; [done| |by apply Hkeep|by rewrite H1, H2; apply (ro_sub _ Hro)].
        intros x Hs. rewrite Hp' in Hs. cbn in Hs. injection Hs as <-. rewrite Hh. apply (ro_err _ Hro).
        unfold err_in. rewrite Hq. apply elem_of_mid.
      + split; [done| | |].
        * intros x Hs. by rewrite Hp' in Hs.
        * intros r k Hr Hn. rewrite Hh. destruct k.
          -- rewrite H1 in Hn. destruct (decide (r = t)) as [->|Hne].
             ++ eapply (ri_msg _ _ Hri ARoot). cbn. rewrite Hq. apply elem_of_mid.
             ++ apply (ro_ack _ Hro r KB Hr). set_solver.
          -- rewrite H2 in Hn. by apply (ro_ack _ Hro r KS Hr).
        * rewrite H1, H2. destruct (ro_sub _ Hro). set_solver.
      + split; [done| | |].
        * intros x Hs. by rewrite Hp' in Hs.
        * intros r k Hr Hn. rewrite Hh. destruct k.
          -- rewrite H1 in Hn. by apply (ro_ack _ Hro r KB Hr).
          -- rewrite H2 in Hn. destruct (decide (r = t)) as [->|Hne].
             ++ eapply (ri_msg _ _ Hri ARoot). cbn. rewrite Hq. apply elem_of_mid.
             ++ apply (ro_ack _ Hro r KS Hr). set_solver.
        * rewrite H1, H2. destruct (ro_sub _ Hro). set_solver.
      + split; [done| |by apply Hkeep|by rewrite H1, H2; apply (ro_sub _ Hro)].
        intros x Hs. by rewrite Hp' in Hs.
      + split; [done| |by apply Hkeep|by rewrite H1, H2; apply (ro_sub _ Hro)].
        intros x Hs. by rewrite Hp' in Hs.
      + split; [done| |by apply Hkeep|by rewrite H1, H2; apply (ro_sub _ Hro)].
        intros x Hs. rewrite Hp' in Hs. rewrite Hh. by apply (ro_status _ Hro).
      + split; [done| |by apply Hkeep|by rewrite H1, H2; apply (ro_sub _ Hro)].
        intros x Hs. by rewrite Hp' in Hs.
      + split; [done| |by apply Hkeep|by rewrite H1, H2; apply (ro_sub _ Hro)].
        intros x Hs. rewrite Hp' in Hs. cbn in Hs. rewrite Hh. apply (ro_status _ Hro). by rewrite Hp.
    - split.
      + intros x Hin. rewrite Hh. apply (ro_err _ Hro). unfold err_in in *. by rewrite <- Hrq.
      + intros x Hs. rewrite Hph in Hs. rewrite Hh. by apply (ro_status _ Hro).
      + intros r k Hr Hn. rewrite Hh. apply (ro_ack _ Hro r k Hr). destruct k; [by rewrite <- HuB|by rewrite <- HuS].
      + rewrite HuB, HuS. apply (ro_sub _ Hro).
  Qed.

  Lemma root_inv_reachable w s : reachable fx w g roots s -> root_inv s.
  Proof.
    apply reachable_ind; [apply root_inv_init|]. intros s0 l s1 Hr Hro He.
    eapply root_inv_step; [by eapply wf_reachable|by eapply ready_inv_reachable|done|by eapply exec_inv].
  Qed.

  (* C07: an error status names a target whose failure is in the history *)
  Theorem status_names_failure w s t :
    reachable fx w g roots s -> status_of (ph s) = Some (SErr t) -> ObFail t ∈ hist s.
  Proof. intros Hr. apply (ro_status _ (root_inv_reachable w s Hr)). Qed.

  (* when the root has nothing left unavailable, every requested target is acknowledged for both kinds *)
  Theorem root_idle_all_ready w s :
    reachable fx w g roots s -> r_unavB s = ∅ -> r_unavS s = ∅ ->
    forall r k, r ∈ roots -> ready (hist s) k r.
  Proof.
    intros Hr HB HS r k Hin. apply (ro_ack _ (root_inv_reachable w s Hr) r k Hin).
    destruct k; [rewrite HB|rewrite HS]; set_solver.
  Qed.

  (* C07: after a failure at or below a requested target, the root can never complete normally *)
  Theorem no_normal_completion_after_failure s d r :
    reachable fx false g roots s -> ObFail d ∈ hist s -> r ∈ roots -> (r = d \/ tdep g r d) ->
    ~ (r_unavB s = ∅ /\ r_unavS s = ∅).
  Proof.
    intros Hr Hf Hin Hdep [HB HS].
    pose proof (failed_never_succeeds fx g roots s d Hr Hf) as Hns.
    pose proof (result_needs_start fx g roots false s d Hr (or_intror Hf)) as Hsd.
    pose proof (wf_reachable fx false g roots s Hr) as Hwf.
    destruct (actors s !! d) as [a|] eqn:Ha.
    - destruct (Hwf d a Ha) as [_ Hg].
      destruct (decide (a_kind a = AAggregate)) as [Hagg|Hna].
      + (* an aggregate has no failure *)
        pose proof (results_match_starts fx g roots false s d a Hr Ha) as Hb.
        assert (Hz : count_occ obs_eq_dec (hist s) (ObStart d) = 0).
        { apply count_occ_not_In. intros Hi. apply elem_of_list_In in Hi.
          apply elem_of_list_split in Hi as (h1 & h2 & Heq).
          (* a start needs a non-aggregate actor: use the start facts through blocked-free argument *)
          clear -Hr Hagg Ha Heq. revert a Ha Hagg h1 h2 Heq.
          apply (reachable_ind fx false g roots (fun s0 => forall a0, actors s0 !! d = Some a0 -> a_kind a0 = AAggregate ->
                   forall h1 h2, hist s0 <> h1 ++ ObStart d :: h2)); [|  |done].
          - intros a0 _ _ h1 h2 Heq. cbn in Heq. by destruct h1.
          - intros s0 l s1 Hr0 IH He a1 Ha1 Hk1 h1 h2 Heq.
            pose proof (wf_reachable fx false g roots s0 Hr0) as Hwf0.
            assert (Hin : ObStart d ∈ hist s1) by (rewrite Heq; apply elem_of_app; right; apply elem_of_list_here).
            destruct (exec_inv _ _ _ _ _ He) as [t0 a0 e ok a0' os ob Ha0 Hst Hact Hh _ _ _ _ _ _ _ _ _ _ _|Hact _ Hh _ _ _|ts _ Hact _ Hh _ _ _ _].
            + rewrite Hact in Ha1. rewrite Hh in Hin. apply elem_of_app in Hin as [Hin|Hin].
              * apply elem_of_list_split in Hin as (k1 & k2 & Hk). destruct (decide (d = t0)) as [->|Hne].
                -- rewrite lookup_insert in Ha1. injection Ha1 as <-.
                   destruct (step_same_id _ _ _ _ _ _ _ Hst) as (_ & Hk' & _). eapply (IH a0); [done|congruence|done].
                -- rewrite lookup_insert_ne in Ha1 by done. by eapply (IH a1).
              * destruct (step_start _ _ _ _ _ _ _ Hst _ Hin) as (Hx & _ & _ & _ & Hnagg).
                destruct (Hwf0 t0 a0 Ha0) as [Hid0 _]. rewrite Hid0 in Hx. subst t0.
                rewrite lookup_insert in Ha1. injection Ha1 as <-.
                destruct (step_same_id _ _ _ _ _ _ _ Hst) as (_ & Hk' & _). congruence.
            + rewrite Hact in Ha1. rewrite Hh in Heq. by eapply (IH a1).
            + rewrite Hact in Ha1. rewrite Hh in Heq. by eapply (IH a1). }
        apply elem_of_list_In in Hf. apply (count_occ_In obs_eq_dec) in Hf. lia.
      + eapply (blocked fx g roots false s d (a_kind a) (a_deps a) Hr Hg Hna Hns r Hdep).
        intros k. by eapply root_idle_all_ready.
    - apply elem_of_list_In in Hsd. apply (count_occ_In obs_eq_dec) in Hsd.
      rewrite (nothing_outside_graph fx g roots false s d (ObStart d) Hr Ha eq_refl) in Hsd. lia.
  Qed.
End root.
