(* Per-step fact(s) about actor_step: executed. *)
From Zinoma.Proofs Require Export ActorFacts.
Section facts.
  Context (fx ok : bool) (a : astate) (e : event) (a' : astate) (os : list out) (ob : list obs).
  Context (Hstep : actor_step fx ok a e = Some (a', os, ob)).
  Lemma step_executed : executed a' = true -> executed a = true \/ ObSucc (a_id a) ∈ ob.
  Proof using Hstep.
    clear -Hstep. intros Hex. crush_step Hstep; aproj_all; try done; try (by left); right; solve_elem.
  Qed.
  Definition flags_ok (x : astate) : Prop := executed x = true -> to_execute x = false.
  Lemma step_flags_ok : flags_ok a -> flags_ok a'.
  Proof using Hstep.
    clear -Hstep. unfold flags_ok. intros Hf Hex. crush_step Hstep; aproj_all; bool_hyps; try done; auto;
      try (destruct (to_execute a); done); try (specialize (Hf Hex); congruence).
  Qed.
End facts.
