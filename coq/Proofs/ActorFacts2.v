(* Per-step facts, part 2: what an actor may send. *)
From Zinoma.Proofs Require Export ActorFacts.

(* why an acknowledgement `Ok k self act` may be sent *)
Definition ok_just (a a' : astate) (ob : list obs) (k : kind) (act : bool) : Prop :=
  match a_kind a with
  | ABuild => match k with
              | KB => act = true /\ (ObSucc (a_id a) ∈ ob \/ executed a = true)
              | KS => act = false
              end
  | AService => match k with
               | KS => act = true /\ (ObSucc (a_id a) ∈ ob \/ executed a = true)
               | KB => act = false
               end
  | AAggregate => unav a' k = ∅ /\ act = negb (set_empty (acts a' k))
  end.

Section facts.
  Context (fx ok : bool) (a : astate) (e : event) (a' : astate) (os : list out) (ob : list obs).
  Context (Hstep : actor_step fx ok a e = Some (a', os, ob)).

  Lemma step_out_ok dest k t act :
    OMsg dest (MOk k t act) ∈ os -> t = a_id a /\ ok_just a a' ob k act.
  Proof using Hstep.
    clear -Hstep. intros Ho. crush_step Hstep; split_elem Ho; unfold ok_just; aproj;
      repeat match goal with H : a_kind _ = _ |- _ => rewrite H end; bool_hyps;
      (split; [reflexivity|]); try done;
      try (split; [reflexivity|]); try (by right); try (left; solve_elem; fail);
      aproj_all; try done; split; done.
  Qed.


  Lemma step_out_ok_dest dest k t act :
    OMsg dest (MOk k t act) ∈ os -> dest ∈ reqs a' k \/ exists k', e = EMsg (MRequested k' dest).
  Proof using Hstep.
    clear -Hstep. intros Ho. crush_step Hstep; split_elem Ho; aproj;
      try (right; eexists; reflexivity);
      left; aproj_all; first [assumption | set_solver].
  Qed.


  Lemma step_out_inval dest k t :
    OMsg dest (MInvalidated k t) ∈ os -> t = a_id a /\ invalidating e /\ dest ∈ reqs a' k.
  Proof using Hstep.
    clear -Hstep. intros Ho. unfold invalidating.
    crush_step Hstep; split_elem Ho; aproj; (split; [reflexivity|]);
      (split; [first [by left | right; eauto]|]); aproj_all; first [assumption | set_solver].
  Qed.


  Lemma step_out_err t : OErr t ∈ os -> t = a_id a /\ ObFail t ∈ ob.
  Proof using Hstep.
    clear -Hstep. intros Ho. crush_step Hstep; split_elem Ho; aproj; (split; [reflexivity|]); solve_elem.
  Qed.


  Lemma step_out_req dest k r :
    OMsg dest (MRequested k r) ∈ os -> r = ATarget (a_id a) /\ exists d, dest = ATarget d /\ d ∈ a_deps a.
  Proof using Hstep.
    clear -Hstep. intros Ho. crush_step Hstep; split_elem Ho; aproj_all; eauto.
  Qed.


  Lemma step_out_unreq dest k r :
    OMsg dest (MUnrequested k r) ∈ os -> r = ATarget (a_id a) /\ exists d, dest = ATarget d /\ d ∈ a_deps a.
  Proof using Hstep.
    clear -Hstep. intros Ho. crush_step Hstep; split_elem Ho; aproj_all; eauto.
  Qed.
End facts.
