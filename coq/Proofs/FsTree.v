(* Lemmas about Model/FsTree.v, part 1: trees, the walk and the listing (used by C15 and C12). *)
From Zinoma.Model Require Import Bytes Ext Cfg FsTree.
From Zinoma.Proofs Require Import Bytes Ext.
From Coq Require Import Lia.

(* ---------------------------------------------------------------- induction on trees *)
Fixpoint node_ind' (P : node -> Prop)
  (HF : forall c m, P (File c m))
  (HD : forall es, Forall (fun e => P (snd e)) es -> P (Dir es))
  (HL : forall tg, P (Link tg)) (n : node) {struct n} : P n :=
  match n with
  | File c m => HF c m
  | Link tg => HL tg
  | Dir es => HD es ((fix go (es : list (bytes * node)) : Forall (fun e => P (snd e)) es :=
                        match es with
                        | [] => Forall_nil _
                        | e :: r => Forall_cons e (node_ind' P HF HD HL (snd e)) (go r)
                        end) es)
  end.

(* ---------------------------------------------------------------- lookup / get *)
Lemma lookup_in es nm c : lookup es nm = Some c -> In (nm, c) es.
Proof.
  induction es as [|[n c'] r IH]; cbn [lookup]; [discriminate|].
  destruct (beq n nm) eqn:E.
  - intros [= ->]. apply beq_eq in E. subst. now left.
  - intros H. right. now apply IH.
Qed.

Lemma in_lookup es nm c :
  names_unique (map fst es) = true -> In (nm, c) es -> lookup es nm = Some c.
Proof.
  induction es as [|[n c'] r IH]; cbn [map fst names_unique lookup]; intros Hu Hin; [destruct Hin|].
  apply andb_true_iff in Hu as [Hn Hu]. destruct Hin as [[= -> ->]|Hin].
  - now rewrite beq_refl.
  - destruct (beq n nm) eqn:E.
    + apply beq_eq in E. subst n. exfalso. apply negb_true_iff in Hn.
      assert (existsb (beq nm) (map fst r) = true); [|congruence].
      apply existsb_exists. exists nm. split; [|apply beq_refl].
      apply in_map_iff. now exists (nm, c).
    + now apply IH.
Qed.

Lemma get_nil t : get t [] = Some t.
Proof. reflexivity. Qed.

Lemma get_app t q1 q2 :
  get t (q1 ++ q2) = match get t q1 with Some n => get n q2 | None => None end.
Proof.
  revert t; induction q1 as [|nm r IH]; intros t; [reflexivity|].
  cbn [app get]. destruct t as [| es |]; try reflexivity.
  destruct (lookup es nm); [apply IH | reflexivity].
Qed.

Lemma get_cons_dir es nm r : get (Dir es) (nm :: r) = match lookup es nm with Some c => get c r | None => None end.
Proof. reflexivity. Qed.

Lemma get_nondir_cons t nm r : (forall es, t <> Dir es) -> get t (nm :: r) = None.
Proof. intros H. destruct t; try reflexivity. exfalso. now apply (H entries). Qed.

Lemma kind_at_some t q k : kind_at t q = Some k <-> exists n, get t q = Some n /\ shallow n = k.
Proof.
  unfold kind_at. destruct (get t q) as [n|]; split.
  - intros [= <-]. now exists n.
  - intros [n' [[= <-] <-]]. reflexivity.
  - discriminate.
  - intros [n' [H _]]. discriminate.
Qed.

Lemma kind_at_none t q : kind_at t q = None <-> get t q = None.
Proof. unfold kind_at. destruct (get t q); split; congruence. Qed.

(* a proper extension of a location exists only below a directory *)
Lemma get_snoc t q c n :
  get t (q ++ [c]) = Some n -> exists es, get t q = Some (Dir es) /\ lookup es c = Some n.
Proof.
  rewrite get_app. destruct (get t q) as [m|]; [|discriminate].
  destruct m as [| es |]; cbn [get]; try discriminate.
  destruct (lookup es c) eqn:E; [|discriminate]. intros [= <-]. now exists es.
Qed.

Lemma kind_at_below_is_dir t q s :
  s <> [] -> kind_at t (q ++ s) <> None -> kind_at t q = Some KDir.
Proof.
  intros Hs H. unfold kind_at in *. rewrite get_app in H.
  destruct (get t q) as [m|]; [|congruence].
  destruct s as [|c s]; [congruence|]. destruct m; cbn [get] in H; try congruence. reflexivity.
Qed.

(* ---------------------------------------------------------------- well-formedness *)
Lemma wf_dir es :
  wf (Dir es) = true <->
  names_unique (map fst es) = true /\
  Forall (fun e => valid_entry_name (fst e) = true /\ wf (snd e) = true) es.
Proof.
  cbn [wf]. rewrite andb_true_iff, forallb_forall, Forall_forall. split; intros [H1 H2]; split; try assumption.
  - intros [nm c] Hin. specialize (H2 _ Hin). cbn in H2. now apply andb_true_iff in H2.
  - intros [nm c] Hin. specialize (H2 _ Hin). cbn in H2. now apply andb_true_iff.
Qed.

Lemma wf_lookup es nm c :
  wf (Dir es) = true -> lookup es nm = Some c -> valid_entry_name nm = true /\ wf c = true.
Proof.
  intros Hw Hl. apply wf_dir in Hw as [_ Hw]. apply lookup_in in Hl.
  rewrite Forall_forall in Hw. exact (Hw _ Hl).
Qed.

Lemma wf_get t q n :
  wf t = true -> get t q = Some n -> wf n = true /\ Forall (fun nm => valid_entry_name nm = true) q.
Proof.
  revert t; induction q as [|nm r IH]; intros t Hw Hg.
  - injection Hg as <-. split; [exact Hw | constructor].
  - destruct t as [| es |]; cbn [get] in Hg; try discriminate.
    destruct (lookup es nm) as [c|] eqn:El; [|discriminate].
    destruct (wf_lookup _ _ _ Hw El) as [Hv Hc]. destruct (IH _ Hc Hg) as [Hn Hr].
    split; [exact Hn | now constructor].
Qed.

Lemma valid_entry_name_facts n :
  valid_entry_name n = true -> n <> [] /\ ~ In slash n /\ n <> [dot] /\ n <> dotdot.
Proof.
  unfold valid_entry_name. rewrite !andb_true_iff, !negb_true_iff. intros [[[H1 H2] H3] H4].
  repeat split.
  - intros ->. discriminate.
  - intros Hin. assert (existsb (N.eqb slash) n = true); [|congruence].
    apply existsb_exists. exists slash. split; [exact Hin | apply N.eqb_refl].
  - intros ->. unfold dot1 in H3. now rewrite beq_refl in H3.
  - intros ->. now rewrite beq_refl in H4.
Qed.

(* ---------------------------------------------------------------- join *)
Lemma join_cases root nm :
  (root = [] /\ join root nm = nm) \/
  (exists r', root = r' ++ [slash] /\ join root nm = r' ++ slash :: nm) \/
  (root <> [] /\ join root nm = root ++ slash :: nm).
Proof.
  unfold join. destruct (rev root) as [|x r] eqn:E.
  - left. apply (f_equal (@rev N)) in E. rewrite rev_involutive in E. now subst.
  - apply (f_equal (@rev N)) in E. rewrite rev_involutive in E. cbn [rev] in E.
    destruct (N.eqb_spec x slash) as [->|Hne].
    + right; left. exists (rev r). split; [exact E|]. rewrite E, <- app_assoc. reflexivity.
    + right; right. split; [|reflexivity]. intros ->. now destruct (rev r).
Qed.

Lemma components_nil : components [] = [].
Proof. reflexivity. Qed.

Lemma components_join root nm :
  valid_entry_name nm = true -> components (join root nm) = components root ++ [nm].
Proof.
  intros Hv. destruct (valid_entry_name_facts _ Hv) as (H1 & H2 & H3 & H4).
  destruct (join_cases root nm) as [[-> ->]|[[r' [-> ->]]|[_ ->]]].
  - now rewrite (components_single nm).
  - rewrite !components_app_sep, components_nil, app_nil_r. now rewrite (components_single nm).
  - rewrite components_app_sep. now rewrite (components_single nm).
Qed.

Lemma components_joins root names :
  Forall (fun nm => valid_entry_name nm = true) names ->
  components (joins root names) = components root ++ names.
Proof.
  unfold joins. revert root; induction names as [|nm r IH]; intros root Hv; cbn [fold_left].
  - now rewrite app_nil_r.
  - inversion Hv as [|? ? Hn Hr]; subst. rewrite IH by exact Hr. rewrite components_join by exact Hn.
    now rewrite <- app_assoc.
Qed.

Lemma joins_snoc root names nm : joins root (names ++ [nm]) = join (joins root names) nm.
Proof. unfold joins. now rewrite fold_left_app. Qed.

Lemma file_name_join root nm :
  valid_entry_name nm = true -> file_name (join root nm) = Some nm.
Proof.
  intros Hv. unfold file_name. rewrite components_join by exact Hv.
  rewrite rev_app_distr. cbn [rev app].
  destruct (valid_entry_name_facts _ Hv) as (_ & _ & _ & H4).
  destruct (beq nm dotdot) eqn:E; [apply beq_eq in E; congruence | reflexivity].
Qed.

(* ---------------------------------------------------------------- the walk below an entry *)
Definition NoZinoma (names : list bytes) : Prop := Forall (fun nm => nm <> zinoma_name) names.

Lemma walk_node_dir es path :
  walk_node (Dir es) path = path :: walk_entries es path.
Proof. reflexivity. Qed.

Lemma in_walk_entries es path p :
  In p (walk_entries es path) <->
  exists nm c, In (nm, c) es /\ nm <> zinoma_name /\ In p (walk_node c (join path nm)).
Proof.
  unfold walk_entries. rewrite in_flat_map. split.
  - intros [[nm c] [Hin Hp]]. destruct (beq nm zinoma_name) eqn:E; [destruct Hp|].
    exists nm, c. repeat split; try assumption. intros ->. now rewrite beq_refl in E.
  - intros [nm [c (Hin & Hz & Hp)]]. exists (nm, c). split; [exact Hin|].
    destruct (beq nm zinoma_name) eqn:E; [apply beq_eq in E; congruence | exact Hp].
Qed.

(* every yielded path is the start path extended by the names of a physical descent through directories *)
Lemma walk_node_sound n : forall path p,
  wf n = true -> In p (walk_node n path) ->
  exists names, get n names <> None /\ NoZinoma names /\ p = joins path names.
Proof.
  induction n as [c m | es IH | tg] using node_ind'; intros path p Hw Hin.
  - destruct Hin as [<-|[]]. exists []. repeat split; [discriminate | constructor].
  - rewrite walk_node_dir in Hin. destruct Hin as [<-|Hin].
    + exists []. repeat split; [discriminate | constructor].
    + apply in_walk_entries in Hin as [nm [c (Hin & Hz & Hp)]].
      rewrite Forall_forall in IH.
      pose proof (proj1 (wf_dir es) Hw) as [Hu Hall]. rewrite Forall_forall in Hall.
      destruct (Hall _ Hin) as [_ Hwc]. cbn [snd] in Hwc.
      destruct (IH _ Hin _ _ Hwc Hp) as [names (Hg & Hnz & ->)].
      exists (nm :: names). cbn [get]. rewrite (in_lookup _ _ _ Hu Hin). repeat split.
      * exact Hg.
      * now constructor.
  - destruct Hin as [<-|[]]. exists []. repeat split; [discriminate | constructor].
Qed.

Lemma walk_node_complete names : forall n path,
  get n names <> None -> NoZinoma names -> In (joins path names) (walk_node n path).
Proof.
  induction names as [|nm r IH]; intros n path Hg Hz.
  - destruct n; now left.
  - destruct n as [| es |]; cbn [get] in Hg; try congruence.
    destruct (lookup es nm) as [c|] eqn:El; [|congruence].
    inversion Hz as [|? ? Hnm Hr]; subst.
    rewrite walk_node_dir. right. apply in_walk_entries. exists nm, c.
    repeat split; [now apply lookup_in | exact Hnm |]. apply (IH c (join path nm) Hg Hr).
Qed.

Lemma walk_node_spec n path p :
  wf n = true ->
  (In p (walk_node n path) <->
   exists names, get n names <> None /\ NoZinoma names /\ p = joins path names).
Proof.
  intros Hw. split; [now apply walk_node_sound|].
  intros [names (Hg & Hz & ->)]. now apply walk_node_complete.
Qed.

Lemma walk_entries_spec es path p :
  wf (Dir es) = true ->
  (In p (walk_entries es path) <->
   exists names, names <> [] /\ get (Dir es) names <> None /\ NoZinoma names /\ p = joins path names).
Proof.
  intros Hw. pose proof (walk_node_spec (Dir es) path p Hw) as H. rewrite walk_node_dir in H. split.
  - intros Hin. destruct (proj1 H (or_intror Hin)) as [names (Hg & Hz & ->)].
    destruct names as [|nm r].
    + (* the path of the directory itself is not among its entries' paths: recover a non-empty descent *)
      apply in_walk_entries in Hin as [nm [c (Hin & Hnz & Hp)]].
      pose proof (proj1 (wf_dir es) Hw) as [Hu Hall]. rewrite Forall_forall in Hall.
      destruct (Hall _ Hin) as [_ Hwc]. cbn [snd] in Hwc.
      destruct (walk_node_sound _ _ _ Hwc Hp) as [names (Hg' & Hz' & Hj)].
      exists (nm :: names). cbn [get]. rewrite (in_lookup _ _ _ Hu Hin).
      repeat split; [discriminate | exact Hg' | now constructor | exact Hj].
    + exists (nm :: r). repeat split; [discriminate | exact Hg | exact Hz].
  - intros [names (Hne & Hg & Hz & ->)]. destruct names as [|nm r]; [congruence|].
    cbn [get] in Hg. destruct (lookup es nm) as [c|] eqn:El; [|congruence].
    inversion Hz as [|? ? Hnm Hr]; subst. apply in_walk_entries. exists nm, c.
    repeat split; [now apply lookup_in | exact Hnm |]. exact (walk_node_complete r c (join path nm) Hg Hr).
Qed.

(* ---------------------------------------------------------------- stat / lstat *)
Lemma stat_gen_kind t p f q k : stat_gen t p f = Some (q, k) -> kind_at t q = Some k.
Proof.
  unfold stat_gen. destruct (resolve t p f) as [q'| |]; try discriminate.
  destruct (kind_at t q') as [k'|] eqn:E; [|discriminate]. now intros [= <- <-].
Qed.

Lemma stat_gen_resolve t p f q k : stat_gen t p f = Some (q, k) -> resolve t p f = RFound q.
Proof.
  unfold stat_gen. destruct (resolve t p f) as [q'| |]; try discriminate.
  destruct (kind_at t q'); [|discriminate]. now intros [= <- _].
Qed.

Lemma is_file_exists t p : is_file t p = true -> exists_ t p = true.
Proof. unfold is_file, exists_. destruct (stat t p) as [[q k]|]; [reflexivity | discriminate]. Qed.

Lemma is_dir_exists t p : is_dir t p = true -> exists_ t p = true.
Proof. unfold is_dir, exists_. destruct (stat t p) as [[q k]|]; [reflexivity | discriminate]. Qed.

(* ---------------------------------------------------------------- the walk from a declared path *)
(* p is yielded by the walk of `root`: the root entry itself, or an entry found by descending through real
   directories from the directory the root denotes (the root alone may be a symlink), no name being ".zinoma". *)
Definition Reached (t : node) (root p : bytes) : Prop :=
  exists q k, lstat t root = Some (q, k) /\
    ((p = root /\ root_is_work_dir root = false) \/
     (exists qd names,
        names <> [] /\
        ((k = KDir /\ qd = q /\ root_is_work_dir root = false) \/
         ((exists tg, k = KLink tg) /\ stat t root = Some (qd, KDir))) /\
        get t (qd ++ names) <> None /\ NoZinoma names /\ p = joins root names)).

Lemma get_dir_of_kind t q : kind_at t q = Some KDir -> exists es, get t q = Some (Dir es).
Proof.
  intros H. apply kind_at_some in H as [n [Hg Hs]]. destruct n; try discriminate. now exists entries.
Qed.

Lemma walk_spec t root p :
  wf t = true -> (In p (walk t root) <-> Reached t root p).
Proof.
  intros Hw. unfold walk, Reached. destruct (lstat t root) as [[q k]|] eqn:El.
  2:{ split; [intros [] | intros [q [k [H _]]]; discriminate]. }
  pose proof (stat_gen_kind _ _ _ _ _ El) as Hk.
  destruct k as [c m | | tg].
  - (* a regular file *)
    destruct (root_is_work_dir root) eqn:Ez.
    + split; [intros [] |]. intros [q' [k' [[= <- <-] [[_ H]|[qd [names (_ & [(H & _)|[[tg H] _]] & _)]]]]]]; discriminate.
    + split.
      * intros [<-|[]]. exists q, (KFile c m). split; [reflexivity|]. now left.
      * intros [q' [k' [[= <- <-] [[-> _]|[qd [names (_ & [(H & _)|[[tg H] _]] & _)]]]]]]; try discriminate. now left.
  - (* a directory *)
    destruct (get_dir_of_kind _ _ Hk) as [es Hes].
    destruct (wf_get _ _ _ Hw Hes) as [Hwes _].
    destruct (root_is_work_dir root) eqn:Ez.
    + split; [intros [] |].
      intros [q' [k' [[= <- <-] [[_ H]|[qd [names (_ & [(_ & _ & H)|[[tg H] _]] & _)]]]]]]; discriminate.
    + rewrite Hes, walk_node_dir. split.
      * intros [<-|Hin].
        -- exists q, KDir. split; [reflexivity|]. now left.
        -- apply (walk_entries_spec _ _ _ Hwes) in Hin as [names (Hne & Hg & Hz & ->)].
           exists q, KDir. split; [reflexivity|]. right. exists q, names. repeat split; try assumption.
           ++ left. now repeat split.
           ++ now rewrite get_app, Hes.
      * intros [q' [k' [[= <- <-] [[-> _]|[qd [names (Hne & [(_ & -> & _)|[[tg H] _]] & Hg & Hz & ->)]]]]]];
          try discriminate; [now left|].
        right. apply (walk_entries_spec _ _ _ Hwes). exists names. repeat split; try assumption.
        now rewrite get_app, Hes in Hg.
  - (* a symlink: the root entry itself, then - if it leads to a directory - that directory's entries *)
    split.
    + intros Hin. apply in_app_or in Hin as [Hin|Hin].
      * destruct (root_is_work_dir root) eqn:Ez; [destruct Hin|]. destruct Hin as [<-|[]].
        exists q, (KLink tg). split; [reflexivity|]. now left.
      * destruct (stat t root) as [[qd kd]|] eqn:Es; [|destruct Hin].
        destruct kd; try destruct Hin.
        pose proof (stat_gen_kind _ _ _ _ _ Es) as Hkd.
        destruct (get_dir_of_kind _ _ Hkd) as [es Hes]. rewrite Hes in Hin.
        destruct (wf_get _ _ _ Hw Hes) as [Hwes _].
        apply (walk_entries_spec _ _ _ Hwes) in Hin as [names (Hne & Hg & Hz & ->)].
        exists q, (KLink tg). split; [reflexivity|]. right. exists qd, names. repeat split; try assumption.
        -- right. split; [now exists tg | reflexivity].
        -- now rewrite get_app, Hes.
    + intros [q' [k' [[= <- <-] [[-> Hz]|[qd [names (Hne & [(H & _)|[_ Hs]] & Hg & Hz & ->)]]]]]]; try discriminate.
      * apply in_or_app. left. rewrite Hz. now left.
      * apply in_or_app. right. rewrite Hs.
        pose proof (stat_gen_kind _ _ _ _ _ Hs) as Hkd.
        destruct (get_dir_of_kind _ _ Hkd) as [es Hes]. rewrite Hes.
        destruct (wf_get _ _ _ Hw Hes) as [Hwes _].
        apply (walk_entries_spec _ _ _ Hwes). exists names. repeat split; try assumption.
        now rewrite get_app, Hes in Hg.
Qed.

(* ---------------------------------------------------------------- listing = filter of the walk *)
Lemma in_listing_path t exts root p :
  In p (listing_path t exts root) <->
  In p (walk t root) /\ is_file t p = true /\ matches_extensions exts p = true.
Proof. unfold listing_path. rewrite filter_In, andb_true_iff. tauto. Qed.

Lemma in_listing t r p :
  In p (listing t r) <->
  exists root, In root (fr_paths r) /\ In p (walk t root) /\ is_file t p = true
               /\ matches_extensions (fr_exts r) p = true.
Proof.
  unfold listing, listing_paths. rewrite in_flat_map.
  split; intros [root [Hr Hp]]; exists root; (split; [exact Hr|]); now apply in_listing_path.
Qed.

Lemma listing_spec t r p :
  wf t = true ->
  (In p (listing t r) <->
   exists root, In root (fr_paths r) /\ Reached t root p /\ is_file t p = true
                /\ matches_extensions (fr_exts r) p = true).
Proof.
  intros Hw. rewrite in_listing.
  split; intros [root (Hr & Hwk & Hf & Hm)]; exists root; repeat split; try assumption; now apply (walk_spec t root p Hw).
Qed.

(* ---------------------------------------------------------------- path resolution: unfolding *)
Lemma resolve_comps_nil n t cur f : resolve_comps n t cur [] f = RFound cur.
Proof. destruct n; reflexivity. Qed.

Lemma resolve_comps_cons n t cur c rest f :
  resolve_comps n t cur (c :: rest) f =
  if beq c dot1 then resolve_comps n t cur rest f
  else if beq c dotdot then resolve_comps n t (removelast cur) rest f
  else match kind_at t (cur ++ [c]) with
       | None => RNoEnt
       | Some KDir => resolve_comps n t (cur ++ [c]) rest f
       | Some (KFile _ _) => if is_nil rest then RFound (cur ++ [c]) else RFail
       | Some (KLink tgt) =>
           if is_nil rest && negb f then RFound (cur ++ [c])
           else if is_nil tgt then RNoEnt
           else match n with
                | O => RFail
                | S l => resolve_comps l t (if starts_with tgt [slash] then [] else cur) (path_comps tgt ++ rest) f
                end
       end.
Proof. destruct n; reflexivity. Qed.

(* a resolution that stops on something that is not a symlink is the same with and without following *)
Lemma resolve_comps_nonlink t : forall n cs cur q,
  resolve_comps n t cur cs false = RFound q -> (forall tg, kind_at t q <> Some (KLink tg)) ->
  resolve_comps n t cur cs true = RFound q.
Proof.
  induction n as [|n IHn].
  - induction cs as [|c rest IH]; intros cur q; [now rewrite !resolve_comps_nil|].
    rewrite !resolve_comps_cons.
    destruct (beq c dot1); [apply IH|]. destruct (beq c dotdot); [apply IH|].
    destruct (kind_at t (cur ++ [c])) as [[cc m| |tg]|] eqn:E; [tauto | apply IH | | discriminate].
    rewrite andb_false_r, andb_true_r. destruct (is_nil rest).
    + intros [= <-] H. exfalso. now apply (H tg).
    + destruct (is_nil tg); discriminate.
  - induction cs as [|c rest IH]; intros cur q; [now rewrite !resolve_comps_nil|].
    rewrite !resolve_comps_cons.
    destruct (beq c dot1); [apply IH|]. destruct (beq c dotdot); [apply IH|].
    destruct (kind_at t (cur ++ [c])) as [[cc m| |tg]|] eqn:E; [tauto | apply IH | | discriminate].
    rewrite andb_false_r, andb_true_r. destruct (is_nil rest).
    + intros [= <-] H. exfalso. now apply (H tg).
    + destruct (is_nil tg); [discriminate|]. apply IHn.
Qed.

Lemma lstat_nonlink_stat t p q k :
  lstat t p = Some (q, k) -> (forall tg, k <> KLink tg) -> stat t p = Some (q, k).
Proof.
  intros Hl Hk. pose proof (stat_gen_kind _ _ _ _ _ Hl) as Hkq. pose proof (stat_gen_resolve _ _ _ _ _ Hl) as Hr.
  unfold stat, stat_gen, resolve in *. destruct (is_nil p); [discriminate|].
  rewrite (resolve_comps_nonlink t _ _ _ _ Hr), Hkq; [reflexivity|].
  intros tg H. rewrite Hkq in H. injection H as ->. now apply (Hk tg).
Qed.

(* ---------------------------------------------------------------- missing paths contribute nothing *)
Lemma listing_path_missing t exts root : exists_ t root = false -> listing_path t exts root = [].
Proof.
  intros Hx. unfold listing_path, walk. destruct (lstat t root) as [[q k]|] eqn:El; [|reflexivity].
  assert (Hs : stat t root = None) by (unfold exists_ in Hx; destruct (stat t root); [discriminate | reflexivity]).
  destruct k as [c m| |tg].
  - rewrite (lstat_nonlink_stat _ _ _ _ El) in Hs; [discriminate | intros tg; discriminate].
  - rewrite (lstat_nonlink_stat _ _ _ _ El) in Hs; [discriminate | intros tg; discriminate].
  - rewrite Hs, app_nil_r. destruct (root_is_work_dir root); [reflexivity|]. cbn [filter].
    unfold is_file. now rewrite Hs.
Qed.

Lemma listing_missing_path t exts paths root :
  exists_ t root = false ->
  forall p, In p (listing_paths t exts (paths ++ [root])) <-> In p (listing_paths t exts paths).
Proof.
  intros Hx p. unfold listing_paths. rewrite flat_map_app. cbn [flat_map].
  rewrite (listing_path_missing _ _ _ Hx), !app_nil_r. tauto.
Qed.

(* ---------------------------------------------------------------- the set: PathBuf equality is by components *)
Lemma lbeq_eq a b : lbeq a b = true <-> a = b.
Proof.
  revert b; induction a as [|x a IH]; intros [|y b]; cbn [lbeq]; split; intro H; try reflexivity; try discriminate.
  - apply andb_true_iff in H as [H1 H2]. apply beq_eq in H1. apply IH in H2. congruence.
  - injection H as -> ->. rewrite beq_refl. cbn. now apply IH.
Qed.

Lemma key_eqb_eq a b : key_eqb a b = true <-> a = b.
Proof.
  destruct a as [a1 a2], b as [b1 b2]. unfold key_eqb. cbn [fst snd].
  rewrite andb_true_iff, Bool.eqb_true_iff, lbeq_eq. split; [intros [-> ->]; reflexivity | intros [= -> ->]; now split].
Qed.

Lemma existsb_key k seen : existsb (key_eqb k) seen = true <-> In k seen.
Proof.
  rewrite existsb_exists. split.
  - intros [x [Hin Hx]]. apply key_eqb_eq in Hx. now subst.
  - intros H. exists k. split; [exact H | now apply key_eqb_eq].
Qed.

Lemma in_dedup_paths l : forall seen p, In p (dedup_paths seen l) -> In p l /\ ~ In (path_key p) seen.
Proof.
  induction l as [|x r IH]; intros seen p; cbn [dedup_paths]; [tauto|].
  destruct (existsb (key_eqb (path_key x)) seen) eqn:E.
  - intros H. destruct (IH seen p H) as [H1 H2]. split; [now right | exact H2].
  - intros [<-|H].
    + split; [now left|]. intros Hin. apply existsb_key in Hin. congruence.
    + destruct (IH _ _ H) as [H1 H2]. split; [now right|]. intros Hin. apply H2. now right.
Qed.

Lemma dedup_paths_nodup l : forall seen, NoDup (map path_key (dedup_paths seen l)).
Proof.
  induction l as [|x r IH]; intros seen; cbn [dedup_paths]; [constructor|].
  destruct (existsb (key_eqb (path_key x)) seen); [apply IH|].
  cbn [map]. constructor; [|apply IH]. intros Hin. apply in_map_iff in Hin as [p [Hk Hp]].
  apply in_dedup_paths in Hp as [_ Hp]. apply Hp. rewrite Hk. now left.
Qed.

Lemma dedup_paths_complete l : forall seen p,
  In p l -> ~ In (path_key p) seen -> exists p', In p' (dedup_paths seen l) /\ path_key p' = path_key p.
Proof.
  induction l as [|x r IH]; intros seen p; cbn [dedup_paths]; [intros []|].
  intros [->|Hin] Hk.
  - destruct (existsb (key_eqb (path_key p)) seen) eqn:E; [apply existsb_key in E; contradiction|].
    exists p. split; [now left | reflexivity].
  - destruct (existsb (key_eqb (path_key x)) seen) eqn:E; [now apply IH|].
    destruct (key_eqb (path_key x) (path_key p)) eqn:Exp.
    + apply key_eqb_eq in Exp. exists x. split; [now left | exact Exp].
    + destruct (IH (path_key x :: seen) p Hin) as [p' [H1 H2]].
      * intros [H|H]; [|contradiction]. rewrite H in Exp.
        assert (key_eqb (path_key p) (path_key p) = true) by now apply key_eqb_eq. congruence.
      * exists p'. split; [now right | exact H2].
Qed.

Lemma listing_set_sound t r p : In p (listing_set t r) -> In p (listing t r).
Proof. intros H. now apply in_dedup_paths in H. Qed.

Lemma listing_set_complete t r p :
  In p (listing t r) -> exists p', In p' (listing_set t r) /\ path_key p' = path_key p.
Proof. intros H. apply dedup_paths_complete; [exact H | intros []]. Qed.

Lemma listing_set_nodup t r : NoDup (map path_key (listing_set t r)).
Proof. apply dedup_paths_nodup. Qed.

(* ---------------------------------------------------------------- the watcher accepts every listed path *)
Lemma NoZinoma_existsb names : NoZinoma names -> existsb (beq zinoma_name) names = false.
Proof.
  induction 1 as [|nm r Hn Hr IH]; [reflexivity|]. cbn [existsb]. rewrite IH, orb_false_r.
  destruct (beq zinoma_name nm) eqn:E; [|reflexivity]. apply beq_eq in E. congruence.
Qed.

Lemma Forall_app_r {A} (P : A -> Prop) a b : Forall P (a ++ b) -> Forall P b.
Proof. intros H. apply Forall_forall. intros x Hx. rewrite Forall_forall in H. apply H, in_or_app. now right. Qed.

Lemma reached_not_in_work_dir t root p :
  wf t = true -> Reached t root p -> in_work_dir root = false -> in_work_dir p = false.
Proof.
  intros Hw [q [k [Hl H]]] Hr. destruct H as [[-> _]|[qd [names (Hne & Hb & Hg & Hz & ->)]]]; [exact Hr|].
  destruct (get t (qd ++ names)) as [n|] eqn:Eg; [|congruence].
  destruct (wf_get _ _ _ Hw Eg) as [_ Hv]. apply Forall_app_r in Hv.
  unfold in_work_dir in *. rewrite (components_joins _ _ Hv), existsb_app, Hr. now apply NoZinoma_existsb.
Qed.

Lemma listed_path_watched t r p :
  wf t = true -> In p (listing t r) ->
  (forall root, In root (fr_paths r) -> in_work_dir root = false) ->
  tmp_editor_path p = false ->
  watch_filter (fr_exts r) p = true.
Proof.
  intros Hw Hin Hroots Htmp. apply (listing_spec t r p Hw) in Hin as [root (Hr & Hre & Hf & Hm)].
  unfold watch_filter. rewrite Htmp, Hm, (reached_not_in_work_dir t root p Hw Hre (Hroots root Hr)). reflexivity.
Qed.

(* entries below the declared path: the extension filter looks at the last name of the descent *)
Lemma reached_below_file_name t root names p n :
  wf t = true -> get t n <> None -> (exists qd, n = qd ++ names) -> names <> [] -> p = joins root names ->
  file_name p = Some (last names []).
Proof.
  intros Hw Hg [qd ->] Hne ->. destruct (get t (qd ++ names)) as [nd|] eqn:Eg; [|congruence].
  destruct (wf_get _ _ _ Hw Eg) as [_ Hv]. apply Forall_app_r in Hv.
  destruct (exists_last Hne) as [ns [nm ->]]. rewrite joins_snoc, last_last.
  apply file_name_join. rewrite Forall_forall in Hv. apply Hv, in_or_app. right. now left.
Qed.
