(* Watch mode, part 2: the invariant holds in every reachable state inside the root loop; a state in which nothing can
   happen any more and no target is in the failed state is one in which every requested target is up to date. *)
From Zinoma.Proofs Require Export SysWatchLive SysLive4 SysBound.

Section wlive2.
  Context (g : graph) (roots : list tid) (w : bool).
  Context (rank : tid -> nat).
  Context (Hclosed : forall t k deps d, g !! t = Some (k, deps) -> d ∈ deps -> is_Some (g !! d)).
  Context (Hrank : forall t k deps d, g !! t = Some (k, deps) -> d ∈ deps -> rank d < rank t).
  Notation wf := (SysInv.wf g).

  Lemma init_inb_requests R m : m ∈ inb (init_inbox roots) R -> exists k, m = MRequested k ARoot.
  Proof.
    unfold inb. destruct (init_inbox roots !! R) as [l|] eqn:E; cbn; [|by intros ?%elem_of_nil].
    intros Hm. by destruct (init_inbox_msgs roots R l m E Hm) as [_ ?].
  Qed.

  Lemma winv_init : winv g (init_sys g roots).
  Proof.
    split; cbn [actors inbox termq init_sys].
    - intros t [[k deps] Hg]. rewrite map_lookup_imap. unfold graph in *. rewrite Hg. cbn. eauto.
    - intros t a Ha. apply (init_actor_lookup g roots) in Ha as (k & deps & _ & ->). by repeat split.
    - done.
    - intros t a Ha. apply (init_actor_lookup g roots) in Ha as (k & deps & _ & ->). split; [done|]. done.
    - intros R aR d ad k HR _ _ Hf. apply (init_actor_lookup g roots) in HR as (kk & deps & _ & ->).
      exfalso. unfold fanned in Hf. cbn in Hf. destruct kk, k; done.
    - intros R aR d ad k _ Hd _ Hreq. apply (init_actor_lookup g roots) in Hd as (kk & deps & _ & ->).
      destruct k; cbn in Hreq; set_solver.
    - intros R aR d ad k HR _ Hdep _ _. apply (init_actor_lookup g roots) in HR as (kk & deps & _ & ->). split.
      + apply lastw_none. intros m Hm. destruct (init_inb_requests R m Hm) as [k0 ->]. done.
      + cbn in Hdep. destruct k; cbn; by apply elem_of_list_to_set.
    - intros d ad Had. apply (init_actor_lookup g roots) in Had as (kk & deps & _ & ->).
      intros k _ _ Hr. destruct k; cbn in Hr; done.
    - intros d ad k x Had Hx. apply (init_actor_lookup g roots) in Had as (kk & deps & _ & ->).
      destruct k; cbn in *; by apply elem_of_list_to_set in Hx.
    - intros R aR k x _ Hm. destruct (init_inb_requests R _ Hm) as [k0 Heq]. done.
  Qed.

  Lemma winv_ext s s' :
    actors s' = actors s -> inbox s' = inbox s -> termq s' = termq s -> winv g s -> winv g s'.
  Proof.
    intros Ha Hi Ht [H1 H2 H3 H4 H5 H6 H7 H8 H9 H10].
    split; unfold view in *; rewrite ?Ha, ?Hi, ?Ht; assumption.
  Qed.

  Lemma winv_reachable s : reachable true w g roots s -> ph s = PRun -> winv g s.
  Proof.
    revert s. apply (reachable_ind true w g roots (fun s => ph s = PRun -> winv g s)).
    - intros _. apply winv_init.
    - intros s0 l s1 Hr IH He Hp1.
      pose proof (reachable_step true g roots w s0 l s1 Hr He) as Hr1.
      destruct (exec_fifo _ _ _ _ _ He) as [t a e ok a' os ob pre rest Ha Hst Hact Hhead Hib Hph Htq Hterm _|Hact Hib Hpt _].
      + rewrite Hph in Hp1. specialize (IH Hp1).
        eapply (winv_actor_step g roots rank Hrank s0 s1 t a e ok a' os ob pre rest); try done.
        * by eapply wf_reachable.
        * by eapply wf_reachable.
        * by eapply talk_inv_reachable.
        * by eapply no_unreq_reachable.
      + destruct (Hpt Hp1) as [Hp0 Htq]. apply (winv_ext s0 s1 Hact Hib Htq). by apply IH.
  Qed.

  (* no target is in the failed state: a build or service that has cleared its to-execute flag is running or has succeeded *)
  Definition none_failed (s : sys) : Prop :=
    forall t a, actors s !! t = Some a -> a_kind a <> AAggregate -> to_execute a = false -> ongoing a = true \/ executed a = true.

  Section quiet.
    Context (s : sys).
    Context (Hr : reachable true w g roots s) (Hp : ph s = PRun).
    Context (Hq : quiescent true w s = true) (Hnf : none_failed s).

    Let Hwi := winv_reachable s Hr Hp.
    Let Hwf := wf_reachable true w g roots s Hr.

    Lemma wq_inbox_empty t a : actors s !! t = Some a -> inb (inbox s) t = [].
    Proof.
      intros Ha. unfold inb. destruct (inbox s !! t) as [[|m rest]|] eqn:Hl; try done. exfalso.
      pose proof (quiescent_spec _ _ _ (LDeliver t true) Hq (cand_deliver s t a Ha)) as He.
      cbn in He. rewrite Ha, Hl in He.
      destruct (wi_calm _ _ Hwi t a Ha) as (Hex & _).
      destruct (apply_step_some s t (<[t:=rest]> (inbox s)) (slot s) (termq s) _ (actor_step_msg_some true true a m Hex)) as [x Hx].
      by rewrite Hx in He.
    Qed.

    Lemma wq_not_ongoing t a : actors s !! t = Some a -> ongoing a = false.
    Proof.
      intros Ha. destruct (ongoing a) eqn:Ho; [|done]. exfalso.
      pose proof (quiescent_spec _ _ _ (LBuildDone t RCompleted) Hq (cand_done s t a Ha)) as He.
      cbn in He. rewrite Ha in He.
      destruct (wi_calm _ _ Hwi t a Ha) as (Hex & _).
      pose proof (bi_kind _ (bal_inv_reachable true g roots w s Hr) t a Ha) as [Hk _].
      destruct (apply_step_some s t (inbox s) (slot s) (termq s) _ (actor_step_done_some true true a Hex (Hk Ho) Ho)) as [x Hx].
      by rewrite Hx in He.
    Qed.

    Lemma wq_view R aR k d : actors s !! R = Some aR -> view s R aR k d = bool_decide (d ∉ unav aR k).
    Proof. intros HR. unfold view. by rewrite (wq_inbox_empty R aR HR). Qed.

    Definition up_to_date (d : tid) : Prop :=
      forall ad k, actors s !! d = Some ad -> own ad k -> reqs ad k <> ∅ -> availb ad k = true.

    Lemma all_up_to_date : forall n d, rank d < n -> up_to_date d.
    Proof.
      induction n as [|n IH]; intros d Hlt; [lia|].
      intros ad k Had Ho Hne. destruct (Hwf d ad Had) as [Hid Hg].
      (* every dependency is recorded as available for every kind that was fanned out *)
      assert (Hdep : forall x k', x ∈ a_deps ad -> fanned ad k' -> x ∉ unav ad k').
      { intros x k' Hx Hf.
        destruct (Hclosed d _ _ x Hg Hx) as [gx Hgx].
        destruct (wi_dom _ _ Hwi x (ex_intro _ _ Hgx)) as [ax Hax].
        assert (Hv : view s d ad k' x = true).
        { destruct (wi_req _ _ Hwi d ad x ax k' Had Hax Hx Hf) as [Hpend|[[Hox HRx]|[Hno Hv]]].
          - rewrite (wq_inbox_empty x ax Hax) in Hpend. by apply elem_of_nil in Hpend.
          - rewrite (wi_view _ _ Hwi d ad x ax k' Had Hax Hox HRx).
            apply (IH x); [pose proof (Hrank d _ _ x Hg Hx); lia|done|done|set_solver].
          - done. }
        rewrite (wq_view d ad k' x Had) in Hv. by apply bool_decide_eq_true in Hv. }
      unfold availb, own, fanned in *. destruct (a_kind ad) eqn:Hk.
      - subst k.
        assert (HB : unavB ad = ∅).
        { apply set_eq. intros x. split; [|set_solver]. intros Hx. exfalso.
          eapply (Hdep x KB); [by eapply (wi_unavsub _ _ Hwi d ad KB)|done|done]. }
        assert (HS : unavS ad = ∅).
        { apply set_eq. intros x. split; [|set_solver]. intros Hx. exfalso.
          eapply (Hdep x KS); [by eapply (wi_unavsub _ _ Hwi d ad KS)|done|done]. }
        destruct (to_execute ad) eqn:Hte.
        + pose proof (wi_nopend _ _ Hwi d ad Had KB Hk Hte Hne HB HS) as Hon.
          rewrite (wq_not_ongoing d ad Had) in Hon. done.
        + destruct (Hnf d ad Had ltac:(by rewrite Hk) Hte) as [Hon|?]; [|done].
          rewrite (wq_not_ongoing d ad Had) in Hon. done.
      - subst k.
        assert (HB : unavB ad = ∅).
        { apply set_eq. intros x. split; [|set_solver]. intros Hx. exfalso.
          eapply (Hdep x KB); [by eapply (wi_unavsub _ _ Hwi d ad KB)|done|done]. }
        assert (HS : unavS ad = ∅).
        { apply set_eq. intros x. split; [|set_solver]. intros Hx. exfalso.
          eapply (Hdep x KS); [by eapply (wi_unavsub _ _ Hwi d ad KS)|done|done]. }
        destruct (to_execute ad) eqn:Hte.
        + pose proof (wi_nopend _ _ Hwi d ad Had KS Hk Hte Hne HB HS) as Hon.
          rewrite (wq_not_ongoing d ad Had) in Hon. done.
        + destruct (Hnf d ad Had ltac:(by rewrite Hk) Hte) as [Hon|?]; [|done].
          rewrite (wq_not_ongoing d ad Had) in Hon. done.
      - apply set_empty_true. apply set_eq. intros x. split; [|set_solver]. intros Hx. exfalso.
        eapply (Hdep x k); [by eapply (wi_unavsub _ _ Hwi d ad k)|done|done].
    Qed.
  End quiet.

  (* Repaired handlers, watch mode or one-shot, every closed acyclic graph, every sequence of file changes, every
     interleaving: in a reachable state inside the root loop in which nothing can happen any more (every notice, message and
     result handled, no script in progress) and no target is in the failed state, every requested target is up to date: a
     build or service has completed an execution that no later invalidation has revoked, an aggregate has every dependency
     acknowledged — nothing is left waiting for a word that will not come. *)
  Theorem quiescent_up_to_date s :
    reachable true w g roots s -> ph s = PRun -> quiescent true w s = true -> none_failed s ->
    forall d ad k, actors s !! d = Some ad -> own ad k -> reqs ad k <> ∅ -> availb ad k = true.
  Proof.
    intros Hr Hp Hq Hnf d ad k Had Ho Hne.
    by apply (all_up_to_date s Hr Hp Hq Hnf (S (rank d)) d ltac:(lia) ad k).
  Qed.
End wlive2.

Lemma latest_word_tracks_availability (g : graph) (roots : list tid) (w : bool) (rank : tid -> nat) :
  (forall t k deps d, g !! t = Some (k, deps) -> d ∈ deps -> is_Some (g !! d)) ->
  (forall t k deps d, g !! t = Some (k, deps) -> d ∈ deps -> rank d < rank t) ->
  forall s, reachable true w g roots s -> ph s = PRun ->
  forall R aR d ad k, actors s !! R = Some aR -> actors s !! d = Some ad -> own ad k -> ATarget R ∈ reqs ad k ->
    view s R aR k d = availb ad k.
Proof.
  intros Hclosed Hrank s Hr Hp. exact (wi_view g s (winv_reachable g roots w rank Hclosed Hrank s Hr Hp)).
Qed.

(* computable form of none_failed *)
Definition none_failedb (s : sys) : bool :=
  bool_decide (map_Forall (fun _ a => a_kind a = AAggregate \/ to_execute a = true \/ ongoing a = true \/ executed a = true) (actors s)).

Lemma none_failedb_spec s : none_failedb s = true -> none_failed s.
Proof.
  unfold none_failedb, none_failed. intros H t a Ha Hk Hte. apply bool_decide_eq_true in H.
  destruct (H t a Ha) as [?|[?|[?|?]]]; [done|congruence|by left|by right].
Qed.

(* C01 at system level, any mode: what a target has RECORDED as available is available, unless the out-of-date notice that
   says otherwise is already waiting in its inbox *)
Lemma recorded_available (g : graph) (roots : list tid) (w : bool) (rank : tid -> nat) :
  (forall t k deps d, g !! t = Some (k, deps) -> d ∈ deps -> is_Some (g !! d)) ->
  (forall t k deps d, g !! t = Some (k, deps) -> d ∈ deps -> rank d < rank t) ->
  forall s, reachable true w g roots s -> ph s = PRun ->
  forall R aR d ad k, actors s !! R = Some aR -> actors s !! d = Some ad -> own ad k -> ATarget R ∈ reqs ad k ->
    d ∉ unav aR k -> availb ad k = true \/ MInvalidated k d ∈ inb (inbox s) R.
Proof.
  intros Hclosed Hrank s Hr Hp R aR d ad k HR Hd Ho Hreq Hn.
  pose proof (latest_word_tracks_availability g roots w rank Hclosed Hrank s Hr Hp R aR d ad k HR Hd Ho Hreq) as Hv.
  unfold view in Hv. destruct (lastw (inb (inbox s) R) k d) as [b|] eqn:E.
  - destruct b; [by left|]. right. destruct (lastw_some _ _ _ _ E) as (m & Hin & Hw). by apply mword_inval in Hw as ->.
  - left. rewrite <- Hv. by apply bool_decide_eq_true.
Qed.
