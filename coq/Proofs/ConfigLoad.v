(* The loader (Config::load / add_project) against its specification:
   a successful load returns exactly the directories reachable from the root through import edges, each with the project
   its file denotes, and every import edge passed the name test; an error is explained by a defect at a reachable
   directory; the fuel "number of directories + 1" is never exhausted and the HashMap index never panics.
   None of the right-hand sides mentions the iteration order `ord`, hence order independence. *)
From Zinoma.Model Require Import Config.
From Zinoma.Proofs Require Import Bytes.
From Coq Require Import Lia Permutation Relations.
Local Open Scope nat_scope.

(* ---- the `projects` map ---- *)
Lemma vis_get_cons x d p v : vis_get x ((d, p) :: v) = if beq x d then Some p else vis_get x v.
Proof. unfold vis_get. cbn. destruct (beq x d); reflexivity. Qed.

Lemma vis_mem_true x v : vis_mem x v = true <-> vis_get x v <> None.
Proof. unfold vis_mem. destruct (vis_get x v); split; congruence. Qed.

Lemma vis_mem_false x v : vis_mem x v = false <-> vis_get x v = None.
Proof. unfold vis_mem. destruct (vis_get x v); split; congruence. Qed.

Lemma vis_get_in x p v : vis_get x v = Some p -> In (x, p) v.
Proof.
  induction v as [|[d q] v IH]; [discriminate|]. rewrite vis_get_cons.
  destruct (beq x d) eqn:E.
  - apply beq_eq in E. intros [= ->]. left. now subst.
  - intros H. right. now apply IH.
Qed.

Lemma vis_get_keys x v : vis_get x v <> None <-> In x (map fst v).
Proof.
  induction v as [|[d q] v IH]; cbn [map fst In].
  - split; [intros H; now elim H | tauto].
  - rewrite vis_get_cons. destruct (beq x d) eqn:E.
    + apply beq_eq in E. subst. split; [now left | discriminate].
    + rewrite IH. split; [tauto|]. intros [H|H]; [|exact H].
      subst. rewrite beq_refl in E. discriminate.
Qed.

Lemma vis_get_none_keys x v : vis_get x v = None <-> ~ In x (map fst v).
Proof.
  rewrite <- vis_get_keys. destruct (vis_get x v) as [p|].
  - split; [discriminate|]. intros H. exfalso. apply H. discriminate.
  - split; [intros _ H; now apply H | reflexivity].
Qed.

Lemma vis_get_nodup x p v : NoDup (map fst v) -> In (x, p) v -> vis_get x v = Some p.
Proof.
  induction v as [|[d q] v IH]; cbn [map fst In]; [tauto|].
  intros Hnd Hin. inversion Hnd as [|? ? Hni Hnd']; subst. rewrite vis_get_cons.
  destruct Hin as [[= -> ->]|Hin].
  - now rewrite beq_refl.
  - destruct (beq x d) eqn:E; [|now apply IH].
    apply beq_eq in E. subst. exfalso. apply Hni. now apply (in_map fst) in Hin.
Qed.

Section LoadSpec.
  Variable fs : cdir -> cfile.
  Variable canon : cdir -> bytes -> option cdir.

  (* the project a directory's file denotes *)
  Definition proj (d : cdir) (p : yproject) : Prop := load_project fs d = LOk p.

  Lemma proj_fun d p q : proj d p -> proj d q -> p = q.
  Proof. unfold proj. congruence. Qed.

  (* d imports d' *)
  Definition edge (d d' : cdir) : Prop :=
    exists p nm rel, proj d p /\ In (nm, rel) (yp_imports p) /\ canon d rel = Some d'.

  Definition Reach : cdir -> cdir -> Prop := clos_refl_trans cdir edge.

  Lemma Reach_refl d : Reach d d.
  Proof. apply rt_refl. Qed.

  Lemma Reach_trans a b c : Reach a b -> Reach b c -> Reach a c.
  Proof. apply rt_trans. Qed.

  Lemma Reach_step a b c : Reach a b -> edge b c -> Reach a c.
  Proof. intros H E. eapply rt_trans; [exact H | now apply rt_step]. Qed.

  (* every import of x resolves to a directory with a loaded project of that very name *)
  Definition ImportsIn (x : cdir) (p : yproject) (vis : loaded) : Prop :=
    forall nm rel, In (nm, rel) (yp_imports p) ->
      exists y q, canon x rel = Some y /\ vis_get y vis = Some q /\ yp_name q = Some nm.

  Definition ImportsOk (x : cdir) (p : yproject) : Prop :=
    forall nm rel, In (nm, rel) (yp_imports p) ->
      exists y q, canon x rel = Some y /\ proj y q /\ yp_name q = Some nm.

  (* what can be wrong at a directory, by error class *)
  Inductive Defect (x : cdir) : lerr -> Prop :=
  | D_load e : load_project fs x = LErr e -> Defect x e
  | D_dir p nm rel : proj x p -> In (nm, rel) (yp_imports p) -> canon x rel = None -> Defect x LE_ImportDirMissing
  | D_unnamed p nm rel y q : proj x p -> In (nm, rel) (yp_imports p) -> canon x rel = Some y ->
      proj y q -> yp_name q = None -> Defect x LE_ImportUnnamed
  | D_mismatch p nm rel y q n' : proj x p -> In (nm, rel) (yp_imports p) -> canon x rel = Some y ->
      proj y q -> yp_name q = Some n' -> n' <> nm -> Defect x LE_ImportNameMismatch.

  Lemma load_project_errors d e :
    load_project fs d = LErr e ->
    e = LE_NoConfigFile \/ e = LE_InvalidFormat \/ e = LE_InvalidProjectName \/ e = LE_InvalidTargetName.
  Proof.
    unfold load_project. destruct (fs d) as [| |v]; try (intros [= <-]; tauto).
    destruct (accept_project v) as [p|]; [|intros [= <-]; tauto].
    destruct (negb (opt_valid_name (yp_name p))); [intros [= <-]; tauto|].
    destruct (forallb _ _); [discriminate | intros [= <-]; tauto].
  Qed.

  Variable ord : cdir -> list (bytes * bytes) -> list (bytes * bytes).
  Hypothesis ord_perm : forall d l, Permutation (ord d l) l.

  Variable root : cdir.
  Variable U : list cdir.                       (* the directories that exist, at least the reachable ones *)
  Hypothesis U_covers : forall x, Reach root x -> In x U.

  Definition Inv (vis : loaded) : Prop :=
    NoDup (map fst vis) /\ forall x p, vis_get x vis = Some p -> proj x p /\ Reach root x.

  Lemma Inv_length vis : Inv vis -> length vis <= length U.
  Proof.
    intros [Hnd Hall]. rewrite <- (map_length fst). apply NoDup_incl_length; [exact Hnd|].
    intros x Hx. apply U_covers. apply vis_get_keys in Hx.
    destruct (vis_get x vis) as [p|] eqn:E; [|now elim Hx]. now apply (Hall x p).
  Qed.

  Record Post (d : cdir) (vis vis' : loaded) : Prop := {
    po_ext : forall x p, vis_get x vis = Some p -> vis_get x vis' = Some p;
    po_mem : vis_get d vis' <> None;
    po_reach : forall x, vis_get x vis = None -> vis_get x vis' <> None -> Reach d x;
    po_closed : forall x p, vis_get x vis = None -> vis_get x vis' = Some p -> ImportsIn x p vis';
    po_len : length vis <= length vis' }.

  (* a result of a call with `n` units of fuel on `vis` *)
  Definition ErrOk (n : nat) (vis : loaded) (e : lerr) : Prop :=
    (e = LE_Fuel /\ n + length vis <= length U) \/ (exists x, Reach root x /\ Defect x e).

  Definition Spec (n : nat) (d : cdir) (vis : loaded) (r : lres loaded) : Prop :=
    match r with
    | LOk vis' => Inv vis' /\ Post d vis vis'
    | LErr e => ErrOk n vis e
    end.

  Lemma ImportsIn_ext x p v v' :
    (forall y q, vis_get y v = Some q -> vis_get y v' = Some q) -> ImportsIn x p v -> ImportsIn x p v'.
  Proof.
    intros Hext H nm rel Hin. destruct (H nm rel Hin) as (y & q & Hc & Hg & Hn).
    exists y, q. repeat split; auto.
  Qed.

  Lemma canon_all_spec d imps ips :
    canon_all canon d imps = Some ips ->
    (forall nm rel, In (nm, rel) imps -> exists y, canon d rel = Some y /\ In (nm, y) ips) /\
    (forall nm y, In (nm, y) ips -> exists rel, In (nm, rel) imps /\ canon d rel = Some y).
  Proof.
    revert ips. induction imps as [|[nm0 rel0] imps IH]; intros ips; cbn [canon_all].
    - intros [= <-]. split; intros ? ? [].
    - destruct (canon d rel0) as [c|] eqn:Ec; [|discriminate].
      destruct (canon_all canon d imps) as [cs|]; [|discriminate].
      intros [= <-]. destruct (IH cs eq_refl) as [IH1 IH2]. split.
      + intros nm rel [[= <- <-]|Hin].
        * exists c. split; [exact Ec | now left].
        * destruct (IH1 nm rel Hin) as (y & Hy & Hi). exists y. split; [exact Hy | now right].
      + intros nm y [[= <- <-]|Hin].
        * exists rel0. split; [now left | exact Ec].
        * destruct (IH2 nm y Hin) as (rel & Hi & Hy). exists rel. split; [now right | exact Hy].
  Qed.

  Lemma canon_all_none d imps :
    canon_all canon d imps = None -> exists nm rel, In (nm, rel) imps /\ canon d rel = None.
  Proof.
    induction imps as [|[nm0 rel0] imps IH]; cbn [canon_all]; [discriminate|].
    destruct (canon d rel0) as [c|] eqn:Ec.
    - destruct (canon_all canon d imps) as [cs|]; [discriminate|].
      intros _. destruct (IH eq_refl) as (nm & rel & Hi & Hc). exists nm, rel. split; [now right | exact Hc].
    - intros _. exists nm0, rel0. split; [now left | exact Ec].
  Qed.

  (* the import loop of directory d (project p), given the specification of the recursive call *)
  Lemma import_loop_spec n rec d p :
    (forall y vis, Inv vis -> Reach root y -> Spec n y vis (rec y vis)) ->
    proj d p -> Reach root d ->
    forall ips vis,
      (forall nm y, In (nm, y) ips -> exists rel, In (nm, rel) (yp_imports p) /\ canon d rel = Some y) ->
      Inv vis ->
      match import_loop rec ips vis with
      | LOk vis' =>
          Inv vis' /\
          (forall x q, vis_get x vis = Some q -> vis_get x vis' = Some q) /\
          length vis <= length vis' /\
          (forall nm y, In (nm, y) ips -> exists q, vis_get y vis' = Some q /\ yp_name q = Some nm) /\
          (forall x, vis_get x vis = None -> vis_get x vis' <> None -> exists nm y, In (nm, y) ips /\ Reach y x) /\
          (forall x q, vis_get x vis = None -> vis_get x vis' = Some q -> ImportsIn x q vis')
      | LErr e => ErrOk n vis e
      end.
  Proof.
    intros Hrec Hp Hrd. induction ips as [|[nm y] ips IH]; intros vis Hips Hinv; cbn [import_loop].
    - split; [exact Hinv|]. split; [auto|]. split; [lia|]. split; [intros nm y []|]. split.
      + intros x H1 H2. congruence.
      + intros x q H1 H2. congruence.
    - assert (Hy : exists rel, In (nm, rel) (yp_imports p) /\ canon d rel = Some y) by (apply Hips; now left).
      destruct Hy as (rel & Hrel & Hcan).
      assert (Hry : Reach root y).
      { eapply Reach_step; [exact Hrd|]. exists p, nm, rel. auto. }
      specialize (Hrec y vis Hinv Hry). destruct (rec y vis) as [vis1|e]; cbn [Spec] in Hrec; [|exact Hrec].
      destruct Hrec as [Hinv1 Hpost1].
      unfold check_import. destruct (vis_get y vis1) as [q|] eqn:Egy; [|now elim (po_mem _ _ _ Hpost1)].
      destruct Hinv1 as [Hnd1 Hall1]. destruct (Hall1 y q Egy) as [Hpq _].
      destruct (yp_name q) as [x|] eqn:Enq.
      2:{ right. exists d. split; [exact Hrd|]. eapply D_unnamed; eauto. }
      destruct (beq x nm) eqn:Ebeq.
      2:{ right. exists d. split; [exact Hrd|]. eapply D_mismatch; eauto.
          intros ->. rewrite beq_refl in Ebeq. discriminate. }
      apply beq_eq in Ebeq. subst x.
      assert (Hips' : forall nm' y', In (nm', y') ips ->
                exists rel', In (nm', rel') (yp_imports p) /\ canon d rel' = Some y').
      { intros nm' y' Hin. apply Hips. now right. }
      specialize (IH vis1 Hips' (conj Hnd1 Hall1)).
      destruct (import_loop rec ips vis1) as [vis'|e].
      + destruct IH as (Hinv' & Hext' & Hlen' & Hchk' & Hnew' & Hcl').
        split; [exact Hinv'|]. split; [|split; [|split; [|split]]].
        * intros x0 q0 H0. apply Hext'. now apply (po_ext _ _ _ Hpost1).
        * pose proof (po_len _ _ _ Hpost1). lia.
        * intros nm' y' [[= <- <-]|Hin]; [|now apply Hchk'].
          exists q. split; [now apply Hext' | exact Enq].
        * intros x0 H0 H0'. destruct (vis_get x0 vis1) as [q1|] eqn:E1.
          -- exists nm, y. split; [now left|]. apply (po_reach _ _ _ Hpost1); [exact H0 | congruence].
          -- destruct (Hnew' x0 E1 H0') as (nm' & y' & Hin & Hr). exists nm', y'. split; [now right | exact Hr].
        * intros x0 q0 H0 H0'. destruct (vis_get x0 vis1) as [q1|] eqn:E1.
          -- assert (q1 = q0) by (apply Hext' in E1; congruence). subst q1.
             eapply ImportsIn_ext; [exact Hext'|]. now apply (po_closed _ _ _ Hpost1).
          -- now apply Hcl'.
      + destruct IH as [[-> Hf]|Hd]; [left | right; exact Hd].
        split; [reflexivity|]. pose proof (po_len _ _ _ Hpost1). lia.
  Qed.

  Lemma add_project_spec n : forall d vis, Inv vis -> Reach root d -> Spec n d vis (add_project fs canon ord n d vis).
  Proof.
    induction n as [|n IH]; intros d vis Hinv Hrd; cbn [add_project].
    - left. split; [reflexivity|]. cbn. now apply Inv_length.
    - destruct (vis_mem d vis) eqn:Emem.
      + cbn [Spec]. split; [exact Hinv|]. apply vis_mem_true in Emem. split; auto; try congruence.
      + apply vis_mem_false in Emem.
        destruct (load_project fs d) as [p|e] eqn:Elp.
        2:{ right. exists d. split; [exact Hrd | now apply D_load]. }
        destruct (canon_all canon d (ord d (yp_imports p))) as [ips|] eqn:Eca.
        2:{ apply canon_all_none in Eca. destruct Eca as (nm & rel & Hin & Hc).
            right. exists d. split; [exact Hrd|]. eapply D_dir; eauto.
            eapply Permutation_in; [apply ord_perm | exact Hin]. }
        destruct (canon_all_spec _ _ _ Eca) as [Hca1 Hca2].
        set (vis1 := (d, p) :: vis).
        assert (Hinv1 : Inv vis1).
        { destruct Hinv as [Hnd Hall]. split.
          - cbn. constructor; [now apply vis_get_none_keys | exact Hnd].
          - intros x q. unfold vis1. rewrite vis_get_cons. destruct (beq x d) eqn:E.
            + apply beq_eq in E. subst x. intros [= <-]. split; [exact Elp | exact Hrd].
            + apply Hall. }
        assert (Hips : forall nm y, In (nm, y) ips ->
                  exists rel, In (nm, rel) (yp_imports p) /\ canon d rel = Some y).
        { intros nm y Hin. destruct (Hca2 nm y Hin) as (rel & Hi & Hc). exists rel. split; [|exact Hc].
          eapply Permutation_in; [apply ord_perm | exact Hi]. }
        pose proof (import_loop_spec n (add_project fs canon ord n) d p IH Elp Hrd ips vis1 Hips Hinv1) as Hloop.
        destruct (import_loop (add_project fs canon ord n) ips vis1) as [vis'|e].
        * destruct Hloop as (Hinv' & Hext' & Hlen' & Hchk' & Hnew' & Hcl').
          assert (Hd1 : vis_get d vis1 = Some p) by (unfold vis1; now rewrite vis_get_cons, beq_refl).
          assert (Hne : forall x, x <> d -> vis_get x vis1 = vis_get x vis).
          { intros x Hx. unfold vis1. rewrite vis_get_cons. destruct (beq x d) eqn:E; [|reflexivity].
            apply beq_eq in E. contradiction. }
          cbn [Spec]. split; [exact Hinv'|]. split.
          -- intros x q Hq. apply Hext'. rewrite Hne; [exact Hq|]. intros ->. congruence.
          -- apply Hext' in Hd1. congruence.
          -- intros x Hx Hx'. destruct (beq x d) eqn:E.
             ++ apply beq_eq in E. subst. apply Reach_refl.
             ++ assert (x <> d) by (intros ->; rewrite beq_refl in E; discriminate).
                destruct (Hnew' x) as (nm & y & Hin & Hr); [now rewrite Hne | exact Hx'|].
                destruct (Hips nm y Hin) as (rel & Hi & Hc).
                eapply Reach_trans; [|exact Hr]. apply rt_step. exists p, nm, rel. auto.
          -- intros x q Hx Hx'. destruct (beq x d) eqn:E.
             ++ apply beq_eq in E. subst x. apply Hext' in Hd1. assert (q = p) by congruence. subst q.
                intros nm rel Hin.
                assert (Hin' : In (nm, rel) (ord d (yp_imports p))).
                { eapply Permutation_in; [apply Permutation_sym, ord_perm | exact Hin]. }
                destruct (Hca1 nm rel Hin') as (y & Hc & Hi).
                destruct (Hchk' nm y Hi) as (q & Hq & Hn). exists y, q. auto.
             ++ assert (x <> d) by (intros ->; rewrite beq_refl in E; discriminate).
                apply Hcl'; [now rewrite Hne | exact Hx'].
          -- unfold vis1 in Hlen'. cbn [length] in Hlen'. lia.
        * destruct Hloop as [[-> Hf]|Hd]; [left | right; exact Hd].
          split; [reflexivity|]. unfold vis1 in Hf. cbn [length] in Hf. lia.
  Qed.

  Lemma Inv_nil : Inv [].
  Proof. split; [constructor | discriminate]. Qed.


  Variable fuel : nat.
  Hypothesis fuel_ok : length U < fuel.

  Lemma vis_get_nil x : vis_get x [] = None.
  Proof. reflexivity. Qed.

  Lemma Defect_not_internal x e : Defect x e -> e <> LE_Fuel /\ e <> LE_PanicIndex /\ e <> LE_DuplicateProjectName.
  Proof.
    intros H. destruct H; try (repeat split; discriminate).
    match goal with He : load_project _ _ = LErr _ |- _ =>
      destruct (load_project_errors _ _ He) as [-> | [-> | [-> | ->]]]; repeat split; discriminate end.
  Qed.

  Lemma add_root_spec : Spec fuel root [] (add_project fs canon ord fuel root []).
  Proof. apply add_project_spec; [apply Inv_nil | apply Reach_refl]. Qed.

  (* success: exactly the reachable directories, each with its own project, every import edge checked *)
  Lemma add_root_ok vis :
    add_project fs canon ord fuel root [] = LOk vis ->
    NoDup (map fst vis) /\
    (forall x p, vis_get x vis = Some p <-> Reach root x /\ proj x p) /\
    (forall x p, vis_get x vis = Some p -> ImportsIn x p vis).
  Proof.
    intros Heq. pose proof add_root_spec as Hs. rewrite Heq in Hs. destruct Hs as [[Hnd Hall] Hpost].
    assert (Hin : forall x, Reach root x -> vis_get x vis <> None).
    { intros x Hr. apply clos_rt_rtn1 in Hr. induction Hr as [|y z Hyz Hry IH].
      - apply (po_mem _ _ _ Hpost).
      - destruct (vis_get y vis) as [py|] eqn:Ey; [|now elim IH].
        destruct Hyz as (p & nm & rel & Hp & Hi & Hc).
        destruct (Hall y py Ey) as [Hpy _]. assert (p = py) by (eapply proj_fun; eauto). subst p.
        destruct (po_closed _ _ _ Hpost y py (vis_get_nil y) Ey nm rel Hi) as (z' & q & Hc' & Hq & _).
        assert (z' = z) by congruence. subst z'. congruence. }
    split; [exact Hnd|]. split.
    - intros x p. split; [intros Hx; destruct (Hall x p Hx); now split|]. intros [Hr Hp].
      destruct (vis_get x vis) as [q|] eqn:E; [|now elim (Hin x Hr)].
      destruct (Hall x q E) as [Hq _]. f_equal. eapply proj_fun; eauto.
    - intros x p Hx. apply (po_closed _ _ _ Hpost x p (vis_get_nil x) Hx).
  Qed.

  Lemma add_root_mem vis : add_project fs canon ord fuel root [] = LOk vis -> vis_get root vis <> None.
  Proof.
    intros Heq. pose proof add_root_spec as Hs. rewrite Heq in Hs. destruct Hs as [_ Hpost]. apply (po_mem _ _ _ Hpost).
  Qed.

  Lemma add_root_err e :
    add_project fs canon ord fuel root [] = LErr e -> exists x, Reach root x /\ Defect x e.
  Proof.
    intros Heq. pose proof add_root_spec as Hs. rewrite Heq in Hs. destruct Hs as [[_ Hf]|Hd]; [|exact Hd].
    cbn in Hf. lia.
  Qed.

  (* the layout is loadable: every reachable directory has a valid project file and every import is well named *)
  Definition Good : Prop := forall x, Reach root x -> exists p, proj x p /\ ImportsOk x p.

  Lemma Defect_not_Good x e : Good -> Reach root x -> Defect x e -> False.
  Proof.
    intros Hg Hr Hd. destruct (Hg x Hr) as (p0 & Hp0 & Hok).
    destruct Hd as [e He|p nm rel Hp Hi Hc|p nm rel y q Hp Hi Hc Hq Hn|p nm rel y q n' Hp Hi Hc Hq Hn Hne].
    - unfold proj in Hp0. congruence.
    - assert (p = p0) by (eapply proj_fun; eauto). subst p.
      destruct (Hok nm rel Hi) as (y & q & Hc' & _). congruence.
    - assert (p = p0) by (eapply proj_fun; eauto). subst p.
      destruct (Hok nm rel Hi) as (y' & q' & Hc' & Hq' & Hn'). assert (y' = y) by congruence. subst y'.
      assert (q' = q) by (eapply proj_fun; eauto). subst q'. congruence.
    - assert (p = p0) by (eapply proj_fun; eauto). subst p.
      destruct (Hok nm rel Hi) as (y' & q' & Hc' & Hq' & Hn'). assert (y' = y) by congruence. subst y'.
      assert (q' = q) by (eapply proj_fun; eauto). subst q'. congruence.
  Qed.

  Lemma add_root_ok_iff : (exists vis, add_project fs canon ord fuel root [] = LOk vis) <-> Good.
  Proof.
    split.
    - intros [vis Heq] x Hr. destruct (add_root_ok vis Heq) as (_ & Hiff & Hcl).
      pose proof add_root_spec as Hs. rewrite Heq in Hs. destruct Hs as [[Hnd Hall] Hpost].
      assert (Hx : exists p, vis_get x vis = Some p).
      { apply clos_rt_rtn1 in Hr. induction Hr as [|y z Hyz Hry IH].
        - destruct (vis_get root vis) as [p|] eqn:E; [now exists p | now elim (po_mem _ _ _ Hpost)].
        - destruct IH as [py Ey]. destruct Hyz as (p & nm & rel & Hp & Hi & Hc).
          destruct (Hall y py Ey) as [Hpy _]. assert (p = py) by (eapply proj_fun; eauto). subst p.
          destruct (Hcl y py Ey nm rel Hi) as (z' & q & Hc' & Hq & _).
          assert (z' = z) by congruence. subst z'. now exists q. }
      destruct Hx as [p Hx]. exists p. split; [now apply Hiff in Hx|].
      intros nm rel Hi. destruct (Hcl x p Hx nm rel Hi) as (y & q & Hc & Hq & Hn).
      exists y, q. split; [exact Hc|]. split; [|exact Hn]. now apply Hiff in Hq.
    - intros Hg. destruct (add_project fs canon ord fuel root []) as [vis|e] eqn:Heq; [now exists vis|].
      destruct (add_root_err e Heq) as (x & Hr & Hd). exfalso. eapply Defect_not_Good; eauto.
  Qed.
End LoadSpec.

(* ---- project names (repair FX7) ---- *)
Definition name_list (e : cdir * yproject) : list bytes :=
  match yp_name (snd e) with Some n => [n] | None => [] end.

Definition named (vis : loaded) : list bytes := flat_map name_list vis.

Lemma opt_beq_some n o : opt_beq (Some n) o = true <-> o = Some n.
Proof.
  destruct o as [m|]; cbn; [|split; discriminate]. rewrite beq_eq. split; [now intros -> | now intros [= ->]].
Qed.

Lemma existsb_named n r :
  existsb (fun e => opt_beq (Some n) (yp_name (snd e))) r = true <-> In n (named r).
Proof.
  unfold named. rewrite existsb_exists, in_flat_map. split; intros [e [Hin He]]; exists e; (split; [exact Hin|]).
  - apply opt_beq_some in He. unfold name_list. rewrite He. now left.
  - unfold name_list in He. destruct (yp_name (snd e)) as [m|]; [|now elim He].
    destruct He as [->|[]]. now apply opt_beq_some.
Qed.

Lemma has_dup_name_spec vis : has_dup_name vis = false <-> NoDup (named vis).
Proof.
  induction vis as [|[d p] r IH]; cbn [has_dup_name].
  - split; [constructor | reflexivity].
  - unfold named. cbn [flat_map]. fold (named r). unfold name_list at 1. cbn [snd].
    destruct (yp_name p) as [n|]; cbn [app].
    + rewrite orb_false_iff, IH. split.
      * intros [He Hnd]. constructor; [|exact Hnd]. intros Hin. apply existsb_named in Hin. congruence.
      * intros Hnd. inversion Hnd as [|? ? Hni Hnd']; subst. split; [|exact Hnd'].
        destruct (existsb _ r) eqn:E; [|reflexivity]. apply existsb_named in E. contradiction.
    + cbn [orb]. exact IH.
Qed.

Lemma has_dup_name_witness vis :
  has_dup_name vis = true ->
  exists l1 x p l2 y q l3 n, vis = l1 ++ (x, p) :: l2 ++ (y, q) :: l3 /\ yp_name p = Some n /\ yp_name q = Some n.
Proof.
  induction vis as [|[d p] r IH]; cbn [has_dup_name]; [discriminate|].
  intros H. apply orb_true_iff in H as [H|H].
  - destruct (yp_name p) as [n|] eqn:En; [|discriminate].
    apply existsb_exists in H as [[y q] [Hin He]]. cbn [snd] in He. apply opt_beq_some in He.
    apply in_split in Hin as (l2 & l3 & ->).
    exists [], d, p, l2, y, q, l3, n. auto.
  - destruct (IH H) as (l1 & x & p' & l2 & y & q & l3 & n & -> & Hp & Hq).
    exists ((d, p) :: l1), x, p', l2, y, q, l3, n. auto.
Qed.

Lemma NoDup_app_disj {A} (l1 l2 : list A) x : NoDup (l1 ++ l2) -> In x l1 -> In x l2 -> False.
Proof.
  induction l1 as [|a l1 IH]; cbn; [tauto|]. intros Hnd [->|H1] H2; inversion Hnd as [|? ? Hni Hnd']; subst.
  - apply Hni. apply in_or_app. now right.
  - now apply IH.
Qed.

Lemma NoDup_app_r {A} (l1 l2 : list A) : NoDup (l1 ++ l2) -> NoDup l2.
Proof. induction l1 as [|a l1 IH]; cbn; [tauto|]. intros H. inversion H; subst. auto. Qed.

Lemma NoDup_app_intro {A} (l1 l2 : list A) :
  NoDup l1 -> NoDup l2 -> (forall x, In x l1 -> ~ In x l2) -> NoDup (l1 ++ l2).
Proof.
  induction l1 as [|a l1 IH]; cbn [app]; [tauto|]. intros H1 H2 Hd. inversion H1 as [|? ? Hni H1']; subst.
  constructor.
  - intros Hin. apply in_app_or in Hin as [Hin|Hin]; [contradiction|]. apply (Hd a); [now left | exact Hin].
  - apply IH; auto. intros x Hx. apply Hd. now right.
Qed.

Lemma NoDup_flat_map_inj {A B} (f : A -> list B) l a b n :
  NoDup (flat_map f l) -> In a l -> In b l -> In n (f a) -> In n (f b) -> a = b.
Proof.
  induction l as [|c l IH]; cbn [flat_map In]; [tauto|]. intros Hnd Ha Hb Hna Hnb.
  destruct Ha as [->|Ha], Hb as [->|Hb]; [reflexivity| | |].
  - exfalso. eapply NoDup_app_disj; [exact Hnd | exact Hna|]. apply in_flat_map. now exists b.
  - exfalso. eapply NoDup_app_disj; [exact Hnd | exact Hnb|]. apply in_flat_map. now exists a.
  - apply IH; auto. now apply NoDup_app_r in Hnd.
Qed.

Lemma NoDup_flat_map {A B} (f : A -> list B) l :
  NoDup l -> (forall a, In a l -> NoDup (f a)) ->
  (forall a b n, In a l -> In b l -> In n (f a) -> In n (f b) -> a = b) -> NoDup (flat_map f l).
Proof.
  induction l as [|c l IH]; cbn [flat_map]; [constructor|]. intros Hnd Hf Hinj.
  inversion Hnd as [|? ? Hni Hnd']; subst.
  apply NoDup_app_intro.
  - apply Hf. now left.
  - apply IH; auto.
    + intros a Ha. apply Hf. now right.
    + intros a b n Ha Hb. apply Hinj; now right.
  - intros n Hn Hin. apply in_flat_map in Hin as [b [Hb Hnb]].
    assert (c = b) by (apply (Hinj c b n); auto; [now left | now right]). subst. contradiction.
Qed.

(* ---- the packaged statements ---- *)
Section LoadTheorems.
  Variable fs : cdir -> cfile.
  Variable canon : cdir -> bytes -> option cdir.
  Variable root : cdir.

  Definition OrderOk (ord : cdir -> list (bytes * bytes) -> list (bytes * bytes)) : Prop :=
    forall d l, Permutation (ord d l) l.

  Definition Covers (U : list cdir) : Prop := forall x, Reach fs canon root x -> In x U.

  (* distinct reachable directories declare distinct names *)
  Definition NamesInjective : Prop :=
    forall x y p q n, Reach fs canon root x -> Reach fs canon root y -> proj fs x p -> proj fs y q ->
      yp_name p = Some n -> yp_name q = Some n -> x = y.

  Definition LoadedSpec (vis : loaded) : Prop :=
    NoDup (map fst vis) /\
    (forall x p, vis_get x vis = Some p <-> Reach fs canon root x /\ proj fs x p) /\
    (forall x p, vis_get x vis = Some p -> ImportsIn canon x p vis) /\
    vis_get root vis <> None.

  Lemma named_nodup_iff vis : LoadedSpec vis -> (NoDup (named vis) <-> NamesInjective).
  Proof.
    intros (Hnd & Hiff & _). split.
    - intros Hn x y p q n Hrx Hry Hp Hq Hnp Hnq.
      assert (Hx : vis_get x vis = Some p) by (apply Hiff; auto).
      assert (Hy : vis_get y vis = Some q) by (apply Hiff; auto).
      apply vis_get_in in Hx. apply vis_get_in in Hy.
      assert (E : (x, p) = (y, q)).
      { apply (NoDup_flat_map_inj name_list vis (x, p) (y, q) n Hn Hx Hy); unfold name_list; cbn [snd].
        - rewrite Hnp. now left.
        - rewrite Hnq. now left. }
      congruence.
    - intros Hinj. apply NoDup_flat_map.
      + eapply NoDup_map_inv. exact Hnd.
      + intros [x p] _. unfold name_list. destruct (yp_name (snd (x, p))); repeat constructor. intros [].
      + intros [x p] [y q] n Ha Hb Hna Hnb. unfold name_list in Hna, Hnb. cbn [snd] in Hna, Hnb.
        destruct (yp_name p) as [n1|] eqn:E1; [|now elim Hna]. destruct Hna as [->|[]].
        destruct (yp_name q) as [n2|] eqn:E2; [|now elim Hnb]. destruct Hnb as [->|[]].
        pose proof (vis_get_nodup _ _ _ Hnd Ha) as Hx. pose proof (vis_get_nodup _ _ _ Hnd Hb) as Hy.
        destruct (proj1 (Hiff x p) Hx) as [Hrx Hpx]. destruct (proj1 (Hiff y q) Hy) as [Hry Hpy].
        assert (x = y) by (eapply Hinj; eauto). subst y. f_equal. congruence.
  Qed.

  Section WithOrder.
    Variable ord : cdir -> list (bytes * bytes) -> list (bytes * bytes).
    Hypothesis Hord : OrderOk ord.
    Variable U : list cdir.
    Hypothesis HU : Covers U.
    Variable fuel : nat.
    Hypothesis Hfuel : length U < fuel.

    Lemma add_root_loaded vis : add_project fs canon ord fuel root [] = LOk vis -> LoadedSpec vis.
    Proof.
      intros E. destruct (add_root_ok fs canon ord Hord root U HU fuel vis E) as (A & B & C).
      split; [exact A|]. split; [exact B|]. split; [exact C|].
      exact (add_root_mem fs canon ord Hord root U HU fuel vis E).
    Qed.

    Lemma pinned_ok c :
      load_config_pinned fs canon ord fuel root = LOk c -> yc_root c = root /\ LoadedSpec (yc_projects c).
    Proof.
      unfold load_config_pinned. destruct (add_project fs canon ord fuel root []) as [vis|e] eqn:E; [|discriminate].
      intros [= <-]. cbn. split; [reflexivity | now apply add_root_loaded].
    Qed.

    Lemma pinned_verdict : (exists c, load_config_pinned fs canon ord fuel root = LOk c) <-> Good fs canon root.
    Proof.
      rewrite <- (add_root_ok_iff fs canon ord Hord root U HU fuel Hfuel). unfold load_config_pinned.
      destruct (add_project fs canon ord fuel root []) as [vis|e]; split; intros [x Hx]; try discriminate; eauto.
    Qed.

    Lemma pinned_err e :
      load_config_pinned fs canon ord fuel root = LErr e -> exists x, Reach fs canon root x /\ Defect fs canon x e.
    Proof.
      unfold load_config_pinned. destruct (add_project fs canon ord fuel root []) as [vis|e'] eqn:E; [discriminate|].
      intros [= <-]. exact (add_root_err fs canon ord Hord root U HU fuel Hfuel e' E).
    Qed.

    Lemma load_ok c :
      load_config fs canon ord fuel root = LOk c ->
      yc_root c = root /\ LoadedSpec (yc_projects c) /\ NamesInjective.
    Proof.
      unfold load_config. destruct (add_project fs canon ord fuel root []) as [vis|e] eqn:E; [|discriminate].
      destruct (has_dup_name vis) eqn:Ed; [discriminate|]. intros [= <-]. cbn.
      pose proof (add_root_loaded vis E) as Hs.
      split; [reflexivity|]. split; [exact Hs|]. apply (named_nodup_iff vis Hs). now apply has_dup_name_spec.
    Qed.

    Lemma load_verdict :
      (exists c, load_config fs canon ord fuel root = LOk c) <-> Good fs canon root /\ NamesInjective.
    Proof.
      split.
      - intros [c Hc]. destruct (load_ok c Hc) as (_ & _ & Hni). split; [|exact Hni].
        apply pinned_verdict. unfold load_config in Hc. unfold load_config_pinned.
        destruct (add_project fs canon ord fuel root []) as [vis|e]; [eauto | discriminate].
      - intros [Hg Hni]. apply pinned_verdict in Hg as [c Hc]. unfold load_config_pinned in Hc. unfold load_config.
        destruct (add_project fs canon ord fuel root []) as [vis|e] eqn:E; [|discriminate].
        pose proof (add_root_loaded vis E) as Hs.
        destruct (has_dup_name vis) eqn:Ed; [|eauto]. exfalso.
        apply (named_nodup_iff vis Hs) in Hni. apply has_dup_name_spec in Hni. congruence.
    Qed.

    (* every error is explained by a defect of the layout, visible from the root *)
    Definition NameClash : Prop :=
      exists x y p q n, x <> y /\ Reach fs canon root x /\ Reach fs canon root y /\ proj fs x p /\ proj fs y q /\
        yp_name p = Some n /\ yp_name q = Some n.

    Lemma load_err e :
      load_config fs canon ord fuel root = LErr e ->
      (e = LE_DuplicateProjectName /\ Good fs canon root /\ NameClash) \/
      (exists x, Reach fs canon root x /\ Defect fs canon x e).
    Proof.
      unfold load_config. destruct (add_project fs canon ord fuel root []) as [vis|e'] eqn:E.
      - destruct (has_dup_name vis) eqn:Ed; [|discriminate]. intros [= <-]. left. split; [reflexivity|].
        pose proof (add_root_loaded vis E) as Hs. split.
        + apply (add_root_ok_iff fs canon ord Hord root U HU fuel Hfuel). eauto.
        + destruct (has_dup_name_witness vis Ed) as (l1 & x & p & l2 & y & q & l3 & n & Hv & Hp & Hq).
          destruct Hs as (Hnd & Hiff & _).
          assert (Hix : In (x, p) vis) by (rewrite Hv; apply in_or_app; right; now left).
          assert (Hiy : In (y, q) vis).
          { rewrite Hv. apply in_or_app. right. right. apply in_or_app. right. now left. }
          pose proof (vis_get_nodup _ _ _ Hnd Hix) as Hx. pose proof (vis_get_nodup _ _ _ Hnd Hiy) as Hy.
          apply Hiff in Hx as [Hrx Hpx]. apply Hiff in Hy as [Hry Hpy].
          exists x, y, p, q, n. repeat split; auto.
          intros ->. rewrite Hv, map_app in Hnd. apply NoDup_app_r in Hnd. cbn [map fst] in Hnd.
          inversion Hnd as [|? ? Hni _]; subst. apply Hni. rewrite map_app. apply in_or_app. right. now left.
      - intros [= <-]. right. exact (add_root_err fs canon ord Hord root U HU fuel Hfuel e' E).
    Qed.

    Lemma load_never_internal e :
      load_config fs canon ord fuel root = LErr e -> e <> LE_Fuel /\ e <> LE_PanicIndex.
    Proof.
      intros H. destruct (load_err e H) as [[-> _]|(x & _ & Hd)]; [split; discriminate|].
      destruct (Defect_not_internal fs canon x e Hd) as (H1 & H2 & _). now split.
    Qed.
  End WithOrder.

  Lemma LoadedSpec_unique v1 v2 :
    LoadedSpec v1 -> LoadedSpec v2 -> (forall x, vis_get x v1 = vis_get x v2) /\ Permutation v1 v2.
  Proof.
    intros (Hnd1 & Hiff1 & _) (Hnd2 & Hiff2 & _).
    assert (Heq : forall x, vis_get x v1 = vis_get x v2).
    { intros x. destruct (vis_get x v1) as [p|] eqn:E1.
      - symmetry. apply Hiff2. now apply Hiff1.
      - destruct (vis_get x v2) as [q|] eqn:E2; [|reflexivity]. apply Hiff2, Hiff1 in E2. congruence. }
    split; [exact Heq|]. apply NoDup_Permutation.
    - eapply NoDup_map_inv; exact Hnd1.
    - eapply NoDup_map_inv; exact Hnd2.
    - intros [x p]. split; intros Hin.
      + apply vis_get_in. rewrite <- Heq. now apply vis_get_nodup.
      + apply vis_get_in. rewrite Heq. now apply vis_get_nodup.
  Qed.

  (* C14: verdict and loaded map do not depend on the iteration order of any imports map (nor on the fuel) *)
  Theorem load_order_independent ord1 ord2 U f1 f2 :
    OrderOk ord1 -> OrderOk ord2 -> Covers U -> length U < f1 -> length U < f2 ->
    match load_config fs canon ord1 f1 root, load_config fs canon ord2 f2 root with
    | LOk c1, LOk c2 =>
        yc_root c1 = yc_root c2 /\ Permutation (yc_projects c1) (yc_projects c2) /\
        (forall x, vis_get x (yc_projects c1) = vis_get x (yc_projects c2))
    | LErr _, LErr _ => True
    | _, _ => False
    end.
  Proof.
    intros H1 H2 HU Hf1 Hf2.
    pose proof (load_verdict ord1 H1 U HU f1 Hf1) as V1. pose proof (load_verdict ord2 H2 U HU f2 Hf2) as V2.
    destruct (load_config fs canon ord1 f1 root) as [c1|e1] eqn:E1, (load_config fs canon ord2 f2 root) as [c2|e2] eqn:E2.
    - destruct (load_ok ord1 H1 U HU f1 c1 E1) as (R1 & S1 & _).
      destruct (load_ok ord2 H2 U HU f2 c2 E2) as (R2 & S2 & _).
      destruct (LoadedSpec_unique _ _ S1 S2) as [Heq Hperm]. split; [congruence|]. split; assumption.
    - assert (G : Good fs canon root /\ NamesInjective) by (apply V1; eauto). apply V2 in G as [c Hc]. discriminate.
    - assert (G : Good fs canon root /\ NamesInjective) by (apply V2; eauto). apply V1 in G as [c Hc]. discriminate.
    - exact I.
  Qed.

  Theorem pinned_order_independent ord1 ord2 U f1 f2 :
    OrderOk ord1 -> OrderOk ord2 -> Covers U -> length U < f1 -> length U < f2 ->
    match load_config_pinned fs canon ord1 f1 root, load_config_pinned fs canon ord2 f2 root with
    | LOk c1, LOk c2 =>
        yc_root c1 = yc_root c2 /\ Permutation (yc_projects c1) (yc_projects c2) /\
        (forall x, vis_get x (yc_projects c1) = vis_get x (yc_projects c2))
    | LErr _, LErr _ => True
    | _, _ => False
    end.
  Proof.
    intros H1 H2 HU Hf1 Hf2.
    pose proof (pinned_verdict ord1 H1 U HU f1 Hf1) as V1. pose proof (pinned_verdict ord2 H2 U HU f2 Hf2) as V2.
    destruct (load_config_pinned fs canon ord1 f1 root) as [c1|e1] eqn:E1,
             (load_config_pinned fs canon ord2 f2 root) as [c2|e2] eqn:E2.
    - destruct (pinned_ok ord1 H1 U HU f1 c1 E1) as (R1 & S1).
      destruct (pinned_ok ord2 H2 U HU f2 c2 E2) as (R2 & S2).
      destruct (LoadedSpec_unique _ _ S1 S2) as [Heq Hperm]. split; [congruence|]. split; assumption.
    - assert (G : Good fs canon root) by (apply V1; eauto). apply V2 in G as [c Hc]. discriminate.
    - assert (G : Good fs canon root) by (apply V2; eauto). apply V1 in G as [c Hc]. discriminate.
    - exact I.
  Qed.

  (* only the root can be unnamed: every other loaded directory was imported by somebody, under its own name *)
  Lemma loaded_unnamed_is_root vis x p :
    LoadedSpec vis -> vis_get x vis = Some p -> yp_name p = None -> x = root.
  Proof.
    intros (Hnd & Hiff & Hcl & _) Hx Hn. destruct (proj1 (Hiff x p) Hx) as [Hr _].
    apply clos_rt_rtn1 in Hr. destruct Hr as [|y z Hyz Hry]; [reflexivity|]. exfalso.
    apply clos_rtn1_rt in Hry. destruct Hyz as (py & nm & rel & Hpy & Hi & Hc).
    assert (Hy : vis_get y vis = Some py) by (apply Hiff; auto).
    destruct (Hcl y py Hy nm rel Hi) as (z' & q & Hc' & Hq & Hnq).
    assert (z' = z) by congruence. subst z'. congruence.
  Qed.

  Lemma loaded_keys_injective vis :
    LoadedSpec vis -> NamesInjective ->
    forall x y p q, vis_get x vis = Some p -> vis_get y vis = Some q -> yp_name p = yp_name q -> x = y.
  Proof.
    intros Hs Hni x y p q Hx Hy Hn. destruct (yp_name p) as [n|] eqn:Ep.
    - destruct Hs as (_ & Hiff & _). apply Hiff in Hx as [Hrx Hpx]. apply Hiff in Hy as [Hry Hpy].
      eapply Hni; eauto.
    - assert (x = root) by (eapply loaded_unnamed_is_root; eauto).
      assert (y = root) by (eapply loaded_unnamed_is_root; eauto). congruence.
  Qed.
End LoadTheorems.

(* "fuel = number of directories": any list holding the root and everything canonicalize can return covers the reachable set *)
Lemma covers_of_range fs canon root U :
  In root U -> (forall d rel y, canon d rel = Some y -> In y U) -> Covers fs canon root U.
Proof.
  intros Hr Hc x Hx. apply clos_rt_rtn1 in Hx. destruct Hx as [|y z (p & nm & rel & _ & _ & Hcz) _]; [exact Hr|].
  eapply Hc; eauto.
Qed.

(* every import key equals the imported project's own name; only the root may be unnamed *)
Lemma load_import_name_checked fs canon root ord U fuel c :
  OrderOk ord -> Covers fs canon root U -> load_config fs canon ord fuel root = LOk c ->
  (forall x p nm rel, vis_get x (yc_projects c) = Some p -> In (nm, rel) (yp_imports p) ->
     exists y q, canon x rel = Some y /\ vis_get y (yc_projects c) = Some q /\ yp_name q = Some nm) /\
  (forall x p, vis_get x (yc_projects c) = Some p -> yp_name p = None -> x = root).
Proof.
  intros Hord HU Hc. destruct (load_ok fs canon root ord Hord U HU fuel c Hc) as (_ & Hs & _). split.
  - intros x p nm rel Hx Hin. destruct Hs as (_ & _ & Hcl & _). exact (Hcl x p Hx nm rel Hin).
  - intros x p Hx Hn. eapply loaded_unnamed_is_root; eauto.
Qed.

(* after FX7: the names of distinct loaded directories are distinct (an absent name counts as a name) *)
Lemma load_names_injective fs canon root ord U fuel c :
  OrderOk ord -> Covers fs canon root U -> load_config fs canon ord fuel root = LOk c ->
  forall x y p q, vis_get x (yc_projects c) = Some p -> vis_get y (yc_projects c) = Some q ->
    yp_name p = yp_name q -> x = y.
Proof.
  intros Hord HU Hc. destruct (load_ok fs canon root ord Hord U HU fuel c Hc) as (_ & Hs & Hni).
  exact (loaded_keys_injective fs canon root (yc_projects c) Hs Hni).
Qed.
