(* Watch mode, part 3: the stuck-freedom theorem without the "nothing failed" hypothesis.  In a state in which nothing can
   happen any more, every requested target is up to date EXCEPT the targets whose own last run failed and those that depend,
   directly or not, on such a target. *)
From Zinoma.Proofs Require Export SysWatchLive2.

(* the last run of a build or service failed and nothing has re-armed it since *)
Definition failed_state (a : astate) : Prop :=
  a_kind a <> AAggregate /\ to_execute a = false /\ ongoing a = false /\ executed a = false.

Lemma forall_or_exists {A} (P Q : A -> Prop) (l : list A) :
  (forall x, x ∈ l -> P x \/ Q x) -> (forall x, x ∈ l -> P x) \/ (exists x, x ∈ l /\ Q x).
Proof.
  induction l as [|y l IH]; intros H; [left; intros x Hx; by apply elem_of_nil in Hx|].
  destruct (H y (elem_of_list_here _ _)) as [Hy|Hy]; [|right; exists y; split; [apply elem_of_list_here|done]].
  destruct (IH (fun x Hx => H x (elem_of_list_further _ _ _ Hx))) as [Hall|(x & Hx & Hq)].
  - left. intros x Hx. apply elem_of_cons in Hx as [->|Hx]; [done|by apply Hall].
  - right. exists x. split; [by apply elem_of_list_further|done].
Qed.

Section wlive3.
  Context (g : graph) (roots : list tid) (w : bool).
  Context (rank : tid -> nat).
  Context (Hclosed : forall t k deps d, g !! t = Some (k, deps) -> d ∈ deps -> is_Some (g !! d)).
  Context (Hrank : forall t k deps d, g !! t = Some (k, deps) -> d ∈ deps -> rank d < rank t).
  Notation wf := (SysInv.wf g).

  (* blocked by a failure: the target's own last run failed, or one of its dependencies is blocked *)
  Inductive blocked_by_failure (s : sys) : tid -> Prop :=
  | bl_failed d ad : actors s !! d = Some ad -> failed_state ad -> blocked_by_failure s d
  | bl_dep d ad x : actors s !! d = Some ad -> x ∈ a_deps ad -> blocked_by_failure s x -> blocked_by_failure s d.

  Section quiet.
    Context (s : sys).
    Context (Hr : reachable true w g roots s) (Hp : ph s = PRun).
    Context (Hq : quiescent true w s = true).

    Let Hwi := winv_reachable g roots w rank Hclosed Hrank s Hr Hp.
    Let Hwf := wf_reachable true w g roots s Hr.

    Lemma wq3_inbox_empty t a : actors s !! t = Some a -> inb (inbox s) t = [].
    Proof.
      intros Ha. unfold inb. destruct (inbox s !! t) as [[|m rest]|] eqn:Hl; try done. exfalso.
      pose proof (quiescent_spec _ _ _ (LDeliver t true) Hq (cand_deliver s t a Ha)) as He.
      cbn in He. rewrite Ha, Hl in He.
      destruct (wi_calm _ _ Hwi t a Ha) as (Hex & _).
      destruct (apply_step_some s t (<[t:=rest]> (inbox s)) (slot s) (termq s) _ (actor_step_msg_some true true a m Hex)) as [x Hx].
      by rewrite Hx in He.
    Qed.

    Lemma wq3_not_ongoing t a : actors s !! t = Some a -> ongoing a = false.
    Proof.
      intros Ha. destruct (ongoing a) eqn:Ho; [|done]. exfalso.
      pose proof (quiescent_spec _ _ _ (LBuildDone t RCompleted) Hq (cand_done s t a Ha)) as He.
      cbn in He. rewrite Ha in He.
      destruct (wi_calm _ _ Hwi t a Ha) as (Hex & _).
      pose proof (bi_kind _ (bal_inv_reachable true g roots w s Hr) t a Ha) as [Hk _].
      destruct (apply_step_some s t (inbox s) (slot s) (termq s) _ (actor_step_done_some true true a Hex (Hk Ho) Ho)) as [x Hx].
      by rewrite Hx in He.
    Qed.

    Definition settled_or_blocked (d : tid) : Prop :=
      blocked_by_failure s d \/ forall ad k, actors s !! d = Some ad -> own ad k -> reqs ad k <> ∅ -> availb ad k = true.

    Lemma all_settled_or_blocked : forall n d, rank d < n -> is_Some (actors s !! d) -> settled_or_blocked d.
    Proof.
      induction n as [|n IH]; intros d Hlt [ad Had]; [lia|].
      destruct (Hwf d ad Had) as [Hid Hg].
      (* every dependency: blocked, or settled *)
      assert (Hdeps : forall x, x ∈ a_deps ad -> settled_or_blocked x).
      { intros x Hx. destruct (Hclosed d _ _ x Hg Hx) as [gx Hgx].
        apply IH; [pose proof (Hrank d _ _ x Hg Hx); lia|by apply (wi_dom _ _ Hwi x (ex_intro _ _ Hgx))]. }
      destruct (forall_or_exists (fun x => forall ax k, actors s !! x = Some ax -> own ax k -> reqs ax k <> ∅ -> availb ax k = true)
                  (blocked_by_failure s) (a_deps ad)) as [Hall|(x & Hx & Hb)].
      { intros x Hx. destruct (Hdeps x Hx) as [?|?]; [by right|by left]. }
      2:{ left. by eapply bl_dep. }
      (* no dependency is blocked: every dependency is recorded as available for every kind that was fanned out *)
      assert (Hdep : forall x k', x ∈ a_deps ad -> fanned ad k' -> x ∉ unav ad k').
      { intros x k' Hx Hf.
        destruct (Hclosed d _ _ x Hg Hx) as [gx Hgx].
        destruct (wi_dom _ _ Hwi x (ex_intro _ _ Hgx)) as [ax Hax].
        assert (Hv : view s d ad k' x = true).
        { destruct (wi_req _ _ Hwi d ad x ax k' Had Hax Hx Hf) as [Hpend|[[Hox HRx]|[Hno Hv]]].
          - rewrite (wq3_inbox_empty x ax Hax) in Hpend. by apply elem_of_nil in Hpend.
          - rewrite (wi_view _ _ Hwi d ad x ax k' Had Hax Hox HRx). apply (Hall x Hx ax k' Hax Hox). set_solver.
          - done. }
        unfold view in Hv. rewrite (wq3_inbox_empty d ad Had) in Hv. cbn in Hv. by apply bool_decide_eq_true in Hv. }
      assert (Hcases : forall k, own ad k -> reqs ad k <> ∅ -> availb ad k = true \/ failed_state ad).
      { intros k Ho Hne. unfold availb, own, fanned, failed_state in *. destruct (a_kind ad) eqn:Hk.
        - subst k.
          assert (HB : unavB ad = ∅).
          { apply set_eq. intros x. split; [|set_solver]. intros Hx. exfalso.
            eapply (Hdep x KB); [by eapply (wi_unavsub _ _ Hwi d ad KB)|done|done]. }
          assert (HS : unavS ad = ∅).
          { apply set_eq. intros x. split; [|set_solver]. intros Hx. exfalso.
            eapply (Hdep x KS); [by eapply (wi_unavsub _ _ Hwi d ad KS)|done|done]. }
          destruct (to_execute ad) eqn:Hte.
          + pose proof (wi_nopend _ _ Hwi d ad Had KB Hk Hte Hne HB HS) as Hon.
            rewrite (wq3_not_ongoing d ad Had) in Hon. done.
          + destruct (executed ad) eqn:Hex; [by left|right]. repeat split; try done. by apply (wq3_not_ongoing d ad).
        - subst k.
          assert (HB : unavB ad = ∅).
          { apply set_eq. intros x. split; [|set_solver]. intros Hx. exfalso.
            eapply (Hdep x KB); [by eapply (wi_unavsub _ _ Hwi d ad KB)|done|done]. }
          assert (HS : unavS ad = ∅).
          { apply set_eq. intros x. split; [|set_solver]. intros Hx. exfalso.
            eapply (Hdep x KS); [by eapply (wi_unavsub _ _ Hwi d ad KS)|done|done]. }
          destruct (to_execute ad) eqn:Hte.
          + pose proof (wi_nopend _ _ Hwi d ad Had KS Hk Hte Hne HB HS) as Hon.
            rewrite (wq3_not_ongoing d ad Had) in Hon. done.
          + destruct (executed ad) eqn:Hex; [by left|right]. repeat split; try done. by apply (wq3_not_ongoing d ad).
        - left. apply set_empty_true. apply set_eq. intros x. split; [|set_solver]. intros Hx. exfalso.
          eapply (Hdep x k); [by eapply (wi_unavsub _ _ Hwi d ad k)|done|done]. }
      (* builds and services own one kind: decide on it; aggregates are never failed *)
      destruct (a_kind ad) eqn:Hk.
      - destruct (decide (reqs ad KB = ∅)) as [He|Hne].
        + right. intros ad' k Had' Ho Hr'. assert (ad' = ad) as -> by congruence. unfold own in Ho. rewrite Hk in Ho. subst k. done.
        + destruct (Hcases KB ltac:(unfold own; by rewrite Hk) Hne) as [Hav|Hf]; [|left; by eapply bl_failed].
          right. intros ad' k Had' Ho _. assert (ad' = ad) as -> by congruence. unfold own in Ho. rewrite Hk in Ho. by subst k.
      - destruct (decide (reqs ad KS = ∅)) as [He|Hne].
        + right. intros ad' k Had' Ho Hr'. assert (ad' = ad) as -> by congruence. unfold own in Ho. rewrite Hk in Ho. subst k. done.
        + destruct (Hcases KS ltac:(unfold own; by rewrite Hk) Hne) as [Hav|Hf]; [|left; by eapply bl_failed].
          right. intros ad' k Had' Ho _. assert (ad' = ad) as -> by congruence. unfold own in Ho. rewrite Hk in Ho. by subst k.
      - right. intros ad' k Had' Ho Hne. assert (ad' = ad) as -> by congruence.
        destruct (Hcases k Ho Hne) as [?|(Hna & _)]; [done|]. by rewrite Hk in Hna.
    Qed.
  End quiet.

  (* Repaired handlers, any mode, every closed acyclic graph, every finite sequence of changes, every interleaving and merge
     order, failures included: in a reachable state inside the root loop in which nothing can happen any more, every requested
     target is up to date, except the targets whose own last run failed and the targets that depend on one (C07: those wait). *)
  Theorem quiescent_up_to_date_or_blocked s :
    reachable true w g roots s -> ph s = PRun -> quiescent true w s = true ->
    forall d ad k, actors s !! d = Some ad -> own ad k -> reqs ad k <> ∅ -> availb ad k = true \/ blocked_by_failure s d.
  Proof.
    intros Hr Hp Hq d ad k Had Ho Hne.
    destruct (all_settled_or_blocked s Hr Hp Hq (S (rank d)) d ltac:(lia) (ex_intro _ _ Had)) as [?|Hs]; [by right|left].
    by apply (Hs ad k).
  Qed.
End wlive3.
