(* Per-step facts about a build actor's "clean" status: its current or last run is still valid (in progress and not re-armed,
   or acknowledged). *)
From Zinoma.Proofs Require Export ActorFacts.

Definition clean (a : astate) : Prop :=
  executed a = true \/ (ongoing a = true /\ to_execute a = false).

Section facts.
  Context (fx ok : bool) (a : astate) (e : event) (a' : astate) (os : list out) (ob : list obs).
  Context (Hstep : actor_step fx ok a e = Some (a', os, ob)).
  Context (Hk : a_kind a <> AAggregate).

  (* a build that was not clean becomes clean only by starting *)
  Lemma step_clean_by_start : ~ clean a -> clean a' -> ObStart (a_id a) ∈ ob.
  Proof using Hstep Hk.
    clear -Hstep Hk. unfold clean. intros Hn Hc. crush_step Hstep; aproj_all; try congruence;
      try solve_elem; exfalso; apply Hn; destruct Hc as [?|[? ?]]; bool_hyps; try congruence; auto.
  Qed.

  (* an out-of-date word (build kind) from a dependency leaves the build re-armed *)
  Lemma step_inval_rearmed d : e = EMsg (MInvalidated KB d) -> to_execute a' = true.
  Proof using Hstep Hk.
    clear -Hstep Hk. intros ->. crush_step Hstep; aproj_all; bool_hyps; try congruence.
    all: exfalso; repeat match goal with H : unavB _ = ∅ |- _ => revert H end; cbn; set_solver.
  Qed.

  (* a clean build has every build-kind dependency recorded as available *)
  Lemma step_clean_unav : (clean a -> unavB a = ∅) -> (executed a = true -> to_execute a = false) -> clean a' -> unavB a' = ∅.
  Proof using Hstep Hk.
    clear -Hstep Hk. unfold clean. intros Hinv Hfok Hc.
    crush_step Hstep; aproj_all; bool_hyps; try congruence; try done;
      try (destruct Hc as [Hc|[Hc1 Hc2]]; try congruence; try (rewrite Hinv by auto; set_solver); fail).
    all: try (destruct k); cbn in *; try (rewrite ?Hinv by tauto; set_solver).
    all: exfalso; destruct Hc as [Hc|[Hc1 Hc2]]; [rewrite (Hfok Hc) in *; congruence|congruence].
  Qed.

  (* a success is observed only at the completion of a run in progress *)
  Lemma step_succ_was_ongoing y : a_kind a = ABuild -> ObSucc y ∈ ob -> ongoing a = true /\ y = a_id a.
  Proof using Hstep.
    clear -Hstep. intros Hk Hin. crush_step Hstep; aproj_all; try congruence; split_elem Hin; try done.
    all: bool_hyps; split; [first [assumption | by destruct (ongoing a)]|done].
  Qed.
End facts.
