(* Every one-shot execution is finite: an explicit potential strictly decreases at every step except the delivery of a
   signal (the environment's move), so the number of steps is bounded by the potential of the initial state. *)
From Zinoma.Proofs Require Export SysSvcKeep Potential AF_failcause.

Definition msum {A} (f : A -> nat) (m : gmap tid A) : nat := map_fold (fun _ x acc => f x + acc) 0 m.
Definition wl (l : list msg) : nat := sum_list_with wmsg l.
Definition phw (p : phase) (n : nat) : nat :=
  match p with PRun => n + 3 | PWaitTerm => n + 2 | PTerminating _ => 1 | PExited _ => 0 end.

Definition Phi (s : sys) : nat :=
  msum pot (actors s) + msum wl (inbox s) + length (rootq s) + size (termq s) + phw (ph s) (size (actors s)).

Lemma msum_empty {A} (f : A -> nat) : msum f ∅ = 0.
Proof. apply map_fold_empty. Qed.

Lemma msum_insert_None {A} (f : A -> nat) m k x : m !! k = None -> msum f (<[k:=x]> m) = f x + msum f m.
Proof. intros Hk. unfold msum. rewrite map_fold_insert_L; [done| |done]. intros. lia. Qed.

Lemma msum_insert_Some {A} (f : A -> nat) m k x y : m !! k = Some x -> msum f (<[k:=y]> m) + f x = f y + msum f m.
Proof.
  intros Hk. rewrite <- (insert_delete_insert m). rewrite msum_insert_None by apply lookup_delete.
  rewrite <- (insert_delete m k x Hk) at 2. rewrite msum_insert_None by apply lookup_delete. lia.
Qed.

Lemma wl_snoc l m : wl (l ++ [m]) = wl l + wmsg m.
Proof. unfold wl. rewrite sum_list_with_app. cbn. lia. Qed.

Lemma push_inbox_sum ib d m : msum wl (push_inbox ib d m) = msum wl ib + wmsg m.
Proof.
  unfold push_inbox. destruct (ib !! d) as [l|] eqn:Hd; cbn.
  - pose proof (msum_insert_Some wl ib d l (l ++ [m]) Hd) as H. rewrite wl_snoc in H. lia.
  - rewrite msum_insert_None by done. cbn. lia.
Qed.

Lemma route_sum os : forall ib rq ib' rq',
  route ib rq os = (ib', rq') -> msum wl ib' + length rq' = msum wl ib + length rq + wouts os.
Proof.
  induction os as [|o os IH]; intros ib rq ib' rq' H; cbn in H.
  - injection H as <- <-. cbn. lia.
  - rewrite wouts_cons. destruct o as [[|d] m|t].
    + apply IH in H. rewrite app_length in H. cbn in *. lia.
    + apply IH in H. rewrite push_inbox_sum in H. cbn. lia.
    + apply IH in H. rewrite app_length in H. cbn in *. lia.
Qed.

Lemma size_remove (X : gset tid) t : t ∈ X -> size (X ∖ {[t]}) + 1 = size X.
Proof.
  intros Hin. rewrite size_difference by set_solver. rewrite size_singleton.
  assert (size X <> 0); [|lia]. intros Hz. apply size_empty_inv in Hz. set_solver.
Qed.

Section bound.
  Context (fx : bool).

  Lemma apply_step_phi s t a e ok ib sl tq s' :
    actors s !! t = Some a -> plain_event e ->
    apply_step s t ib sl tq (actor_step fx ok a e) = Some s' ->
    Phi s' + msum wl (inbox s) + size (termq s) + 1 <= Phi s + msum wl ib + size tq + wev e.
  Proof.
    intros Ha Hp H. unfold apply_step in H.
    destruct (actor_step fx ok a e) as [[[a' os] ob]|] eqn:Hst; [|done].
    destruct (route ib (rootq s) os) as [ib' rq'] eqn:Hr. injection H as <-.
    pose proof (actor_step_pot _ _ _ _ _ _ _ Hst Hp) as Hpot.
    pose proof (route_sum _ _ _ _ _ Hr) as Hrs.
    pose proof (msum_insert_Some pot (actors s) t a a' Ha) as Hms.
    unfold Phi. cbn [upd_actor actors inbox rootq termq ph].
    rewrite (map_size_insert_Some t a' (actors s)) by eauto. lia.
  Qed.

  Definition calm (s : sys) : Prop :=
    slot s = ∅ /\ (forall dst k d, ~ msg_in s dst (MInvalidated k d)) /\ (forall dst k r, ~ msg_in s dst (MUnrequested k r)).

  Lemma wl_mid pre m rest : wl (pre ++ m :: rest) = wl (pre ++ rest) + wmsg m.
  Proof. unfold wl. rewrite !sum_list_with_app. cbn. lia. Qed.

  Lemma root_consume_phi s pre o rest :
    ph s = PRun -> rootq s = pre ++ o :: rest -> Phi (root_consume false s o (pre ++ rest)) + 1 <= Phi s.
  Proof.
    intros Hrun Hq. unfold root_consume.
    assert (Hlen : length (rootq s) = S (length (pre ++ rest))) by (rewrite Hq, !app_length; cbn; lia).
    destruct o as [[|d] [k r|k r|[] t act|k t]|t]; unfold Phi; cbn; rewrite ?Hrun; cbn; rewrite ?size_dom; lia.
  Qed.

  Lemma exec_phi s l s' :
    calm s -> exec fx false s l = Some s' ->
    match l with LSignal => Phi s' = Phi s | _ => Phi s' + 1 <= Phi s end.
  Proof.
    intros (Hslot & Hninv & Hnun) H. destruct l as [t ok|t ok|t|t r| | | | |ts| |t i ok|i]; cbn [exec] in H.
    - destruct (actors s !! t) as [a|] eqn:Ha; [|done].
      destruct (inbox s !! t) as [[|m rest]|] eqn:Hib; try done.
      assert (Hin : msg_in s (ATarget t) m) by (cbn; exists (m :: rest); split; [done|apply elem_of_list_here]).
      assert (Hp : plain_event (EMsg m)).
      { destruct m as [k r|k r|k d act|k d]; cbn; try done; [by eapply Hnun|by eapply Hninv]. }
      pose proof (apply_step_phi _ _ _ _ _ _ _ _ _ Ha Hp H) as Hphi.
      pose proof (msum_insert_Some wl (inbox s) t (m :: rest) rest Hib) as Hms.
      cbn [wev] in Hphi. change (wl (m :: rest)) with (wmsg m + wl rest) in Hms. lia.
    - destruct (actors s !! t) as [a|] eqn:Ha; [|done]. rewrite Hslot in H.
      rewrite bool_decide_eq_false_2 in H by set_solver. done.
    - destruct (actors s !! t) as [a|] eqn:Ha; [|done]. case_bool_decide as Hin; [|done].
      pose proof (apply_step_phi _ _ _ ETerm _ _ _ _ _ Ha I H) as Hphi. cbn [wev] in Hphi.
      pose proof (size_remove _ _ Hin). lia.
    - destruct (actors s !! t) as [a|] eqn:Ha; [|done].
      destruct (match r with RCancelled => cancel_sent a | _ => true end); [|done].
      pose proof (apply_step_phi _ _ _ (EBuildDone r) _ _ _ _ _ Ha I H) as Hphi. cbn [wev] in Hphi. lia.
    - destruct (root_running s && (false || negb (root_sets_empty s))) eqn:Hc; [|done].
      apply andb_true_iff in Hc as [Hrun _]. apply bool_decide_eq_true in Hrun.
      destruct (rootq s) as [|o rest] eqn:Hq; [done|]. injection H as <-.
      by apply (root_consume_phi s [] o rest).
    - destruct (root_running s && negb false && root_sets_empty s) eqn:Hc; [|done].
      apply andb_true_iff in Hc as [Hc _]. apply andb_true_iff in Hc as [Hrun _]. apply bool_decide_eq_true in Hrun.
      destruct (set_empty (r_svc s)); injection H as <-; unfold Phi; cbn; rewrite ?Hrun; cbn; rewrite ?size_dom; lia.
    - destruct (ph s) eqn:Hph; try done; injection H as <-; unfold Phi; cbn; by rewrite Hph.
    - destruct (sigq s && _) eqn:Hc; [|done]. injection H as <-.
      apply andb_true_iff in Hc as [_ Hp]. apply orb_true_iff in Hp.
      unfold Phi. cbn. rewrite size_dom.
      destruct Hp as [Hp|Hp]; apply bool_decide_eq_true in Hp; rewrite Hp; cbn; lia.
    - done.
    - destruct (ph s) eqn:Hph; try done. destruct (all_exited s); [|done]. injection H as <-.
      unfold Phi. cbn. rewrite Hph. cbn. lia.
    - destruct (actors s !! t) as [a|] eqn:Ha; [|done].
      destruct (inbox s !! t) as [l|] eqn:Hib; [|done].
      destruct (pick i l) as [[[pre m] rest]|] eqn:Hpk; [|done]. destruct (none_from _ _ pre); [|done].
      apply pick_spec in Hpk. subst l.
      assert (Hin : msg_in s (ATarget t) m) by (cbn; exists (pre ++ m :: rest); split; [done|apply elem_of_mid]).
      assert (Hp : plain_event (EMsg m)).
      { destruct m as [k r|k r|k d act|k d]; cbn; try done; [by eapply Hnun|by eapply Hninv]. }
      pose proof (apply_step_phi _ _ _ _ _ _ _ _ _ Ha Hp H) as Hphi.
      pose proof (msum_insert_Some wl (inbox s) t (pre ++ m :: rest) (pre ++ rest) Hib) as Hms.
      cbn [wev] in Hphi. rewrite wl_mid in Hms. lia.
    - destruct (root_running s && (false || negb (root_sets_empty s))) eqn:Hc; [|done].
      apply andb_true_iff in Hc as [Hrun _]. apply bool_decide_eq_true in Hrun.
      destruct (pick i (rootq s)) as [[[pre o] rest]|] eqn:Hpk; [|done]. destruct (none_from _ _ pre); [|done].
      injection H as <-. apply pick_spec in Hpk. by apply root_consume_phi.
  Qed.

  (* number of steps other than signal deliveries *)
  Definition internal (ls : list label) : nat :=
    length (List.filter (fun l => match l with LSignal => false | _ => true end) ls).

  Context (g : graph) (roots : list tid).

  Lemma calm_reachable s : reachable fx false g roots s -> calm s.
  Proof.
    intros Hr. pose proof (oneshot_inv_reachable fx g roots s Hr) as Hoi.
    split; [exact (oi_slot _ Hoi)|]. split; [exact (oi_noinv _ Hoi)|].
    exact (no_unreq_reachable fx g roots false s Hr).
  Qed.

  Lemma reachable_step w s l s' : reachable fx w g roots s -> exec fx w s l = Some s' -> reachable fx w g roots s'.
  Proof.
    intros [ls Hls] He. exists (ls ++ [l]). revert Hls. generalize (init_sys g roots).
    induction ls as [|l1 ls IH]; intros s2 H; cbn in *; [injection H as ->; by rewrite He|].
    destruct (exec fx w s2 l1); [by apply IH|done].
  Qed.

  Lemma run_bounded ls : forall s0 s,
    reachable fx false g roots s0 -> run_labels fx false s0 ls = Some s -> internal ls + Phi s <= Phi s0.
  Proof.
    induction ls as [|l ls IH]; intros s0 s Hr H; cbn in H.
    - injection H as <-. cbn. lia.
    - destruct (exec fx false s0 l) as [s1|] eqn:He; [|done].
      pose proof (exec_phi s0 l s1 (calm_reachable s0 Hr) He) as Hphi.
      specialize (IH s1 s (reachable_step false s0 l s1 Hr He) H).
      unfold internal in *. destruct l; cbn [List.filter length]; lia.
  Qed.

  (* every execution of a one-shot run, under every interleaving and with any number of signals, failures and spawn errors,
     makes at most Phi(init) steps besides signal deliveries *)
  Theorem oneshot_bounded ls s :
    run_labels fx false (init_sys g roots) ls = Some s -> internal ls + Phi s <= Phi (init_sys g roots).
  Proof. apply run_bounded. by exists []. Qed.
End bound.

(* ---- the bound in closed form ---- *)

Definition edges (g : graph) : nat := msum (fun kd : akind * list tid => length (snd kd)) g.

Lemma pot_init t k deps : pot (init_actor t k deps) <= 8 * length deps + 2.
Proof.
  unfold pot, potB, potS, potA, fan, init_actor. cbn.
  assert (He : forall A `{Countable A}, set_empty (∅ : gset A) = true) by (intros; by apply set_empty_true).
  rewrite !He. rewrite !size_empty. destruct k; cbn; unfold RW.
  - lia.
  - lia.
  - destruct (set_empty (list_to_set deps : gset tid)); cbn; lia.
Qed.

Lemma edges_insert (g : graph) t k deps : g !! t = None -> edges (<[t:=(k, deps)]> g) = length deps + edges g.
Proof. unfold graph in *. intros Hg. unfold edges. by rewrite msum_insert_None. Qed.

Lemma init_actors_sum (g : graph) :
  msum pot (map_imap (fun t '(k, deps) => Some (init_actor t k deps)) g) <= 8 * edges g + 2 * size g
  /\ size (map_imap (fun t '(k, deps) => Some (init_actor t k deps)) g) = size g.
Proof.
  induction g as [|t [k deps] g Hg [IH1 IH2]] using map_ind.
  - rewrite map_imap_empty. unfold edges. rewrite !msum_empty, ?map_size_empty. split; [lia|]. symmetry. apply map_size_empty.
  - rewrite (map_imap_insert_Some _ t (k, deps) g (init_actor t k deps)) by done.
    assert (Hn : map_imap (fun t '(k, deps) => Some (init_actor t k deps)) g !! t = None).
    { rewrite map_lookup_imap, Hg. done. }
    rewrite msum_insert_None by done. pose proof (edges_insert g t k deps Hg) as He.
    pose proof (map_size_insert_None t (k, deps) g Hg) as Hs1. pose proof (map_size_insert_None t (init_actor t k deps) _ Hn) as Hs2.
    pose proof (pot_init t k deps). unfold graph in *. split; [lia|congruence].
Qed.

Lemma init_inbox_sum roots : msum wl (init_inbox roots) = 8 * length roots.
Proof.
  unfold init_inbox.
  assert (Hgen : forall rs ib,
            msum wl (foldl (fun ib r => push_inbox (push_inbox ib r (MRequested KB ARoot)) r (MRequested KS ARoot)) ib rs)
            = msum wl ib + 8 * length rs).
  { induction rs as [|r rs IH]; intros ib; cbn [foldl length]; [lia|].
    rewrite IH, !push_inbox_sum. cbn. unfold RW. lia. }
  rewrite Hgen, msum_empty. lia.
Qed.

Lemma Phi_init g roots : Phi (init_sys g roots) <= 8 * edges g + 3 * size g + 8 * length roots + 3.
Proof.
  unfold Phi, init_sys. cbn [actors inbox rootq termq ph phw length].
  destruct (init_actors_sum g) as [H1 H2]. rewrite H2, init_inbox_sum, size_empty. lia.
Qed.

(* Every one-shot execution — any graph, any requested list, any interleaving, any number of signals, script failures and
   spawn errors, pinned or repaired handlers — makes at most 8·(dependency edges) + 3·(targets) + 8·(requested ids) + 3
   steps besides signal deliveries.  In particular there is no infinite one-shot execution: zinoma cannot livelock. *)
Theorem oneshot_steps_bounded fx g roots ls s :
  run_labels fx false (init_sys g roots) ls = Some s ->
  internal ls <= 8 * edges g + 3 * size g + 8 * length roots + 3.
Proof.
  intros H. pose proof (oneshot_bounded fx g roots ls s H). pose proof (Phi_init g roots). lia.
Qed.

(* ... and from every reachable state some continuation reaches a state in which nothing can happen any more; since every
   continuation is bounded (above), EVERY way of continuing does, after at most Phi(s) further steps *)
Lemma signal_not_candidate s : LSignal ∉ candidate_labels s.
Proof.
  unfold candidate_labels. intros Hin. apply elem_of_app in Hin as [Hin|Hin].
  - apply elem_of_list_bind in Hin as (t & Hin & _). repeat (apply elem_of_cons in Hin as [Hin|Hin]; [done|]). by apply elem_of_nil in Hin.
  - repeat (apply elem_of_cons in Hin as [Hin|Hin]; [done|]). by apply elem_of_nil in Hin.
Qed.

(* steps in which no script fails and no spawn fails add no failure to the history *)
Definition benign (l : label) : Prop :=
  match l with
  | LDeliver _ ok | LInval _ ok | LDeliverAt _ _ ok => ok = true
  | LBuildDone _ r => r <> RFailed
  | _ => True
  end.

Lemma candidate_benign s l : l ∈ candidate_labels s -> benign l.
Proof.
  unfold candidate_labels. intros Hin. apply elem_of_app in Hin as [Hin|Hin].
  - apply elem_of_list_bind in Hin as (t & Hin & _).
    repeat (apply elem_of_cons in Hin as [->|Hin]; [done|]). by apply elem_of_nil in Hin.
  - repeat (apply elem_of_cons in Hin as [->|Hin]; [done|]). by apply elem_of_nil in Hin.
Qed.

Lemma apply_step_hist fx ok s t a e ib sl tq s' :
  apply_step s t ib sl tq (actor_step fx ok a e) = Some s' ->
  exists a' os ob, actor_step fx ok a e = Some (a', os, ob) /\ hist s' = hist s ++ ob.
Proof.
  unfold apply_step. destruct (actor_step fx ok a e) as [[[a' os] ob]|]; [|done].
  destruct (route ib (rootq s) os). intros [= <-]. by exists a', os, ob.
Qed.

Lemma exec_benign fx w s l s' x : exec fx w s l = Some s' -> benign l -> ObFail x ∈ hist s' -> ObFail x ∈ hist s.
Proof.
  intros H Hb Hin.
  assert (Hact : forall ok t a e ib sl tq, apply_step s t ib sl tq (actor_step fx ok a e) = Some s' ->
                   ok = true -> e <> EBuildDone RFailed -> ObFail x ∈ hist s).
  { intros ok t a e ib sl tq Ha -> Hne. destruct (apply_step_hist _ _ _ _ _ _ _ _ _ _ Ha) as (a' & os & ob & Hst & Hh).
    rewrite Hh in Hin. apply elem_of_app in Hin as [?|Hin]; [done|].
    destruct (step_fail_cause _ _ _ _ _ _ _ Hst x Hin); done. }
  assert (Hroot : forall o rest, hist (root_consume w s o rest) = hist s).
  { intros o rest. unfold root_consume. destruct w; [done|]. by destruct o as [[|d] [k r|k r|[] t act|k t]|t]. }
  destruct l as [t ok|t ok|t|t r| | | | |ts| |t i ok|i]; cbn [exec benign] in *.
  - destruct (actors s !! t); [|done]. destruct (inbox s !! t) as [[|m rest]|]; try done. by eapply Hact.
  - destruct (actors s !! t); [|done]. case_bool_decide; [|done]. by eapply Hact.
  - destruct (actors s !! t); [|done]. case_bool_decide; [|done]. by eapply Hact.
  - destruct (actors s !! t) as [a|]; [|done]. destruct (match r with RCancelled => cancel_sent a | _ => true end); [|done].
    eapply Hact; [done|done|]. intros [= ->]. done.
  - destruct (root_running s && _); [|done]. destruct (rootq s) as [|o rest]; [done|].
    injection H as <-. by rewrite Hroot in Hin.
  - destruct (root_running s && negb w && root_sets_empty s); [|done].
    destruct (set_empty (r_svc s)); injection H as <-; exact Hin.
  - destruct (ph s); try done; injection H as <-; exact Hin.
  - destruct (sigq s && _); [|done]. injection H as <-. exact Hin.
  - destruct (w && _); [|done]. injection H as <-. exact Hin.
  - destruct (ph s); try done. destruct (all_exited s); [|done]. injection H as <-. exact Hin.
  - destruct (actors s !! t); [|done]. destruct (inbox s !! t) as [l|]; [|done].
    destruct (pick i l) as [[[pre m] rest]|]; [|done]. destruct (none_from _ _ pre); [|done]. by eapply Hact.
  - destruct (root_running s && _); [|done]. destruct (pick i (rootq s)) as [[[pre o] rest]|]; [|done].
    destruct (none_from _ _ pre); [|done]. injection H as <-. by rewrite Hroot in Hin.
Qed.

Lemma reach_quiescent fx g roots : forall n s,
  reachable fx false g roots s -> Phi s <= n ->
  exists ls s', run_labels fx false s ls = Some s' /\ quiescent fx false s' = true /\ length ls <= Phi s
                /\ (forall x, ObFail x ∈ hist s' -> ObFail x ∈ hist s).
Proof.
  induction n as [|n IH]; intros s Hr Hn.
  - exists [], s. split; [done|]. split; [|cbn; split; [lia|done]].
    unfold quiescent. destruct (enabled fx false s) as [|l rest] eqn:He; [done|]. exfalso.
    assert (Hl : l ∈ enabled fx false s) by (rewrite He; apply elem_of_list_here).
    unfold enabled in Hl. apply elem_of_list_filter in Hl as [Hex Hc]. apply bool_decide_unpack in Hex as [s1 Hs1].
    pose proof (exec_phi fx s l s1 (calm_reachable fx g roots s Hr) Hs1) as Hphi.
    destruct l; try lia. by apply signal_not_candidate in Hc.
  - destruct (enabled fx false s) as [|l rest] eqn:He.
    + exists [], s. split; [done|]. split; [|cbn; split; [lia|done]]. unfold quiescent. by rewrite He.
    + assert (Hl : l ∈ enabled fx false s) by (rewrite He; apply elem_of_list_here).
      unfold enabled in Hl. apply elem_of_list_filter in Hl as [Hex Hc]. apply bool_decide_unpack in Hex as [s1 Hs1].
      pose proof (exec_phi fx s l s1 (calm_reachable fx g roots s Hr) Hs1) as Hphi.
      assert (Hlt : Phi s1 + 1 <= Phi s) by (destruct l; try lia; by apply signal_not_candidate in Hc).
      destruct (IH s1 (reachable_step fx g roots false s l s1 Hr Hs1) ltac:(lia)) as (ls & s' & Hrun & Hq & Hlen & Hnf).
      exists (l :: ls), s'. split; [cbn; by rewrite Hs1|]. split; [done|]. split; [cbn; lia|].
      intros x Hx. eapply (exec_benign fx false s l s1 x Hs1 (candidate_benign s l Hc)). by apply Hnf.
Qed.

(* ---- shutdown completes ---- *)
Lemma apply_step_ph s t ib sl tq r s' : apply_step s t ib sl tq r = Some s' -> ph s' = ph s.
Proof.
  unfold apply_step. destruct r as [[[a' os] ob]|]; [|done]. destruct (route ib (rootq s) os). by intros [= <-].
Qed.

Definition finishing (st : status) (s : sys) : Prop := ph s = PTerminating st \/ ph s = PExited st.

Lemma exec_finishing fx w s l s' st : exec fx w s l = Some s' -> finishing st s -> finishing st s'.
Proof.
  unfold finishing. intros H Hf. destruct l as [t ok|t ok|t|t r| | | | |ts| |t i ok|i]; cbn [exec] in H.
  - destruct (actors s !! t); [|done]. destruct (inbox s !! t) as [[|m rest]|]; try done.
    by rewrite (apply_step_ph _ _ _ _ _ _ _ H).
  - destruct (actors s !! t); [|done]. case_bool_decide; [|done]. by rewrite (apply_step_ph _ _ _ _ _ _ _ H).
  - destruct (actors s !! t); [|done]. case_bool_decide; [|done]. by rewrite (apply_step_ph _ _ _ _ _ _ _ H).
  - destruct (actors s !! t) as [a|]; [|done]. destruct (match r with RCancelled => cancel_sent a | _ => true end); [|done].
    by rewrite (apply_step_ph _ _ _ _ _ _ _ H).
  - destruct (root_running s) eqn:Hrr; [|done]. unfold root_running in Hrr. apply bool_decide_eq_true in Hrr. rewrite Hrr in Hf. by destruct Hf.
  - destruct (root_running s) eqn:Hrr; [|done]. unfold root_running in Hrr. apply bool_decide_eq_true in Hrr. rewrite Hrr in Hf. by destruct Hf.
  - destruct (ph s) eqn:Hp; try done; injection H as <-; cbn; exact Hf.
  - destruct (sigq s); [|done]. cbn in H.
    destruct Hf as [Hp|Hp]; rewrite Hp in H; rewrite !bool_decide_eq_false_2 in H by done; done.
  - destruct (w && _); [|done]. by injection H as <-.
  - destruct Hf as [Hp|Hp]; rewrite Hp in H; [|done]. destruct (all_exited s); [|done]. injection H as <-. by right.
  - destruct (actors s !! t); [|done]. destruct (inbox s !! t) as [l|]; [|done].
    destruct (pick i l) as [[[pre m] rest]|]; [|done]. destruct (none_from _ _ pre); [|done].
    by rewrite (apply_step_ph _ _ _ _ _ _ _ H).
  - destruct (root_running s) eqn:Hrr; [|done]. unfold root_running in Hrr. apply bool_decide_eq_true in Hrr. rewrite Hrr in Hf. by destruct Hf.
Qed.

Lemma run_finishing fx w st ls : forall s s', run_labels fx w s ls = Some s' -> finishing st s -> finishing st s'.
Proof.
  induction ls as [|l ls IH]; intros s s' H Hf; cbn in H; [by injection H as <-|].
  destruct (exec fx w s l) as [s1|] eqn:He; [|done]. eapply IH; [done|]. by eapply exec_finishing.
Qed.

Lemma reachable_run fx w g roots ls : forall s s',
  reachable fx w g roots s -> run_labels fx w s ls = Some s' -> reachable fx w g roots s'.
Proof.
  induction ls as [|l ls IH]; intros s s' Hr H; cbn in H; [by injection H as <-|].
  destruct (exec fx w s l) as [s1|] eqn:He; [|done]. eapply IH; [|done]. by eapply reachable_step.
Qed.

(* one-shot: once termination has begun (failure, normal end, or signal), some continuation of at most Phi(s) steps ends in
   the exited state with the same status; and no continuation is longer than Phi(s) (run_bounded) *)
Theorem shutdown_completes fx g roots s st :
  reachable fx false g roots s -> ph s = PTerminating st ->
  exists ls s', run_labels fx false s ls = Some s' /\ ph s' = PExited st /\ length ls <= Phi s.
Proof.
  intros Hr Hp. destruct (reach_quiescent fx g roots (Phi s) s Hr ltac:(lia)) as (ls & s' & Hrun & Hq & Hlen & _).
  exists ls, s'. split; [done|]. split; [|done].
  destruct (run_finishing fx false st ls s s' Hrun (or_introl Hp)) as [Hp'|Hp']; [|done].
  pose proof (shutdown_never_stuck fx false g roots s' st (reachable_run fx false g roots ls s s' Hr Hrun) Hp') as Hns.
  congruence.
Qed.

(* C04, the whole statement for the model: with the repaired handlers, for every closed acyclic graph, from every reachable
   state of a one-shot run in which no script has failed, SOME continuation in which no script fails — of at most Phi(s)
   steps — ends with zinoma exited or kept alive by a requested service; and EVERY continuation stops within Phi(s) steps
   (run_bounded), so that is where every fair run ends up. *)
Theorem oneshot_terminates (g : graph) (roots : list tid) (rank : tid -> nat) s :
  (forall t k deps d, g !! t = Some (k, deps) -> d ∈ deps -> is_Some (g !! d)) ->
  (forall r, r ∈ roots -> is_Some (g !! r)) ->
  (forall t k deps d, g !! t = Some (k, deps) -> d ∈ deps -> rank d < rank t) ->
  reachable true false g roots s -> (forall t, ObFail t ∉ hist s) ->
  exists ls s', run_labels true false s ls = Some s' /\ length ls <= Phi s /\
                (ph s' = PWaitTerm \/ exists st, ph s' = PExited st).
Proof.
  intros Hc Hro Hrk Hr Hnf.
  destruct (reach_quiescent true g roots (Phi s) s Hr ltac:(lia)) as (ls & s' & Hrun & Hq & Hlen & Hnf').
  exists ls, s'. split; [done|]. split; [done|].
  apply (quiescent_done g roots rank s' Hc Hro Hrk (reachable_run true false g roots ls s s' Hr Hrun) Hq).
  intros t Hin. by eapply Hnf, Hnf'.
Qed.
