(* Watch mode, part 4: no detected change is absorbed at the engine level.  After a change notice for a requested target,
   in whatever way the run continues, if it reaches a state in which nothing can happen any more and nothing is failed, an
   execution of that target has STARTED AFTER the notice. *)
From Zinoma.Proofs Require Export SysWatchLive3 AF_started.

(* one step, seen from the change slot and the history *)
Lemma exec_slot_hist fx w s l s' :
  exec fx w s l = Some s' ->
  (exists t a e ok a' os ob, actors s !! t = Some a /\ actor_step fx ok a e = Some (a', os, ob) /\
      actors s' = <[t := a']> (actors s) /\ hist s' = hist s ++ ob /\
      (forall x, x ∈ slot s -> x ∈ slot s' \/ (x = t /\ e = EInval))) \/
  (actors s' = actors s /\ hist s' = hist s /\ (forall x, x ∈ slot s -> x ∈ slot s')).
Proof.
  assert (Happ : forall t a e ok ib sl tq, actors s !! t = Some a ->
            apply_step s t ib sl tq (actor_step fx ok a e) = Some s' ->
            (forall x, x ∈ slot s -> x ∈ sl \/ (x = t /\ e = EInval)) ->
            exists t a e ok a' os ob, actors s !! t = Some a /\ actor_step fx ok a e = Some (a', os, ob) /\
              actors s' = <[t := a']> (actors s) /\ hist s' = hist s ++ ob /\
              (forall x, x ∈ slot s -> x ∈ slot s' \/ (x = t /\ e = EInval))).
  { intros t a e ok ib sl tq Ha H Hsl. unfold apply_step in H.
    destruct (actor_step fx ok a e) as [[[a' os] ob]|] eqn:Hst; [|done].
    destruct (route ib (rootq s) os) as [ib' rq']. injection H as <-. exists t, a, e, ok, a', os, ob. cbn. done. }
  assert (Hroot : forall o rest, actors (root_consume w s o rest) = actors s /\ hist (root_consume w s o rest) = hist s /\
            slot (root_consume w s o rest) = slot s).
  { intros o rest. unfold root_consume. destruct w; [done|]. by destruct o as [[|d] [k r|k r|[] t act|k t]|t]. }
  destruct l as [t ok|t ok|t|t r| | | | |ts| |t i ok|i]; cbn [exec]; intros H.
  - destruct (actors s !! t) as [a|] eqn:Ha; [|done]. destruct (inbox s !! t) as [[|m rest]|]; try done.
    left. eapply Happ; [done|done|]. intros x Hx. by left.
  - destruct (actors s !! t) as [a|] eqn:Ha; [|done]. case_bool_decide; [|done].
    left. eapply Happ; [done|done|]. intros x Hx. destruct (decide (x = t)) as [->|Hne]; [by right|left; set_solver].
  - destruct (actors s !! t) as [a|] eqn:Ha; [|done]. case_bool_decide; [|done].
    left. eapply Happ; [done|done|]. intros x Hx. by left.
  - destruct (actors s !! t) as [a|] eqn:Ha; [|done]. destruct (match r with RCancelled => cancel_sent a | _ => true end); [|done].
    left. eapply Happ; [done|done|]. intros x Hx. by left.
  - destruct (root_running s && _); [|done]. destruct (rootq s) as [|o rest]; [done|]. injection H as <-.
    right. destruct (Hroot o rest) as (H1 & H2 & H3). rewrite H3. done.
  - destruct (root_running s && negb w && root_sets_empty s); [|done].
    destruct (set_empty (r_svc s)); injection H as <-; right; done.
  - destruct (ph s); try done; injection H as <-; right; done.
  - destruct (sigq s && _); [|done]. injection H as <-. right. done.
  - destruct (w && _); [|done]. injection H as <-. right. cbn. repeat split; try done. intros x Hx. set_solver.
  - destruct (ph s); try done. destruct (all_exited s); [|done]. injection H as <-. right. done.
  - destruct (actors s !! t) as [a|] eqn:Ha; [|done]. destruct (inbox s !! t) as [l|]; [|done].
    destruct (pick i l) as [[[pre m] rest]|]; [|done]. destruct (none_from _ _ pre); [|done].
    left. eapply Happ; [done|done|]. intros x Hx. by left.
  - destruct (root_running s && _); [|done]. destruct (pick i (rootq s)) as [[[pre o] rest]|]; [|done].
    destruct (none_from _ _ pre); [|done]. injection H as <-.
    right. destruct (Hroot o (pre ++ rest)) as (H1 & H2 & H3). rewrite H3. done.
Qed.

Section wlive4.
  Context (g : graph) (roots : list tid) (w : bool).
  Context (rank : tid -> nat).
  Context (Hclosed : forall t k deps d, g !! t = Some (k, deps) -> d ∈ deps -> is_Some (g !! d)).
  Context (Hrank : forall t k deps d, g !! t = Some (k, deps) -> d ∈ deps -> rank d < rank t).

  (* since the state s1: t has started, or its notice is still pending, or it is due to run *)
  Definition rebuild_pending (s1 s : sys) (t : tid) : Prop :=
    exists h', hist s = hist s1 ++ h' /\
      (ObStart t ∈ h' \/ t ∈ slot s \/ exists a, actors s !! t = Some a /\ to_execute a = true).

  Lemma rebuild_pending_step s1 s l s' t :
    reachable true w g roots s -> exec true w s l = Some s' -> rebuild_pending s1 s t -> rebuild_pending s1 s' t.
  Proof.
    intros Hr He (h' & Hh & Hcase).
    pose proof (wf_reachable true w g roots s Hr) as Hwf.
    destruct (exec_slot_hist _ _ _ _ _ He) as [(t0 & a & e & ok & a' & os & ob & Ha & Hst & Hact & Hh' & Hsl)|(Hact & Hh' & Hsl)].
    - destruct (Hwf t0 a Ha) as [Hid _].
      exists (h' ++ ob). split; [by rewrite Hh', Hh, app_assoc|].
      destruct Hcase as [Hs|[Hin|(a0 & Ha0 & Hte)]].
      + left. apply elem_of_app. by left.
      + destruct (Hsl t Hin) as [?|[-> ->]]; [right; by left|].
        destruct (step_inval_pending _ _ _ _ _ _ _ Hst eq_refl) as [Hte|Hs].
        * right. right. exists a'. split; [by rewrite Hact, lookup_insert|done].
        * left. apply elem_of_app. right. by rewrite <- Hid.
      + destruct (decide (t = t0)) as [->|Hne].
        * assert (a0 = a) as -> by congruence.
          destruct (to_execute a') eqn:Hte'.
          -- right. right. exists a'. split; [by rewrite Hact, lookup_insert|done].
          -- left. apply elem_of_app. right. rewrite <- Hid. by eapply (step_cleared_by_start _ _ _ _ _ _ _ Hst).
        * right. right. exists a0. split; [by rewrite Hact, lookup_insert_ne|done].
    - exists h'. split; [by rewrite Hh'|].
      destruct Hcase as [Hs|[Hin|(a0 & Ha0 & Hte)]]; [by left|right; left; by apply Hsl|right; right; exists a0; by rewrite Hact].
  Qed.

  Lemma rebuild_pending_run s1 t ls : forall s s',
    reachable true w g roots s -> run_labels true w s ls = Some s' -> rebuild_pending s1 s t -> rebuild_pending s1 s' t.
  Proof.
    induction ls as [|l ls IH]; intros s s' Hr H Hp; cbn in H; [by injection H as <-|].
    destruct (exec true w s l) as [s2|] eqn:He; [|done].
    eapply IH; [by eapply reachable_step|done|by eapply rebuild_pending_step].
  Qed.

  (* Repaired handlers, every closed acyclic graph, every interleaving.  s1: a reachable state in which a change notice for
     the build or service t is pending (the watcher has reported a change of one of its declared inputs).  However the run
     continues from there — further changes, other targets, failures elsewhere — if it reaches a state s2 in which nothing can
     happen any more, nothing is failed, and t is requested, then the history contains a start of t AFTER s1. *)
  Theorem detected_change_is_rebuilt s1 ls s2 t a2 k :
    reachable true w g roots s1 -> t ∈ slot s1 ->
    run_labels true w s1 ls = Some s2 ->
    ph s2 = PRun -> quiescent true w s2 = true -> none_failed s2 ->
    actors s2 !! t = Some a2 -> a_kind a2 <> AAggregate -> own a2 k -> reqs a2 k <> ∅ ->
    exists h', hist s2 = hist s1 ++ h' /\ ObStart t ∈ h'.
  Proof.
    intros Hr1 Hin Hrun Hp Hq Hnf Ha2 Hna Ho Hne.
    assert (Hp1 : rebuild_pending s1 s1 t) by (exists []; split; [by rewrite app_nil_r|right; by left]).
    destruct (rebuild_pending_run s1 t ls s1 s2 Hr1 Hrun Hp1) as (h' & Hh & Hcase).
    exists h'. split; [done|].
    pose proof (reachable_run true w g roots ls s1 s2 Hr1 Hrun) as Hr2.
    pose proof (winv_reachable g roots w rank Hclosed Hrank s2 Hr2 Hp) as Hwi.
    destruct Hcase as [?|[Hsl|(a & Ha & Hte)]]; [done| |]; exfalso.
    - (* the notice would be consumed: the state is not quiescent *)
      pose proof (quiescent_spec _ _ _ (LInval t true) Hq) as He.
      assert (Hc : LInval t true ∈ candidate_labels s2).
      { eapply candidate_actor; [done|]. apply elem_of_list_further, elem_of_list_here. }
      specialize (He Hc). cbn in He. rewrite Ha2 in He. rewrite bool_decide_eq_true_2 in He by done.
      destruct (wi_calm _ _ Hwi t a2 Ha2) as (Hex & _).
      destruct (apply_step_some s2 t (inbox s2) (slot s2 ∖ {[t]}) (termq s2) _ (actor_step_inval_some true true a2 Hex Hna)) as [x Hx].
      by rewrite Hx in He.
    - (* due to run: but everything requested is up to date, and what is up to date is not due *)
      assert (a = a2) as -> by congruence.
      pose proof (quiescent_up_to_date g roots w rank Hclosed Hrank s2 Hr2 Hp Hq Hnf t a2 k Ha2 Ho Hne) as Hav.
      unfold availb in Hav. destruct (a_kind a2) eqn:Hk; [| |done].
      + destruct (wi_flags _ _ Hwi t a2 Ha2) as [Hfok _]. rewrite (Hfok Hav) in Hte. done.
      + destruct (wi_flags _ _ Hwi t a2 Ha2) as [Hfok _]. rewrite (Hfok Hav) in Hte. done.
  Qed.
End wlive4.
