(* Keys of the recorded maps: `PathBuf` keys are equal when their components are (Model/Codec.v path_eqb); facts about the
   association lists that stand for HashMaps, for any key equality induced by a key function. *)
From Zinoma.Model Require Import Bytes Codec.
From Zinoma.Proofs Require Import Bytes.
From Coq Require Import Lia.

Definition pkey (p : bytes) : bool * list bytes := (is_abs p, components p).
Definition ckey (k : bytes * bytes) : bytes * (bool * list bytes) := (fst k, pkey (snd k)).

Lemma lbeq_eq a b : lbeq a b = true <-> a = b.
Proof.
  revert b. induction a as [|x a IH]; intros [|y b]; cbn [lbeq]; split; intro H; try reflexivity; try discriminate.
  - apply andb_true_iff in H as [H1 H2]. apply beq_eq in H1. apply IH in H2. congruence.
  - injection H as -> ->. rewrite beq_refl. cbn. now apply IH.
Qed.

Lemma path_eqb_spec a b : path_eqb a b = true <-> pkey a = pkey b.
Proof.
  unfold path_eqb, pkey. rewrite andb_true_iff, Bool.eqb_true_iff, lbeq_eq. split.
  - intros [-> ->]. reflexivity.
  - intros [= -> ->]. now split.
Qed.

Lemma ckey_eqb_spec a b : ckey_eqb a b = true <-> ckey a = ckey b.
Proof.
  destruct a as [c d], b as [c' d']. unfold ckey_eqb, ckey. cbn [fst snd].
  rewrite andb_true_iff, beq_eq, path_eqb_spec. split.
  - intros [H1 H2]. congruence.
  - unfold pkey. intros H. injection H as H1 H2 H3. split; congruence.
Qed.

Lemma NoDup_snoc {A} (l : list A) x : NoDup l -> ~ In x l -> NoDup (l ++ [x]).
Proof.
  induction l as [|y l IH]; intros Hnd Hni; cbn [app].
  - constructor; [intros [] | constructor].
  - apply NoDup_cons_iff in Hnd as [Hy Hnd]. constructor.
    + intros Hin. apply in_app_or in Hin as [Hin | [<- | []]]; [now apply Hy | apply Hni; now left].
    + apply IH; [exact Hnd | intros Hin; apply Hni; now right].
Qed.

Section KeyedMap.
  Context {K K' V : Type} (keq : K -> K -> bool) (key : K -> K').
  Hypothesis keq_spec : forall a b, keq a b = true <-> key a = key b.

  Definition keys (m : list (K * V)) : list K' := map (fun kv => key (fst kv)) m.

  Lemma keq_refl a : keq a a = true.
  Proof. now apply keq_spec. Qed.

  Lemma keq_false a b : keq a b = false <-> key a <> key b.
  Proof. rewrite <- keq_spec. destruct (keq a b); split; congruence. Qed.

  Lemma alookup_some k (m : list (K * V)) v :
    alookup keq k m = Some v -> exists k', In (k', v) m /\ key k = key k'.
  Proof.
    induction m as [|[k' v'] m IH]; cbn [alookup]; [discriminate|].
    destruct (keq k k') eqn:E.
    - intros [= <-]. exists k'. split; [now left | now apply keq_spec].
    - intros H. destruct (IH H) as [k'' [Hin Hk]]. exists k''. split; [now right | exact Hk].
  Qed.

  Lemma alookup_none k (m : list (K * V)) :
    alookup keq k m = None <-> ~ In (key k) (keys m).
  Proof.
    induction m as [|[k' v'] m IH]; cbn [alookup keys map fst]; [tauto|].
    destruct (keq k k') eqn:E.
    - split; [discriminate|]. intros H. exfalso. apply H. left. symmetry. now apply keq_spec.
    - rewrite IH. apply keq_false in E. cbn [In]. split; [intros H [H1|H1]; [congruence | tauto] | tauto].
  Qed.

  (* a map holds each key once: then membership determines the lookup *)
  Lemma alookup_in k0 k v (m : list (K * V)) :
    NoDup (keys m) -> In (k, v) m -> key k0 = key k -> alookup keq k0 m = Some v.
  Proof.
    induction m as [|[k' v'] m IH]; intros Hnd Hin Hk; [destruct Hin|].
    cbn [keys map fst] in Hnd. apply NoDup_cons_iff in Hnd as [Hni Hnd]. cbn [alookup].
    destruct Hin as [[= -> ->] | Hin].
    - replace (keq k0 k) with true by (symmetry; now apply keq_spec). reflexivity.
    - destruct (keq k0 k') eqn:E.
      + exfalso. apply Hni. apply keq_spec in E. rewrite <- E, Hk.
        change (key k) with ((fun kv : K * V => key (fst kv)) (k, v)). now apply in_map.
      + now apply IH.
  Qed.

  Lemma alookup_ainsert k0 k v (m : list (K * V)) :
    alookup keq k0 (ainsert keq k v m) = if keq k0 k then Some v else alookup keq k0 m.
  Proof.
    induction m as [|[k' v'] m IH]; cbn [ainsert alookup]; [reflexivity|].
    destruct (keq k k') eqn:E1; cbn [alookup].
    - apply keq_spec in E1. destruct (keq k0 k') eqn:E2.
      + apply keq_spec in E2. replace (keq k0 k) with true by (symmetry; apply keq_spec; congruence). reflexivity.
      + apply keq_false in E2. replace (keq k0 k) with false by (symmetry; apply keq_false; congruence). reflexivity.
    - apply keq_false in E1. destruct (keq k0 k') eqn:E2.
      + apply keq_spec in E2. replace (keq k0 k) with false by (symmetry; apply keq_false; congruence). reflexivity.
      + exact IH.
  Qed.

  Lemma keys_ainsert k v (m : list (K * V)) :
    keys (ainsert keq k v m) = if existsb (fun kv => keq k (fst kv)) m then keys m else keys m ++ [key k].
  Proof.
    induction m as [|[k' v'] m IH]; cbn [ainsert existsb keys map fst app]; [reflexivity|].
    destruct (keq k k') eqn:E; cbn [orb keys map fst].
    - reflexivity.
    - fold (keys (ainsert keq k v m)). rewrite IH. fold (keys m).
      destruct (existsb (fun kv => keq k (fst kv)) m); reflexivity.
  Qed.

  Lemma existsb_keq_in k (m : list (K * V)) :
    existsb (fun kv => keq k (fst kv)) m = false -> ~ In (key k) (keys m).
  Proof.
    induction m as [|[k' v'] m IH]; cbn [existsb keys map fst In]; [tauto|].
    intros H. apply orb_false_iff in H as [H1 H2]. apply keq_false in H1. intros [H|H]; [congruence | now apply IH].
  Qed.

  Lemma ainsert_nodup k v (m : list (K * V)) : NoDup (keys m) -> NoDup (keys (ainsert keq k v m)).
  Proof.
    intros Hnd. rewrite keys_ainsert. destruct (existsb _ m) eqn:E; [exact Hnd|].
    apply existsb_keq_in in E. apply NoDup_snoc; assumption.
  Qed.

  Lemma fold_insert_nodup (l : list (K * V)) : forall acc,
    NoDup (keys acc) -> NoDup (keys (fold_left (fun m kv => ainsert keq (fst kv) (snd kv) m) l acc)).
  Proof. induction l as [|kv l IH]; intros acc H; cbn [fold_left]; [exact H | apply IH, ainsert_nodup, H]. Qed.

  (* a collected map holds each key once *)
  Lemma amap_of_nodup (l : list (K * V)) : NoDup (keys (amap_of keq l)).
  Proof. apply fold_insert_nodup. constructor. Qed.

  (* the value a collected map gives to a key is the one of the LAST entry with that key *)
  Fixpoint alast (k0 : K) (l : list (K * V)) : option V :=
    match l with
    | [] => None
    | (k, v) :: r => match alast k0 r with
                     | Some v' => Some v'
                     | None => if keq k0 k then Some v else None
                     end
    end.

  Lemma alookup_fold_insert k0 (l : list (K * V)) : forall acc,
    alookup keq k0 (fold_left (fun m kv => ainsert keq (fst kv) (snd kv) m) l acc) =
    match alast k0 l with Some v => Some v | None => alookup keq k0 acc end.
  Proof.
    induction l as [|[k v] l IH]; intros acc; cbn [fold_left alast fst snd]; [reflexivity|].
    rewrite IH. destruct (alast k0 l); [reflexivity|]. rewrite alookup_ainsert. now destruct (keq k0 k).
  Qed.

  Lemma alookup_amap_of k0 (l : list (K * V)) : alookup keq k0 (amap_of keq l) = alast k0 l.
  Proof. unfold amap_of. rewrite alookup_fold_insert. now destruct (alast k0 l). Qed.

  Lemma alast_some k0 (l : list (K * V)) v : alast k0 l = Some v -> exists k, In (k, v) l /\ key k0 = key k.
  Proof.
    induction l as [|[k v'] l IH]; cbn [alast]; [discriminate|].
    destruct (alast k0 l) as [v''|].
    - intros [= <-]. destruct (IH eq_refl) as [k1 [Hin Hk]]. exists k1. split; [now right | exact Hk].
    - destruct (keq k0 k) eqn:E; [|discriminate]. intros [= <-]. exists k. split; [now left | now apply keq_spec].
  Qed.

  Lemma alast_in k0 k v (l : list (K * V)) : In (k, v) l -> key k0 = key k -> exists v', alast k0 l = Some v'.
  Proof.
    induction l as [|[k1 v1] l IH]; intros Hin Hk; [destruct Hin|]. cbn [alast].
    destruct Hin as [[= -> ->] | Hin].
    - destruct (alast k0 l) as [v'|]; [now exists v'|].
      replace (keq k0 k) with true by (symmetry; now apply keq_spec). now exists v.
    - destruct (IH Hin Hk) as [v' ->]. now exists v'.
  Qed.
End KeyedMap.

(* decoded records hold each key once *)
Lemma canon_rstate_nodup r :
  NoDup (keys pkey (rs_fs (canon_rstate r))) /\ NoDup (keys ckey (rs_cmd (canon_rstate r))).
Proof.
  split; cbn [canon_rstate rs_fs rs_cmd].
  - apply (amap_of_nodup path_eqb pkey path_eqb_spec).
  - apply (amap_of_nodup ckey_eqb ckey ckey_eqb_spec).
Qed.
