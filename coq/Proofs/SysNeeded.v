(* C08 "others never": only targets in the dependency closure of the requested targets are ever requested, registered as a
   requester, or started — in every mode, under every interleaving. *)
From Zinoma.Proofs Require Export SysRoot SysSvc.

Section facts.
  Context (fx ok : bool) (a : astate) (e : event) (a' : astate) (os : list out) (ob : list obs).
  Context (Hstep : actor_step fx ok a e = Some (a', os, ob)).

  (* a request to a dependency is sent only while handling a request *)
  Lemma step_out_req_cause dest k r : OMsg dest (MRequested k r) ∈ os -> exists k0 r0, e = EMsg (MRequested k0 r0).
  Proof using Hstep.
    clear -Hstep. intros Ho. crush_step Hstep; split_elem Ho; eauto.
  Qed.

  (* a start needs a requester *)
  Lemma step_start_requested x : ObStart x ∈ ob -> exists k, reqs a' k <> ∅.
  Proof using Hstep.
    clear -Hstep. intros Hx. crush_step Hstep; split_elem Hx; bool_hyps; aproj_all.
    all: repeat match goal with k : kind |- _ => destruct k end; cbn in *; first [by exists KB | by exists KS].
  Qed.

  (* a failure is reported to the root *)
  Lemma step_fail_err x : ObFail x ∈ ob -> OErr x ∈ os.
  Proof using Hstep.
    clear -Hstep. intros Hx. crush_step Hstep; split_elem Hx; aproj_all; try solve_elem.
    all: rewrite ?elem_of_app, ?elem_of_list_singleton; tauto.
  Qed.
End facts.

Section needed.
  Context (fx : bool) (g : graph) (roots : list tid).
  Notation wf := (wf g).

  Definition needed (t : tid) : Prop := exists r, r ∈ roots /\ (t = r \/ tdep g r t).

  Lemma needed_of_req d r : req_ok g roots d r -> (forall r', r = ATarget r' -> needed r') -> needed d.
  Proof.
    intros Hok Hn. destruct r as [|t]; cbn in Hok.
    - exists d. split; [done|by left].
    - destruct (Hn t eq_refl) as (r0 & Hr0 & Hd). destruct Hok as (kt & deps & Hg & Hin).
      exists r0. split; [done|]. right. destruct Hd as [->|Htd].
      + by eapply td_direct.
      + by eapply tdep_trans_r.
  Qed.

  Record need_inv (s : sys) : Prop := {
    ni_msg : forall d k r', msg_in s (ATarget d) (MRequested k (ATarget r')) -> needed r';
    ni_reqs : forall d a k r', actors s !! d = Some a -> ATarget r' ∈ reqs a k -> needed r';
    ni_start : forall t, ObStart t ∈ hist s -> needed t
  }.

  Lemma need_inv_init : need_inv (init_sys g roots).
  Proof.
    split.
    - intros d k r' (l & Hl & Hin). cbn in Hl.
      destruct (init_inbox_msgs roots d l _ Hl Hin) as [_ [k' Heq]]. done.
    - intros d a k r' Ha Hin. apply (init_actor_lookup g roots) in Ha as (k0 & deps & _ & ->). destruct k; cbn in Hin; set_solver.
    - intros t Hin. cbn in Hin. by apply elem_of_nil in Hin.
  Qed.

  Lemma need_inv_step w s s' : wf s -> talk_inv g roots s -> need_inv s -> step_inv fx w s s' -> need_inv s'.
  Proof.
    intros Hwf Hti Hni [t a e ok a' os ob Ha Hst Hact Hh Hmsg Herr Hm _ _ _ _ _ _ _ _
                       |Hact Hib Hh _ Hrq Hrs|ts _ Hact Hib Hh Hrq _ _ _].
    - destruct (Hwf t a Ha) as [Hid Hg].
      assert (Hcause : forall k0 r0, e = EMsg (MRequested k0 r0) -> needed t).
      { intros k0 r0 He. pose proof (Hm _ He) as Hin. apply (needed_of_req t r0).
        - by apply (ti_req _ _ _ Hti t k0 r0).
        - intros r' ->. by apply (ni_msg _ Hni t k0 r'). }
      assert (Hreqs' : forall k r', ATarget r' ∈ reqs a' k -> needed r').
      { intros k r' Hr. destruct (step_reqs_grow _ _ _ _ _ _ _ Hst k _ Hr) as [Hold | He].
        - by apply (ni_reqs _ Hni t a k r').
        - apply (ni_msg _ Hni t k r'). by apply Hm. }
      split.
      + intros d k r' Hin. destruct (Hmsg _ _ Hin) as [Hold|Hnew]; [by apply (ni_msg _ Hni d k r')|].
        destruct (step_out_req _ _ _ _ _ _ _ Hst _ _ _ Hnew) as [Hr _]. injection Hr as ->. rewrite Hid.
        destruct (step_out_req_cause _ _ _ _ _ _ _ Hst _ _ _ Hnew) as (k0 & r0 & He). by apply (Hcause k0 r0).
      + intros d a0 k r' Hd Hin. rewrite Hact in Hd. destruct (decide (d = t)) as [->|Hne].
        * rewrite lookup_insert in Hd. injection Hd as <-. by apply (Hreqs' k).
        * rewrite lookup_insert_ne in Hd by done. by apply (ni_reqs _ Hni d a0 k r').
      + intros x Hin. rewrite Hh in Hin. apply elem_of_app in Hin as [Hin|Hin]; [by apply (ni_start _ Hni)|].
        destruct (step_start _ _ _ _ _ _ _ Hst x Hin) as (-> & _). rewrite Hid.
        destruct (step_start_requested _ _ _ _ _ _ _ Hst _ Hin) as (k & Hne).
        apply set_choose_L in Hne as [r Hr]. apply (needed_of_req t r).
        * destruct (step_reqs_grow _ _ _ _ _ _ _ Hst k r Hr) as [Hold | He].
          -- by apply (ti_reqs _ _ _ Hti t a k r).
          -- apply (ti_req _ _ _ Hti t k r). by apply Hm.
        * intros r' ->. by apply (Hreqs' k).
    - split.
      + intros d k r' Hin. apply (ni_msg _ Hni d k r'). cbn in *. by rewrite <- Hib.
      + intros d a k r'. rewrite Hact. apply (ni_reqs _ Hni).
      + intros t. rewrite Hh. apply (ni_start _ Hni).
    - split.
      + intros d k r' Hin. apply (ni_msg _ Hni d k r'). cbn in *. by rewrite <- Hib.
      + intros d a k r'. rewrite Hact. apply (ni_reqs _ Hni).
      + intros t. rewrite Hh. apply (ni_start _ Hni).
  Qed.

  Lemma need_inv_reachable w s : reachable fx w g roots s -> need_inv s.
  Proof.
    apply reachable_ind; [apply need_inv_init|]. intros s0 l s1 Hr Hni He.
    eapply need_inv_step; [by eapply wf_reachable|by eapply talk_inv_reachable|done|by eapply exec_inv].
  Qed.

  (* every mode, every graph, every interleaving: only a requested target or a target a requested one depends on (directly or
     transitively) is ever started *)
  Theorem only_needed_targets_start w s t : reachable fx w g roots s -> ObStart t ∈ hist s -> needed t.
  Proof. intros Hr. apply (ni_start _ (need_inv_reachable w s Hr)). Qed.

  (* ... or even receives a request: the other targets' actors are never spoken to *)
  Theorem only_needed_targets_requested w s d k r : reachable fx w g roots s -> msg_in s (ATarget d) (MRequested k r) -> needed d.
  Proof.
    intros Hr Hin. apply (needed_of_req d r).
    - by apply (ti_req _ _ _ (talk_inv_reachable fx g roots w s Hr) d k r).
    - intros r' ->. by apply (ni_msg _ (need_inv_reachable w s Hr) d k r').
  Qed.
End needed.
