(* The build cycle as a machine over the state file (Model/Incremental.v cycle_step): what can be on disk at every point
   at which the process can stop (C05), over whole histories of cycles (the "previously ran to successful completion" of
   C02), and the re-run on an untouched tree (C03). The repaired code: ckeq = ckey_eqb, fx4 = true. *)
From Zinoma.Model Require Import Bytes Cfg Codec Incremental.
From Zinoma.Proofs Require Import Bytes Codec CodecRoundtrip CodecWrite IncrementalKeys Incremental.
From Coq Require Import Lia.
Local Open Scope nat_scope.

Section Cycle.
  Variable hash : bytes -> N.
  Variable c : cycle.
  Variable d0 : option bytes.                      (* the state file when the cycle starts *)

  Notation input := (cy_input c).
  Notation output := (cy_output c).
  Notation stepf := (cycle_step hash ckey_eqb true c).
  Notation runf := (cycle_run hash ckey_eqb true c).
  Notation cur := (current_env hash ckey_eqb (cy_w1 c) input output).
  Notation decide0 := (decide_skip hash (cy_w0 c) d0 input output).

  (* the record is on disk in full *)
  Definition fully_written (s : cstate) (e : env_state) : Prop :=
    cy_outcome c = ScriptSucceeded /\ cur = CurSome e /\ snd (wr_env e) = true /\ c_disk s = Some (fst (wr_env e)).

  (* ---- every state the cycle can be in ---- *)
  Definition Inv (s : cstate) : Prop :=
    match c_phase s with
    | PStart => c_disk s = d0
    | PDecided => decide0 = false /\ c_disk s = disk_after_read true input d0
    | PDeleted => decide0 = false /\ c_disk s = None
    | PScripted => decide0 = false /\ cy_outcome c = ScriptSucceeded /\ c_disk s = None
    | PComputed e => decide0 = false /\ cy_outcome c = ScriptSucceeded /\ cur = CurSome e /\ c_disk s = None
    | PWriting todo ok =>
        decide0 = false /\ cy_outcome c = ScriptSucceeded /\
        exists e written, cur = CurSome e /\ c_disk s = Some written /\ fst (wr_env e) = written ++ todo /\ ok = snd (wr_env e)
    | PEnd CySkipped => decide0 = true /\ c_disk s = d0
    | PEnd CyCompleted =>
        decide0 = false /\ cy_outcome c = ScriptSucceeded /\
        ((c_disk s = None /\ (cur = CurNone \/ cur = CurFail)) \/
         (exists e, cur = CurSome e /\ c_disk s = Some (fst (wr_env e))))
    | PEnd CyCancelled => decide0 = false /\ cy_outcome c = ScriptCancelled /\ c_disk s = None
    | PEnd CyFailed => decide0 = false /\ (cy_outcome c = ScriptFailed \/ cy_outcome c = SpawnFailed) /\ c_disk s = None
    end.

  Lemma inv_init : Inv (cycle_init d0).
  Proof. reflexivity. Qed.

  Lemma inv_step s s' : Inv s -> stepf s = Some s' -> Inv s'.
  Proof.
    unfold Inv, cycle_step. destruct s as [ph dk]. cbn [c_phase c_disk].
    destruct ph as [| | | | e | todo ok | r].
    - intros ->. fold decide0. destruct decide0 eqn:E; intros [= <-]; cbn [c_phase c_disk]; now split.
    - intros [Hd _] [= <-]. cbn. now split.
    - intros [Hd ->]. destruct (cy_outcome c) eqn:Eo; intros [= <-]; cbn [c_phase c_disk]; repeat split; auto.
    - intros [Hd [Ho ->]]. destruct cur as [| |e] eqn:Ec; intros [= <-]; cbn [c_phase c_disk]; repeat split; auto.
    - intros [Hd [Ho [Hc ->]]] [= <-]. cbn [c_phase c_disk]. repeat split; auto.
      exists e, []. repeat split; auto.
    - intros [Hd [Ho [e [written [Hc [-> [Hw ->]]]]]]]. destruct todo as [|b todo]; intros [= <-]; cbn [c_phase c_disk].
      + repeat split; auto. right. exists e. rewrite app_nil_r in Hw. now rewrite Hw.
      + repeat split; auto. exists e, (written ++ [b]). repeat split; auto. now rewrite <- app_assoc.
    - discriminate.
  Qed.

  Lemma inv_run n : forall s, Inv s -> Inv (runf n s).
  Proof.
    induction n as [|n IH]; intros s Hs; cbn [cycle_run]; [exact Hs|].
    destruct (stepf s) as [s'|] eqn:E; [|exact Hs]. apply IH. now apply (inv_step s).
  Qed.

  Lemma inv_reach n : Inv (runf n (cycle_init d0)).
  Proof. apply inv_run, inv_init. Qed.

  (* C05: dying right after the decision (before the old record is deleted): the same world decides the same again *)
  Lemma decided_then_same_decision n :
    let s := runf n (cycle_init d0) in
    c_phase s = PDecided -> decide_skip hash (cy_w0 c) (c_disk s) input output = false.
  Proof.
    intros s Hph. pose proof (inv_reach n) as Hinv. fold s in Hinv. unfold Inv in Hinv. rewrite Hph in Hinv.
    destruct Hinv as [Hd ->]. unfold disk_after_read. cbn [andb].
    destruct (resources_is_empty input) eqn:Ei; [exact Hd|].
    destruct d0 as [b0|]; [|apply no_record_runs]. destruct (dec_env b0) eqn:E; [exact Hd | apply no_record_runs].
  Qed.

  (* C05: failing, failing to spawn and cancelled scripts end the cycle without any record *)
  Lemma unsuccessful_leaves_nothing n :
    let s := runf n (cycle_init d0) in
    c_phase s = PEnd CyFailed \/ c_phase s = PEnd CyCancelled -> c_disk s = None /\ cy_outcome c <> ScriptSucceeded.
  Proof.
    intros s Hph. pose proof (inv_reach n) as Hinv. fold s in Hinv. unfold Inv in Hinv.
    destruct Hph as [Hph | Hph]; rewrite Hph in Hinv.
    - destruct Hinv as [_ [[Ho | Ho] Hd]]; split; congruence.
    - destruct Hinv as [_ [Ho Hd]]. split; congruence.
  Qed.

  (* ---- the cycle always ends: `cycle_fuel` steps are enough (the `None` crash point means "no crash") ---- *)
  Definition wlen : nat := match cur with CurSome e => length (fst (wr_env e)) | _ => 0 end.

  Definition measure (s : cstate) : nat :=
    match c_phase s with
    | PStart => 6 + wlen
    | PDecided => 5 + wlen
    | PDeleted => 4 + wlen
    | PScripted => 3 + wlen
    | PComputed e => 2 + length (fst (wr_env e))
    | PWriting todo _ => 1 + length todo
    | PEnd _ => 0
    end.

  Definition is_end (s : cstate) : Prop := exists r, c_phase s = PEnd r.

  Lemma step_decreases s s' : Inv s -> stepf s = Some s' -> measure s' < measure s.
  Proof.
    unfold Inv, cycle_step, measure. destruct s as [ph dk]. cbn [c_phase c_disk].
    destruct ph as [| | | | e | todo ok | r].
    - intros _. destruct (decide_skip_gen _ _ _ _ _ _ _); intros [= <-]; cbn [c_phase]; lia.
    - intros _ [= <-]. cbn [c_phase]. lia.
    - intros _. destruct (cy_outcome c); intros [= <-]; cbn [c_phase]; lia.
    - intros _. unfold wlen. destruct cur as [| |e]; intros [= <-]; cbn [c_phase]; lia.
    - intros _ [= <-]. cbn [c_phase]. lia.
    - intros _. destruct todo; intros [= <-]; cbn [c_phase length]; lia.
    - discriminate.
  Qed.

  Lemma step_none_end s : stepf s = None -> is_end s.
  Proof.
    unfold cycle_step, is_end. destruct s as [ph dk]. cbn [c_phase c_disk].
    destruct ph as [| | | | e | todo ok | r]; try discriminate.
    - destruct (decide_skip_gen _ _ _ _ _ _ _); discriminate.
    - destruct (cy_outcome c); discriminate.
    - destruct cur; discriminate.
    - destruct todo; discriminate.
    - intros _. now exists r.
  Qed.

  Lemma run_ends k : forall s, Inv s -> measure s <= k -> is_end (runf k s).
  Proof.
    induction k as [|k IH]; intros s Hs Hm; cbn [cycle_run].
    - unfold measure in Hm. destruct (c_phase s) eqn:E; try lia. now exists r.
    - destruct (stepf s) as [s'|] eqn:E; [|now apply step_none_end].
      apply IH; [now apply (inv_step s) | pose proof (step_decreases s s' Hs E); lia].
  Qed.

  Lemma run_cycle_ends : is_end (run_cycle hash ckey_eqb true c None d0).
  Proof.
    unfold run_cycle. apply run_ends; [apply inv_init|]. unfold measure, cycle_fuel, wlen. cbn [cycle_init c_phase].
    destruct cur; lia.
  Qed.

  (* a cycle that is not interrupted, whose script succeeds and whose state can be computed and stored, ends with the
     record on disk in full *)
  Lemma completed_cycle_records e :
    decide0 = false -> cy_outcome c = ScriptSucceeded -> cur = CurSome e -> snd (wr_env e) = true ->
    let s := run_cycle hash ckey_eqb true c None d0 in
    c_phase s = PEnd CyCompleted /\ c_disk s = Some (fst (wr_env e)).
  Proof.
    intros Hd Ho Hc Hok s. destruct run_cycle_ends as [r Hr]. fold s in Hr.
    pose proof (inv_reach (cycle_fuel hash ckey_eqb c)) as Hinv. unfold run_cycle in s. fold s in Hinv.
    unfold Inv in Hinv. rewrite Hr in Hinv. destruct r.
    - destruct Hinv as [H _]. congruence.
    - destruct Hinv as [_ [_ [[_ [H | H]] | [e1 [Hc1 Hd1]]]]]; try congruence.
      split; [exact Hr|]. rewrite Hc in Hc1. injection Hc1 as <-. exact Hd1.
    - destruct Hinv as [_ [H _]]. congruence.
    - destruct Hinv as [_ [[H | H] _]]; congruence.
  Qed.

  (* C05: an undecodable (truncated, corrupted, foreign) state file is dropped by the read path and the script runs *)
  Lemma undecodable_rebuilds bs :
    d0 = Some bs -> dec_env bs = None -> resources_is_empty input = false ->
    runf 1 (cycle_init d0) = {| c_phase := PDecided; c_disk := None |} /\
    (exists r, c_phase (run_cycle hash ckey_eqb true c None d0) = PEnd r /\ r <> CySkipped).
  Proof.
    intros Hd0 Hdec Hin. assert (Hdecide : decide0 = false) by (rewrite Hd0; now apply undecodable_runs).
    split.
    - cbn [cycle_run cycle_step cycle_init c_phase c_disk]. fold decide0. rewrite Hdecide.
      unfold disk_after_read. cbn [andb]. now rewrite Hin, Hd0, Hdec.
    - destruct run_cycle_ends as [r Hr]. exists r. split; [exact Hr|]. intros ->.
      pose proof (inv_reach (cycle_fuel hash ckey_eqb c)) as Hinv. unfold run_cycle in Hr. unfold Inv in Hinv.
      rewrite Hr in Hinv. destruct Hinv as [H _]. congruence.
  Qed.
  (* what Rust's types guarantee of a computed state (u64 fields, Strings are UTF-8, normalised Durations) *)
  Hypothesis Hrepr : forall e, cur = CurSome e -> env_repr e.
  Hypothesis Hw1 : worlds_ok (cy_w1 c) input output.

  (* ---- C05: a decodable state file is either the old record, untouched, or the new one written in full ---- *)
  Lemma record_only_after_success n bs e rest :
    let s := runf n (cycle_init d0) in
    c_disk s = Some bs -> dec_env bs = Some (e, rest) ->
    (c_disk s = d0 /\ (c_phase s = PStart \/ c_phase s = PDecided \/ c_phase s = PEnd CySkipped)) \/
    (fully_written s e /\ rest = [] /\ (c_phase s = PWriting [] true \/ c_phase s = PEnd CyCompleted)).
  Proof.
    intros s Hdisk Hdec. pose proof (inv_reach n) as Hinv. fold s in Hinv. unfold Inv in Hinv.
    destruct (c_phase s) as [| | | | e1 | todo ok | r] eqn:Eph.
    - left. split; [exact Hinv | now left].
    - left. destruct Hinv as [_ Hd]. split; [|right; now left]. rewrite Hd. unfold disk_after_read. cbn [andb].
      rewrite Hd in Hdisk. unfold disk_after_read in Hdisk. cbn [andb] in Hdisk.
      destruct (resources_is_empty input); [reflexivity|]. destruct d0 as [b0|]; [|discriminate].
      destruct (dec_env b0); [reflexivity | discriminate].
    - destruct Hinv as [_ Hd]. congruence.
    - destruct Hinv as [_ [_ Hd]]. congruence.
    - destruct Hinv as [_ [_ [_ Hd]]]. congruence.
    - destruct Hinv as [_ [Ho [e1 [written [Hc [Hd [Hw ->]]]]]]]. rewrite Hd in Hdisk. injection Hdisk as ->.
      destruct todo as [|b todo].
      + destruct (snd (wr_env e1)) eqn:Eok.
        * rewrite app_nil_r in Hw. subst bs.
          pose proof (wr_env_complete e1 [] (Hrepr e1 Hc) (current_env_distinct _ _ _ _ _ Hw1 Hc) Eok) as Hfull.
          rewrite app_nil_r in Hfull. rewrite Hfull in Hdec. injection Hdec as <- <-.
          right. split; [|split; [reflexivity | now left]]. repeat split; auto.
        * rewrite (wr_env_partial e1 bs [] (Hrepr e1 Hc) Hw) in Hdec by now right. discriminate.
      + rewrite (wr_env_partial e1 bs (b :: todo) (Hrepr e1 Hc) Hw) in Hdec by (left; discriminate). discriminate.
    - destruct r.
      + left. destruct Hinv as [_ Hd]. split; [exact Hd | right; now right].
      + destruct Hinv as [_ [Ho [[Hd _] | [e1 [Hc Hd]]]]]; [congruence|]. rewrite Hd in Hdisk. injection Hdisk as <-.
        destruct (snd (wr_env e1)) eqn:Eok.
        * pose proof (wr_env_complete e1 [] (Hrepr e1 Hc) (current_env_distinct _ _ _ _ _ Hw1 Hc) Eok) as Hfull.
          rewrite app_nil_r in Hfull. rewrite Hfull in Hdec. injection Hdec as <- <-.
          right. split; [|split; [reflexivity | now right]]. repeat split; auto.
        * rewrite (wr_env_partial e1 (fst (wr_env e1)) [] (Hrepr e1 Hc)) in Hdec;
            [discriminate | now rewrite app_nil_r | now right].
      + destruct Hinv as [_ [_ Hd]]. congruence.
      + destruct Hinv as [_ [_ Hd]]. congruence.
  Qed.

  (* C05: once the old record has been deleted, and until the new one is there in full, NO world makes the next
     invocation skip: a failure, a cancellation, or a death at any step or byte offset leads to a rebuild *)
  Lemma no_skip_after_interruption n w' :
    let s := runf n (cycle_init d0) in
    c_phase s <> PStart -> c_phase s <> PDecided -> c_phase s <> PEnd CySkipped ->
    (forall e, ~ fully_written s e) ->
    decide_skip hash w' (c_disk s) input output = false.
  Proof.
    intros s H1 H2 H3 Hnf. destruct (c_disk s) as [bs|] eqn:Ed; [|apply no_record_runs].
    destruct (dec_env bs) as [[e rest]|] eqn:Edec; [|now apply undecodable_runs].
    destruct (record_only_after_success n bs e rest Ed Edec) as [[_ [H | [H | H]]] | [Hf _]]; fold s in H || idtac;
      try (exfalso; contradiction).
    exfalso. now apply (Hnf e).
  Qed.

End Cycle.

(* ------------------------------------------------------------------------------------------------ histories of cycles
   The state file of one target, from its absence, through any sequence of cycles (any worlds, outcomes, crash points). *)
Section History.
  Variable hash : bytes -> N.

  Definition cycle_ok (c : cycle) : Prop :=
    (forall e, current_env hash ckey_eqb (cy_w1 c) (cy_input c) (cy_output c) = CurSome e -> env_repr e) /\
    worlds_ok (cy_w1 c) (cy_input c) (cy_output c).

  (* the record `e` on disk was computed after the successful script of one of the cycles `l` and written in full *)
  Definition written_by (l : list cycle) (bs : bytes) (e : env_state) : Prop :=
    exists c, In c l /\ cy_outcome c = ScriptSucceeded /\
              current_env hash ckey_eqb (cy_w1 c) (cy_input c) (cy_output c) = CurSome e /\
              snd (wr_env e) = true /\ bs = fst (wr_env e).

  Definition Good (l : list cycle) (disk : option bytes) : Prop :=
    forall bs e rest, disk = Some bs -> dec_env bs = Some (e, rest) -> rest = [] /\ written_by l bs e.

  Lemma good_cycle l c crash disk :
    cycle_ok c -> Good l disk -> Good (l ++ [c]) (c_disk (run_cycle hash ckey_eqb true c crash disk)).
  Proof.
    intros [Hrepr Hw] Hg bs e rest Hd Hdec. unfold run_cycle in Hd.
    destruct (record_only_after_success hash c disk Hrepr Hw _ bs e rest Hd Hdec) as [[Hsame _] | [[Ho [Hc [Hok Hdisk]]] [-> _]]].
    - rewrite Hsame in Hd. destruct (Hg bs e rest Hd Hdec) as [-> [c0 [Hin H]]]. split; [reflexivity|].
      exists c0. split; [apply in_or_app; now left | exact H].
    - split; [reflexivity|]. exists c. split; [apply in_or_app; right; now left|].
      rewrite Hdisk in Hd. injection Hd as <-. repeat split; auto.
  Qed.

  Lemma good_history h : forall l disk,
    Forall (fun cc => cycle_ok (fst cc)) h -> Good l disk -> Good (l ++ map fst h) (run_history hash ckey_eqb true h disk).
  Proof.
    induction h as [|[c crash] h IH]; intros l disk Hok Hg; cbn [run_history map].
    - now rewrite app_nil_r.
    - apply Forall_cons_iff in Hok as [Hc Hok]. cbn [fst] in *.
      replace (l ++ c :: map fst h) with ((l ++ [c]) ++ map fst h) by now rewrite <- app_assoc.
      apply IH; [exact Hok | now apply good_cycle].
  Qed.

  (* C02/C05: whatever happened (failures, cancellations, crashes at any step or byte), a decodable state file is the
     full record of a cycle of the history whose script succeeded *)
  Lemma history_invariant h bs e rest :
    Forall (fun cc => cycle_ok (fst cc)) h ->
    run_history hash ckey_eqb true h None = Some bs -> dec_env bs = Some (e, rest) ->
    rest = [] /\ written_by (map fst h) bs e.
  Proof.
    intros Hok Hd Hdec. apply (good_history h [] None Hok); [intros ? ? ? H; discriminate | exact Hd | exact Hdec].
  Qed.

  (* C02, complete: a skip implies a previous successful, fully recorded run AND that nothing declared differs from what
     that run recorded *)
  Lemma skip_after_recorded_success h w input output :
    Forall (fun cc => cycle_ok (fst cc)) h -> worlds_ok w input output ->
    decide_skip hash w (run_history hash ckey_eqb true h None) input output = true ->
    exists bs e, run_history hash ckey_eqb true h None = Some bs /\ written_by (map fst h) bs e /\
                 dec_env bs = Some (e, []) /\ env_matches hash w e input output.
  Proof.
    intros Hok Hw Hskip. destruct (skip_sound _ _ _ _ _ Hw Hskip) as [bs [e [rest [Hd [Hdec [_ Hm]]]]]].
    destruct (history_invariant h bs e rest Hok Hd Hdec) as [-> Hwb]. now exists bs, e.
  Qed.
End History.

(* ------------------------------------------------------------------------------------------------ C03: the re-run *)
Lemma unchanged_skips_decoded hash w1 w' input output e bs rest :
  worlds_ok w1 input output -> worlds_ok w' input output -> cmds_consistent_all w1 input output ->
  current_env hash ckey_eqb w1 input output = CurSome e ->
  dec_env bs = Some (e, rest) ->
  unchanged_all hash w1 w' input output ->
  decide_skip hash w' (Some bs) input output = true.
Proof.
  intros Hw1 Hw' Hc Hcur Hdec Hun. unfold decide_skip, decide_skip_gen, decode_disk. rewrite Hdec.
  now apply (unchanged_skips_record hash w1 w' input output e).
Qed.

(* a cycle that completed and recorded, followed by an invocation in a world where nothing declared has changed:
   skipped at the first step, the script is not run, the record stays *)
Lemma rerun_unchanged_skips hash c c' d0 e :
  cycle_ok hash c -> cmds_consistent_all (cy_w1 c) (cy_input c) (cy_output c) ->
  decide_skip hash (cy_w0 c) d0 (cy_input c) (cy_output c) = false ->
  cy_outcome c = ScriptSucceeded ->
  current_env hash ckey_eqb (cy_w1 c) (cy_input c) (cy_output c) = CurSome e -> snd (wr_env e) = true ->
  cy_input c' = cy_input c -> cy_output c' = cy_output c ->
  worlds_ok (cy_w0 c') (cy_input c) (cy_output c) ->
  unchanged_all hash (cy_w1 c) (cy_w0 c') (cy_input c) (cy_output c) ->
  let d1 := c_disk (run_cycle hash ckey_eqb true c None d0) in
  forall n, cycle_run hash ckey_eqb true c' (S n) (cycle_init d1) = {| c_phase := PEnd CySkipped; c_disk := d1 |}.
Proof.
  intros [Hrepr Hw1] Hcons Hdec Hout Hcur Hok Hin Hout' Hw0 Hun d1 n.
  destruct (completed_cycle_records hash c d0 e Hdec Hout Hcur Hok) as [_ Hd1]. fold d1 in Hd1.
  assert (Hskip : decide_skip hash (cy_w0 c') d1 (cy_input c') (cy_output c') = true).
  { rewrite Hd1, Hin, Hout'. apply (unchanged_skips_decoded hash (cy_w1 c) (cy_w0 c') _ _ e _ []); try assumption.
    pose proof (wr_env_complete e [] (Hrepr e Hcur) (current_env_distinct _ _ _ _ _ Hw1 Hcur) Hok) as H.
    now rewrite app_nil_r in H. }
  cbn [cycle_run]. unfold cycle_step at 1. cbn [cycle_init c_phase c_disk].
  unfold decide_skip in Hskip. rewrite Hskip. destruct n; reflexivity.
Qed.
