(* Sender-side facts for the watch-mode invariant, all kinds. *)
From Zinoma.Proofs Require Export AF_lastword ActorFacts2 LF_register.

Definition wflagsK (a : astate) : Prop :=
  fok a /\ (a_kind a = ABuild -> ongoing a = true -> executed a = false).

Section facts.
  Context (ok : bool) (a : astate) (e : event) (a' : astate) (os : list out) (ob : list obs).
  Context (Hstep : actor_step true ok a e = Some (a', os, ob)).

  Lemma step_out_ok_dest2 dest k t act :
    OMsg dest (MOk k t act) ∈ os -> dest ∈ reqs a' k \/ (e = EMsg (MRequested k dest) /\ ~ own a k).
  Proof using Hstep.
    clear -Hstep. intros Ho. unfold own. crush_step Hstep; split_elem Ho; aproj;
      try (right; split; [reflexivity|]; repeat match goal with H : a_kind _ = _ |- _ => rewrite H end; done);
      left; aproj_all; first [assumption | set_solver].
  Qed.

  Lemma step_out_inval_own dest k t : OMsg dest (MInvalidated k t) ∈ os -> own a k.
  Proof using Hstep.
    clear -Hstep. intros Ho. unfold own. crush_step Hstep; split_elem Ho; aproj;
      repeat match goal with H : a_kind _ = _ |- _ => rewrite H end; done.
  Qed.

  Lemma step_wflagsK : wflagsK a -> wflagsK a'.
  Proof using Hstep.
    clear -Hstep. unfold wflagsK, fok. intros [H1 H2].
    split; [exact (step_flags_ok _ _ _ _ _ _ _ Hstep H1)|].
    destruct (step_same_id _ _ _ _ _ _ _ Hstep) as (_ & Hk & _). rewrite Hk. intros Hb Ho.
    unfold actor_step in Hstep. rewrite Hb in Hstep.
    destruct (build_step_lastword a e a' os ob 0%N Hstep (conj H1 (H2 Hb))) as [_ [_ Hw2]]. by apply Hw2.
  Qed.

  (* the last word sent to a requester of the actor's own kind *)
  Lemma step_lastword R k : wflagsK a -> own a k ->
    lw_spec R (a_id a) k os (reqs a k) (reqs a' k) (availb a k) (availb a' k).
  Proof using Hstep.
    clear -Hstep. intros [H1 H2] Ho. unfold availb, own in *.
    destruct (step_same_id _ _ _ _ _ _ _ Hstep) as (_ & Hk & _). rewrite Hk.
    unfold actor_step in Hstep. destruct (a_kind a) eqn:Hkind.
    - subst k. by destruct (build_step_lastword a e a' os ob R Hstep (conj H1 (H2 eq_refl))).
    - subst k. by destruct (service_step_lastword ok a e a' os ob R Hstep H1).
    - by apply (aggregate_step_lastword a e a' os ob R k).
  Qed.

  (* nothing about the actor's availability is sent to a target that is not registered *)
  Lemma step_lastword_unregistered R k : own a k -> ATarget R ∉ reqs a' k -> lw R os k (a_id a) = None.
  Proof using Hstep.
    clear -Hstep. intros Ho Hn. unfold lw. destruct (lastw (msgs_to R os) k (a_id a)) as [b|] eqn:E; [|done]. exfalso.
    destruct (lastw_some _ _ _ _ E) as (m & Hin & Hw). apply elem_of_msgs_to in Hin. destruct b.
    - apply mword_ok in Hw as [act ->]. destruct (step_out_ok_dest2 _ _ _ _ Hin) as [?|[_ ?]]; done.
    - apply mword_inval in Hw as ->. by destruct (step_out_inval _ _ _ _ _ _ _ Hstep _ _ _ Hin) as (_ & _ & ?).
  Qed.

  (* the words an actor sends are about itself *)
  Lemma step_lastword_other R k d : d <> a_id a -> lw R os k d = None.
  Proof using Hstep.
    clear -Hstep. intros Hne. unfold lw. destruct (lastw (msgs_to R os) k d) as [b|] eqn:E; [|done]. exfalso.
    destruct (lastw_some _ _ _ _ E) as (m & Hin & Hw). apply elem_of_msgs_to in Hin. destruct b.
    - apply mword_ok in Hw as [act ->]. by destruct (step_out_ok _ _ _ _ _ _ _ Hstep _ _ _ _ Hin) as [? _].
    - apply mword_inval in Hw as ->. by destruct (step_out_inval _ _ _ _ _ _ _ Hstep _ _ _ Hin) as (? & _).
  Qed.

  (* for the kind it does not run, an actor only ever says Ok *)
  Lemma step_lastword_foreign R k : ~ own a k -> lw R os k (a_id a) <> Some false.
  Proof using Hstep.
    clear -Hstep. intros Ho E. destruct (lastw_some _ _ _ _ E) as (m & Hin & Hw). apply elem_of_msgs_to in Hin.
    apply mword_inval in Hw as ->. apply Ho. by eapply step_out_inval_own.
  Qed.

  Lemma step_lastword_reply R k : ~ own a k -> e = EMsg (MRequested k (ATarget R)) -> lw R os k (a_id a) = Some true.
  Proof using Hstep.
    clear -Hstep. intros Ho He. pose proof (step_reply _ _ _ _ _ _ _ Hstep k (ATarget R) He Ho) as Hin.
    destruct (lw R os k (a_id a)) as [[]|] eqn:E; [done|by apply step_lastword_foreign in E|].
    exfalso. apply elem_of_msgs_to in Hin. unfold lw in E.
    assert (Hn : forall l, lastw l k (a_id a) = None -> forall m, m ∈ l -> mword m k (a_id a) = None).
    { induction l as [|x l IH]; intros Hl m Hm; [by apply elem_of_nil in Hm|]. cbn in Hl.
      destruct (lastw l k (a_id a)) eqn:El; [done|]. apply elem_of_cons in Hm as [->|Hm]; [done|by apply IH]. }
    specialize (Hn _ E _ Hin). by rewrite mword_ok_eq in Hn.
  Qed.
End facts.
