(* Where the records live (C18): one state file per target, named after the project directory and the qualified target
   name; a cycle or a clean of one target acts on the store through that target's path only; the skip decision reads
   nothing but the target's own record and its own declared resources. *)
From Zinoma.Model Require Import Bytes Cfg Ext Names Codec Incremental.
From Zinoma.Proofs Require Import Bytes.
From Coq Require Import Lia.

Definition valid_id (t : target_id) : Prop :=
  valid_name (t_name t) = true /\ match t_project t with Some p => valid_name p = true | None => True end.

(* ---- valid names contain neither ':' nor '/' ---- *)
Lemma valid_name_chars s b : valid_name s = true -> In b s -> is_word b = true \/ b = hyphen.
Proof.
  destruct s as [|x r]; [discriminate|]. cbn [valid_name]. intros H Hin. apply andb_true_iff in H as [Hx Hr].
  destruct Hin as [<- | Hin]; [now left|]. rewrite forallb_forall in Hr. specialize (Hr b Hin).
  apply orb_true_iff in Hr as [Hr | Hr]; [now left | right; now apply N.eqb_eq].
Qed.

Lemma valid_name_no_colon s : valid_name s = true -> ~ In colon s.
Proof. intros Hv Hin. destruct (valid_name_chars s colon Hv Hin) as [H | H]; [vm_compute in H | ]; discriminate. Qed.

Lemma valid_name_no_slash s : valid_name s = true -> ~ In slash s.
Proof. intros Hv Hin. destruct (valid_name_chars s slash Hv Hin) as [H | H]; [vm_compute in H | ]; discriminate. Qed.

(* the first occurrence of a separator splits a list uniquely *)
Lemma split_at_first {A} (x : A) l1 r1 l2 r2 :
  l1 ++ x :: r1 = l2 ++ x :: r2 -> ~ In x l1 -> ~ In x l2 -> l1 = l2 /\ r1 = r2.
Proof.
  revert l2. induction l1 as [|a l1 IH]; intros [|b l2] H H1 H2; cbn [app] in H.
  - injection H as ->. now split.
  - injection H as <- _. exfalso. apply H2. now left.
  - injection H as -> _. exfalso. apply H1. now left.
  - injection H as <- H. destruct (IH l2 H) as [-> ->]; [intros Hi; apply H1; now right | intros Hi; apply H2; now right |].
    now split.
Qed.

(* C18/C19: the printed name of a target determines the target *)
Lemma display_injective a b : valid_id a -> valid_id b -> display a = display b -> a = b.
Proof.
  destruct a as [pa na], b as [pb nb]. unfold valid_id, display. cbn [t_project t_name].
  intros [Hna Hpa] [Hnb Hpb] H. destruct pa as [pa|], pb as [pb|].
  - cbn [app] in H. apply split_at_first in H as [-> H]; try now apply valid_name_no_colon. injection H as ->. reflexivity.
  - exfalso. apply (valid_name_no_colon nb Hnb). rewrite <- H. apply in_or_app. right. now left.
  - exfalso. apply (valid_name_no_colon na Hna). rewrite H. apply in_or_app. right. now left.
  - now rewrite H.
Qed.

Lemma display_no_slash t : valid_id t -> ~ In slash (display t).
Proof.
  destruct t as [p n]. unfold valid_id, display. cbn [t_project t_name]. intros [Hn Hp] Hin. destruct p as [p|].
  - apply in_app_or in Hin as [Hin | Hin]; [now apply (valid_name_no_slash p Hp)|].
    cbn [app] in Hin. destruct Hin as [H | [H | Hin]]; try discriminate. now apply (valid_name_no_slash n Hn).
  - now apply (valid_name_no_slash n Hn).
Qed.

Lemma checksums_ext_no_slash : ~ In slash checksums_ext.
Proof. intros H. cbn in H. repeat (destruct H as [H | H]; [discriminate|]). exact H. Qed.

Lemma state_file_name_no_slash t : valid_id t -> ~ In slash (state_file_name t).
Proof.
  intros Hv Hin. unfold state_file_name in Hin. apply in_app_or in Hin as [Hin | Hin];
    [now apply (display_no_slash t Hv) | now apply checksums_ext_no_slash].
Qed.

(* C18: distinct targets (or distinct project directories) never share a state file *)
Lemma checksums_path_injective da a db b :
  valid_id a -> valid_id b -> checksums_path da a = checksums_path db b -> da = db /\ a = b.
Proof.
  intros Ha Hb H. unfold checksums_path in H.
  apply (f_equal (@rev N)) in H.
  replace (da ++ slash :: zinoma_name ++ slash :: state_file_name a)
    with ((da ++ slash :: zinoma_name) ++ slash :: state_file_name a) in H by now rewrite <- app_assoc.
  replace (db ++ slash :: zinoma_name ++ slash :: state_file_name b)
    with ((db ++ slash :: zinoma_name) ++ slash :: state_file_name b) in H by now rewrite <- app_assoc.
  rewrite !rev_app_distr in H. cbn [rev] in H. rewrite <- !app_assoc in H.
  change (rev (state_file_name a) ++ slash :: (rev zinoma_name ++ [slash] ++ rev da) =
          rev (state_file_name b) ++ slash :: (rev zinoma_name ++ [slash] ++ rev db)) in H.
  apply split_at_first in H as [Hf Hd].
  - apply (f_equal (@rev N)) in Hf. rewrite !rev_involutive in Hf.
    apply app_inv_head in Hd. apply app_inv_head in Hd. apply (f_equal (@rev N)) in Hd. rewrite !rev_involutive in Hd.
    split; [exact Hd|].
    unfold state_file_name in Hf. apply app_inv_tail in Hf. now apply display_injective.
  - intros Hin. apply in_rev in Hin. now apply (state_file_name_no_slash a Ha).
  - intros Hin. apply in_rev in Hin. now apply (state_file_name_no_slash b Hb).
Qed.

(* ---- frame ---- *)
Lemma store_set_other st p v q : q <> p -> store_set st p v q = st q.
Proof.
  intros Hne. unfold store_set. destruct (beq q p) eqn:E; [apply beq_eq in E; congruence | reflexivity].
Qed.

Lemma store_set_same st p v : store_set st p v p = v.
Proof. unfold store_set. now rewrite beq_refl. Qed.

(* running (succeeding, failing, being cancelled, crashing at any point) another target leaves this target's record alone *)
Lemma cycle_frame hash t t' c crash st :
  valid_id (rt_id t) -> valid_id (rt_id t') -> (rt_dir t, rt_id t) <> (rt_dir t', rt_id t') ->
  cycle_on_store hash t' c crash st (checksums_path (rt_dir t) (rt_id t)) = st (checksums_path (rt_dir t) (rt_id t)).
Proof.
  intros Hv Hv' Hne. unfold cycle_on_store. apply store_set_other. intros Heq.
  apply checksums_path_injective in Heq as [Hd Hi]; [|assumption|assumption]. apply Hne. congruence.
Qed.

(* and its own cycle is exactly the machine of Model/Incremental.v run on its own file *)
Lemma cycle_own hash t c crash st :
  cycle_on_store hash t c crash st (checksums_path (rt_dir t) (rt_id t)) =
  c_disk (run_cycle hash ckey_eqb true c crash (st (checksums_path (rt_dir t) (rt_id t)))).
Proof. unfold cycle_on_store. apply store_set_same. Qed.

(* `--clean T...` of other targets *)
Lemma clean_requested_frame ts st t :
  valid_id (rt_id t) -> (forall t', In t' ts -> valid_id (rt_id t') /\ (rt_dir t', rt_id t') <> (rt_dir t, rt_id t)) ->
  clean_requested ts st (checksums_path (rt_dir t) (rt_id t)) = st (checksums_path (rt_dir t) (rt_id t)).
Proof.
  intros Hv Hts. unfold clean_requested.
  replace (existsb _ ts) with false; [reflexivity|]. symmetry. apply not_true_is_false. intros H.
  apply existsb_exists in H as [t' [Hin Heq]]. apply beq_eq in Heq. destruct (Hts t' Hin) as [Hv' Hne].
  apply checksums_path_injective in Heq as [Hd Hi]; [|assumption|assumption]. apply Hne. congruence.
Qed.

(* a clean that does reach the target (requested, or bare `--clean` of its project) removes the record: it is rebuilt,
   never wrongly skipped *)
Lemma clean_requested_removes ts st t :
  In t ts -> clean_requested ts st (checksums_path (rt_dir t) (rt_id t)) = None.
Proof.
  intros Hin. unfold clean_requested. replace (existsb _ ts) with true; [reflexivity|]. symmetry.
  apply existsb_exists. exists t. split; [exact Hin | apply beq_refl].
Qed.

Lemma clean_all_removes dirs st t :
  In (rt_dir t) dirs -> clean_all dirs st (checksums_path (rt_dir t) (rt_id t)) = None.
Proof.
  intros Hin. unfold clean_all. replace (existsb _ dirs) with true; [reflexivity|]. symmetry.
  apply existsb_exists. exists (rt_dir t). split; [exact Hin|]. apply starts_with_spec.
  exists (state_file_name (rt_id t)). unfold checksums_path. rewrite <- !app_assoc. cbn [app]. rewrite <- app_assoc. reflexivity.
Qed.

Lemma clean_all_frame dirs st q :
  (forall d, In d dirs -> starts_with q (d ++ slash :: zinoma_name ++ [slash]) = false) -> clean_all dirs st q = st q.
Proof.
  intros H. unfold clean_all. replace (existsb _ dirs) with false; [reflexivity|]. symmetry. apply not_true_is_false.
  intros He. apply existsb_exists in He as [d [Hin Hs]]. rewrite (H d Hin) in Hs. discriminate.
Qed.

(* ---- the decision reads the target's own record and its own resources only ---- *)
Definition worlds_agree_on (w w' : iworld) (res : resources) : Prop :=
  w_list w (r_files res) = w_list w' (r_files res) /\
  (forall p, In p (w_list w (r_files res)) -> w_mtime w p = w_mtime w' p /\ w_read w p = w_read w' p) /\
  (forall c, In c (r_cmds res) -> w_cmd w (cr_cmd c) (cr_dir c) = w_cmd w' (cr_cmd c) (cr_dir c)).

Lemma forallb_ext_in {A} (f g : A -> bool) l : (forall x, In x l -> f x = g x) -> forallb f l = forallb g l.
Proof.
  induction l as [|x l IH]; intros H; cbn [forallb]; [reflexivity|].
  rewrite (H x (or_introl eq_refl)), IH; [reflexivity|]. intros y Hy. apply H. now right.
Qed.

Lemma eq_res_local hash ckeq w w' r res :
  worlds_agree_on w w' res -> eq_res hash ckeq w r res = eq_res hash ckeq w' r res.
Proof.
  intros [Hl [Hf Hc]]. unfold eq_res, eq_files, eq_cmds. rewrite <- Hl. f_equal; [f_equal|].
  - apply forallb_ext_in. intros p Hp. destruct (Hf p Hp) as [Hm Hr]. unfold eq_file. now rewrite Hm, Hr.
  - apply forallb_ext_in. intros c Hin. unfold eq_cmd. now rewrite (Hc c Hin).
Qed.

Lemma decide_skip_local hash w w' disk input output :
  worlds_agree_on w w' input -> (forall o, output = Some o -> worlds_agree_on w w' o) ->
  decide_skip hash w disk input output = decide_skip hash w' disk input output.
Proof.
  intros Hi Ho. unfold decide_skip, decide_skip_gen, skip_on_record. destruct (true && resources_is_empty input); [reflexivity|].
  destruct (decode_disk disk) as [e|]; [|reflexivity]. unfold eq_env. rewrite (eq_res_local hash ckey_eqb w w' _ _ Hi).
  destruct output as [o|]; [|reflexivity]. destruct (es_output e) as [ro|]; [|reflexivity].
  now rewrite (eq_res_local hash ckey_eqb w w' ro o (Ho o eq_refl)).
Qed.

(* C18: two stores that agree on the target's own file, two worlds that agree on the target's own resources: same decision.
   (Other targets having been built, failed, cleaned or interrupted changes neither, by the frame lemmas.) *)
Lemma decision_depends_on_own hash st st' w w' t :
  st (checksums_path (rt_dir t) (rt_id t)) = st' (checksums_path (rt_dir t) (rt_id t)) ->
  worlds_agree_on w w' (rt_input t) -> worlds_agree_on w w' (rt_output t) ->
  decide_skip hash w (st (checksums_path (rt_dir t) (rt_id t))) (rt_input t) (Some (rt_output t)) =
  decide_skip hash w' (st' (checksums_path (rt_dir t) (rt_id t))) (rt_input t) (Some (rt_output t)).
Proof.
  intros Hs Hi Ho. rewrite Hs. apply decide_skip_local; [exact Hi|]. intros o [= <-]. exact Ho.
Qed.
