From Zinoma.Model Require Import Bytes Ext.
From Zinoma.Proofs Require Import Bytes.
From Coq Require Import Lia.

(* ---- declarative reading of the filter ---- *)
Definition EndsWith (n suf : bytes) : Prop := exists r, n = r ++ suf.
Definition StartsWith (n pre : bytes) : Prop := exists r, n = pre ++ r.
Definition TmpEditorName (n : bytes) : Prop :=
  EndsWith n [tilde] \/ (StartsWith n [dot] /\ (EndsWith n swp \/ EndsWith n swx)).
Definition HasZinomaComponent (p : bytes) : Prop := In zinoma_name (components p).
Definition NameMatches (exts : option (list bytes)) (n : bytes) : Prop :=
  match exts with None => True | Some es => exists e, In e es /\ EndsWith n e end.

Lemma tmp_editor_spec n : tmp_editor n = true <-> TmpEditorName n.
Proof.
  unfold tmp_editor, TmpEditorName, EndsWith, StartsWith.
  rewrite orb_true_iff, andb_true_iff, orb_true_iff, !ends_with_spec, starts_with_spec. tauto.
Qed.

Lemma in_work_dir_spec p : in_work_dir p = true <-> HasZinomaComponent p.
Proof.
  unfold in_work_dir, HasZinomaComponent. rewrite existsb_exists. split.
  - intros [c [Hin Hc]]. apply beq_eq in Hc. now subst.
  - intros H. exists zinoma_name. split; [exact H | apply beq_refl].
Qed.

Lemma name_matches_spec exts n : name_matches exts n = true <-> NameMatches exts n.
Proof.
  destruct exts as [es|]; cbn; [|tauto]. rewrite existsb_exists. unfold EndsWith.
  split; intros [e [Hin He]]; exists e; (split; [exact Hin|]); now apply ends_with_spec.
Qed.

Lemma matches_extensions_name exts p n :
  file_name p = Some n -> matches_extensions exts p = name_matches exts n.
Proof. intros H. unfold matches_extensions, name_matches. now rewrite H. Qed.

(* C16: the filter is exactly "not a temporary, not under .zinoma, extension matches" *)
Lemma watch_filter_spec exts p n :
  file_name p = Some n ->
  (watch_filter exts p = true <->
   ~ TmpEditorName n /\ ~ HasZinomaComponent p /\ NameMatches exts n).
Proof.
  intros Hn. unfold watch_filter, tmp_editor_path. rewrite Hn, (matches_extensions_name _ _ _ Hn).
  rewrite !andb_true_iff, !negb_true_iff, <- name_matches_spec.
  rewrite <- !not_true_iff_false, tmp_editor_spec, in_work_dir_spec. tauto.
Qed.

(* paths without a file name (a watched root spelled "x/..") never match a filter and never panic *)
Definition no_filter (exts : option (list bytes)) : bool :=
  match exts with None => true | Some _ => false end.

Lemma watch_filter_no_name exts p :
  file_name p = None -> watch_filter exts p = negb (in_work_dir p) && no_filter exts.
Proof.
  intros Hn. unfold watch_filter, tmp_editor_path, matches_extensions, no_filter. rewrite Hn.
  destruct exts; reflexivity.
Qed.

(* anything at or below <dir>/.zinoma is ignored: state writes cannot re-trigger a target *)
Lemma zinoma_name_facts : ~ In slash zinoma_name /\ zinoma_name <> [] /\ zinoma_name <> [dot].
Proof.
  repeat split; try discriminate. cbn. intros H.
  repeat (destruct H as [H|H]; [discriminate|]). exact H.
Qed.

Lemma in_work_dir_below d rest :
  in_work_dir (d ++ slash :: zinoma_name ++ slash :: rest) = true.
Proof.
  apply in_work_dir_spec. unfold HasZinomaComponent.
  rewrite components_app_sep, components_app_sep.
  destruct zinoma_name_facts as (H1 & H2 & H3).
  rewrite (components_single zinoma_name) by assumption.
  apply in_or_app. right. apply in_or_app. left. now left.
Qed.

Lemma in_work_dir_itself d :
  in_work_dir (d ++ slash :: zinoma_name) = true.
Proof.
  apply in_work_dir_spec. unfold HasZinomaComponent. rewrite components_app_sep.
  destruct zinoma_name_facts as (H1 & H2 & H3).
  rewrite (components_single zinoma_name) by assumption.
  apply in_or_app. right. now left.
Qed.

Lemma state_writes_ignored exts d rest :
  watch_filter exts (d ++ slash :: zinoma_name ++ slash :: rest) = false.
Proof.
  unfold watch_filter. rewrite in_work_dir_below. cbn. now rewrite andb_false_r.
Qed.

Lemma tmp_ignored exts p n :
  file_name p = Some n -> TmpEditorName n -> watch_filter exts p = false.
Proof.
  intros Hn Ht. unfold watch_filter, tmp_editor_path. rewrite Hn.
  apply tmp_editor_spec in Ht. now rewrite Ht.
Qed.

Lemma other_extension_ignored es p n :
  file_name p = Some n -> (forall e, In e es -> ~ EndsWith n e) -> watch_filter (Some es) p = false.
Proof.
  intros Hn Hno. unfold watch_filter. rewrite (matches_extensions_name _ _ _ Hn).
  destruct (name_matches (Some es) n) eqn:E; [|now rewrite andb_false_r].
  apply name_matches_spec in E. destruct E as [e [Hin He]]. exfalso. exact (Hno e Hin He).
Qed.

(* ---- C15: extension normalisation ---- *)
Definition NormExts (l : list bytes) : list bytes :=
  map norm_ext (filter (fun e => negb (is_nil e)) l).

Lemma norm_ext_dot e : e <> [] -> exists r, norm_ext e = dot :: r.
Proof.
  destruct e as [|x e]; [congruence|]. intros _. cbn [norm_ext].
  destruct (N.eqb_spec x dot) as [->|]; eauto.
Qed.

Lemma norm_ext_idem e : norm_ext (norm_ext e) = norm_ext e.
Proof.
  destruct e as [|x e]; [reflexivity|]. cbn [norm_ext].
  destruct (N.eqb_spec x dot) as [->|Hne]; cbn [norm_ext].
  - now rewrite N.eqb_refl.
  - now rewrite N.eqb_refl.
Qed.

Lemma transform_extensions_spec o :
  transform_extensions o =
  match o with
  | None => None
  | Some l => if forallb is_nil l then None else Some (NormExts l)
  end.
Proof.
  destruct o as [l|]; [|reflexivity]. unfold transform_extensions, NormExts.
  induction l as [|e l IH]; [reflexivity|].
  cbn [filter forallb]. destruct e as [|x e]; cbn [is_nil negb andb map]; [exact IH | reflexivity].
Qed.

Lemma transform_extensions_entries l es e :
  transform_extensions (Some l) = Some es ->
  (In e es <-> exists e0, In e0 l /\ e0 <> [] /\ e = norm_ext e0).
Proof.
  rewrite transform_extensions_spec. destruct (forallb is_nil l); [discriminate|].
  intros [= <-]. unfold NormExts. rewrite in_map_iff. split.
  - intros [e0 [<- Hin]]. apply filter_In in Hin as [Hin Hne]. exists e0. repeat split; try assumption.
    intros ->. discriminate.
  - intros [e0 (Hin & Hne & ->)]. exists e0. split; [reflexivity|]. apply filter_In. split; [assumption|].
    destruct e0; [congruence | reflexivity].
Qed.

(* ---- the directory of a watched file (repair D16) ---- *)
Lemma lbeq_refl l : lbeq l l = true.
Proof. induction l as [|x l IH]; cbn; [reflexivity|]. now rewrite beq_refl, IH. Qed.

Lemma lbeq_eq a b : lbeq a b = true <-> a = b.
Proof.
  revert b. induction a as [|x a IH]; intros [|y b]; cbn; try (split; [discriminate|discriminate]); [tauto|].
  rewrite andb_true_iff, beq_eq, IH. split; [intros [-> ->]; reflexivity|intros [= -> ->]; tauto].
Qed.

Lemma lprefix_refl l : lprefix l l = true.
Proof. induction l as [|x l IH]; cbn; [reflexivity|]. now rewrite beq_refl, IH. Qed.

Lemma lprefix_spec a b : lprefix a b = true <-> exists r, b = a ++ r.
Proof.
  revert b. induction a as [|x a IH]; intros b; cbn.
  - split; [intros _; now exists b|reflexivity].
  - destruct b as [|y b]; [split; [discriminate|intros [r Hr]; discriminate]|].
    rewrite andb_true_iff, beq_eq, IH. split.
    + intros [-> [r ->]]. now exists r.
    + intros [r [= -> ->]]. split; [reflexivity|now exists r].
Qed.

(* a declared path — the watched file itself under any spelling with the same components, a declared directory, anything below
   a declared directory — is never dropped by the new conjunct: the filter on it is the old filter *)
Lemma declared_path_still_relevant declared files exts w p :
  In w declared -> lprefix (pseq w) (pseq p) = true -> watch_filter2 declared files exts p = watch_filter exts p.
Proof.
  intros Hin Hpre. unfold watch_filter2, other_in_file_dir.
  assert (H : existsb (fun w0 => lprefix (pseq w0) (pseq p)) declared = true).
  { apply existsb_exists. exists w. split; assumption. }
  rewrite H. cbn. now rewrite andb_false_r.
Qed.

(* a path in the directory of a watched file that is not at or below any declared path never triggers: that directory is watched
   for the declared paths only *)
Lemma neighbour_of_declared_file_ignored declared files exts f p d :
  In f files -> parent_seq (pseq f) = Some d -> parent_seq (pseq p) = Some d ->
  (forall w, In w declared -> lprefix (pseq w) (pseq p) = false) ->
  watch_filter2 declared files exts p = false.
Proof.
  intros Hin Hpf Hpp Hne. unfold watch_filter2, other_in_file_dir.
  assert (H1 : existsb (fun w0 => lprefix (pseq w0) (pseq p)) declared = false).
  { apply not_true_iff_false. intros H. apply existsb_exists in H as [w [Hw He]]. rewrite (Hne w Hw) in He. discriminate. }
  assert (H2 : existsb (fun f0 => match parent_seq (pseq f0), parent_seq (pseq p) with
                                  | Some d0, Some q => lbeq q d0 | _, _ => false end) files = true).
  { apply existsb_exists. exists f. split; [exact Hin|]. rewrite Hpf, Hpp. apply lbeq_refl. }
  now rewrite H1, H2.
Qed.

(* frame: a path whose directory is not the directory of any watched file is filtered exactly as before the repair
   (in particular when no input is declared as a file) *)
Lemma no_declared_file_no_change declared files exts p :
  (forall f d q, In f files -> parent_seq (pseq f) = Some d -> parent_seq (pseq p) = Some q -> q <> d) ->
  watch_filter2 declared files exts p = watch_filter exts p.
Proof.
  intros Hno. unfold watch_filter2, other_in_file_dir.
  assert (H2 : existsb (fun f0 => match parent_seq (pseq f0), parent_seq (pseq p) with
                                  | Some d0, Some q => lbeq q d0 | _, _ => false end) files = false).
  { apply not_true_iff_false. intros H. apply existsb_exists in H as [f [Hf He]].
    destruct (parent_seq (pseq f)) as [d|] eqn:Ef; [|discriminate]. destruct (parent_seq (pseq p)) as [q|] eqn:Ep; [|discriminate].
    apply lbeq_eq in He. exact (Hno f d q Hf Ef eq_refl He). }
  now rewrite H2.
Qed.

(* what "below a declared directory" means on the spelled paths: d, a separator, anything *)
Lemma starts_with_app_nonnil (d r pre : bytes) : d <> [] -> length pre = 1%nat -> starts_with (d ++ r) pre = starts_with d pre.
Proof.
  intros Hd Hl. destruct pre as [|x [|? ?]]; try discriminate. destruct d as [|y d]; [congruence|]. cbn. destruct (N.eqb y x); reflexivity.
Qed.

Lemma split_on_head_app sep d r : d <> [] ->
  match split_on sep (d ++ sep :: r) with c :: _ => Some c | [] => None end =
  match split_on sep d with c :: _ => Some c | [] => None end.
Proof.
  intros _. rewrite split_on_app_sep. destruct (split_on sep d) as [|c cs] eqn:E; [now apply split_on_nonnil in E|]. reflexivity.
Qed.

Lemma pseq_below d rest : d <> [] -> pseq (d ++ slash :: rest) = pseq d ++ components rest.
Proof.
  intros Hd. unfold pseq. rewrite (starts_with_app_nonnil d (slash :: rest) [slash] Hd eq_refl), components_app_sep.
  pose proof (split_on_head_app slash d rest Hd) as Hh.
  destruct (split_on slash (d ++ slash :: rest)) as [|c1 l1]; destruct (split_on slash d) as [|c2 l2]; try discriminate.
  - now rewrite !app_assoc.
  - injection Hh as ->. now rewrite !app_assoc.
Qed.

Lemma below_declared_dir_still_relevant declared files exts d rest :
  In d declared -> d <> [] -> watch_filter2 declared files exts (d ++ slash :: rest) = watch_filter exts (d ++ slash :: rest).
Proof.
  intros Hin Hd. apply (declared_path_still_relevant declared files exts d); [exact Hin|].
  apply lprefix_spec. exists (components rest). now apply pseq_below.
Qed.
