From Zinoma.Model Require Import Bytes Ext.
From Zinoma.Proofs Require Import Bytes.
From Coq Require Import Lia.

(* ---- declarative reading of the filter ---- *)
Definition EndsWith (n suf : bytes) : Prop := exists r, n = r ++ suf.
Definition StartsWith (n pre : bytes) : Prop := exists r, n = pre ++ r.
Definition TmpEditorName (n : bytes) : Prop :=
  EndsWith n [tilde] \/ (StartsWith n [dot] /\ (EndsWith n swp \/ EndsWith n swx)).
Definition HasZinomaComponent (p : bytes) : Prop := In zinoma_name (components p).
Definition NameMatches (exts : option (list bytes)) (n : bytes) : Prop :=
  match exts with None => True | Some es => exists e, In e es /\ EndsWith n e end.

Lemma tmp_editor_spec n : tmp_editor n = true <-> TmpEditorName n.
Proof.
  unfold tmp_editor, TmpEditorName, EndsWith, StartsWith.
  rewrite orb_true_iff, andb_true_iff, orb_true_iff, !ends_with_spec, starts_with_spec. tauto.
Qed.

Lemma in_work_dir_spec p : in_work_dir p = true <-> HasZinomaComponent p.
Proof.
  unfold in_work_dir, HasZinomaComponent. rewrite existsb_exists. split.
  - intros [c [Hin Hc]]. apply beq_eq in Hc. now subst.
  - intros H. exists zinoma_name. split; [exact H | apply beq_refl].
Qed.

Lemma name_matches_spec exts n : name_matches exts n = true <-> NameMatches exts n.
Proof.
  destruct exts as [es|]; cbn; [|tauto]. rewrite existsb_exists. unfold EndsWith.
  split; intros [e [Hin He]]; exists e; (split; [exact Hin|]); now apply ends_with_spec.
Qed.

Lemma matches_extensions_name exts p n :
  file_name p = Some n -> matches_extensions exts p = name_matches exts n.
Proof. intros H. unfold matches_extensions, name_matches. now rewrite H. Qed.

(* C16: the filter is exactly "not a temporary, not under .zinoma, extension matches" *)
Lemma watch_filter_spec exts p n :
  file_name p = Some n ->
  (watch_filter exts p = true <->
   ~ TmpEditorName n /\ ~ HasZinomaComponent p /\ NameMatches exts n).
Proof.
  intros Hn. unfold watch_filter, tmp_editor_path. rewrite Hn, (matches_extensions_name _ _ _ Hn).
  rewrite !andb_true_iff, !negb_true_iff, <- name_matches_spec.
  rewrite <- !not_true_iff_false, tmp_editor_spec, in_work_dir_spec. tauto.
Qed.

(* paths without a file name (a watched root spelled "x/..") never match a filter and never panic *)
Definition no_filter (exts : option (list bytes)) : bool :=
  match exts with None => true | Some _ => false end.

Lemma watch_filter_no_name exts p :
  file_name p = None -> watch_filter exts p = negb (in_work_dir p) && no_filter exts.
Proof.
  intros Hn. unfold watch_filter, tmp_editor_path, matches_extensions, no_filter. rewrite Hn.
  destruct exts; reflexivity.
Qed.

(* anything at or below <dir>/.zinoma is ignored: state writes cannot re-trigger a target *)
Lemma zinoma_name_facts : ~ In slash zinoma_name /\ zinoma_name <> [] /\ zinoma_name <> [dot].
Proof.
  repeat split; try discriminate. cbn. intros H.
  repeat (destruct H as [H|H]; [discriminate|]). exact H.
Qed.

Lemma in_work_dir_below d rest :
  in_work_dir (d ++ slash :: zinoma_name ++ slash :: rest) = true.
Proof.
  apply in_work_dir_spec. unfold HasZinomaComponent.
  rewrite components_app_sep, components_app_sep.
  destruct zinoma_name_facts as (H1 & H2 & H3).
  rewrite (components_single zinoma_name) by assumption.
  apply in_or_app. right. apply in_or_app. left. now left.
Qed.

Lemma in_work_dir_itself d :
  in_work_dir (d ++ slash :: zinoma_name) = true.
Proof.
  apply in_work_dir_spec. unfold HasZinomaComponent. rewrite components_app_sep.
  destruct zinoma_name_facts as (H1 & H2 & H3).
  rewrite (components_single zinoma_name) by assumption.
  apply in_or_app. right. now left.
Qed.

Lemma state_writes_ignored exts d rest :
  watch_filter exts (d ++ slash :: zinoma_name ++ slash :: rest) = false.
Proof.
  unfold watch_filter. rewrite in_work_dir_below. cbn. now rewrite andb_false_r.
Qed.

Lemma tmp_ignored exts p n :
  file_name p = Some n -> TmpEditorName n -> watch_filter exts p = false.
Proof.
  intros Hn Ht. unfold watch_filter, tmp_editor_path. rewrite Hn.
  apply tmp_editor_spec in Ht. now rewrite Ht.
Qed.

Lemma other_extension_ignored es p n :
  file_name p = Some n -> (forall e, In e es -> ~ EndsWith n e) -> watch_filter (Some es) p = false.
Proof.
  intros Hn Hno. unfold watch_filter. rewrite (matches_extensions_name _ _ _ Hn).
  destruct (name_matches (Some es) n) eqn:E; [|now rewrite andb_false_r].
  apply name_matches_spec in E. destruct E as [e [Hin He]]. exfalso. exact (Hno e Hin He).
Qed.

(* ---- C15: extension normalisation ---- *)
Definition NormExts (l : list bytes) : list bytes :=
  map norm_ext (filter (fun e => negb (is_nil e)) l).

Lemma norm_ext_dot e : e <> [] -> exists r, norm_ext e = dot :: r.
Proof.
  destruct e as [|x e]; [congruence|]. intros _. cbn [norm_ext].
  destruct (N.eqb_spec x dot) as [->|]; eauto.
Qed.

Lemma norm_ext_idem e : norm_ext (norm_ext e) = norm_ext e.
Proof.
  destruct e as [|x e]; [reflexivity|]. cbn [norm_ext].
  destruct (N.eqb_spec x dot) as [->|Hne]; cbn [norm_ext].
  - now rewrite N.eqb_refl.
  - now rewrite N.eqb_refl.
Qed.

Lemma transform_extensions_spec o :
  transform_extensions o =
  match o with
  | None => None
  | Some l => if forallb is_nil l then None else Some (NormExts l)
  end.
Proof.
  destruct o as [l|]; [|reflexivity]. unfold transform_extensions, NormExts.
  induction l as [|e l IH]; [reflexivity|].
  cbn [filter forallb]. destruct e as [|x e]; cbn [is_nil negb andb map]; [exact IH | reflexivity].
Qed.

Lemma transform_extensions_entries l es e :
  transform_extensions (Some l) = Some es ->
  (In e es <-> exists e0, In e0 l /\ e0 <> [] /\ e = norm_ext e0).
Proof.
  rewrite transform_extensions_spec. destruct (forallb is_nil l); [discriminate|].
  intros [= <-]. unfold NormExts. rewrite in_map_iff. split.
  - intros [e0 [<- Hin]]. apply filter_In in Hin as [Hin Hne]. exists e0. repeat split; try assumption.
    intros ->. discriminate.
  - intros [e0 (Hin & Hne & ->)]. exists e0. split; [reflexivity|]. apply filter_In. split; [assumption|].
    destruct e0; [congruence | reflexivity].
Qed.
