(* Processes: an actor that has exited holds no process, nothing is left at exit (C10); a service has at most one
   live instance at every instant, a restart stops the old instance first (C11). *)
From Zinoma.Proofs Require Export SysRoot.

Lemma app_split_prefix {A} (h ob h1 h2 : list A) :
  h ++ ob = h1 ++ h2 ->
  (exists h2', h = h1 ++ h2') \/ (exists ob1 ob2, ob = ob1 ++ ob2 /\ h1 = h ++ ob1).
Proof.
  revert h1. induction h as [|y h IH]; intros h1 Heq; cbn in *.
  - right. exists h1, h2. by rewrite Heq.
  - destruct h1 as [|z h1]; cbn in *.
    + left. by exists (y :: h).
    + injection Heq as <- Heq. destruct (IH h1 Heq) as [[h2' ->]|(ob1 & ob2 & -> & ->)].
      * left. by exists h2'.
      * right. by exists ob1, ob2.
Qed.

Section proc.
  Context (fx : bool) (g : graph) (roots : list tid).
  Notation wf := (wf g).

  Record proc_inv (s : sys) : Prop := {
    pi_exit : forall t a, actors s !! t = Some a -> exit_ok a;
    pi_done : forall st, ph s = PExited st -> forall t a, actors s !! t = Some a -> exited a = true;
    pi_live : forall t a, actors s !! t = Some a -> a_kind a = AService ->
      (forall h1 h2, hist s = h1 ++ h2 ->
         nob (ObStop t) h1 <= nob (ObSucc t) h1 /\ nob (ObSucc t) h1 <= nob (ObStop t) h1 + 1) /\
      nob (ObSucc t) (hist s) = nob (ObStop t) (hist s) + Nat.b2n (running a)
  }.

  Lemma proc_inv_init : proc_inv (init_sys g roots).
  Proof.
    split; cbn.
    - intros t a Ha. apply (init_actor_lookup g roots) in Ha as (k & deps & _ & ->). by intros ?.
    - done.
    - intros t a Ha Hk. apply (init_actor_lookup g roots) in Ha as (k & deps & _ & ->). cbn. split; [|done].
      intros h1 h2 Heq. destruct h1; [|done]. cbn. lia.
  Qed.

  Lemma proc_inv_step w s s' : wf s -> bal_inv s -> proc_inv s -> step_inv fx w s s' -> proc_inv s'.
  Proof.
    intros Hwf Hbi Hpi [t a e ok a' os ob Ha Hst Hact Hh _ _ _ _ _ _ _ (Hph & _) _ _ _|Hact _ Hh _ _ Hrs|ts _ Hact _ Hh _ _ (Hph & _) _].
    - destruct (Hwf t a Ha) as [Hid _].
      pose proof (bi_kind _ Hbi t a Ha) as Hko.
      assert (Hoth : forall t0 o l, t0 <> t -> obs_target o = t0 -> (forall x, x ∈ l -> x ∈ ob) -> nob o l = 0).
      { intros t0 o l Hne Ho Hsub. apply nob_other. intros x Hx ->.
        apply Hsub in Hx. apply (step_obs_self _ _ _ _ _ _ _ Hst) in Hx. congruence. }
      split.
      + intros t0 a0 Ha0. rewrite Hact in Ha0. destruct (decide (t0 = t)) as [->|Hne].
        * rewrite lookup_insert in Ha0. injection Ha0 as <-. by eapply step_exit_ok.
        * rewrite lookup_insert_ne in Ha0 by done. by eapply (pi_exit _ Hpi).
      + intros st Hp. rewrite Hph in Hp. exfalso.
        pose proof (pi_done _ Hpi st Hp t a Ha) as Hex. rewrite (step_not_exited _ _ _ _ _ _ _ Hst) in Hex. done.
      + intros t0 a0 Ha0 Hk0. rewrite Hact in Ha0. rewrite Hh. destruct (decide (t0 = t)) as [->|Hne].
        * rewrite lookup_insert in Ha0. injection Ha0 as <-.
          destruct (step_same_id _ _ _ _ _ _ _ Hst) as (_ & Hk' & _). rewrite Hk' in Hk0.
          destruct (pi_live _ Hpi t a Ha Hk0) as [Hpre Htot].
          destruct (step_service_live _ _ _ _ _ _ _ Hst Hk0) as [Hspre Hstot]. rewrite Hid in Hspre, Hstot.
          split.
          -- intros h1 h2 Heq. destruct (app_split_prefix _ _ _ _ Heq) as [[h2' Hold]|(ob1 & ob2 & Hob & ->)].
             ++ by eapply Hpre.
             ++ rewrite !nob_app. destruct (Hspre ob1 ob2 Hob). unfold nob, nobs in *. lia.
          -- rewrite !nob_app. unfold nob, nobs in *. lia.
        * rewrite lookup_insert_ne in Ha0 by done. destruct (pi_live _ Hpi t0 a0 Ha0 Hk0) as [Hpre Htot]. split.
          -- intros h1 h2 Heq. destruct (app_split_prefix _ _ _ _ Heq) as [[h2' Hold]|(ob1 & ob2 & Hob & ->)].
             ++ by eapply Hpre.
             ++ assert (Hsub1 : forall x, x ∈ ob1 -> x ∈ ob) by (intros x Hx; rewrite Hob; apply elem_of_app; by left).
                rewrite !nob_app, (Hoth t0 (ObStop t0) ob1 Hne eq_refl Hsub1), (Hoth t0 (ObSucc t0) ob1 Hne eq_refl Hsub1).
                destruct (Hpre (hist s) [] (eq_sym (app_nil_r _))). lia.
          -- rewrite !nob_app, (Hoth t0 (ObStop t0) ob Hne eq_refl (fun x H => H)), (Hoth t0 (ObSucc t0) ob Hne eq_refl (fun x H => H)). lia.
    - split.
      + intros t0 a0 Ha0. rewrite Hact in Ha0. by eapply (pi_exit _ Hpi).
      + intros st Hp t0 a0 Ha0. rewrite Hact in Ha0.
        destruct Hrs as [pre o rest Hp0 _ _ _ Hp' _ _ _|pre t rest _ Hp0 _ _ Hp' _ _ _|pre t act rest _ Hp0 _ _ Hp' _ _ _ _ _
                        |pre t act rest _ Hp0 _ _ Hp' _ _ _ _ _|_ Hp0 _ _ _ Hp' _ _ _ _|_ Hp0 _ _ _ Hp' _ _ _ _
                        |_ Hp' _ _ _ _|_ _ Hp' _ _ _ _|st0 Hp0 Hall Hp' _ _ _ _]; rewrite Hp' in Hp; try congruence.
        * rewrite Hp in Hp'. by eapply (pi_done _ Hpi).
        * unfold all_exited in Hall. apply bool_decide_eq_true in Hall. by eapply (map_Forall_lookup_1 _ _ _ _ Hall).
      + intros t0 a0 Ha0. rewrite Hact in Ha0. rewrite Hh. by apply (pi_live _ Hpi).
    - split.
      + intros t0 a0 Ha0. rewrite Hact in Ha0. by eapply (pi_exit _ Hpi).
      + intros st Hp t0 a0 Ha0. rewrite Hact in Ha0. rewrite Hph in Hp. by eapply (pi_done _ Hpi).
      + intros t0 a0 Ha0. rewrite Hact in Ha0. rewrite Hh. by apply (pi_live _ Hpi).
  Qed.

  Lemma proc_inv_reachable w s : reachable fx w g roots s -> proc_inv s.
  Proof.
    apply reachable_ind; [apply proc_inv_init|]. intros s0 l s1 Hr Hpi He.
    eapply proc_inv_step; [by eapply wf_reachable|by eapply bal_inv_reachable|done|by eapply exec_inv].
  Qed.

  (* C10: an actor that left its loop holds no process (kill-and-reap happens before the break) *)
  Theorem exited_holds_no_process w s t a :
    reachable fx w g roots s -> actors s !! t = Some a -> exited a = true -> ongoing a = false /\ running a = false.
  Proof. intros Hr Ha. by apply (pi_exit _ (proc_inv_reachable w s Hr) t a Ha). Qed.

  (* C10: when the process has exited, no build script and no service process is left *)
  Theorem no_child_after_exit w s st t a :
    reachable fx w g roots s -> ph s = PExited st -> actors s !! t = Some a -> ongoing a = false /\ running a = false.
  Proof.
    intros Hr Hp Ha. pose proof (proc_inv_reachable w s Hr) as Hpi.
    apply (pi_exit _ Hpi t a Ha). by eapply (pi_done _ Hpi).
  Qed.

  (* C11: at every instant of every run a service has at most one live instance, and the number of live instances is
     exactly the actor's `running` flag *)
  Theorem single_instance w s t a :
    reachable fx w g roots s -> actors s !! t = Some a -> a_kind a = AService ->
    (forall h1 h2, hist s = h1 ++ h2 ->
       nob (ObStop t) h1 <= nob (ObSucc t) h1 /\ nob (ObSucc t) h1 <= nob (ObStop t) h1 + 1) /\
    nob (ObSucc t) (hist s) = nob (ObStop t) (hist s) + Nat.b2n (running a).
  Proof. intros Hr. apply (pi_live _ (proc_inv_reachable w s Hr)). Qed.
End proc.
