From Zinoma.Proofs Require Export LiveDefs.
Section facts.
  Context (fx ok : bool) (a : astate) (e : event) (a' : astate) (os : list out) (ob : list obs).
  Context (Hstep : actor_step fx ok a e = Some (a', os, ob)).

  (* T1: the termination message either ends the actor or (a build in progress) turns into a cancellation *)
  Lemma step_term : e = ETerm ->
    exited a' = true \/ (a_kind a = ABuild /\ term_recv a' = true /\ ongoing a' = true /\ cancel_sent a' = true /\ exited a' = false).
  Proof using Hstep.
    clear -Hstep. intros ->. crush_step Hstep; aproj_all; try congruence; try (by left); right; repeat split; done.
  Qed.

  (* T2: a build being cancelled keeps that state while it handles messages and change notices *)
  Lemma step_cancelling_keeps :
    (exists m, e = EMsg m) \/ e = EInval ->
    a_kind a = ABuild -> term_recv a = true -> ongoing a = true -> cancel_sent a = true ->
    term_recv a' = true /\ ongoing a' = true /\ cancel_sent a' = true /\ exited a' = false.
  Proof using Hstep.
    clear -Hstep. intros He Hk H1 H2 H3. unfold actor_step in Hstep. rewrite Hk in Hstep.
    destruct He as [[m ->]| ->]; crush_step Hstep; aproj_all; bool_hyps; try congruence; try done.
  Qed.

  (* T3: a build that received the termination message ends with its build result *)
  Lemma step_result_after_term r : e = EBuildDone r -> term_recv a = true -> exited a' = true.
  Proof using Hstep.
    clear -Hstep. intros -> Ht. crush_step Hstep; aproj_all; try congruence; try done.
  Qed.
End facts.

(* T4: enabledness *)
Lemma actor_step_term_some fx ok a : exited a = false -> is_Some (actor_step fx ok a ETerm).
Proof.
  intros Hex. unfold actor_step, build_step, service_step, aggregate_step. rewrite Hex.
  destruct (a_kind a); [destruct (ongoing a)| |]; eauto.
Qed.

Lemma actor_step_cancelled_some fx ok a :
  exited a = false -> a_kind a = ABuild -> ongoing a = true -> is_Some (actor_step fx ok a (EBuildDone RCancelled)).
Proof.
  intros Hex Hk Ho. unfold actor_step, build_step. rewrite Hk, Hex, Ho. cbn [negb].
  destruct (term_recv _); [eauto|]. destruct (build_top _). eauto.
Qed.
