(* Proofs about the state-file codec, part 3: what `serialize_into` leaves in the file (Model/Codec.v `wr_env`).
   Either the serialisation completes and the bytes decode to the value (whatever follows), or it stops at the first
   non-UTF-8 path and then NO prefix of what was written — the whole of it included — decodes. *)
From Zinoma.Model Require Import Bytes Codec.
From Zinoma.Proofs Require Import Codec CodecRoundtrip.
From Coq Require Import Lia.

Definition Wr {A} (d : decoder A) (w : writer) (x : A) : Prop :=
  (snd w = true -> forall rest, d (fst w ++ rest) = Some (x, rest)) /\
  (snd w = false -> forall p t, fst w = p ++ t -> d p = None).

(* p ++ t = a ++ b: p stops strictly inside a, or covers a *)
Lemma app_split (p t a b : bytes) :
  p ++ t = a ++ b -> (exists t1, t1 <> [] /\ a = p ++ t1) \/ (exists p2, p = a ++ p2 /\ b = p2 ++ t).
Proof.
  revert a. induction p as [|x p IH]; intros a H.
  - destruct a as [|y a].
    + right. exists []. split; [reflexivity | exact (eq_sym H)].
    + left. exists (y :: a). split; [discriminate | reflexivity].
  - destruct a as [|y a].
    + right. exists (x :: p). split; [reflexivity | exact (eq_sym H)].
    + cbn in H. injection H as <- H. destruct (IH a H) as [[t1 [Ht1 ->]] | [p2 [-> ->]]].
      * left. exists t1. split; [exact Ht1 | reflexivity].
      * right. exists p2. split; reflexivity.
Qed.

Lemma Wr_ok {A} (d : decoder A) (b : bytes) (x : A) : (forall rest, d (b ++ rest) = Some (x, rest)) -> Wr d (wr_ok b) x.
Proof. intros H. split; [intros _; exact H | discriminate]. Qed.

Lemma Wr_then {A B} (d : decoder A) (f : A -> decoder B) w1 w2 x y :
  Parser d -> Wr d w1 x -> Wr (f x) w2 y -> Wr (dbind d f) (wr_then w1 w2) y.
Proof.
  intros Hp [H1ok H1f] [H2ok H2f]. unfold wr_then. destruct (snd w1) eqn:E1.
  - specialize (H1ok eq_refl). split; cbn [fst snd].
    + intros E2 rest. unfold dbind. rewrite <- app_assoc, H1ok. now apply H2ok.
    + intros E2 p t Hpt. unfold dbind. symmetry in Hpt. apply app_split in Hpt as [[t1 [Ht1 Ha]] | [p2 [-> Hb]]].
      * pose proof (H1ok []) as H0. rewrite app_nil_r in H0.
        destruct (Hp _ _ _ H0) as [u [Hu [_ Hpf]]]. rewrite app_nil_r in Hu. subst u.
        rewrite (Hpf p); [reflexivity|]. exists t1. now split.
      * rewrite H1ok. now apply (H2f E2 p2 t).
  - split; [intros E; rewrite E1 in E; discriminate|]. intros _ p t Hpt. unfold dbind.
    now rewrite (H1f eq_refl p t Hpt).
Qed.

Lemma Wr_map {A B} (d : decoder A) (g : A -> B) w x : Wr d w x -> Wr (dbind d (fun a => dret (g a))) w (g x).
Proof.
  intros [Hok Hf]. split.
  - intros E rest. unfold dbind. now rewrite (Hok E).
  - intros E p t Hpt. unfold dbind. now rewrite (Hf E p t Hpt).
Qed.

(* ---- values: everything `serialize` needs except that paths be UTF-8 (that is what `wr_path` tests) ---- *)
Definition len_ok (s : bytes) : Prop := N.of_nat (length s) < two64.
Definition fentry_repr (e : fentry) : Prop := len_ok (fst e) /\ dur_ok (fst (snd e)) /\ snd (snd e) < two64.
Definition centry_repr (e : centry) : Prop := str_ok (fst (fst e)) /\ len_ok (snd (fst e)) /\ str_ok (snd e).
Definition rstate_repr (r : res_state) : Prop :=
  Forall fentry_repr (rs_fs r) /\ Forall centry_repr (rs_cmd r) /\
  N.of_nat (length (rs_fs r)) < two64 /\ N.of_nat (length (rs_cmd r)) < two64.
Definition env_repr (e : env_state) : Prop :=
  rstate_repr (es_input e) /\ match es_output e with None => True | Some r => rstate_repr r end.

Lemma Wr_path p : len_ok p -> Wr dec_str (wr_path p) p.
Proof.
  intros Hl. unfold wr_path. destruct (utf8_ok p) eqn:E.
  - apply Wr_ok. intros rest. apply rt_str. now split.
  - split; [discriminate|]. intros _ q t Hq. cbn [fst] in Hq. destruct q; [reflexivity | discriminate].
Qed.

Lemma Wr_fentry e : fentry_repr e -> Wr dec_fentry (wr_fentry e) e.
Proof.
  destruct e as [p [d h]]. intros [Hp [Hd Hh]]. cbn [fst snd] in *. unfold wr_fentry, dec_fentry. cbn [fst snd].
  apply Wr_then with (x := p); [apply Parser_str | now apply Wr_path |]. apply Wr_ok. intros rest.
  unfold dbind. rewrite <- app_assoc, rt_duration by exact Hd. rewrite rt_u64 by exact Hh. reflexivity.
Qed.

Lemma Wr_centry e : centry_repr e -> Wr dec_centry (wr_centry e) e.
Proof.
  destruct e as [[c d] o]. intros [Hc [Hd Ho]]. cbn [fst snd] in *. unfold wr_centry, dec_centry. cbn [fst snd].
  apply Wr_then with (x := c); [apply Parser_str | apply Wr_ok; intros rest; now apply rt_str |].
  apply Wr_then with (x := d); [apply Parser_str | now apply Wr_path |]. apply Wr_ok. intros rest.
  unfold dbind. rewrite rt_str by exact Ho. reflexivity.
Qed.

(* ---- sequences ---- *)
Lemma wr_nonempty_fentry e : snd (wr_fentry e) = true -> (1 <= length (fst (wr_fentry e)))%nat.
Proof.
  unfold wr_fentry, wr_then, wr_path. destruct (utf8_ok (fst e)); cbn [fst snd]; [|discriminate]. intros _.
  rewrite app_length. pose proof (enc_str_nonempty (fst e)). lia.
Qed.

Lemma wr_nonempty_centry e : snd (wr_centry e) = true -> (1 <= length (fst (wr_centry e)))%nat.
Proof.
  unfold wr_centry, wr_then, wr_ok. cbn [fst snd]. intros _.
  rewrite app_length. pose proof (enc_str_nonempty (fst (fst e))). lia.
Qed.

Lemma Wr_elems {A} (d : decoder A) (f : A -> writer) (l : list A) :
  Parser d -> (forall x, In x l -> Wr d (f x) x) ->
  (snd (wr_all f l) = true ->
     forall rest fuel, (length l <= fuel)%nat ->
       dec_elems d fuel (N.of_nat (length l)) (fst (wr_all f l) ++ rest) = Some (l, rest)) /\
  (snd (wr_all f l) = false ->
     forall p t fuel, fst (wr_all f l) = p ++ t -> dec_elems d fuel (N.of_nat (length l)) p = None).
Proof.
  intros Hp. induction l as [|x l IH]; intros Hw.
  - split; [|discriminate]. intros _ rest fuel _. destruct fuel; reflexivity.
  - destruct (Hw x (or_introl eq_refl)) as [Hxok Hxf].
    destruct IH as [IHok IHf]; [intros y Hy; apply Hw; now right|].
    assert (Hn0 : (N.of_nat (length (x :: l)) =? 0) = false) by (apply N.eqb_neq; cbn [length]; lia).
    assert (Hn1 : N.of_nat (length (x :: l)) - 1 = N.of_nat (length l)) by (cbn [length]; lia).
    cbn [wr_all]. unfold wr_then. destruct (snd (f x)) eqn:Ex.
    + specialize (Hxok eq_refl). split; cbn [fst snd].
      * intros El rest fuel Hf. destruct fuel as [|fuel]; [cbn in Hf; lia|].
        cbn [dec_elems]. rewrite Hn0, <- app_assoc, Hxok, Hn1, (IHok El rest fuel); [reflexivity | cbn in Hf; lia].
      * intros El p t fuel Hpt. destruct fuel as [|fuel]; cbn [dec_elems]; rewrite Hn0; [reflexivity|].
        symmetry in Hpt. apply app_split in Hpt as [[t1 [Ht1 Ha]] | [p2 [-> Hb]]].
        -- pose proof (Hxok []) as H0. rewrite app_nil_r in H0.
           destruct (Hp _ _ _ H0) as [u [Hu [_ Hpf]]]. rewrite app_nil_r in Hu. subst u.
           rewrite (Hpf p); [reflexivity|]. exists t1. now split.
        -- rewrite Hxok, Hn1. now rewrite (IHf El p2 t fuel Hb).
    + split; [intros E; rewrite Ex in E; discriminate|]. intros _ p t fuel Hpt.
      destruct fuel as [|fuel]; cbn [dec_elems]; rewrite Hn0; [reflexivity|].
      now rewrite (Hxf eq_refl p t Hpt).
Qed.

Lemma wr_all_length {A} (f : A -> writer) (l : list A) :
  (forall x, snd (f x) = true -> (1 <= length (fst (f x)))%nat) ->
  snd (wr_all f l) = true -> (length l <= length (fst (wr_all f l)))%nat.
Proof.
  intros Hne. induction l as [|x l IH]; cbn [wr_all length]; [intros _; cbn; lia|].
  unfold wr_then. destruct (snd (f x)) eqn:Ex; cbn [fst snd]; [|intros E; rewrite Ex in E; discriminate].
  intros El. rewrite app_length. specialize (Hne x Ex). specialize (IH El). lia.
Qed.

Lemma Wr_seq {A} (d : decoder A) (f : A -> writer) (l : list A) :
  Parser d -> N.of_nat (length l) < two64 -> (forall x, In x l -> Wr d (f x) x) ->
  (forall x, snd (f x) = true -> (1 <= length (fst (f x)))%nat) ->
  Wr (dec_seq d) (wr_seq f l) l.
Proof.
  intros Hp Hl Hw Hne. unfold dec_seq, wr_seq.
  apply Wr_then with (x := N.of_nat (length l)); [apply Parser_u64 | apply Wr_ok; intros rest; unfold enc_len; now apply rt_u64 |].
  destruct (Wr_elems d f l Hp Hw) as [Hok Hf]. split.
  - intros E rest. apply Hok; [exact E|]. rewrite app_length. pose proof (wr_all_length f l Hne E). lia.
  - intros E p t Hpt. now apply (Hf E p t).
Qed.

Lemma Wr_rstate r : rstate_repr r -> Wr dec_rstate (wr_rstate r) r.
Proof.
  destruct r as [fs cs]. intros [Hf [Hc [Hlf Hlc]]]. cbn [rs_fs rs_cmd] in *. unfold dec_rstate, wr_rstate. cbn [rs_fs rs_cmd].
  apply Wr_then with (x := fs).
  - apply Parser_seq; [apply Parser_fentry | apply Consumes_fentry].
  - apply Wr_seq; [apply Parser_fentry | exact Hlf | | apply wr_nonempty_fentry].
    intros x Hx. apply Wr_fentry. rewrite Forall_forall in Hf. now apply Hf.
  - apply (Wr_map (dec_seq dec_centry) (fun cs => {| rs_fs := fs; rs_cmd := cs |})).
    apply Wr_seq; [apply Parser_centry | exact Hlc | | apply wr_nonempty_centry].
    intros x Hx. apply Wr_centry. rewrite Forall_forall in Hc. now apply Hc.
Qed.

Lemma Wr_env_raw e : env_repr e -> Wr dec_env_raw (wr_env e) e.
Proof.
  destruct e as [i o]. intros [Hi Ho]. cbn [es_input es_output] in *. unfold dec_env_raw, wr_env. cbn [es_input es_output].
  apply Wr_then with (x := i); [apply Parser_rstate | now apply Wr_rstate |].
  apply (Wr_map (dec_opt dec_rstate) (fun o => {| es_input := i; es_output := o |})).
  destruct o as [r|].
  - unfold dec_opt. apply Wr_then with (x := 1); [apply Parser_u8 | |].
    + apply Wr_ok. intros rest. change [1] with (le_bytes 1 1). unfold dec_u8. apply dec_fixed_le_bytes. cbn. lia.
    + cbn [N.eqb Pos.eqb]. apply (Wr_map dec_rstate (@Some res_state)). now apply Wr_rstate.
  - apply Wr_ok. intros rest. unfold dec_opt, dbind. change [0] with (le_bytes 1 0). unfold dec_u8.
    rewrite dec_fixed_le_bytes by (cbn; lia). reflexivity.
Qed.

(* ---- the three facts the build cycle needs ---- *)
(* a completed write decodes to the value written *)
Lemma wr_env_complete e rest :
  env_repr e -> env_distinct e -> snd (wr_env e) = true -> dec_env (fst (wr_env e) ++ rest) = Some (e, rest).
Proof.
  intros Hr Hd E. destruct (Wr_env_raw e Hr) as [Hok _]. apply dec_env_some. exists e.
  split; [now apply Hok | now rewrite canon_env_distinct].
Qed.

(* an interrupted write (any byte offset), or a write that failed, leaves bytes that do not decode *)
Lemma wr_env_partial e p t :
  env_repr e -> fst (wr_env e) = p ++ t -> t <> [] \/ snd (wr_env e) = false -> dec_env p = None.
Proof.
  intros Hr Hpt Hc. apply dec_env_none. destruct (Wr_env_raw e Hr) as [Hok Hf].
  destruct (snd (wr_env e)) eqn:E.
  - destruct Hc as [Ht | Hc]; [|discriminate].
    pose proof (Hok eq_refl []) as H0. rewrite app_nil_r in H0.
    destruct (Parser_env_raw _ _ _ H0) as [u [Hu [_ Hpf]]]. rewrite app_nil_r in Hu. subst u.
    apply Hpf. exists t. now split.
  - now apply (Hf eq_refl p t).
Qed.
