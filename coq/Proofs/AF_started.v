(* Per-step fact about actor_step: the to-execute flag is cleared only by a start. *)
From Zinoma.Proofs Require Export ActorFacts.
Section facts.
  Context (fx ok : bool) (a : astate) (e : event) (a' : astate) (os : list out) (ob : list obs).
  Context (Hstep : actor_step fx ok a e = Some (a', os, ob)).
  Lemma step_cleared_by_start : to_execute a = true -> to_execute a' = false -> ObStart (a_id a) ∈ ob.
  Proof using Hstep.
    clear -Hstep. intros H1 H2. crush_step Hstep; aproj_all; try congruence; solve_elem.
  Qed.
End facts.

Section facts2.
  Context (fx ok : bool) (a : astate) (e : event) (a' : astate) (os : list out) (ob : list obs).
  Context (Hstep : actor_step fx ok a e = Some (a', os, ob)).
  (* a change notice leaves the target due to run again, or it has started in the very same step *)
  Lemma step_inval_pending : e = EInval -> to_execute a' = true \/ ObStart (a_id a) ∈ ob.
  Proof using Hstep.
    clear -Hstep. intros ->. crush_step Hstep; aproj_all; try congruence; try (by left); right; solve_elem.
  Qed.

  Lemma actor_step_inval_some_kind : e = EInval -> a_kind a <> AAggregate.
  Proof using Hstep.
    clear -Hstep. intros -> Hk. unfold actor_step in Hstep. rewrite Hk in Hstep. unfold aggregate_step in Hstep.
    by destruct (exited a).
  Qed.
End facts2.

Lemma actor_step_inval_some fx ok a : exited a = false -> a_kind a <> AAggregate -> is_Some (actor_step fx ok a EInval).
Proof.
  intros Hex Hk. unfold actor_step, build_step, service_step. rewrite Hex. destruct (a_kind a); [| |done].
  - destruct (notify_invalidated a KB) as [a1 o]. destruct (build_top a1). eauto.
  - destruct (notify_invalidated a KS) as [a1 o]. destruct (service_top ok a1) as [[a2 o2] ob2]. eauto.
Qed.
