(* C04: a one-shot run with the repaired handlers never idles while the root is still waiting (no lost wake-up):
   in every reachable quiescent state in which no script failed, the root has left its loop. Part 1: the invariant. *)
From Zinoma.Proofs Require Export SysWatch LiveFacts.

Definition r_unav (s : sys) (k : kind) : gset tid := match k with KB => r_unavB s | KS => r_unavS s end.

(* requester R has taken note that d is ready for kind k *)
Definition consumed (s : sys) (R : aid) (k : kind) (d : tid) : Prop :=
  match R with
  | ARoot => d ∉ r_unav s k
  | ATarget t => exists a, actors s !! t = Some a /\ d ∉ unav a k
  end.

(* ... or the acknowledgement is on its way *)
Definition acked (s : sys) (R : aid) (k : kind) (d : tid) : Prop :=
  (exists act, msg_in s R (MOk k d act)) \/ consumed s R k d.

Section live.
  Context (g : graph) (roots : list tid).
  Notation wf := (wf g).

  (* R has asked d for kind k (the root asks every requested target for both kinds at start-up) *)
  Definition wants (s : sys) (R : aid) (d : tid) (k : kind) : Prop :=
    match R with
    | ARoot => d ∈ roots
    | ATarget t => exists a, actors s !! t = Some a /\ d ∈ a_deps a /\ fanned a k
    end.

  Record live_inv (s : sys) : Prop := {
    li_dom : forall t, is_Some (g !! t) -> is_Some (actors s !! t);
    li_calm : forall t a, actors s !! t = Some a -> calm a;
    li_termq : termq s = ∅;
    li_nounreq : forall dst k r, ~ msg_in s dst (MUnrequested k r);
    li_req : forall R d k ad, wants s R d k -> actors s !! d = Some ad ->
               msg_in s (ATarget d) (MRequested k R) \/ (own ad k /\ R ∈ reqs ad k) \/ (~ own ad k /\ acked s R k d);
    li_ack : forall d ad R k, actors s !! d = Some ad -> own ad k -> R ∈ reqs ad k -> done ad k -> acked s R k d;
    li_nopend : forall d ad, actors s !! d = Some ad -> no_pending ad;
    li_flags : forall d ad, actors s !! d = Some ad -> a_kind ad <> AAggregate -> to_execute ad = false ->
                 ongoing ad = true \/ executed ad = true \/ ObFail d ∈ hist s;
    li_unavsub : forall d ad k x, actors s !! d = Some ad -> x ∈ unav ad k -> x ∈ a_deps ad;
    li_rsub : forall k x, x ∈ r_unav s k -> x ∈ roots
  }.

  (* ---- initial state ---- *)
  Lemma init_inbox_has rs r k : r ∈ rs -> exists l, init_inbox rs !! r = Some l /\ MRequested k ARoot ∈ l.
  Proof.
    unfold init_inbox.
    assert (Hgen : forall rs ib,
              ((exists l, ib !! r = Some l /\ MRequested k ARoot ∈ l) \/ r ∈ rs) ->
              exists l, foldl (fun ib r => push_inbox (push_inbox ib r (MRequested KB ARoot)) r (MRequested KS ARoot)) ib rs !! r = Some l /\ MRequested k ARoot ∈ l).
    { clear. induction rs as [|x rs IH]; intros ib H; cbn.
      - destruct H as [H|H]; [done|by apply elem_of_nil in H].
      - apply IH. destruct (decide (r = x)) as [->|Hne].
        + left. rewrite !lookup_push_inbox, !decide_True by done. eexists; split; [done|]. cbn.
          rewrite !elem_of_app, !elem_of_list_singleton. destruct k; auto.
        + destruct H as [(l & Hl & Hin)|H].
          * left. exists l. rewrite !lookup_push_inbox, !decide_False by done. done.
          * right. apply elem_of_cons in H as [?|?]; [done|done]. }
    intros Hin. apply Hgen. by right.
  Qed.

  Lemma live_inv_init : live_inv (init_sys g roots).
  Proof.
    split; cbn.
    - intros t [[k deps] Hg]. rewrite map_lookup_imap. unfold graph in *. rewrite Hg. cbn. eauto.
    - intros t a Ha. apply (init_actor_lookup g roots) in Ha as (k & deps & _ & ->). by repeat split.
    - done.
    - intros [|d] k r Hin; cbn in Hin; [by apply elem_of_nil in Hin|].
      destruct Hin as (l & Hl & Hin). destruct (init_inbox_msgs roots d l _ Hl Hin) as [_ [k' Heq]]. done.
    - intros R d k ad Hw Had. apply (init_actor_lookup g roots) in Had as (kk & deps & Hg & ->).
      destruct R as [|t]; cbn in Hw.
      + left. cbn. by apply init_inbox_has.
      + destruct Hw as (a & Ha & _ & Hf). apply (init_actor_lookup g roots) in Ha as (k2 & deps2 & _ & ->).
        exfalso. unfold fanned in Hf. cbn in Hf. destruct k2, k; done.
    - intros d ad R k Had _ HR. apply (init_actor_lookup g roots) in Had as (kk & deps & _ & ->).
      destruct k; cbn in HR; set_solver.
    - intros d ad Had. apply (init_actor_lookup g roots) in Had as (kk & deps & _ & ->).
      intros k _ _ Hr. destruct k; cbn in Hr; done.
    - intros d ad Had _ Hte. by apply (init_actor_lookup g roots) in Had as (kk & deps & _ & ->).
    - intros d ad k x Had Hx. apply (init_actor_lookup g roots) in Had as (kk & deps & _ & ->).
      destruct k; cbn in *; by apply elem_of_list_to_set in Hx.
    - intros k x Hx. destruct k; cbn in Hx; by apply elem_of_list_to_set in Hx.
  Qed.
End live.
