(* The acceptance function `accept_project` (what serde does with a YAML value) against a declarative grammar.
   `ProjectDenotes v p`: the value v matches the schema and denotes the project p;  `MatchesSchema v := exists p, ..`.
   Theorem accept_project_iff : accept_project v = Some p <-> ProjectDenotes v p. *)
From Zinoma.Model Require Import Config.
From Zinoma.Proofs Require Import Bytes.
From Coq Require Import Lia Arith PeanoNat.
Local Open Scope nat_scope.

(* ------------------------------------------------------------------------------------------------ the grammar *)

(* the source text of a scalar *)
Inductive ScalarText : yv -> bytes -> Prop :=
| ST_str s : ScalarText (YStr s) s
| ST_null src : ScalarText (YNull src) src
| ST_true : ScalarText (YBool true) k_true
| ST_false : ScalarText (YBool false) k_false
| ST_nat n src : ScalarText (YNat n src) src
| ST_other src : ScalarText (YOther src) src.

(* a sequence of string-typed scalars *)
Definition StrSeq (v : yv) (l : list bytes) : Prop := v = YSeq (map YStr l).

Definition IsNull (v : yv) : Prop := exists src, v = YNull src.

(* which field a key names. Inside a target (buffered value): a string equal to the field's name, or an unsigned
   integer equal to the field's position. At project level (event stream): any scalar whose source text is the name. *)
Definition CKey (fields : list bytes) (k : yv) (i : nat) : Prop :=
  (exists s, k = YStr s /\ nth_error fields i = Some s) \/
  (exists n src, k = YNat n src /\ i = N.to_nat n /\ i < length fields).

Definition DKey (fields : list bytes) (k : yv) (i : nat) : Prop :=
  exists s, ScalarText k s /\ nth_error fields i = Some s.

Definition KeysKnown (key : yv -> nat -> Prop) (m : list (yv * yv)) : Prop :=
  Forall (fun kv => exists i, key (fst kv) i) m.

Definition KeysDistinct (key : yv -> nat -> Prop) (m : list (yv * yv)) : Prop :=
  ForallOrdPairs (fun a b => forall i, key (fst a) i -> key (fst b) i -> False) m.

(* field i is given with value v / is absent *)
Definition FieldIs (key : yv -> nat -> Prop) (m : list (yv * yv)) (i : nat) (o : option yv) : Prop :=
  match o with
  | Some v => exists k, In (k, v) m /\ key k i
  | None => forall k v, In (k, v) m -> ~ key k i
  end.

Notation "sl @ i" := (nth i sl None) (at level 20).

(* a mapping read as a struct of n fields: every key names a field, no field twice; sl lists the fields' values *)
Definition Struct (key : yv -> nat -> Prop) (n : nat) (v : yv) (sl : list (option yv)) : Prop :=
  exists m, v = YMap m /\ length sl = n /\ KeysKnown key m /\ KeysDistinct key m /\
            forall i, FieldIs key m i (sl @ i).

(* resources *)
Definition OptExts (o : option yv) (exts : option (list bytes)) : Prop :=
  match o with
  | None => exts = None
  | Some (YNull _) => exts = None
  | Some ev => exists l, StrSeq ev l /\ exts = Some l
  end.

Definition FilesItem (v : yv) (paths : list bytes) (exts : option (list bytes)) : Prop :=
  exists sl, Struct (CKey files_fields) 2 v sl /\
             (exists pv, sl @ 0 = Some pv /\ StrSeq pv paths) /\ OptExts (sl @ 1) exts.

Definition CmdItem (v : yv) (c : bytes) : Prop :=
  exists sl, Struct (CKey cmd_fields) 1 v sl /\ sl @ 0 = Some (YStr c).

(* untagged: the first alternative that matches *)
Inductive InputDenotes : yv -> yinput -> Prop :=
| ID_dep s : InputDenotes (YStr s) (YIDepOutput s)
| ID_files v p e : FilesItem v p e -> InputDenotes v (YIFiles p e)
| ID_cmd v c : (forall p e, ~ FilesItem v p e) -> CmdItem v c -> InputDenotes v (YICmd c).

Inductive OutputDenotes : yv -> youtput -> Prop :=
| OD_files v p e : FilesItem v p e -> OutputDenotes v (YOFiles p e)
| OD_cmd v c : (forall p e, ~ FilesItem v p e) -> CmdItem v c -> OutputDenotes v (YOCmd c).

(* optional fields with a default *)
Definition DepsField (o : option yv) (d : list bytes) : Prop :=
  match o with None => d = [] | Some dv => StrSeq dv d end.

Definition ItemsField {A} (D : yv -> A -> Prop) (o : option yv) (r : list A) : Prop :=
  match o with None => r = [] | Some iv => exists items, iv = YSeq items /\ Forall2 D items r end.

(* targets *)
Definition BuildDenotes (v : yv) (d : list bytes) (b : bytes) (i : list yinput) (o : list youtput) : Prop :=
  exists sl, Struct (CKey build_fields) 4 v sl /\ DepsField (sl @ 0) d /\ sl @ 1 = Some (YStr b) /\
             ItemsField InputDenotes (sl @ 2) i /\ ItemsField OutputDenotes (sl @ 3) o.

Definition ServiceDenotes (v : yv) (d : list bytes) (s : bytes) (i : list yinput) : Prop :=
  exists sl, Struct (CKey service_fields) 3 v sl /\ DepsField (sl @ 0) d /\ sl @ 1 = Some (YStr s) /\
             ItemsField InputDenotes (sl @ 2) i.

Definition AggregateDenotes (v : yv) (d : list bytes) : Prop :=
  exists sl, Struct (CKey aggregate_fields) 1 v sl /\ exists dv, sl @ 0 = Some dv /\ StrSeq dv d.

Definition IsBuild (v : yv) : Prop := exists d b i o, BuildDenotes v d b i o.
Definition IsService (v : yv) : Prop := exists d s i, ServiceDenotes v d s i.

(* exactly one kind: the first of build / service / aggregate that the mapping matches *)
Inductive TargetDenotes : yv -> ytarget -> Prop :=
| TD_build v d b i o : BuildDenotes v d b i o -> TargetDenotes v (YBuild d b i o)
| TD_service v d s i : ~ IsBuild v -> ServiceDenotes v d s i -> TargetDenotes v (YService d s i)
| TD_aggregate v d : ~ IsBuild v -> ~ IsService v -> AggregateDenotes v d -> TargetDenotes v (YAggregate d).

(* the project *)
Definition ProjectFields (v : yv) (sl : list (option yv)) : Prop :=
  Struct (DKey project_fields) 3 v sl \/
  (exists l, v = YSeq l /\ length l <= 3 /\ sl = map Some l ++ repeat None (3 - length l)).

(* a mapping from names (any scalar, by source text) to values; a repeated name keeps its last value *)
Definition MapField {V} (D : yv -> V -> Prop) (o : option yv) (r : list (bytes * V)) : Prop :=
  match o with
  | None => r = []
  | Some mv => exists m es, mv = YMap m /\
                 Forall2 (fun kv e => ScalarText (fst kv) (fst e) /\ D (snd kv) (snd e)) m es /\
                 r = hm_of_list es
  end.

Definition NameField (o : option yv) (n : option bytes) : Prop :=
  match o with
  | None => n = None
  | Some (YNull _) => n = None
  | Some nv => exists s, ScalarText nv s /\ n = Some s
  end.

Definition ProjectDenotes (v : yv) (p : yproject) : Prop :=
  exists sl, ProjectFields v sl /\
             MapField TargetDenotes (sl @ 0) (yp_targets p) /\
             NameField (sl @ 1) (yp_name p) /\
             MapField ScalarText (sl @ 2) (yp_imports p).

Definition MatchesSchema (v : yv) : Prop := exists p, ProjectDenotes v p.

(* ------------------------------------------------------------------------------------------------ small facts *)

Lemma scalar_text_spec v s : scalar_text v = Some s <-> ScalarText v s.
Proof.
  split.
  - destruct v as [s0|src|[]|n src|src|l|l]; cbn; intros [= <-]; constructor.
  - intros H. destruct H; reflexivity.
Qed.

Lemma all_some_spec {A B} (f : A -> option B) l r :
  all_some (map f l) = Some r <-> Forall2 (fun x y => f x = Some y) l r.
Proof.
  revert r. induction l as [|x l IH]; intros r; cbn [map all_some].
  - split; [intros [= <-]; constructor | intros H; inversion H; reflexivity].
  - destruct (f x) as [y|] eqn:E.
    + destruct (all_some (map f l)) as [r'|] eqn:E'.
      * split.
        -- intros [= <-]. constructor; [exact E | now apply IH].
        -- intros H. inversion H as [|? y' ? r'' Hy Hr]; subst. apply IH in Hr. congruence.
      * split; [discriminate|]. intros H. inversion H as [|? y' ? r'' Hy Hr]; subst. apply IH in Hr. discriminate.
    + split; [discriminate|]. intros H. inversion H; subst. congruence.
Qed.

Lemma Forall2_iff {A B} (P Q : A -> B -> Prop) l r :
  (forall x y, In x l -> (P x y <-> Q x y)) -> Forall2 P l r -> Forall2 Q l r.
Proof.
  intros H F. induction F as [|x y l r Hxy F IH]; constructor.
  - apply H; [now left | exact Hxy].
  - apply IH. intros x' y' Hin. apply H. now right.
Qed.

Lemma c_string_spec v s : c_string v = Some s <-> v = YStr s.
Proof. destruct v; cbn; split; intros H; try discriminate; congruence. Qed.

Lemma c_str_list_spec v l : c_str_list v = Some l <-> StrSeq v l.
Proof.
  unfold StrSeq. destruct v as [s|src|b|n src|src|items|m]; cbn [c_str_list]; try (split; discriminate).
  rewrite all_some_spec. split.
  - intros F. f_equal. induction F as [|x y xs ys Hxy F IH]; cbn; [reflexivity|].
    apply c_string_spec in Hxy. congruence.
  - intros [= ->]. induction l as [|s l IH]; cbn; constructor; auto.
Qed.

Lemma c_opt_str_list_spec v e : c_opt_str_list v = Some e <-> OptExts (Some v) e.
Proof.
  unfold c_opt_str_list, OptExts.
  destruct v as [s|src|b|n src|src|items|m];
    try (split; [intros [= <-]; reflexivity | intros ->; reflexivity]);
    (destruct (c_str_list _) as [l|] eqn:E;
     [ apply c_str_list_spec in E; split;
       [ intros [= <-]; now exists l
       | intros [l' [Hl ->]]; f_equal; f_equal; unfold StrSeq in *; rewrite E in Hl; injection Hl as Hl;
         clear - Hl; revert l' Hl; induction l as [|a l IH]; intros [|a' l']; cbn; intros H; try discriminate;
         [reflexivity | injection H as -> H; f_equal; now apply IH] ]
     | split; [discriminate | intros [l' [Hl ->]]; apply c_str_list_spec in Hl; congruence] ]).
Qed.

(* ------------------------------------------------------------------------------------------------ struct reading *)

Lemma length_set_nth {A} i (x : A) l : length (set_nth i x l) = length l.
Proof. revert i; induction l as [|y l IH]; intros [|i]; cbn; auto. Qed.

Lemma nth_set_nth_eq {A} i (x d : A) l : i < length l -> nth i (set_nth i x l) d = x.
Proof. revert i; induction l as [|y l IH]; intros [|i]; cbn; intros H; try lia; auto. apply IH. lia. Qed.

Lemma nth_set_nth_neq {A} i j (x d : A) l : i <> j -> nth j (set_nth i x l) d = nth j l d.
Proof. revert i j; induction l as [|y l IH]; intros [|i] [|j]; cbn; intros H; try congruence; auto. Qed.

Lemma nth_ext_option {A} (l1 l2 : list (option A)) :
  length l1 = length l2 -> (forall i, nth i l1 None = nth i l2 None) -> l1 = l2.
Proof.
  revert l2; induction l1 as [|a l1 IH]; intros [|b l2]; cbn; intros Hl Hn; try discriminate; [reflexivity|].
  f_equal; [exact (Hn 0) | apply IH; [lia | intros i; exact (Hn (S i))]].
Qed.

Section FillSlots.
  Variable kf : yv -> option nat.

  Definition FS (m : list (yv * yv)) (acc sl : list (option yv)) : Prop :=
    length sl = length acc /\
    Forall (fun kv => exists i, kf (fst kv) = Some i /\ acc @ i = None) m /\
    ForallOrdPairs (fun a b => kf (fst a) <> kf (fst b)) m /\
    forall i w, sl @ i = Some w <-> (acc @ i = Some w \/ exists k, In (k, w) m /\ kf k = Some i).

  Lemma fill_slots_spec m : forall acc sl,
    (forall k i, kf k = Some i -> i < length acc) ->
    (fill_slots kf m acc = Some sl <-> FS m acc sl).
  Proof.
    induction m as [|[k v] m IH]; intros acc sl Hb; cbn [fill_slots].
    - split.
      + intros [= <-]. split; [reflexivity|]. split; [constructor|]. split; [constructor|].
        intros i w. split; [now left | intros [H|[k [[] _]]]; exact H].
      + intros (Hl & _ & _ & Hs). f_equal. symmetry. apply nth_ext_option; [exact Hl|].
        intros i. destruct (acc @ i) as [w|] eqn:E.
        * apply Hs. now left.
        * destruct (sl @ i) as [w|] eqn:E'; [|reflexivity]. apply Hs in E' as [E'|[k [[] _]]]. congruence.
    - destruct (kf k) as [i0|] eqn:Ek.
      2:{ split; [discriminate|]. intros (_ & Hk & _). inversion Hk as [|? ? [i [Hi _]] _]; subst. cbn in Hi. congruence. }
      assert (Hi0 : i0 < length acc) by (eapply Hb; eauto).
      destruct (acc @ i0) as [w0|] eqn:Ea.
      { split; [discriminate|]. intros (_ & Hk & _). inversion Hk as [|? ? [i [Hi Hf]] _]; subst. cbn in Hi. congruence. }
      assert (Hb' : forall k' i, kf k' = Some i -> i < length (set_nth i0 (Some v) acc)).
      { intros k' i Hk'. rewrite length_set_nth. eauto. }
      rewrite (IH (set_nth i0 (Some v) acc) sl Hb'). unfold FS. rewrite length_set_nth. split.
      + intros (Hl & Hk & Hd & Hs). split; [exact Hl|]. split; [|split].
        * constructor; [exists i0; auto|]. eapply Forall_impl; [|exact Hk].
          intros kv (i & Hi & Hf). exists i. split; [exact Hi|].
          destruct (Nat.eq_dec i0 i) as [<-|Hne]; [rewrite nth_set_nth_eq in Hf by exact Hi0; discriminate|].
          now rewrite nth_set_nth_neq in Hf.
        * constructor; [|exact Hd]. eapply Forall_impl; [|exact Hk].
          intros kv (i & Hi & Hf). cbn [fst]. rewrite Ek, Hi. intros [= <-].
          rewrite nth_set_nth_eq in Hf by exact Hi0. discriminate.
        * intros i w. rewrite Hs. destruct (Nat.eq_dec i0 i) as [<-|Hne].
          -- rewrite nth_set_nth_eq by exact Hi0. rewrite Ea. split.
             ++ intros [[= <-]|(k' & Hin & Hk')]; right; [exists k; split; [now left | exact Ek]|].
                exists k'. split; [now right | exact Hk'].
             ++ intros [H|(k' & [[= <- <-]|Hin] & Hk')]; [discriminate | now left | right; eauto].
          -- rewrite nth_set_nth_neq by exact Hne. split.
             ++ intros [H|(k' & Hin & Hk')]; [now left | right; exists k'; split; [now right | exact Hk']].
             ++ intros [H|(k' & [[= <- <-]|Hin] & Hk')]; [now left | congruence | right; eauto].
      + intros (Hl & Hk & Hd & Hs). inversion Hk as [|? ? _ Hk']; subst. inversion Hd as [|? ? Hd1 Hd2]; subst.
        split; [exact Hl|]. split; [|split; [exact Hd2|]].
        * rewrite Forall_forall in *. intros kv Hin. destruct (Hk' kv Hin) as (i & Hi & Hf). exists i. split; [exact Hi|].
          assert (i0 <> i). { intros <-. apply (Hd1 kv Hin). cbn [fst]. congruence. }
          now rewrite nth_set_nth_neq.
        * intros i w. rewrite Hs. destruct (Nat.eq_dec i0 i) as [<-|Hne].
          -- rewrite nth_set_nth_eq by exact Hi0. rewrite Ea. split.
             ++ intros [H|(k' & [[= <- <-]|Hin] & Hk'')]; [discriminate | now left |].
                exfalso. rewrite Forall_forall in Hd1. apply (Hd1 (k', w) Hin). cbn [fst]. congruence.
             ++ intros [[= <-]|(k' & Hin & Hk'')]; right; [exists k; split; [now left | exact Ek]|].
                exists k'. split; [now right | exact Hk''].
          -- rewrite nth_set_nth_neq by exact Hne. split.
             ++ intros [H|(k' & [[= <- <-]|Hin] & Hk'')]; [now left | congruence | right; eauto].
             ++ intros [H|(k' & Hin & Hk'')]; [now left | right; exists k'; split; [now right | exact Hk'']].
  Qed.
End FillSlots.

Lemma nth_repeat_none {A} n i : nth i (repeat (@None A) n) None = None.
Proof. revert i; induction n as [|n IH]; intros [|i]; cbn; auto. Qed.

(* from the computed key reading kf to the declarative one *)
Lemma struct_spec (kf : yv -> option nat) (key : yv -> nat -> Prop) n m sl :
  (forall k i, kf k = Some i <-> key k i) -> (forall k i, key k i -> i < n) ->
  (fill_slots kf m (repeat None n) = Some sl <-> Struct key n (YMap m) sl).
Proof.
  intros Hkf Hlt.
  rewrite fill_slots_spec by (intros k i Hk; rewrite repeat_length; apply (Hlt k), Hkf, Hk).
  unfold FS, Struct. rewrite repeat_length. split.
  - intros (Hl & Hk & Hd & Hs). exists m. split; [reflexivity|]. split; [exact Hl|]. split; [|split].
    + eapply Forall_impl; [|exact Hk]. intros kv (i & Hi & _). exists i. now apply Hkf.
    + clear - Hd Hkf. induction Hd as [|a l Ha Hd IH]; constructor; [|exact IH].
      eapply Forall_impl; [|exact Ha]. intros b Hab i H1 H2. apply Hkf in H1, H2. congruence.
    + intros i. destruct (sl @ i) as [w|] eqn:E.
      * apply Hs in E as [E|(k & Hin & Hk')]; [rewrite nth_repeat_none in E; discriminate|].
        exists k. split; [exact Hin | now apply Hkf].
      * intros k v Hin Hk'. assert (sl @ i = Some v) by (apply Hs; right; exists k; split; [exact Hin | now apply Hkf]).
        congruence.
  - intros (m' & [= <-] & Hl & Hk & Hd & Hf). split; [exact Hl|]. split; [|split].
    + eapply Forall_impl; [|exact Hk]. intros kv (i & Hi). exists i. split; [now apply Hkf | apply nth_repeat_none].
    + clear - Hd Hk Hkf. induction Hd as [|a l Ha Hd IH]; constructor.
      * inversion Hk as [|? ? [i Hi] Hk']; subst. eapply Forall_impl; [|exact Ha]. intros b Hab Heq.
        apply Hkf in Hi. apply (Hab i); apply Hkf; congruence.
      * apply IH. now inversion Hk.
    + intros i w. rewrite nth_repeat_none. split.
      * intros E. right. specialize (Hf i). rewrite E in Hf. destruct Hf as (k & Hin & Hk'). exists k.
        split; [exact Hin | now apply Hkf].
      * intros [H|(k & Hin & Hk')]; [discriminate|]. apply Hkf in Hk'. specialize (Hf i).
        destruct (sl @ i) as [w'|] eqn:E.
        -- destruct Hf as (k' & Hin' & Hk''). f_equal.
           destruct (ForallOrdPairs_In Hd _ _ Hin Hin') as [Heq|[Hr|Hr]].
           ++ congruence.
           ++ exfalso. apply (Hr i); assumption.
           ++ exfalso. apply (Hr i); assumption.
        -- exfalso. apply (Hf k w Hin Hk').
Qed.

(* ---- the two key readings ---- *)
Lemma index_of_spec s fields i : NoDup fields -> (index_of s fields = Some i <-> nth_error fields i = Some s).
Proof.
  revert i. induction fields as [|f fields IH]; intros i Hnd; cbn [index_of].
  - split; [discriminate | destruct i; discriminate].
  - inversion Hnd as [|? ? Hni Hnd']; subst. destruct (beq s f) eqn:E.
    + apply beq_eq in E. subst f. split.
      * intros [= <-]. reflexivity.
      * destruct i as [|i]; [reflexivity|]. cbn. intros H. apply nth_error_In in H. contradiction.
    + destruct i as [|i]; cbn [nth_error].
      * split; [destruct (index_of s fields); discriminate|]. intros [= ->]. rewrite beq_refl in E. discriminate.
      * rewrite <- IH by exact Hnd'. destruct (index_of s fields) as [j|]; split; intros H; try discriminate; congruence.
Qed.

Lemma c_field_spec fields k i : NoDup fields -> (c_field fields k = Some i <-> CKey fields k i).
Proof.
  intros Hnd. unfold c_field, CKey. destruct k as [s|src|b|n src|src|l|l].
  - rewrite index_of_spec by exact Hnd. split.
    + intros H. left. now exists s.
    + intros [(s' & [= <-] & H)|(n & src & [=] & _)]. exact H.
  - split; [discriminate | intros [(s' & [=] & _)|(n & src' & [=] & _)]].
  - split; [discriminate | intros [(s' & [=] & _)|(n & src' & [=] & _)]].
  - destruct (N.ltb n (N.of_nat (length fields))) eqn:E.
    + apply N.ltb_lt in E. split.
      * intros [= <-]. right. exists n, src. split; [reflexivity|]. split; [reflexivity|]. lia.
      * intros [(s' & [=] & _)|(n' & src' & [= <- <-] & -> & _)]. reflexivity.
    + apply N.ltb_ge in E. split; [discriminate|].
      intros [(s' & [=] & _)|(n' & src' & [= <- <-] & -> & Hlt)]. lia.
  - split; [discriminate | intros [(s' & [=] & _)|(n & src' & [=] & _)]].
  - split; [discriminate | intros [(s' & [=] & _)|(n & src' & [=] & _)]].
  - split; [discriminate | intros [(s' & [=] & _)|(n & src' & [=] & _)]].
Qed.

Lemma d_field_spec fields k i : NoDup fields -> (d_field fields k = Some i <-> DKey fields k i).
Proof.
  intros Hnd. unfold d_field, DKey. destruct (scalar_text k) as [s|] eqn:E.
  - rewrite index_of_spec by exact Hnd. apply scalar_text_spec in E. split.
    + intros H. now exists s.
    + intros (s' & Hs' & H). apply scalar_text_spec in Hs', E. congruence.
  - split; [discriminate|]. intros (s & Hs & _). apply scalar_text_spec in Hs. congruence.
Qed.

Lemma CKey_lt fields k i : CKey fields k i -> i < length fields.
Proof.
  intros [(s & _ & H)|(n & src & _ & _ & H)]; [|exact H]. apply nth_error_Some. congruence.
Qed.

Lemma DKey_lt fields k i : DKey fields k i -> i < length fields.
Proof. intros (s & _ & H). apply nth_error_Some. congruence. Qed.

Ltac nodup_fields := repeat constructor; cbn; intuition discriminate.

Lemma nodup_project_fields : NoDup project_fields. Proof. nodup_fields. Qed.
Lemma nodup_build_fields : NoDup build_fields. Proof. nodup_fields. Qed.
Lemma nodup_service_fields : NoDup service_fields. Proof. nodup_fields. Qed.
Lemma nodup_aggregate_fields : NoDup aggregate_fields. Proof. nodup_fields. Qed.
Lemma nodup_files_fields : NoDup files_fields. Proof. nodup_fields. Qed.
Lemma nodup_cmd_fields : NoDup cmd_fields. Proof. nodup_fields. Qed.

Lemma c_struct_spec fields v sl :
  NoDup fields -> (c_struct fields v = Some sl <-> Struct (CKey fields) (length fields) v sl).
Proof.
  intros Hnd. unfold c_struct. destruct v as [s|src|b|n src|src|l|m];
    try (split; [discriminate | intros (m' & [=] & _)]).
  apply struct_spec.
  - intros k i. now apply c_field_spec.
  - intros k i. apply CKey_lt.
Qed.

(* ------------------------------------------------------------------------------------------------ acceptors *)

Lemma req_field_spec {A} (f : yv -> option A) o a :
  req_field f o = Some a <-> exists v, o = Some v /\ f v = Some a.
Proof.
  destruct o as [v|]; cbn.
  - split; [intros H; now exists v | intros (v' & [= <-] & H); exact H].
  - split; [discriminate | intros (v' & [=] & _)].
Qed.

Lemma dflt_field_spec {A} (f : yv -> option A) d o a :
  dflt_field f d o = Some a <-> match o with None => a = d | Some v => f v = Some a end.
Proof. destruct o as [v|]; cbn; [tauto|]. split; [now intros [= <-] | now intros ->]. Qed.

Lemma Struct_is_map key n v sl : Struct key n v sl -> exists m, v = YMap m.
Proof. intros (m & -> & _). now exists m. Qed.

Lemma accept_files_spec v p e : accept_files v = Some (p, e) <-> FilesItem v p e.
Proof.
  unfold accept_files, FilesItem. split.
  - destruct (c_struct files_fields v) as [sl|] eqn:Es; [|discriminate].
    apply (c_struct_spec _ _ _ nodup_files_fields) in Es. cbn [length files_fields] in Es.
    destruct (req_field c_str_list (slot_at sl 0)) as [p'|] eqn:Ep; [|discriminate].
    destruct (dflt_field c_opt_str_list None (slot_at sl 1)) as [e'|] eqn:Ee; [|discriminate].
    intros [= <- <-]. exists sl. split; [exact Es|]. unfold slot_at in *.
    apply req_field_spec in Ep as (pv & Hpv & Hp). apply c_str_list_spec in Hp.
    apply dflt_field_spec in Ee. split; [now exists pv|].
    destruct (sl @ 1) as [ev|]; [now apply c_opt_str_list_spec | now subst].
  - intros (sl & Hs & (pv & Hpv & Hp) & He).
    apply (c_struct_spec files_fields v sl nodup_files_fields) in Hs. rewrite Hs. unfold slot_at.
    assert (Ep : req_field c_str_list (sl @ 0) = Some p).
    { apply req_field_spec. exists pv. split; [exact Hpv | now apply c_str_list_spec]. }
    assert (Ee : dflt_field c_opt_str_list None (sl @ 1) = Some e).
    { apply dflt_field_spec. destruct (sl @ 1) as [ev|]; [now apply c_opt_str_list_spec | exact He]. }
    now rewrite Ep, Ee.
Qed.

Lemma accept_cmd_spec v c : accept_cmd v = Some c <-> CmdItem v c.
Proof.
  unfold accept_cmd, CmdItem. split.
  - destruct (c_struct cmd_fields v) as [sl|] eqn:Es; [|discriminate].
    apply (c_struct_spec _ _ _ nodup_cmd_fields) in Es. cbn [length cmd_fields] in Es.
    intros H. apply req_field_spec in H as (cv & Hcv & Hc). apply c_string_spec in Hc. subst cv.
    exists sl. split; [exact Es | exact Hcv].
  - intros (sl & Hs & Hc). apply (c_struct_spec cmd_fields v sl nodup_cmd_fields) in Hs. rewrite Hs.
    apply req_field_spec. exists (YStr c). split; [exact Hc | reflexivity].
Qed.

Lemma accept_files_none v : accept_files v = None <-> forall p e, ~ FilesItem v p e.
Proof.
  split.
  - intros H p e Hf. apply accept_files_spec in Hf. congruence.
  - intros H. destruct (accept_files v) as [[p e]|] eqn:E; [|reflexivity]. apply accept_files_spec in E. now elim (H p e).
Qed.

Lemma accept_input_spec v i : accept_input v = Some i <-> InputDenotes v i.
Proof.
  unfold accept_input. split.
  - destruct (c_string v) as [s|] eqn:Es.
    { apply c_string_spec in Es. subst v. intros [= <-]. constructor. }
    destruct (accept_files v) as [[p e]|] eqn:Ef.
    { intros [= <-]. apply ID_files. now apply accept_files_spec. }
    destruct (accept_cmd v) as [c|] eqn:Ec; [|discriminate].
    intros [= <-]. apply ID_cmd; [now apply accept_files_none | now apply accept_cmd_spec].
  - intros H. destruct H as [s|v p e Hf|v c Hn Hc].
    + reflexivity.
    + destruct Hf as (sl & Hs & Hrest). destruct (Struct_is_map _ _ _ _ Hs) as [m ->]. cbn [c_string].
      assert (E : accept_files (YMap m) = Some (p, e)) by (apply accept_files_spec; exists sl; auto). now rewrite E.
    + destruct Hc as (sl & Hs & Hrest). destruct (Struct_is_map _ _ _ _ Hs) as [m ->]. cbn [c_string].
      apply accept_files_none in Hn. rewrite Hn.
      assert (E : accept_cmd (YMap m) = Some c) by (apply accept_cmd_spec; exists sl; auto). now rewrite E.
Qed.

Lemma accept_output_spec v o : accept_output v = Some o <-> OutputDenotes v o.
Proof.
  unfold accept_output. split.
  - destruct (accept_files v) as [[p e]|] eqn:Ef.
    { intros [= <-]. apply OD_files. now apply accept_files_spec. }
    destruct (accept_cmd v) as [c|] eqn:Ec; [|discriminate].
    intros [= <-]. apply OD_cmd; [now apply accept_files_none | now apply accept_cmd_spec].
  - intros H. destruct H as [v p e Hf|v c Hn Hc].
    + apply accept_files_spec in Hf. now rewrite Hf.
    + apply accept_files_none in Hn. rewrite Hn. apply accept_cmd_spec in Hc. now rewrite Hc.
Qed.

Lemma items_spec {A} (f : yv -> option A) (D : yv -> A -> Prop) v r :
  (forall x y, f x = Some y <-> D x y) ->
  (match v with YSeq l => all_some (map f l) | _ => None end = Some r <-> exists items, v = YSeq items /\ Forall2 D items r).
Proof.
  intros Hf. destruct v as [s|src|b|n src|src|l|m]; try (split; [discriminate | intros (items & [=] & _)]).
  rewrite all_some_spec. split.
  - intros F. exists l. split; [reflexivity|]. eapply Forall2_iff; [|exact F]. intros x y _. apply Hf.
  - intros (items & [= <-] & F). eapply Forall2_iff; [|exact F]. intros x y _. symmetry. apply Hf.
Qed.

Lemma c_inputs_spec v r : c_inputs v = Some r <-> exists items, v = YSeq items /\ Forall2 InputDenotes items r.
Proof. apply items_spec. apply accept_input_spec. Qed.

Lemma c_outputs_spec v r : c_outputs v = Some r <-> exists items, v = YSeq items /\ Forall2 OutputDenotes items r.
Proof. apply items_spec. apply accept_output_spec. Qed.

Lemma deps_field_spec o d : dflt_field c_str_list [] o = Some d <-> DepsField o d.
Proof. rewrite dflt_field_spec. unfold DepsField. destruct o as [v|]; [apply c_str_list_spec | tauto]. Qed.

Lemma inputs_field_spec o r : dflt_field c_inputs [] o = Some r <-> ItemsField InputDenotes o r.
Proof. rewrite dflt_field_spec. unfold ItemsField. destruct o as [v|]; [apply c_inputs_spec | tauto]. Qed.

Lemma outputs_field_spec o r : dflt_field c_outputs [] o = Some r <-> ItemsField OutputDenotes o r.
Proof. rewrite dflt_field_spec. unfold ItemsField. destruct o as [v|]; [apply c_outputs_spec | tauto]. Qed.

Lemma script_field_spec o s : req_field c_string o = Some s <-> o = Some (YStr s).
Proof.
  rewrite req_field_spec. split.
  - intros (v & -> & H). apply c_string_spec in H. now subst.
  - intros ->. exists (YStr s). auto.
Qed.

Lemma accept_build_spec v d b i o : accept_build v = Some (YBuild d b i o) <-> BuildDenotes v d b i o.
Proof.
  unfold accept_build, BuildDenotes, slot_at. split.
  - destruct (c_struct build_fields v) as [sl|] eqn:Es; [|discriminate].
    apply (c_struct_spec _ _ _ nodup_build_fields) in Es. cbn [length build_fields] in Es.
    destruct (dflt_field c_str_list [] (sl @ 0)) as [d'|] eqn:Ed; [|discriminate].
    destruct (req_field c_string (sl @ 1)) as [b'|] eqn:Eb; [|discriminate].
    destruct (dflt_field c_inputs [] (sl @ 2)) as [i'|] eqn:Ei; [|discriminate].
    destruct (dflt_field c_outputs [] (sl @ 3)) as [o'|] eqn:Eo; [|discriminate].
    intros [= <- <- <- <-]. exists sl. split; [exact Es|].
    split; [now apply deps_field_spec|]. split; [now apply script_field_spec|].
    split; [now apply inputs_field_spec | now apply outputs_field_spec].
  - intros (sl & Hs & Hd & Hb & Hi & Ho).
    apply (c_struct_spec build_fields v sl nodup_build_fields) in Hs. rewrite Hs.
    apply deps_field_spec in Hd. apply script_field_spec in Hb. apply inputs_field_spec in Hi. apply outputs_field_spec in Ho.
    now rewrite Hd, Hb, Hi, Ho.
Qed.

Lemma accept_build_shape v t : accept_build v = Some t -> exists d b i o, t = YBuild d b i o.
Proof.
  unfold accept_build. destruct (c_struct build_fields v) as [sl|]; [|discriminate].
  destruct (dflt_field c_str_list [] _) as [d|]; [|discriminate]. destruct (req_field c_string _) as [b|]; [|discriminate].
  destruct (dflt_field c_inputs [] _) as [i|]; [|discriminate]. destruct (dflt_field c_outputs [] _) as [o|]; [|discriminate].
  intros [= <-]. now exists d, b, i, o.
Qed.

Lemma accept_service_spec v d s i : accept_service v = Some (YService d s i) <-> ServiceDenotes v d s i.
Proof.
  unfold accept_service, ServiceDenotes, slot_at. split.
  - destruct (c_struct service_fields v) as [sl|] eqn:Es; [|discriminate].
    apply (c_struct_spec _ _ _ nodup_service_fields) in Es. cbn [length service_fields] in Es.
    destruct (dflt_field c_str_list [] (sl @ 0)) as [d'|] eqn:Ed; [|discriminate].
    destruct (req_field c_string (sl @ 1)) as [b'|] eqn:Eb; [|discriminate].
    destruct (dflt_field c_inputs [] (sl @ 2)) as [i'|] eqn:Ei; [|discriminate].
    intros [= <- <- <-]. exists sl. split; [exact Es|].
    split; [now apply deps_field_spec|]. split; [now apply script_field_spec | now apply inputs_field_spec].
  - intros (sl & Hs & Hd & Hb & Hi).
    apply (c_struct_spec service_fields v sl nodup_service_fields) in Hs. rewrite Hs.
    apply deps_field_spec in Hd. apply script_field_spec in Hb. apply inputs_field_spec in Hi.
    now rewrite Hd, Hb, Hi.
Qed.

Lemma accept_service_shape v t : accept_service v = Some t -> exists d s i, t = YService d s i.
Proof.
  unfold accept_service. destruct (c_struct service_fields v) as [sl|]; [|discriminate].
  destruct (dflt_field c_str_list [] _) as [d|]; [|discriminate]. destruct (req_field c_string _) as [b|]; [|discriminate].
  destruct (dflt_field c_inputs [] _) as [i|]; [|discriminate]. intros [= <-]. now exists d, b, i.
Qed.

Lemma accept_aggregate_spec v d : accept_aggregate v = Some (YAggregate d) <-> AggregateDenotes v d.
Proof.
  unfold accept_aggregate, AggregateDenotes, slot_at. split.
  - destruct (c_struct aggregate_fields v) as [sl|] eqn:Es; [|discriminate].
    apply (c_struct_spec _ _ _ nodup_aggregate_fields) in Es. cbn [length aggregate_fields] in Es.
    destruct (req_field c_str_list (sl @ 0)) as [d'|] eqn:Ed; [|discriminate].
    intros [= <-]. exists sl. split; [exact Es|]. apply req_field_spec in Ed as (dv & Hdv & Hd).
    exists dv. split; [exact Hdv | now apply c_str_list_spec].
  - intros (sl & Hs & dv & Hdv & Hd). apply (c_struct_spec aggregate_fields v sl nodup_aggregate_fields) in Hs. rewrite Hs.
    assert (E : req_field c_str_list (sl @ 0) = Some d).
    { apply req_field_spec. exists dv. split; [exact Hdv | now apply c_str_list_spec]. }
    now rewrite E.
Qed.

Lemma accept_aggregate_shape v t : accept_aggregate v = Some t -> exists d, t = YAggregate d.
Proof.
  unfold accept_aggregate. destruct (c_struct aggregate_fields v) as [sl|]; [|discriminate].
  destruct (req_field c_str_list _) as [d|]; [|discriminate]. intros [= <-]. now exists d.
Qed.

Lemma accept_build_none v : accept_build v = None <-> ~ IsBuild v.
Proof.
  split.
  - intros H (d & b & i & o & Hb). apply accept_build_spec in Hb. congruence.
  - intros H. destruct (accept_build v) as [t|] eqn:E; [|reflexivity].
    destruct (accept_build_shape v t E) as (d & b & i & o & ->). apply accept_build_spec in E. elim H. now exists d, b, i, o.
Qed.

Lemma accept_service_none v : accept_service v = None <-> ~ IsService v.
Proof.
  split.
  - intros H (d & s & i & Hs). apply accept_service_spec in Hs. congruence.
  - intros H. destruct (accept_service v) as [t|] eqn:E; [|reflexivity].
    destruct (accept_service_shape v t E) as (d & s & i & ->). apply accept_service_spec in E. elim H. now exists d, s, i.
Qed.

Lemma accept_target_spec v t : accept_target v = Some t <-> TargetDenotes v t.
Proof.
  unfold accept_target. split.
  - destruct (accept_build v) as [tb|] eqn:Eb.
    { intros [= <-]. destruct (accept_build_shape v tb Eb) as (d & b & i & o & ->). apply TD_build. now apply accept_build_spec. }
    apply accept_build_none in Eb.
    destruct (accept_service v) as [ts|] eqn:Es.
    { intros [= <-]. destruct (accept_service_shape v ts Es) as (d & s & i & ->). apply TD_service; [exact Eb|].
      now apply accept_service_spec. }
    apply accept_service_none in Es. intros Ea.
    destruct (accept_aggregate_shape v t Ea) as (d & ->). apply TD_aggregate; auto. now apply accept_aggregate_spec.
  - intros H. destruct H as [v d b i o Hb|v d s i Hnb Hs|v d Hnb Hns Ha].
    + apply accept_build_spec in Hb. now rewrite Hb.
    + apply accept_build_none in Hnb. rewrite Hnb. apply accept_service_spec in Hs. now rewrite Hs.
    + apply accept_build_none in Hnb. apply accept_service_none in Hns. rewrite Hnb, Hns. now apply accept_aggregate_spec.
Qed.

(* ---- project level ---- *)
Lemma d_map_spec {V} (f : yv -> option V) (D : yv -> V -> Prop) o r :
  (forall x y, f x = Some y <-> D x y) ->
  (dflt_field (d_map f) [] o = Some r <-> MapField D o r).
Proof.
  intros Hf. rewrite dflt_field_spec. unfold MapField. destruct o as [mv|]; [|tauto].
  unfold d_map. destruct mv as [s|src|b|n src|src|l|m]; try (split; [discriminate | intros (m' & es & [=] & _)]).
  destruct (all_some (map (d_entry f) m)) as [es|] eqn:E.
  - apply all_some_spec in E. split.
    + intros [= <-]. exists m, es. split; [reflexivity|]. split; [|reflexivity].
      eapply Forall2_iff; [|exact E]. intros [k v] [k' v'] _. unfold d_entry. cbn [fst snd].
      destruct (scalar_text k) as [s|] eqn:Ek; [|split; [discriminate | intros [Hk _]; apply scalar_text_spec in Hk; congruence]].
      destruct (f v) as [y|] eqn:Ev.
      * split.
        -- intros [= <- <-]. split; [now apply scalar_text_spec | now apply Hf].
        -- intros [Hk Hv]. apply scalar_text_spec in Hk. apply Hf in Hv. congruence.
      * split; [discriminate|]. intros [_ Hv]. apply Hf in Hv. congruence.
    + intros (m' & es' & [= <-] & F & ->). f_equal. f_equal.
      assert (F' : Forall2 (fun x y => d_entry f x = Some y) m es').
      { eapply Forall2_iff; [|exact F]. intros [k v] [k' v'] _. unfold d_entry. cbn [fst snd]. split.
        - intros [Hk Hv]. apply scalar_text_spec in Hk. apply Hf in Hv. now rewrite Hk, Hv.
        - destruct (scalar_text k) as [s|] eqn:Ek; [|discriminate]. destruct (f v) as [y|] eqn:Ev; [|discriminate].
          intros [= <- <-]. split; [now apply scalar_text_spec | now apply Hf]. }
      apply all_some_spec in F'. apply all_some_spec in E. congruence.
  - split; [discriminate|]. intros (m' & es' & [= <-] & F & _). exfalso.
    assert (F' : Forall2 (fun x y => d_entry f x = Some y) m es').
    { eapply Forall2_iff; [|exact F]. intros [k v] [k' v'] _. unfold d_entry. cbn [fst snd]. split.
      - intros [Hk Hv]. apply scalar_text_spec in Hk. apply Hf in Hv. now rewrite Hk, Hv.
      - destruct (scalar_text k) as [s|] eqn:Ek; [|discriminate]. destruct (f v) as [y|] eqn:Ev; [|discriminate].
        intros [= <- <-]. split; [now apply scalar_text_spec | now apply Hf]. }
    apply all_some_spec in F'. congruence.
Qed.

Lemma name_field_spec o n : dflt_field d_opt_string None o = Some n <-> NameField o n.
Proof.
  rewrite dflt_field_spec. unfold NameField, d_opt_string. destruct o as [nv|]; [|tauto].
  destruct nv as [s|src|b|k src|src|l|m]; cbn [scalar_text];
    try (split; [intros [= <-]; eexists; split; [constructor | reflexivity]
                | intros (s' & Hs & ->); inversion Hs; subst; reflexivity]).
  - split; [now intros [= <-] | now intros ->].
  - destruct b; (split; [intros [= <-]; eexists; split; [constructor | reflexivity]
                        | intros (s' & Hs & ->); inversion Hs; subst; reflexivity]).
  - split; [discriminate | intros (s' & Hs & _); inversion Hs].
  - split; [discriminate | intros (s' & Hs & _); inversion Hs].
Qed.

Lemma project_slots_spec v sl : project_slots v = Some sl <-> ProjectFields v sl.
Proof.
  unfold project_slots, ProjectFields. destruct v as [s|src|b|n src|src|l|m].
  1-5: split; [discriminate | intros [(m' & [=] & _)|(l' & [=] & _)]].
  - destruct (Nat.leb (length l) 3) eqn:E.
    + apply Nat.leb_le in E. split.
      * intros [= <-]. right. exists l. auto.
      * intros [(m' & [=] & _)|(l' & [= <-] & _ & ->)]. reflexivity.
    + apply Nat.leb_gt in E. split; [discriminate|]. intros [(m' & [=] & _)|(l' & [= <-] & Hl & _)]. lia.
  - rewrite (struct_spec (d_field project_fields) (DKey project_fields) 3 m sl).
    + split; [now left | intros [H|(l' & [=] & _)]; exact H].
    + intros k i. apply d_field_spec, nodup_project_fields.
    + intros k i. apply DKey_lt.
Qed.

Theorem accept_project_iff v p : accept_project v = Some p <-> ProjectDenotes v p.
Proof.
  unfold accept_project, ProjectDenotes, slot_at. split.
  - destruct (project_slots v) as [sl|] eqn:Es; [|discriminate]. apply project_slots_spec in Es.
    destruct (dflt_field (d_map accept_target) [] (sl @ 0)) as [t|] eqn:Et; [|discriminate].
    destruct (dflt_field d_opt_string None (sl @ 1)) as [n|] eqn:En; [|discriminate].
    destruct (dflt_field (d_map scalar_text) [] (sl @ 2)) as [i|] eqn:Ei; [|discriminate].
    intros [= <-]. cbn [yp_targets yp_name yp_imports]. exists sl. split; [exact Es|].
    split; [now apply (d_map_spec accept_target TargetDenotes _ _ accept_target_spec)|].
    split; [now apply name_field_spec|]. now apply (d_map_spec scalar_text ScalarText _ _ scalar_text_spec).
  - intros (sl & Hs & Ht & Hn & Hi). apply project_slots_spec in Hs. rewrite Hs.
    apply (d_map_spec accept_target TargetDenotes _ _ accept_target_spec) in Ht.
    apply name_field_spec in Hn. apply (d_map_spec scalar_text ScalarText _ _ scalar_text_spec) in Hi.
    rewrite Ht, Hn, Hi. destruct p; reflexivity.
Qed.

Theorem accept_project_matches v : accept_project v <> None <-> MatchesSchema v.
Proof.
  unfold MatchesSchema. split.
  - destruct (accept_project v) as [p|] eqn:E; [|congruence]. intros _. exists p. now apply accept_project_iff.
  - intros [p Hp]. apply accept_project_iff in Hp. congruence.
Qed.

(* the grammar is functional: a document denotes at most one project *)
Theorem ProjectDenotes_fun v p q : ProjectDenotes v p -> ProjectDenotes v q -> p = q.
Proof. intros Hp Hq. apply accept_project_iff in Hp, Hq. congruence. Qed.

(* ------------------------------------------------------------------------------------------------ repeated keys *)
(* a HashMap built from a mapping with a repeated key: distinct keys, and every key reads its LAST value in document
   order — a function of the document, not of any hash order *)
Definition hm_get {V} (k : bytes) (l : list (bytes * V)) : option V :=
  match find (fun e => beq k (fst e)) l with Some e => Some (snd e) | None => None end.

Definition last_binding {V} (k : bytes) (es : list (bytes * V)) : option V := hm_get k (rev es).

Lemma hm_get_cons {V} k k' (v : V) l : hm_get k ((k', v) :: l) = if beq k k' then Some v else hm_get k l.
Proof. unfold hm_get. cbn. destruct (beq k k'); reflexivity. Qed.

Lemma hm_get_insert {V} k k' (v : V) l : hm_get k (hm_insert k' v l) = if beq k k' then Some v else hm_get k l.
Proof.
  induction l as [|[k0 v0] l IH]; cbn [hm_insert].
  - rewrite hm_get_cons. reflexivity.
  - destruct (beq k' k0) eqn:E.
    + apply beq_eq in E. subst k0. rewrite !hm_get_cons. destruct (beq k k'); reflexivity.
    + rewrite !hm_get_cons, IH. destruct (beq k k0) eqn:E0; [|reflexivity].
      apply beq_eq in E0. subst k0. destruct (beq k k') eqn:E1; [|reflexivity].
      apply beq_eq in E1. subst k'. rewrite beq_refl in E. discriminate.
Qed.

Lemma hm_insert_keys {V} k (v : V) l :
  NoDup (map fst l) -> NoDup (map fst (hm_insert k v l)).
Proof.
  induction l as [|[k0 v0] l IH]; cbn [hm_insert map fst]; intros Hnd.
  - constructor; [intros [] | constructor].
  - destruct (beq k k0) eqn:E; cbn [map fst]; [exact Hnd|].
    inversion Hnd as [|? ? Hni Hnd']; subst. constructor; [|now apply IH].
    intros Hin. apply Hni. clear - Hin E. induction l as [|[k1 v1] l IH]; cbn [hm_insert map fst In] in *.
    + destruct Hin as [->|[]]. rewrite beq_refl in E. discriminate.
    + destruct (beq k k1); cbn [map fst In] in Hin; destruct Hin as [H|H]; auto.
Qed.

Lemma hm_of_list_nodup {V} (es : list (bytes * V)) : NoDup (map fst (hm_of_list es)).
Proof.
  unfold hm_of_list. assert (H : NoDup (map fst (@nil (bytes * V)))) by constructor.
  revert H. generalize (@nil (bytes * V)) as acc. induction es as [|[k v] es IH]; intros acc H; cbn [fold_left]; [exact H|].
  apply IH. now apply hm_insert_keys.
Qed.

Lemma find_app' {A} (f : A -> bool) l1 l2 :
  find f (l1 ++ l2) = match find f l1 with Some x => Some x | None => find f l2 end.
Proof. induction l1 as [|a l1 IH]; cbn; [reflexivity|]. destruct (f a); [reflexivity | exact IH]. Qed.

Lemma hm_get_app {V} k (l1 l2 : list (bytes * V)) :
  hm_get k (l1 ++ l2) = match hm_get k l1 with Some v => Some v | None => hm_get k l2 end.
Proof. unfold hm_get. rewrite find_app'. destruct (find _ l1); reflexivity. Qed.

Lemma hm_of_list_get {V} (es : list (bytes * V)) k : hm_get k (hm_of_list es) = last_binding k es.
Proof.
  unfold hm_of_list, last_binding.
  assert (G : forall acc, hm_get k (fold_left (fun a e => hm_insert (fst e) (snd e) a) es acc)
                          = match hm_get k (rev es) with Some v => Some v | None => hm_get k acc end).
  { induction es as [|[k0 v0] es IH]; intros acc; cbn [fold_left rev]; [reflexivity|].
    rewrite IH. cbn [fst snd]. rewrite hm_get_insert, hm_get_app, hm_get_cons.
    destruct (hm_get k (rev es)); [reflexivity|]. destruct (beq k k0); reflexivity. }
  rewrite G. destruct (hm_get k (rev es)); reflexivity.
Qed.

Lemma hm_of_list_spec {V} (es : list (bytes * V)) :
  NoDup (map fst (hm_of_list es)) /\ forall k, hm_get k (hm_of_list es) = last_binding k es.
Proof. split; [apply hm_of_list_nodup | intros k; apply hm_of_list_get]. Qed.

(* ------------------------------------------------------------------------------------------------ exactly one kind *)
(* A mapping never matches aggregate together with build or service. It can match both build and service only by
   spelling the script field as the integer key 1 (field position) — then the first alternative, build, wins. *)
Definition IsAggregate (v : yv) : Prop := exists d, AggregateDenotes v d.

Definition UsesIndexKey (v : yv) (i : nat) : Prop :=
  exists m n src x, v = YMap m /\ In (YNat n src, x) m /\ N.to_nat n = i.

Lemma struct_field_key key n m sl i x :
  Struct key n (YMap m) sl -> sl @ i = Some x -> exists k, In (k, x) m /\ key k i.
Proof.
  intros (m' & [= <-] & _ & _ & _ & Hf) Hx. specialize (Hf i). rewrite Hx in Hf. exact Hf.
Qed.

Lemma struct_key_known key n m sl k x :
  Struct key n (YMap m) sl -> In (k, x) m -> exists i, key k i.
Proof.
  intros (m' & [= <-] & _ & Hk & _) Hin. unfold KeysKnown in Hk. rewrite Forall_forall in Hk. exact (Hk (k, x) Hin).
Qed.

Lemma nth_error_fields_inv (fields : list bytes) i s :
  nth_error fields i = Some s -> In s fields.
Proof. apply nth_error_In. Qed.

Lemma script_key_cases fields k :
  nth_error fields 1 <> None -> CKey fields k 1 ->
  (exists s, k = YStr s /\ nth_error fields 1 = Some s) \/ (exists n src, k = YNat n src /\ N.to_nat n = 1).
Proof.
  intros _ [(s & -> & H)|(n & src & -> & H & _)]; [left; now exists s | right; exists n, src; auto].
Qed.

Theorem build_aggregate_exclusive v : IsBuild v -> IsAggregate v -> False.
Proof.
  intros (d & b & i & o & sl & Hs & _ & Hb & _) (d' & sl' & Hs' & _).
  destruct (Struct_is_map _ _ _ _ Hs) as [m ->].
  destruct (struct_field_key _ _ _ _ _ _ Hs Hb) as (k & Hin & Hk).
  destruct (struct_key_known _ _ _ _ _ _ Hs' Hin) as (j & Hj).
  destruct Hk as [(s & -> & Hn)|(n & src & -> & Hn & _)].
  - cbn in Hn. injection Hn as <-. destruct Hj as [(s' & [= <-] & Hj)|(n & src & [=] & _)].
    destruct j as [|[|j]]; cbn in Hj; try discriminate; try (destruct j; discriminate).
  - destruct Hj as [(s' & [=] & _)|(n' & src' & [= <- <-] & -> & Hlt)]. cbn in Hlt. lia.
Qed.

Theorem service_aggregate_exclusive v : IsService v -> IsAggregate v -> False.
Proof.
  intros (d & b & i & sl & Hs & _ & Hb & _) (d' & sl' & Hs' & _).
  destruct (Struct_is_map _ _ _ _ Hs) as [m ->].
  destruct (struct_field_key _ _ _ _ _ _ Hs Hb) as (k & Hin & Hk).
  destruct (struct_key_known _ _ _ _ _ _ Hs' Hin) as (j & Hj).
  destruct Hk as [(s & -> & Hn)|(n & src & -> & Hn & _)].
  - cbn in Hn. injection Hn as <-. destruct Hj as [(s' & [= <-] & Hj)|(n & src & [=] & _)].
    destruct j as [|[|j]]; cbn in Hj; try discriminate; try (destruct j; discriminate).
  - destruct Hj as [(s' & [=] & _)|(n' & src' & [= <- <-] & -> & Hlt)]. cbn in Hlt. lia.
Qed.

Theorem build_service_overlap v : IsBuild v -> IsService v -> UsesIndexKey v 1.
Proof.
  intros (d & b & i & o & sl & Hs & _ & Hb & _) (d' & s' & i' & sl' & Hs' & _).
  destruct (Struct_is_map _ _ _ _ Hs) as [m ->].
  destruct (struct_field_key _ _ _ _ _ _ Hs Hb) as (k & Hin & Hk).
  destruct (struct_key_known _ _ _ _ _ _ Hs' Hin) as (j & Hj).
  destruct Hk as [(s & -> & Hn)|(n & src & -> & Hn & _)].
  - exfalso. cbn in Hn. injection Hn as <-. destruct Hj as [(s'' & [= <-] & Hj)|(n & src & [=] & _)].
    destruct j as [|[|[|j]]]; cbn in Hj; try discriminate; try (destruct j; discriminate).
  - exists m, n, src, (YStr b). auto.
Qed.

Theorem kinds_exclusive v :
  (IsBuild v -> IsAggregate v -> False) /\ (IsService v -> IsAggregate v -> False) /\
  (IsBuild v -> IsService v -> UsesIndexKey v 1).
Proof.
  split; [apply build_aggregate_exclusive|]. split; [apply service_aggregate_exclusive | apply build_service_overlap].
Qed.
