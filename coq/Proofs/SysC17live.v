(* C17: a target whose dependencies have all finished is started whatever the targets it does not depend on are doing.
   Same argument as C04_no_lost_wakeup, restricted to the dependency cone of the target: unrelated builds may be in
   progress for as long as they like. *)
From Zinoma.Proofs Require Export SysSvcKeep.

Section c17.
  Context (g : graph) (roots : list tid).
  Context (rank : tid -> nat).
  Context (Hclosed : forall t k deps d, g !! t = Some (k, deps) -> d ∈ deps -> is_Some (g !! d)).
  Context (Hrank : forall t k deps d, g !! t = Some (k, deps) -> d ∈ deps -> rank d < rank t).

  Section quiet.
    Context (s : sys).
    Context (Hr : reachable true false g roots s) (Hp : ph s = PRun) (Hnf : forall t, ObFail t ∉ hist s).
    (* every message sent so far has been handled (no delivery step is enabled); builds may be in progress *)
    Context (Hmq : forall t, exec true false s (LDeliver t true) = None).
    (* C: a set of targets closed under dependencies in which no build is in progress *)
    Context (C : tid -> Prop).
    Context (HCdown : forall t k deps d, C t -> g !! t = Some (k, deps) -> d ∈ deps -> C d).
    Context (HCidle : forall t a, C t -> actors s !! t = Some a -> ongoing a = false).

    Let Hli := live_inv_reachable g roots s Hr Hp.
    Let Hwf := wf_reachable true false g roots s Hr.

    Lemma mq_no_msg t a m : actors s !! t = Some a -> ~ msg_in s (ATarget t) m.
    Proof.
      intros Ha (l & Hl & Hin). destruct l as [|m0 rest]; [by apply elem_of_nil in Hin|].
      specialize (Hmq t). cbn in Hmq. rewrite Ha, Hl in Hmq.
      destruct (li_calm _ _ _ Hli t a Ha) as (Hex & _).
      destruct (apply_step_some s t (<[t:=rest]> (inbox s)) (slot s) (termq s) _ (actor_step_msg_some true true a m0 Hex)) as [x Hx].
      by rewrite Hx in Hmq.
    Qed.

    (* d can acknowledge its own kind, and every TARGET that asked it has taken note *)
    Definition settledT (d : tid) : Prop :=
      forall ad k, actors s !! d = Some ad -> own ad k -> reqs ad k <> ∅ ->
        done ad k /\ forall t0, ATarget t0 ∈ reqs ad k -> consumed s (ATarget t0) k d.

    Lemma deps_available d ad :
      actors s !! d = Some ad ->
      (forall x, x ∈ a_deps ad -> settledT x) ->
      forall x k', x ∈ a_deps ad -> fanned ad k' -> x ∉ unav ad k'.
    Proof.
      intros Had Hset x k' Hx Hf. destruct (Hwf d ad Had) as [Hid Hg].
      destruct (Hclosed d _ _ x Hg Hx) as [gx Hgx].
      destruct (li_dom _ _ _ Hli x (ex_intro _ _ Hgx)) as [ax Hax].
      assert (Hw : wants roots s (ATarget d) x k') by (cbn; eauto).
      assert (Hcons : consumed s (ATarget d) k' x).
      { destruct (li_req _ _ _ Hli _ _ _ ax Hw Hax) as [Hpend|[[Hox HRx]|[Hno Hack]]].
        - exfalso. by eapply mq_no_msg.
        - destruct (Hset x Hx ax k' Hax Hox ltac:(set_solver)) as [_ Hall]. by apply Hall.
        - destruct Hack as [[act Hm]|Hc]; [|done]. exfalso. exact (mq_no_msg d ad _ Had Hm). }
      cbn in Hcons. destruct Hcons as (a0 & Ha0 & Hn). by assert (a0 = ad) as -> by congruence.
    Qed.

    (* with every dependency settled, a requested target is in progress or done *)
    Lemma started_or_done d ad k :
      actors s !! d = Some ad -> own ad k -> reqs ad k <> ∅ ->
      (forall x, x ∈ a_deps ad -> settledT x) -> done ad k \/ ongoing ad = true.
    Proof.
      intros Had Ho Hne Hset. pose proof (deps_available d ad Had Hset) as Hdep.
      unfold done, own, fanned in *. destruct (a_kind ad) eqn:Hk.
      - subst k.
        assert (HB : unavB ad = ∅).
        { apply set_eq. intros x. split; [|set_solver]. intros Hx. exfalso.
          eapply (Hdep x KB); [by eapply (li_unavsub _ _ _ Hli d ad KB)|done|done]. }
        assert (HS : unavS ad = ∅).
        { apply set_eq. intros x. split; [|set_solver]. intros Hx. exfalso.
          eapply (Hdep x KS); [by eapply (li_unavsub _ _ _ Hli d ad KS)|done|done]. }
        destruct (to_execute ad) eqn:Hte.
        + right. by apply (li_nopend _ _ _ Hli d ad Had KB Hk Hte Hne HB HS).
        + destruct (li_flags _ _ _ Hli d ad Had ltac:(by rewrite Hk) Hte) as [?|[?|Hf]]; [by right|by left|by apply Hnf in Hf].
      - subst k.
        assert (HB : unavB ad = ∅).
        { apply set_eq. intros x. split; [|set_solver]. intros Hx. exfalso.
          eapply (Hdep x KB); [by eapply (li_unavsub _ _ _ Hli d ad KB)|done|done]. }
        assert (HS : unavS ad = ∅).
        { apply set_eq. intros x. split; [|set_solver]. intros Hx. exfalso.
          eapply (Hdep x KS); [by eapply (li_unavsub _ _ _ Hli d ad KS)|done|done]. }
        destruct (to_execute ad) eqn:Hte.
        + right. by apply (li_nopend _ _ _ Hli d ad Had KS Hk Hte Hne HB HS).
        + destruct (li_flags _ _ _ Hli d ad Had ltac:(by rewrite Hk) Hte) as [?|[?|Hf]]; [by right|by left|by apply Hnf in Hf].
      - left. apply set_eq. intros x. split; [|set_solver]. intros Hx. exfalso.
        eapply (Hdep x k); [by eapply (li_unavsub _ _ _ Hli d ad k)|done|done].
    Qed.

    Lemma cone_settled : forall n d, rank d < n -> C d -> settledT d.
    Proof.
      induction n as [|n IH]; intros d Hlt HC; [lia|].
      intros ad k Had Ho Hne. destruct (Hwf d ad Had) as [Hid Hg].
      assert (Hset : forall x, x ∈ a_deps ad -> settledT x).
      { intros x Hx. apply IH; [specialize (Hrank d _ _ x Hg Hx); lia|by eapply HCdown]. }
      assert (Hdone : done ad k).
      { destruct (started_or_done d ad k Had Ho Hne Hset) as [?|Hon]; [done|].
        rewrite (HCidle d ad HC Had) in Hon. done. }
      split; [done|]. intros t0 HR.
      destruct (li_ack _ _ _ Hli d ad (ATarget t0) k Had Ho HR Hdone) as [[act Hm]|Hc]; [|done].
      exfalso.
      pose proof (ti_reqs _ _ _ (talk_inv_reachable true g roots false s Hr) d ad k _ Had HR) as Hreq. cbn in Hreq.
      destruct Hreq as (kt & deps & Hg0 & _).
      destruct (li_dom _ _ _ Hli t0 (ex_intro _ _ Hg0)) as [a0 Ha0]. exact (mq_no_msg t0 a0 _ Ha0 Hm).
    Qed.
  End quiet.

  (* C17: one-shot, repaired handlers, any closed acyclic graph, any interleaving. Take a reachable state inside the root
     loop in which every message sent so far has been handled and nothing failed. Let t be a requested build or service such
     that no target of its dependency cone (the targets it depends on, directly or transitively) has a script in progress.
     Then t is in progress or has succeeded — whatever the targets outside its cone are doing, however long they take. *)
  Theorem start_needs_no_foreign_completion s t a k :
    reachable true false g roots s -> ph s = PRun -> (forall x, ObFail x ∉ hist s) ->
    (forall x, exec true false s (LDeliver x true) = None) ->
    actors s !! t = Some a -> own a k -> reqs a k <> ∅ ->
    (forall d ad, tdep g t d -> actors s !! d = Some ad -> ongoing ad = false) ->
    done a k \/ ongoing a = true.
  Proof.
    intros Hr Hp Hnf Hmq Ha Ho Hne Hidle.
    pose proof (wf_reachable true false g roots s Hr) as Hwf. destruct (Hwf t a Ha) as [Hid Hg].
    assert (HCdown : forall t1 k1 deps1 d1, tdep g t t1 -> g !! t1 = Some (k1, deps1) -> d1 ∈ deps1 -> tdep g t d1).
    { intros t1 k1 deps1 d1 Ht1 Hg1 Hd1. eapply tdep_trans_r; [exact Ht1|exact Hg1|exact Hd1]. }
    assert (HCidle : forall t1 a1, tdep g t t1 -> actors s !! t1 = Some a1 -> ongoing a1 = false).
    { intros t1 a1 Ht1 Ha1. by eapply Hidle. }
    apply (started_or_done s Hr Hp Hnf Hmq (fun d => tdep g t d) HCdown HCidle t a k Ha Ho Hne).
    intros x Hx.
    apply (cone_settled s Hr Hp Hnf Hmq (fun d => tdep g t d) HCdown HCidle (S (rank x)) x); [lia|].
    by eapply td_direct.
  Qed.
End c17.

(* computable form of "every message sent so far has been handled" *)
Definition delivered_all (s : sys) : bool :=
  forallb (fun l => match l with
                    | LDeliver _ _ => match exec true false s l with None => true | Some _ => false end
                    | _ => true
                    end) (candidate_labels s).

Lemma delivered_all_spec s : delivered_all s = true -> forall x, exec true false s (LDeliver x true) = None.
Proof.
  intros Hd x. destruct (actors s !! x) as [a|] eqn:Ha; [|by cbn; rewrite Ha].
  unfold delivered_all in Hd. rewrite forallb_forall in Hd.
  specialize (Hd (LDeliver x true)). cbn beta iota in Hd.
  destruct (exec true false s (LDeliver x true)); [|done].
  exfalso. assert (false = true); [|done]. apply Hd. apply elem_of_list_In. by eapply cand_deliver.
Qed.

Definition ongoing_of (s : sys) (t : tid) : bool :=
  match actors s !! t with Some a => ongoing a | None => false end.
