(* Watch mode: what the actor system guarantees about invalidation (C06). *)
From Zinoma.Proofs Require Export SysWitness.

Section watch.
  Context (fx : bool) (g : graph) (roots : list tid).

  (* an acknowledged target (executed) is not waiting to run again: an invalidation consumed since its last start would
     have cleared `executed` *)
  Lemma flags_ok_reachable w s t a :
    reachable fx w g roots s -> actors s !! t = Some a -> executed a = true -> to_execute a = false.
  Proof.
    intros Hr. revert t a.
    apply (reachable_ind fx w g roots (fun s => forall t a, actors s !! t = Some a -> flags_ok a)); [| |done].
    - intros t a Ha. apply (init_actor_lookup g roots) in Ha as (k & deps & _ & ->). by intros ?.
    - intros s0 l s1 _ IH He t a Ha.
      destruct (exec_inv _ _ _ _ _ He) as [t0 a0 e ok a0' os ob Ha0 Hst Hact _ _ _ _ _ _ _ _ _ _ _ _|Hact _ _ _ _ _|ts _ Hact _ _ _ _ _ _];
        rewrite Hact in Ha; [|by eapply IH|by eapply IH].
      destruct (decide (t = t0)) as [->|Hne].
      + rewrite lookup_insert in Ha. injection Ha as <-. eapply step_flags_ok; [done|by eapply IH].
      + rewrite lookup_insert_ne in Ha by done. by eapply IH.
  Qed.

  (* a notification that finds the slot already full is dropped by try_send; the model's slot is a set, so this is the
     statement that the pending notification is still there to be consumed *)
  Lemma change_keeps_pending s ts s' :
    exec fx true s (LChange ts) = Some s' -> slot s' = slot s ∪ list_to_set ts.
  Proof. cbn. destruct (forallb _ ts); [|done]. by intros [= <-]. Qed.
End watch.
