(* Watch mode (and one-shot mode alike), repaired handlers: every requester's LATEST WORD from a dependency — the last
   Ok / out-of-date message still in its inbox, or else what it has recorded — says exactly whether the dependency can
   acknowledge now.  Part 1: the invariant. *)
From Zinoma.Proofs Require Export SysFifo AF_lastword2 LF_calmw LF_fanout AF_nopending SysLive.

(* what R currently believes about dependency d for kind k, once its inbox is drained up to the latest word *)
Definition view (s : sys) (R : tid) (aR : astate) (k : kind) (d : tid) : bool :=
  match lastw (inb (inbox s) R) k d with Some b => b | None => bool_decide (d ∉ unav aR k) end.

Section wlive.
  Context (g : graph) (roots : list tid) (w : bool).
  Context (rank : tid -> nat).
  Context (Hrank : forall t k deps d, g !! t = Some (k, deps) -> d ∈ deps -> rank d < rank t).
  Notation wf := (SysInv.wf g).

  Record winv (s : sys) : Prop := {
    wi_dom : forall t, is_Some (g !! t) -> is_Some (actors s !! t);
    wi_calm : forall t a, actors s !! t = Some a -> calm a;
    wi_termq : termq s = ∅;
    wi_flags : forall t a, actors s !! t = Some a -> wflagsK a;
    wi_req : forall R aR d ad k, actors s !! R = Some aR -> actors s !! d = Some ad -> d ∈ a_deps aR -> fanned aR k ->
               MRequested k (ATarget R) ∈ inb (inbox s) d \/ (own ad k /\ ATarget R ∈ reqs ad k) \/
               (~ own ad k /\ view s R aR k d = true);
    wi_view : forall R aR d ad k, actors s !! R = Some aR -> actors s !! d = Some ad -> own ad k -> ATarget R ∈ reqs ad k ->
               view s R aR k d = availb ad k;
    wi_fresh : forall R aR d ad k, actors s !! R = Some aR -> actors s !! d = Some ad -> d ∈ a_deps aR -> own ad k ->
               ATarget R ∉ reqs ad k -> lastw (inb (inbox s) R) k d = None /\ d ∈ unav aR k;
    wi_nopend : forall d ad, actors s !! d = Some ad -> no_pending ad;
    wi_unavsub : forall d ad k x, actors s !! d = Some ad -> x ∈ unav ad k -> x ∈ a_deps ad;
    wi_invsub : forall R aR k x, actors s !! R = Some aR -> MInvalidated k x ∈ inb (inbox s) R -> x ∈ a_deps aR
  }.

  (* every word about d was sent by d *)
  Lemma mword_sender m k d b : mword m k d = Some b -> sender m = ATarget d.
  Proof.
    unfold mword, word_of. destruct m as [k' r|k' r|k' d' act|k' d']; try done;
      destruct (decide (k' = k /\ d' = d)) as [[-> ->]|]; done.
  Qed.

  Lemma none_from_lastw pre k d : none_from sender (ATarget d) pre = true -> lastw pre k d = None.
  Proof.
    unfold none_from. rewrite forallb_forall. intros H. apply lastw_none. intros m Hm.
    destruct (mword m k d) as [b|] eqn:E; [|done]. exfalso.
    apply elem_of_list_In in Hm. specialize (H m Hm). apply negb_true_iff, bool_decide_eq_false in H.
    apply H. by eapply mword_sender.
  Qed.

  (* a step of R itself does not change what R believes about a dependency, except by consuming the latest word; the message
     it handles is any one that no earlier message of the same sender precedes *)
  Lemma view_step_R fx ok s s' R a e a' os ob pre rest k d :
    actor_step fx ok a e = Some (a', os, ob) ->
    (match e with
     | EMsg m => inb (inbox s) R = pre ++ m :: rest /\ none_from sender (sender m) pre = true
     | _ => pre = [] /\ rest = inb (inbox s) R
     end) ->
    inb (inbox s') R = (pre ++ rest) ++ msgs_to R os ->
    lw R os k d = None ->
    view s' R a' k d = view s R a k d.
  Proof.
    intros Hst Hhead Hib Hlw. unfold view. rewrite Hib, lastw_app. unfold lw in Hlw. rewrite Hlw. cbn beta iota.
    pose proof (step_word _ _ _ _ _ _ _ k d Hst) as Hw.
    destruct e as [m| | |r].
    - destruct Hhead as [Hhead Hnf]. rewrite Hhead, !lastw_app. cbn [lastw].
      destruct (lastw rest k d) as [b|]; [done|].
      unfold mword in *. destruct (word_of (EMsg m) k d) as [b|] eqn:Hwm.
      + rewrite (mword_sender m k d b Hwm) in Hnf. rewrite (none_from_lastw pre k d Hnf).
        destruct b; [apply bool_decide_eq_true; tauto|apply bool_decide_eq_false; tauto].
      + destruct (lastw pre k d); [done|]. apply bool_decide_ext. tauto.
    - destruct Hhead as [-> ->]. cbn [app]. destruct (lastw (inb (inbox s) R) k d); [done|]. apply bool_decide_ext. cbn in Hw. tauto.
    - destruct Hhead as [-> ->]. cbn [app]. destruct (lastw (inb (inbox s) R) k d); [done|]. apply bool_decide_ext. cbn in Hw. tauto.
    - destruct Hhead as [-> ->]. cbn [app]. destruct (lastw (inb (inbox s) R) k d); [done|]. apply bool_decide_ext. cbn in Hw. tauto.
  Qed.

  (* a step of another actor: R's inbox only grows *)
  Lemma view_step_other s s' R aR os k d :
    inb (inbox s') R = inb (inbox s) R ++ msgs_to R os ->
    view s' R aR k d = match lw R os k d with Some b => b | None => view s R aR k d end.
  Proof. intros Hib. unfold view, lw. rewrite Hib, lastw_app. by destruct (lastw (msgs_to R os) k d). Qed.

  Lemma lastw_step_other s s' R os k d :
    inb (inbox s') R = inb (inbox s) R ++ msgs_to R os ->
    lastw (inb (inbox s') R) k d = match lw R os k d with Some b => Some b | None => lastw (inb (inbox s) R) k d end.
  Proof. intros Hib. unfold lw. by rewrite Hib, lastw_app. Qed.

  Lemma dep_ne s R aR d : wf s -> actors s !! R = Some aR -> d ∈ a_deps aR -> d <> R.
  Proof.
    intros Hwf HR Hd ->. destruct (Hwf R aR HR) as [_ Hg]. specialize (Hrank R _ _ R Hg Hd). lia.
  Qed.

  Lemma winv_actor_step s s' t a e ok a' os ob pre rest :
    winv s -> wf s -> wf s' -> talk_inv g roots s' -> (forall dst k r, ~ msg_in s dst (MUnrequested k r)) ->
    actors s !! t = Some a ->
    actor_step true ok a e = Some (a', os, ob) ->
    actors s' = <[t := a']> (actors s) ->
    (match e with
     | EMsg m => inb (inbox s) t = pre ++ m :: rest /\ none_from sender (sender m) pre = true
     | _ => pre = [] /\ rest = inb (inbox s) t
     end) ->
    (forall R, inb (inbox s') R = (if decide (R = t) then pre ++ rest else inb (inbox s) R) ++ msgs_to R os) ->
    termq s' ⊆ termq s -> (e = ETerm -> t ∈ termq s) ->
    winv s'.
  Proof.
    intros Hwi Hwf Hwf' Hti Hnun Ha Hst Hact Hhead Hib Htq Hterm.
    destruct (Hwf t a Ha) as [Hid Hg].
    destruct (step_same_id _ _ _ _ _ _ _ Hst) as (Hid' & Hk' & Hdeps').
    assert (Hnt : e <> ETerm).
    { intros ->. specialize (Hterm eq_refl). rewrite (wi_termq _ Hwi) in Hterm. set_solver. }
    assert (Hnu : forall k r, e <> EMsg (MUnrequested k r)).
    { intros k r ->. apply (Hnun (ATarget t) k r). apply msg_in_inb. destruct Hhead as [-> _]. apply elem_of_mid. }
    assert (Hcalm' : calm a') by (eapply step_calm_w; [done|done|by eapply (wi_calm _ Hwi)]).
    assert (Hfl' : wflagsK a') by (eapply step_wflagsK; [done|by eapply (wi_flags _ Hwi)]).
    assert (Hreqs_mono : forall k r, r ∈ reqs a k -> r ∈ reqs a' k).
    { intros k r Hr. destruct (decide (r ∈ reqs a' k)) as [|Hn]; [done|].
      exfalso. by eapply Hnu, (step_reqs_shrink _ _ _ _ _ _ _ Hst). }
    assert (Hlook : forall x ax, actors s' !! x = Some ax -> (x = t /\ ax = a') \/ (x <> t /\ actors s !! x = Some ax)).
    { intros x ax Hx. rewrite Hact in Hx. destruct (decide (x = t)) as [->|Hne].
      - rewrite lookup_insert in Hx. injection Hx as <-. by left.
      - rewrite lookup_insert_ne in Hx by done. by right. }
    assert (Hib_t : inb (inbox s') t = (pre ++ rest) ++ msgs_to t os) by (rewrite Hib; by rewrite decide_True).
    assert (Hib_o : forall R, R <> t -> inb (inbox s') R = inb (inbox s) R ++ msgs_to R os)
      by (intros R Hne; rewrite Hib; by rewrite decide_False).
    assert (Hself : forall k d, d <> t -> lw t os k d = None).
    { intros k d Hne. eapply step_lastword_other; [done|]. by rewrite Hid. }
    assert (Hrest : forall m, m ∈ pre ++ rest -> m ∈ inb (inbox s) t).
    { intros m Hm. destruct e as [m0| | |r0]; try (destruct Hhead as [-> ->]; exact Hm). destruct Hhead as [-> _].
      apply elem_of_app in Hm as [?|?]; apply elem_of_app; [by left|right; by apply elem_of_list_further]. }
    assert (Hhd : forall m, e = EMsg m -> m ∈ inb (inbox s) t).
    { intros m ->. destruct Hhead as [-> _]. apply elem_of_mid. }
    split.
    - (* dom *)
      intros x Hx. rewrite Hact. destruct (decide (x = t)) as [->|Hne]; [rewrite lookup_insert; eauto|].
      rewrite lookup_insert_ne by done. by apply (wi_dom _ Hwi).
    - (* calm *)
      intros x ax Hx. destruct (Hlook x ax Hx) as [[-> ->]|[_ Hx0]]; [done|by eapply (wi_calm _ Hwi)].
    - (* termq *)
      rewrite (wi_termq _ Hwi) in Htq. set_solver.
    - (* flags *)
      intros x ax Hx. destruct (Hlook x ax Hx) as [[-> ->]|[_ Hx0]]; [done|by eapply (wi_flags _ Hwi)].
    - (* req *)
      intros R aR d ad k HR Hd Hdep Hfan.
      pose proof (dep_ne s' R aR d Hwf' HR Hdep) as HdR.
      destruct (Hlook R aR HR) as [[-> ->]|[HneR HR0]].
      + destruct (Hlook d ad Hd) as [[-> _]|[Hned Hd0]]; [done|].
        rewrite Hdeps' in Hdep.
        assert (Hcase : fanned a k \/ OMsg (ATarget d) (MRequested k (ATarget t)) ∈ os).
        { unfold fanned in *. rewrite Hk' in Hfan.
          assert (Hgrow : forall k1, own a k1 -> reqs a k1 = ∅ -> reqs a' k1 <> ∅ -> (a_kind a = AAggregate -> k = k1) ->
                     OMsg (ATarget d) (MRequested k (ATarget t)) ∈ os).
          { intros k1 Ho1 He1 Hne1 Hagg. apply set_choose_L in Hne1 as [r Hr].
            destruct (step_reqs_grow _ _ _ _ _ _ _ Hst k1 r Hr) as [Hold| ->]; [rewrite He1 in Hold; set_solver|].
            rewrite <- Hid. by eapply (step_fanout_first true ok a a' os ob k1 r k). }
          destruct (a_kind a) eqn:Hkind.
          - destruct (decide (reqB a = ∅)) as [He|Hne]; [right|by left]. apply (Hgrow KB); try done. by unfold own; rewrite Hkind.
          - destruct (decide (reqS a = ∅)) as [He|Hne]; [right|by left]. apply (Hgrow KS); try done. by unfold own; rewrite Hkind.
          - destruct (decide (reqs a k = ∅)) as [He|Hne]; [right|by left]. apply (Hgrow k); try done. by unfold own; rewrite Hkind. }
        destruct Hcase as [Hfan0|Hsent].
        * destruct (wi_req _ Hwi t a d ad k Ha Hd0 Hdep Hfan0) as [Hp|[Hm|[Hno Hv]]].
          -- left. rewrite (Hib_o d Hned). apply elem_of_app. by left.
          -- right. by left.
          -- right. right. split; [done|].
             by rewrite (view_step_R true ok s s' t a e a' os ob pre rest k d Hst Hhead Hib_t (Hself k d HdR)).
        * left. rewrite (Hib_o d Hned). apply elem_of_app. right. by apply elem_of_msgs_to.
      + destruct (Hlook d ad Hd) as [[-> ->]|[Hned Hd0]].
        * assert (Hown_iff : own a' k <-> own a k) by (unfold own; by rewrite Hk').
          destruct (wi_req _ Hwi R aR t a k HR0 Ha Hdep Hfan) as [Hp|[[Ho Hm]|[Hno Hv]]].
          -- assert (Hcons : MRequested k (ATarget R) ∈ pre ++ rest \/ e = EMsg (MRequested k (ATarget R))).
             { destruct e as [m| | |r]; try (destruct Hhead as [-> ->]; by left). destruct Hhead as [Hhead _]. rewrite Hhead in Hp.
               apply elem_of_mid_inv in Hp as [<-|Hp]; [by right|by left]. }
             destruct Hcons as [Hin| ->].
             ++ left. rewrite Hib_t. apply elem_of_app. by left.
             ++ destruct (decide (own a k)) as [Ho|Hno].
                ** right. left. split; [by apply Hown_iff|]. by eapply (step_register _ _ _ _ _ _ _ Hst).
                ** right. right. split; [by rewrite Hown_iff|].
                   rewrite (view_step_other s s' R aR os k t (Hib_o R HneR)).
                   pose proof (step_lastword_reply _ _ _ _ _ _ Hst R k Hno eq_refl) as Hlw. rewrite Hid in Hlw. by rewrite Hlw.
          -- right. left. split; [by apply Hown_iff|by apply Hreqs_mono].
          -- right. right. split; [by rewrite Hown_iff|].
             rewrite (view_step_other s s' R aR os k t (Hib_o R HneR)).
             pose proof (step_lastword_foreign _ _ _ _ _ _ Hst R k Hno) as Hlw. rewrite Hid in Hlw.
             destruct (lw R os k t) as [[]|]; done.
        * destruct (wi_req _ Hwi R aR d ad k HR0 Hd0 Hdep Hfan) as [Hp|[Hm|[Hno Hv]]].
          -- left. rewrite (Hib_o d Hned). apply elem_of_app. by left.
          -- right. by left.
          -- right. right. split; [done|].
             rewrite (view_step_other s s' R aR os k d (Hib_o R HneR)).
             assert (Hlw : lw R os k d = None) by (eapply step_lastword_other; [done|by rewrite Hid]).
             by rewrite Hlw.
    - (* view *)
      intros R aR d ad k HR Hd Hown Hreq.
      assert (Hdep : d ∈ a_deps aR).
      { pose proof (ti_reqs _ _ _ Hti _ _ _ _ Hd Hreq) as (kt & deps & Hg1 & Hd1).
        destruct (Hwf' R aR HR) as [_ Hg2]. unfold graph in *. rewrite Hg1 in Hg2. by injection Hg2 as _ <-. }
      pose proof (dep_ne s' R aR d Hwf' HR Hdep) as HdR.
      destruct (Hlook R aR HR) as [[-> ->]|[HneR HR0]].
      + destruct (Hlook d ad Hd) as [[-> _]|[_ Hd0]]; [done|].
        rewrite (view_step_R true ok s s' t a e a' os ob pre rest k d Hst Hhead Hib_t (Hself k d HdR)).
        by apply (wi_view _ Hwi).
      + destruct (Hlook d ad Hd) as [[-> ->]|[Hned Hd0]].
        * assert (Hown0 : own a k) by (unfold own in *; by rewrite <- Hk').
          pose proof (step_lastword _ _ _ _ _ _ Hst R k (wi_flags _ Hwi t a Ha) Hown0 Hreq) as Hspec. rewrite Hid in Hspec.
          rewrite (view_step_other s s' R aR os k t (Hib_o R HneR)).
          destruct (lw R os k t) as [b|]; [done|].
          destruct (decide (ATarget R ∈ reqs a k)) as [Hin|Hnin].
          -- rewrite Hspec. by apply (wi_view _ Hwi).
          -- rewrite Hspec. destruct (wi_fresh _ Hwi R aR t a k HR0 Ha Hdep Hown0 Hnin) as [Hl Hu].
             unfold view. rewrite Hl. apply bool_decide_eq_false. intros Hc. by apply Hc.
        * rewrite (view_step_other s s' R aR os k d (Hib_o R HneR)).
          assert (Hlw : lw R os k d = None) by (eapply step_lastword_other; [done|by rewrite Hid]).
          rewrite Hlw. by apply (wi_view _ Hwi).
    - (* fresh *)
      intros R aR d ad k HR Hd Hdep Hown Hnreq.
      pose proof (dep_ne s' R aR d Hwf' HR Hdep) as HdR.
      destruct (Hlook R aR HR) as [[-> ->]|[HneR HR0]].
      + destruct (Hlook d ad Hd) as [[-> _]|[_ Hd0]]; [done|].
        rewrite Hdeps' in Hdep.
        destruct (wi_fresh _ Hwi t a d ad k Ha Hd0 Hdep Hown Hnreq) as [Hl Hu].
        assert (Hparts : lastw (pre ++ rest) k d = None /\ word_of e k d = None).
        { destruct e as [m| | |r]; try (destruct Hhead as [-> ->]; by split). destruct Hhead as [Hhead _].
          rewrite Hhead, lastw_app in Hl. cbn [lastw] in Hl. rewrite lastw_app.
          destruct (lastw rest k d); [done|]. unfold mword in Hl. destruct (word_of (EMsg m) k d); [done|]. by split. }
        destruct Hparts as [Hl1 Hl2]. split.
        * rewrite Hib_t, lastw_app. fold (lw t os k d). rewrite (Hself k d HdR). exact Hl1.
        * apply (step_word _ _ _ _ _ _ _ k d Hst). by rewrite Hl2.
      + destruct (Hlook d ad Hd) as [[-> ->]|[Hned Hd0]].
        * assert (Hown0 : own a k) by (unfold own in *; by rewrite <- Hk').
          assert (Hn0 : ATarget R ∉ reqs a k) by (intros Hc; by apply Hnreq, Hreqs_mono).
          destruct (wi_fresh _ Hwi R aR t a k HR0 Ha Hdep Hown0 Hn0) as [Hl Hu]. split; [|done].
          rewrite (lastw_step_other s s' R os k t (Hib_o R HneR)).
          pose proof (step_lastword_unregistered _ _ _ _ _ _ Hst R k Hown0 Hnreq) as Hlw. rewrite Hid in Hlw.
          by rewrite Hlw.
        * destruct (wi_fresh _ Hwi R aR d ad k HR0 Hd0 Hdep Hown Hnreq) as [Hl Hu]. split; [|done].
          rewrite (lastw_step_other s s' R os k d (Hib_o R HneR)).
          assert (Hlw : lw R os k d = None) by (eapply step_lastword_other; [done|by rewrite Hid]).
          by rewrite Hlw.
    - (* nopend *)
      intros x ax Hx. destruct (Hlook x ax Hx) as [[-> ->]|[_ Hx0]]; [|by eapply (wi_nopend _ Hwi)].
      intros k Hkk Hte Hr HB HS. rewrite Hk' in Hkk. destruct Hcalm' as (Hex & _).
      by eapply (step_no_pending_start _ _ _ _ _ _ _ Hst k).
    - (* unavsub *)
      intros x ax k y Hx Hy. destruct (Hlook x ax Hx) as [[-> ->]|[_ Hx0]]; [|by eapply (wi_unavsub _ Hwi)].
      rewrite Hdeps'. destruct (step_unav_grow _ _ _ _ _ _ _ Hst k y Hy) as [Hold| ->].
      + by eapply (wi_unavsub _ Hwi).
      + eapply (wi_invsub _ Hwi t a k y Ha). by apply Hhd.
    - (* invsub *)
      assert (Hnew : forall R aR k x, actors s' !! R = Some aR -> OMsg (ATarget R) (MInvalidated k x) ∈ os -> x ∈ a_deps aR).
      { intros R aR k x HR Hin. destruct (step_out_inval _ _ _ _ _ _ _ Hst _ _ _ Hin) as (-> & _ & Hreq).
        assert (Hlk : actors s' !! a_id a = Some a') by (rewrite Hact, Hid; apply lookup_insert).
        pose proof (ti_reqs _ _ _ Hti _ _ _ _ Hlk Hreq) as (kt & deps & Hg1 & Hd1).
        destruct (Hwf' R aR HR) as [_ Hg2]. unfold graph in *. rewrite Hg1 in Hg2. by injection Hg2 as _ <-. }
      intros R aR k x HR Hin. destruct (Hlook R aR HR) as [[-> ->]|[Hne HR0]].
      + rewrite Hib_t in Hin. apply elem_of_app in Hin as [Hin|Hin].
        * rewrite Hdeps'. eapply (wi_invsub _ Hwi t a k x Ha). by apply Hrest.
        * apply elem_of_msgs_to in Hin. by eapply Hnew.
      + rewrite (Hib_o R Hne) in Hin. apply elem_of_app in Hin as [Hin|Hin].
        * by eapply (wi_invsub _ Hwi).
        * apply elem_of_msgs_to in Hin. by eapply Hnew.
  Qed.
End wlive.
