(* Per-step fact(s) about actor_step: start_count. *)
From Zinoma.Proofs Require Export ActorFacts.
Section facts.
  Context (fx ok : bool) (a : astate) (e : event) (a' : astate) (os : list out) (ob : list obs).
  Context (Hstep : actor_step fx ok a e = Some (a', os, ob)).
  Lemma step_start_count x : count_occ obs_eq_dec ob (ObStart x) <= 1.
  Proof using Hstep.
    clear -Hstep. crush_step Hstep; cbn [count_occ app]; repeat case_match; simplify_eq; cbn [count_occ]; lia.
  Qed.
End facts.
