(* From the loaded configuration to the first effect (main.rs:52-77): ir::Config::from, the names offered to clap,
   the parsing of the requested names, and the two `unwrap`s on that path.
   - every name offered to clap parses (so `try_parse_many(..).unwrap()` cannot panic);
   - an unqualified id (project None) only arises when the root project is unnamed, and then the key None exists
     (so `project_name.as_ref().unwrap()` in the "Project .. does not exist" message is never reached with None);
   - after FX7 the keys of ir::Config are distinct: lookup by name does not depend on any iteration order;
   - every error outcome of `main_front` comes with an empty effect list; `main_front` never panics. *)
From Zinoma.Model Require Import Config.
From Zinoma.Proofs Require Import Bytes ConfigLoad.
From Coq Require Import Lia Permutation.
Local Open Scope nat_scope.

(* ---- names never contain a colon, so display/try_parse round-trip ---- *)
Lemma is_word_not_colon b : is_word b = true -> b <> colon.
Proof. intros H E. subst b. vm_compute in H. discriminate. Qed.

Lemma valid_name_no_colon s : valid_name s = true -> ~ In colon s.
Proof.
  destruct s as [|x r]; cbn [valid_name]; [discriminate|]. intros H. apply andb_true_iff in H as [Hx Hr].
  intros [E|Hin]; [subst x; vm_compute in Hx; discriminate|].
  rewrite forallb_forall in Hr. specialize (Hr colon Hin). vm_compute in Hr. discriminate.
Qed.

Lemma split_cc_nocolon s : ~ In colon s -> split_cc_aux false s = [s].
Proof.
  induction s as [|x s IH]; intros Hn; cbn [split_cc_aux]; [reflexivity|].
  destruct s as [|y s']; [reflexivity|].
  assert (Hx : (x =? colon)%N = false) by (apply N.eqb_neq; intros ->; apply Hn; now left).
  rewrite Hx. cbn [andb]. rewrite IH; [reflexivity|]. intros H. apply Hn. now right.
Qed.

Lemma split_cc_qualified p t :
  ~ In colon p -> ~ In colon t -> split_cc_aux false (p ++ colon :: colon :: t) = [p; t].
Proof.
  intros Hp Ht. induction p as [|x p IH]; cbn [app].
  - cbn [split_cc_aux]. rewrite N.eqb_refl. cbn [andb]. now rewrite (split_cc_nocolon t Ht).
  - cbn [split_cc_aux]. destruct (p ++ colon :: colon :: t) as [|y r] eqn:E; [destruct p; discriminate|].
    assert (Hx : (x =? colon)%N = false) by (apply N.eqb_neq; intros ->; apply Hp; now left).
    rewrite Hx. cbn [andb]. rewrite IH; [reflexivity|]. intros H. apply Hp. now right.
Qed.

Lemma try_parse_bare t cur :
  valid_name t = true -> try_parse t cur = Some {| t_project := cur; t_name := t |}.
Proof. intros Ht. unfold try_parse, split_cc. now rewrite (split_cc_nocolon t (valid_name_no_colon t Ht)). Qed.

Lemma try_parse_qualified p t cur :
  valid_name p = true -> valid_name t = true ->
  try_parse (p ++ [colon; colon] ++ t) cur = Some {| t_project := Some p; t_name := t |}.
Proof.
  intros Hp Ht. unfold try_parse, split_cc. cbn [app].
  now rewrite (split_cc_qualified p t (valid_name_no_colon p Hp) (valid_name_no_colon t Ht)).
Qed.

Lemma try_parse_display pn tn cur :
  opt_valid_name pn = true -> valid_name tn = true ->
  exists id, try_parse (display {| t_project := pn; t_name := tn |}) cur = Some id /\ t_name id = tn /\
             (t_project id = None -> pn = None /\ cur = None).
Proof.
  intros Hp Ht. unfold display. cbn [t_project t_name]. destruct pn as [p|].
  - rewrite (try_parse_qualified p tn cur Hp Ht). eexists. split; [reflexivity|]. split; [reflexivity | discriminate].
  - rewrite (try_parse_bare tn cur Ht). eexists. split; [reflexivity|]. split; [reflexivity|]. cbn. auto.
Qed.

Lemma try_parse_many_some l cur :
  (forall s, In s l -> try_parse s cur <> None) -> try_parse_many l cur <> None.
Proof.
  induction l as [|s l IH]; intros H; cbn [try_parse_many]; [discriminate|].
  destruct (try_parse s cur) as [t|] eqn:E; [|elim (H s); [now left | exact E]].
  destruct (try_parse_many l cur) as [ts|] eqn:E'; [discriminate|]. elim IH; [|reflexivity].
  intros s' Hs'. apply H. now right.
Qed.

Lemma try_parse_unqualified s cur id :
  try_parse s cur = Some id -> t_project id = None -> cur = None.
Proof.
  unfold try_parse. destruct (split_cc s) as [|a [|b [|c r]]]; try discriminate; intros [= <-]; cbn; congruence.
Qed.

(* ---- ir::Config ---- *)
Lemma ir_lookup_in n ps v : ir_lookup n ps = Some v -> In (n, v) ps.
Proof.
  induction ps as [|[k w] ps IH]; cbn [ir_lookup]; [discriminate|].
  destruct (opt_beq n k) eqn:E.
  - intros [= <-]. left. f_equal. destruct n as [a|], k as [b|]; cbn in E; try discriminate; [|reflexivity].
    apply beq_eq in E. now subst.
  - intros H. right. now apply IH.
Qed.

Lemma opt_beq_refl n : opt_beq n n = true.
Proof. destruct n; cbn; [apply beq_refl | reflexivity]. Qed.

Lemma opt_beq_eq a b : opt_beq a b = true <-> a = b.
Proof.
  destruct a as [x|], b as [y|]; cbn; try (split; discriminate); [|tauto].
  rewrite beq_eq. split; [now intros -> | now intros [= ->]].
Qed.

Lemma ir_lookup_key_in n ps : In n (map fst ps) -> ir_lookup n ps <> None.
Proof.
  induction ps as [|[k w] ps IH]; cbn [map fst In ir_lookup]; [tauto|].
  destruct (opt_beq n k) eqn:E; [discriminate|]. intros [<-|H]; [|now apply IH].
  rewrite opt_beq_refl in E. discriminate.
Qed.

Lemma ir_lookup_nodup n ps v : NoDup (map fst ps) -> In (n, v) ps -> ir_lookup n ps = Some v.
Proof.
  induction ps as [|[k w] ps IH]; cbn [map fst In ir_lookup]; [tauto|]. intros Hnd Hin.
  inversion Hnd as [|? ? Hni Hnd']; subst. destruct Hin as [[= -> ->]|Hin].
  - now rewrite opt_beq_refl.
  - destruct (opt_beq n k) eqn:E; [|now apply IH]. apply opt_beq_eq in E. subst k.
    exfalso. apply Hni. now apply (in_map fst) in Hin.
Qed.

(* with distinct keys, lookup is a function of the SET of entries: any iteration order gives the same ir::Config *)
Lemma ir_lookup_perm n ps ps' :
  NoDup (map fst ps) -> Permutation ps ps' -> ir_lookup n ps' = ir_lookup n ps.
Proof.
  intros Hnd Hp. assert (Hnd' : NoDup (map fst ps')).
  { eapply Permutation_NoDup; [apply Permutation_map; exact Hp | exact Hnd]. }
  destruct (ir_lookup n ps) as [v|] eqn:E.
  - apply ir_lookup_nodup; [exact Hnd'|]. eapply Permutation_in; [exact Hp | now apply ir_lookup_in].
  - destruct (ir_lookup n ps') as [v|] eqn:E'; [|reflexivity]. apply ir_lookup_in in E'.
    apply (Permutation_in _ (Permutation_sym Hp)) in E'. apply (ir_lookup_nodup _ _ _ Hnd) in E'. congruence.
Qed.

Lemma NoDup_map_inj {A B} (f : A -> B) l :
  NoDup l -> (forall a b, In a l -> In b l -> f a = f b -> a = b) -> NoDup (map f l).
Proof.
  induction l as [|x l IH]; cbn [map]; [constructor|]. intros Hnd Hinj. inversion Hnd as [|? ? Hni Hnd']; subst.
  constructor.
  - intros Hin. apply in_map_iff in Hin as (y & Hy & Hin). assert (y = x) by (apply Hinj; auto; [now right | now left]).
    subst. contradiction.
  - apply IH; [exact Hnd'|]. intros a b Ha Hb. apply Hinj; now right.
Qed.

Lemma proj_valid fs d p :
  proj fs d p -> opt_valid_name (yp_name p) = true /\ forall n t, In (n, t) (yp_targets p) -> valid_name n = true.
Proof.
  unfold proj, load_project. destruct (fs d) as [| |v]; try discriminate.
  destruct (accept_project v) as [q|]; [|discriminate].
  destruct (opt_valid_name (yp_name q)) eqn:En; cbn [negb]; [|discriminate].
  destruct (forallb (fun nt => valid_name (fst nt)) (yp_targets q)) eqn:Et; [|discriminate].
  intros [= <-]. split; [exact En|]. intros n t Hin. rewrite forallb_forall in Et. exact (Et (n, t) Hin).
Qed.

Section Loaded.
  Variable fs : cdir -> cfile.
  Variable canon : cdir -> bytes -> option cdir.
  Variable root : cdir.
  Variable vis : loaded.
  Hypothesis Hspec : LoadedSpec fs canon root vis.

  Let c : yconfig := {| yc_root := root; yc_projects := vis |}.

  Lemma to_ir_some :
    exists rp ic, vis_get root vis = Some rp /\ to_ir c = Some ic /\ ic_root_name ic = yp_name rp /\
                  ic_projects ic = ir_entries vis.
  Proof.
    destruct Hspec as (_ & _ & _ & Hroot). destruct (vis_get root vis) as [rp|] eqn:E; [|now elim Hroot].
    exists rp. unfold to_ir, to_ir_ordered. cbn [yc_root yc_projects c]. rewrite E. eexists. repeat split.
  Qed.

  Lemma to_ir_inv ic :
    to_ir c = Some ic -> exists rp, vis_get root vis = Some rp /\ ic_root_name ic = yp_name rp /\ ic_projects ic = ir_entries vis.
  Proof.
    destruct to_ir_some as (rp & ic' & Hr & Hic & Hn & Hp). rewrite Hic. intros [= <-]. now exists rp.
  Qed.

  Lemma in_ir_entries pn d p : In (pn, (d, p)) (ir_entries vis) <-> In (d, p) vis /\ pn = yp_name p.
  Proof.
    unfold ir_entries. rewrite in_map_iff. split.
    - intros ([d' p'] & [= <- <- <-] & Hin). auto.
    - intros [Hin ->]. exists (d, p). auto.
  Qed.

  (* (a) the root project is found under its own name: `self.projects[project_name]` cannot panic *)
  Lemma ir_root_present ic : to_ir c = Some ic -> ir_lookup (ic_root_name ic) (ic_projects ic) <> None.
  Proof.
    intros Hic. destruct (to_ir_inv ic Hic) as (rp & Hr & -> & ->). apply ir_lookup_key_in.
    apply vis_get_in in Hr. apply in_map_iff. exists (yp_name rp, (root, rp)). split; [reflexivity|].
    now apply in_ir_entries.
  Qed.

  (* (b) every project name and every target name in ir::Config is a valid name *)
  Lemma ir_names_valid ic pn d p :
    to_ir c = Some ic -> In (pn, (d, p)) (ic_projects ic) ->
    opt_valid_name pn = true /\ forall n t, In (n, t) (yp_targets p) -> valid_name n = true.
  Proof.
    intros Hic Hin. destruct (to_ir_inv ic Hic) as (rp & _ & _ & Hp). rewrite Hp in Hin.
    apply in_ir_entries in Hin as [Hin ->]. destruct Hspec as (Hnd & Hiff & _).
    apply (vis_get_nodup _ _ _ Hnd) in Hin. apply Hiff in Hin as [_ Hproj]. exact (proj_valid fs d p Hproj).
  Qed.

  (* the names offered to clap all parse: main.rs `try_parse_many(..).unwrap()` *)
  Lemma ir_available_parse ic :
    to_ir c = Some ic ->
    exists names, ir_available_names ic = Some names /\
                  forall s, In s names -> try_parse s (ic_root_name ic) <> None.
  Proof.
    intros Hic. pose proof (ir_root_present ic Hic) as Hroot.
    assert (Hq : forall s, In s (map display (ir_all_targets ic)) -> try_parse s (ic_root_name ic) <> None).
    { intros s Hs. apply in_map_iff in Hs as (id & <- & Hid). unfold ir_all_targets in Hid.
      apply in_flat_map in Hid as ([pn [d p]] & He & Hid). cbn [fst snd] in Hid.
      apply in_map_iff in Hid as ([n t] & <- & Hnt). cbn [fst].
      destruct (ir_names_valid ic pn d p Hic He) as [Hpn Htn].
      destruct (try_parse_display pn n (ic_root_name ic) Hpn (Htn n t Hnt)) as (id & Hid & _). congruence. }
    unfold ir_available_names. destruct (ic_root_name ic) as [rn|] eqn:Ern.
    - destruct (ir_lookup (Some rn) (ic_projects ic)) as [[d pr]|] eqn:El; [|now elim Hroot].
      eexists. split; [reflexivity|]. intros s Hs. apply in_app_or in Hs as [Hs|Hs]; [now apply Hq|].
      apply in_map_iff in Hs as ([n t] & <- & Hnt). cbn [fst]. apply ir_lookup_in in El.
      destruct (ir_names_valid ic (Some rn) d pr Hic El) as [_ Htn].
      rewrite (try_parse_bare n (Some rn) (Htn n t Hnt)). discriminate.
    - eexists. split; [reflexivity | exact Hq].
  Qed.

  (* (d) an unqualified id exists only under an unnamed root, whose key None is present: the
     `project_name.as_ref().unwrap()` of the "Project .. does not exist" message is never reached with None *)
  Lemma ir_unqualified_has_project ic s id :
    to_ir c = Some ic -> try_parse s (ic_root_name ic) = Some id -> t_project id = None ->
    ir_lookup None (ic_projects ic) <> None.
  Proof.
    intros Hic Hp Hn. pose proof (try_parse_unqualified s _ id Hp Hn) as Hr.
    pose proof (ir_root_present ic Hic) as H. now rewrite Hr in H.
  Qed.

  Lemma ir_listed_has_project ic id :
    to_ir c = Some ic -> In id (ir_all_targets ic) -> ir_lookup (t_project id) (ic_projects ic) <> None.
  Proof.
    intros Hic Hid. unfold ir_all_targets in Hid. apply in_flat_map in Hid as ([pn [d p]] & He & Hid).
    apply in_map_iff in Hid as (nt & <- & _). cbn [t_project fst]. apply ir_lookup_key_in.
    apply in_map_iff. exists (pn, (d, p)). auto.
  Qed.

  (* after FX7: keys distinct, lookup by name is a function, whatever order the entries are collected in *)
  Hypothesis Hinj : NamesInjective fs canon root.

  Lemma ir_keys_nodup : NoDup (map fst (ir_entries vis)).
  Proof.
    destruct Hspec as (Hnd & Hiff & Hcl). unfold ir_entries. rewrite map_map. cbn [fst].
    apply NoDup_map_inj; [eapply NoDup_map_inv; exact Hnd|].
    intros [x p] [y q] Ha Hb. cbn [snd]. intros Hn.
    pose proof (vis_get_nodup _ _ _ Hnd Ha) as Hx. pose proof (vis_get_nodup _ _ _ Hnd Hb) as Hy.
    assert (x = y) by (eapply (loaded_keys_injective fs canon root vis Hspec Hinj); eauto). subst y. f_equal. congruence.
  Qed.

  Lemma ir_lookup_spec n d p :
    ir_lookup n (ir_entries vis) = Some (d, p) <-> vis_get d vis = Some p /\ yp_name p = n.
  Proof.
    destruct Hspec as (Hnd & _). split.
    - intros H. apply ir_lookup_in in H. apply in_ir_entries in H as [Hin ->]. split; [now apply vis_get_nodup | reflexivity].
    - intros [Hg <-]. apply ir_lookup_nodup; [exact ir_keys_nodup|]. apply in_ir_entries. split; [now apply vis_get_in | reflexivity].
  Qed.

  Lemma to_ir_any_order order n :
    Permutation vis order ->
    match to_ir c, to_ir_ordered c order with
    | Some ic, Some ic' => ic_root_name ic' = ic_root_name ic /\ ir_lookup n (ic_projects ic') = ir_lookup n (ic_projects ic)
    | _, _ => False
    end.
  Proof.
    intros Hp. destruct to_ir_some as (rp & ic & Hr & Hic & Hn & Hps). rewrite Hic.
    unfold to_ir_ordered. cbn [yc_root yc_projects c]. rewrite Hr. cbn [ic_root_name ic_projects].
    split; [now rewrite Hn|]. rewrite Hps. apply ir_lookup_perm; [exact ir_keys_nodup|].
    unfold ir_entries. now apply Permutation_map.
  Qed.
  (* ... and offers the same set of names to clap *)
  Lemma to_ir_any_order_names order :
    Permutation vis order ->
    match to_ir c, to_ir_ordered c order with
    | Some ic, Some ic' =>
        match ir_available_names ic, ir_available_names ic' with
        | Some names, Some names' => Permutation names names'
        | _, _ => False
        end
    | _, _ => False
    end.
  Proof.
    intros Hp. destruct to_ir_some as (rp & ic & Hr & Hic & Hn & Hps). rewrite Hic.
    destruct (ir_available_parse ic Hic) as (names & Hnames & _). rewrite Hnames.
    unfold to_ir_ordered. cbn [yc_root yc_projects c]. rewrite Hr.
    assert (Hpe : Permutation (ir_entries vis) (ir_entries order)) by (unfold ir_entries; now apply Permutation_map).
    assert (Hq : Permutation (map display (ir_all_targets ic))
                   (map display (ir_all_targets {| ic_root_name := yp_name rp; ic_projects := ir_entries order |}))).
    { apply Permutation_map. unfold ir_all_targets. cbn [ic_projects]. rewrite Hps. now apply Permutation_flat_map. }
    revert Hnames. unfold ir_available_names. cbn [ic_root_name ic_projects]. rewrite Hn, Hps.
    destruct (yp_name rp) as [rn|].
    - rewrite (ir_lookup_perm (Some rn) (ir_entries vis) (ir_entries order) ir_keys_nodup Hpe).
      destruct (ir_lookup (Some rn) (ir_entries vis)) as [[d pr]|]; [|discriminate].
      intros [= <-]. apply Permutation_app; [exact Hq | apply Permutation_refl].
    - intros [= <-]. exact Hq.
  Qed.
End Loaded.

(* ---- main.rs up to the first effect ---- *)
Section FrontTheorems.
  Variable fs : cdir -> cfile.
  Variable canon : cdir -> bytes -> option cdir.
  Variable ord : cdir -> list (bytes * bytes) -> list (bytes * bytes).
  Variable resolve : iconfig -> list target_id -> bool.
  Variable E : Type.
  Variable effects_of : iconfig -> list target_id -> bool -> bool -> list E.

  (* whatever goes wrong — load, clap, resolution — nothing has been deleted or started *)
  Theorem front_error_before_effects fuel root req clean watch :
    (forall ids, fst (main_front fs canon ord resolve E effects_of fuel root req clean watch) <> FO_Proceed ids) ->
    snd (main_front fs canon ord resolve E effects_of fuel root req clean watch) = [].
  Proof.
    unfold main_front. destruct (load_config fs canon ord fuel root) as [c|e]; [|reflexivity].
    destruct (to_ir c) as [ic|]; [|reflexivity]. destruct (ir_available_names ic) as [names|]; [|reflexivity].
    destruct req as [req|].
    - destruct (forallb _ req); [|reflexivity]. destruct (try_parse_many req (ic_root_name ic)) as [ids|]; [|reflexivity].
      destruct (resolve ic ids); [|reflexivity]. cbn [fst snd]. intros H. now elim (H ids).
    - destruct clean; [|reflexivity]. destruct (resolve ic (ir_all_targets ic)); [|reflexivity].
      cbn [fst snd]. intros H. now elim (H (ir_all_targets ic)).
  Qed.

  Theorem front_load_error_no_effects fuel root req clean watch e :
    load_config fs canon ord fuel root = LErr e ->
    main_front fs canon ord resolve E effects_of fuel root req clean watch = (FO_LoadError e, []).
  Proof. intros H. unfold main_front. now rewrite H. Qed.

  Hypothesis Hord : OrderOk ord.
  Variable root : cdir.
  Variable U : list cdir.
  Hypothesis HU : Covers fs canon root U.
  Variable fuel : nat.
  Hypothesis Hfuel : length U < fuel.

  Lemma existsb_beq_in s names : existsb (beq s) names = true -> In s names.
  Proof. intros H. apply existsb_exists in H as (x & Hx & Hb). apply beq_eq in Hb. now subst. Qed.

  (* the model of main never reaches a panic, and the model-only errors (fuel, HashMap index) never occur *)
  Theorem front_total req clean watch :
    fst (main_front fs canon ord resolve E effects_of fuel root req clean watch) <> FO_Panic /\
    (forall e, fst (main_front fs canon ord resolve E effects_of fuel root req clean watch) = FO_LoadError e ->
               e <> LE_Fuel /\ e <> LE_PanicIndex).
  Proof.
    unfold main_front. destruct (load_config fs canon ord fuel root) as [c|e] eqn:El.
    2:{ cbn [fst]. split; [discriminate|]. intros e' [= <-].
        exact (load_never_internal fs canon root ord Hord U HU fuel Hfuel e El). }
    destruct (load_ok fs canon root ord Hord U HU fuel c El) as (Hr & Hs & Hni).
    destruct c as [r vis]. cbn [yc_root yc_projects] in Hr, Hs. subst r.
    destruct (to_ir_some fs canon root vis Hs) as (rp & ic & Hrp & Hic & Hn & Hp). rewrite Hic.
    destruct (ir_available_parse fs canon root vis Hs ic Hic) as (names & Hnames & Hparse). rewrite Hnames.
    assert (Hnp : forall o, (forall e, FO_LoadError e <> o) -> o <> FO_Panic ->
              forall l : list E, fst (o, l) <> FO_Panic /\ (forall e, fst (o, l) = FO_LoadError e -> e <> LE_Fuel /\ e <> LE_PanicIndex)).
    { intros o H1 H2 l. cbn [fst]. split; [exact H2|]. intros e He. now elim (H1 e). }
    destruct req as [req|].
    - destruct (forallb (fun s => existsb (beq s) names) req) eqn:Ef.
      + destruct (try_parse_many req (ic_root_name ic)) as [ids|] eqn:Ep.
        * destruct (resolve ic ids); apply Hnp; discriminate.
        * exfalso. revert Ep. apply try_parse_many_some. intros s Hs'. apply Hparse.
          rewrite forallb_forall in Ef. now apply existsb_beq_in, Ef.
      + apply Hnp; discriminate.
    - destruct clean; [|apply Hnp; discriminate]. destruct (resolve ic (ir_all_targets ic)); apply Hnp; discriminate.
  Qed.
End FrontTheorems.
