(* The resolver theorems in the form the property files quote them, over the FAITHFUL `resolve`
   (Model/Resolver.v, with the removal of converted yaml targets) — obtained from ResolverSound through
   ResolverPure.resolve_pure. *)
From Zinoma.Model Require Import Bytes Cfg Names Ext Resolver.
From Zinoma.Proofs Require Import Bytes Names ResolverSpec ResolverPure ResolverSound.
From Coq Require Import Relations Lia PeanoNat Permutation.
Local Open Scope nat_scope.

Definition acyclic_map (m : tmap) : Prop :=
  exists rank : target_id -> nat, forall t rt d, tmap_get m t = Some rt -> In d (rt_deps rt) -> rank d < rank t.

(* the six classes an error may have (no fuel exhaustion, no panic) *)
Definition reported_class (e : err) : Prop :=
  e = EProjectNotFound \/ e = ETargetNotFound \/ e = ECircular \/ e = ENotABuildOutput \/ e = EInvalidInput \/
  e = EInvalidTargetName.

Lemma resolve_spec cfg roots fuel :
  n_targets cfg < fuel ->
  match resolve cfg roots fuel with
  | Ok m => sorted_ok cfg m /\ (forall t, In t (tmap_keys m) <-> reach cfg roots t)
  | Err e => defect cfg (reach cfg roots) e
  end.
Proof. rewrite resolve_pure. apply resolve_p_spec. Qed.

Lemma sorted_ok_acyclic cfg m : sorted_ok cfg m -> acyclic_map m.
Proof.
  intros Hs. exists (rank m). intros t rt d Hg Hd.
  destruct (sorted_ok_get _ _ _ _ Hs Hg) as [Hrt _].
  refine (proj2 (rank_edge cfg m t d Hs (tmap_get_in_keys _ _ _ Hg) _)).
  unfold edge. now rewrite <- (rtarget_of_deps _ _ _ Hrt).
Qed.

(* ---- C09 soundness ---- *)
Theorem resolve_sound cfg roots fuel m :
  n_targets cfg < fuel -> resolve cfg roots fuel = Ok m ->
  (forall t, In t (tmap_keys m) <-> reach cfg roots t) /\
  NoDup (tmap_keys m) /\
  (forall t rt, tmap_get m t = Some rt -> rtarget_of cfg t = Some rt) /\
  acyclic_map m.
Proof.
  intros Hf Hr. pose proof (resolve_spec cfg roots fuel Hf) as H. rewrite Hr in H. destruct H as [Hs Hk].
  split; [exact Hk|]. split; [now apply (sorted_ok_nodup cfg)|]. split; [|now apply (sorted_ok_acyclic cfg)].
  intros t rt Hg. now destruct (sorted_ok_get _ _ _ _ Hs Hg).
Qed.

(* what `rtarget_of cfg t = Some rt` says about the dependency list, for readers of the property *)
Theorem resolved_deps cfg roots fuel m t rt :
  n_targets cfg < fuel -> resolve cfg roots fuel = Ok m -> tmap_get m t = Some rt ->
  exists dir yt deps orefs,
    lookup_yt cfg t = Some (dir, yt) /\
    all_some (declared_refs t yt) = Some deps /\ all_some (output_refs t yt) = Some orefs /\
    rt_id rt = t /\ rt_dir rt = dir /\ rt_kind rt = yt_kind yt /\ rt_script rt = yt_script yt /\
    rt_deps rt = deps ++ orefs /\
    (forall d, In d (deps ++ orefs) -> In d (tmap_keys m)) /\
    (forall x, In x orefs -> exists rx, tmap_get m x = Some rx /\ rt_kind rx = TBuild).
Proof.
  intros Hf Hr Hg. pose proof (resolve_spec cfg roots fuel Hf) as H. rewrite Hr in H. destruct H as [Hs Hk].
  destruct (sorted_ok_get _ _ _ _ Hs Hg) as [Hrt Hd].
  destruct (rtarget_of_inv _ _ _ Hrt) as (dir & yt & deps & orefs & outs & Hl & Hdp & Ho & Hp & Heq).
  exists dir, yt, deps, orefs. rewrite Heq in Hd |- *. cbn [rt_id rt_dir rt_kind rt_script rt_deps] in *.
  repeat split; try assumption.
  intros x Hx. destruct (in_keys_get m x (Hd x (in_or_app _ _ _ (or_intror Hx)))) as [rx Hgx]. exists rx. split; [exact Hgx|].
  destruct (sorted_ok_get _ _ _ _ Hs Hgx) as [Hrx _].
  destruct (rtarget_of_inv _ _ _ Hrx) as (dx & yx & dpx & orx & oux & Hlx & _ & _ & _ & Heqx). rewrite Heqx. cbn [rt_kind].
  destruct (all_some_map_in _ _ _ Hp x Hx) as [res [Hres _]]. unfold producer_output in Hres. rewrite Hlx in Hres.
  destruct (yt_kind yx); [reflexivity | discriminate | discriminate].
Qed.

Definition resolve_default_sound cfg roots m :=
  resolve_sound cfg roots (S (n_targets cfg)) m (Nat.lt_succ_diag_r _).
Definition resolve_default_deps cfg roots m t rt :=
  resolved_deps cfg roots (S (n_targets cfg)) m t rt (Nat.lt_succ_diag_r _).

(* ---- C09 completeness / rejection / fuel ---- *)
Theorem resolve_ok_iff_not_broken cfg roots fuel :
  n_targets cfg < fuel -> ((exists m, resolve cfg roots fuel = Ok m) <-> ~ broken cfg roots).
Proof.
  intros Hf. pose proof (resolve_spec cfg roots fuel Hf) as H. split.
  - intros [m Hm]. rewrite Hm in H. destruct H as [Hs Hk]. apply (sorted_ok_not_broken cfg roots m Hs). intros t. apply Hk.
  - intros Hnb. destruct (resolve cfg roots fuel) as [m|e]; [now exists m|]. exfalso. apply Hnb. now exists e.
Qed.

Theorem resolve_complete cfg roots :
  ~ broken cfg roots -> exists m, resolve cfg roots (S (n_targets cfg)) = Ok m.
Proof. intros H. apply resolve_ok_iff_not_broken; [lia | exact H]. Qed.

Theorem resolve_rejects cfg roots :
  broken cfg roots -> exists e, resolve cfg roots (S (n_targets cfg)) = Err e /\ defect cfg (reach cfg roots) e.
Proof.
  intros Hb. pose proof (resolve_spec cfg roots (S (n_targets cfg)) (Nat.lt_succ_diag_r _)) as H.
  destruct (resolve cfg roots (S (n_targets cfg))) as [m|e] eqn:E.
  - exfalso. apply (proj1 (resolve_ok_iff_not_broken cfg roots (S (n_targets cfg)) (Nat.lt_succ_diag_r _))); [now exists m | exact Hb].
  - now exists e.
Qed.

Lemma defect_class cfg R e : defect cfg R e -> reported_class e \/ e = EPanicUnwrap.
Proof. unfold reported_class. destruct 1; tauto. Qed.

(* with the default fuel the recursion never runs out of fuel — on ANY configuration, cyclic ones included — and none
   of the index / extend_input / capture unwraps can fire *)
Theorem resolve_total cfg roots e :
  resolve cfg roots (S (n_targets cfg)) = Err e -> reported_class e \/ e = EPanicUnwrap.
Proof.
  intros E. pose proof (resolve_spec cfg roots (S (n_targets cfg)) (Nat.lt_succ_diag_r _)) as H. rewrite E in H.
  now apply defect_class in H.
Qed.

Theorem resolve_no_panic cfg roots e :
  roots_wf cfg roots -> resolve cfg roots (S (n_targets cfg)) = Err e -> reported_class e.
Proof.
  intros Hwf E. pose proof (resolve_spec cfg roots (S (n_targets cfg)) (Nat.lt_succ_diag_r _)) as H. rewrite E in H.
  destruct (defect_class _ _ _ H) as [Hc| ->]; [exact Hc|]. exfalso. exact (no_unwrap_defect cfg roots Hwf H).
Qed.

(* ---- requesting a target twice (e.g. in both spellings) changes nothing ---- *)
Lemma add_target_p_mono cfg fuel : forall m t parents m',
  add_target_p cfg fuel m t parents = Ok m' -> (exists new, m' = new ++ m) /\ In t (tmap_keys m').
Proof.
  induction fuel as [|fuel IH]; intros m t parents m'; cbn [add_target_p]; [discriminate|].
  destruct (tmap_mem m t) eqn:Emem.
  { intros [= <-]. split; [now exists [] | now apply tmap_mem_in]. }
  destruct (existsb (tid_eqb t) parents); [discriminate|].
  destruct (proj_dir cfg (t_project t)); [|discriminate].
  destruct (lookup_yt cfg t) as [[dir yt]|]; [|discriminate].
  destruct (transform_target t yt dir) as [[rt0 fi]|]; [|discriminate]. cbv zeta.
  assert (Hfold : forall ds m0 m2, fold_res (fun m' d => add_target_p cfg fuel m' d (parents ++ [t])) m0 ds = Ok m2 ->
                                   exists new, m2 = new ++ m0).
  { induction ds as [|d ds IHds]; intros m0 m2; cbn [fold_res].
    - intros [= <-]. now exists [].
    - destruct (add_target_p cfg fuel m0 d (parents ++ [t])) as [m1|] eqn:E1; [|discriminate]. intros E2.
      destruct (IH _ _ _ _ E1) as [[n1 ->] _]. destruct (IHds _ _ E2) as [n2 ->]. exists (n2 ++ n1). now rewrite app_assoc. }
  match goal with |- context [fold_res ?f ?s ?l] => destruct (fold_res f s l) as [m2|] eqn:Ef end; [|discriminate].
  destruct (extend_inputs m2 (extend_dependencies rt0 fi) fi) as [rt2|]; [|discriminate]. intros [= <-].
  destruct (Hfold _ _ _ Ef) as [new ->]. split; [now exists ((t, rt2) :: new) | now left].
Qed.

Lemma fold_res_app {S A} (f : S -> A -> result S) s l1 l2 :
  fold_res f s (l1 ++ l2) = match fold_res f s l1 with Ok s' => fold_res f s' l2 | Err e => Err e end.
Proof.
  revert s. induction l1 as [|a l1 IH]; intros s; cbn [app fold_res]; [reflexivity|].
  destruct (f s a); [apply IH | reflexivity].
Qed.

Lemma fold_skip cfg fuel a : forall r2 r3 m,
  In a (tmap_keys m) ->
  fold_res (fun m' t => add_target_p cfg (S fuel) m' t []) m (r2 ++ a :: r3) =
  fold_res (fun m' t => add_target_p cfg (S fuel) m' t []) m (r2 ++ r3).
Proof.
  induction r2 as [|x r2 IH]; intros r3 m Ha; cbn [app fold_res].
  - cbn [add_target_p]. apply tmap_mem_in in Ha. now rewrite Ha.
  - destruct (add_target_p cfg (S fuel) m x []) as [m1|] eqn:E; [|reflexivity].
    apply IH. destruct (add_target_p_mono _ _ _ _ _ _ E) as [[new ->] _]. rewrite tmap_keys_app. apply in_or_app. now right.
Qed.

Theorem resolve_duplicate_root cfg fuel r1 a r2 r3 :
  resolve cfg (r1 ++ a :: r2 ++ a :: r3) (S fuel) = resolve cfg (r1 ++ a :: r2 ++ r3) (S fuel).
Proof.
  rewrite !resolve_pure. unfold resolve_p. rewrite !fold_res_app.
  match goal with |- context [fold_res ?f ?s r1] => destruct (fold_res f s r1) as [m1|] end; [|reflexivity]. cbn [fold_res].
  destruct (add_target_p cfg (S fuel) m1 a []) as [m2|] eqn:E; [|reflexivity].
  apply fold_skip. now destruct (add_target_p_mono _ _ _ _ _ _ E).
Qed.

(* ---- the order (and multiplicity) of the requested targets is irrelevant to the verdict and to the resolved map
   (without requested targets main iterates HashMaps: `list_all_targets` has no fixed order) ---- *)
Lemma reach_same_set cfg r1 r2 t : (forall x, In x r1 <-> In x r2) -> reach cfg r1 t -> reach cfg r2 t.
Proof. intros H [r [Hin Hp]]. exists r. split; [now apply H | exact Hp]. Qed.

Lemma defect_ext cfg (R R' : target_id -> Prop) e : (forall t, R t -> R' t) -> defect cfg R e -> defect cfg R' e.
Proof.
  intros H Hd. destruct Hd as [t p Ht|t dir pr Ht|t Ht|t dir yt x dx yx Ht|t dir yt s Ht|t dir yt s Ht|t Ht].
  - eapply DProject; eauto.
  - eapply DTarget; eauto.
  - eapply DCycle; eauto.
  - eapply DNotBuild; eauto.
  - eapply DInvalidInput; eauto.
  - eapply DInvalidName; eauto.
  - eapply DUnwrap; eauto.
Qed.

Lemma broken_same_set cfg r1 r2 : (forall x, In x r1 <-> In x r2) -> broken cfg r1 -> broken cfg r2.
Proof.
  intros H [e Hd]. exists e. apply (defect_ext cfg (reach cfg r1)); [|exact Hd].
  intros t. now apply reach_same_set.
Qed.

Theorem resolve_request_order cfg r1 r2 f1 f2 :
  (forall x, In x r1 <-> In x r2) -> n_targets cfg < f1 -> n_targets cfg < f2 ->
  match resolve cfg r1 f1, resolve cfg r2 f2 with
  | Ok m1, Ok m2 => forall t, tmap_get m1 t = tmap_get m2 t
  | Err _, Err _ => True
  | _, _ => False
  end.
Proof.
  intros Hset H1 H2.
  assert (Hsym : forall x, In x r2 <-> In x r1) by (intros x; symmetry; apply Hset).
  pose proof (resolve_ok_iff_not_broken cfg r1 f1 H1) as E1. pose proof (resolve_ok_iff_not_broken cfg r2 f2 H2) as E2.
  destruct (resolve cfg r1 f1) as [m1|e1] eqn:R1, (resolve cfg r2 f2) as [m2|e2] eqn:R2.
  - destruct (resolve_sound _ _ _ _ H1 R1) as (K1 & _ & S1 & _). destruct (resolve_sound _ _ _ _ H2 R2) as (K2 & _ & S2 & _).
    intros t. destruct (tmap_get m1 t) as [a|] eqn:G1, (tmap_get m2 t) as [b|] eqn:G2.
    + pose proof (S1 _ _ G1). pose proof (S2 _ _ G2). congruence.
    + exfalso. apply tmap_get_in_keys in G1. apply K1 in G1. apply (reach_same_set cfg r1 r2 t Hset), K2 in G1.
      destruct (in_keys_get _ _ G1) as [x Hx]. congruence.
    + exfalso. apply tmap_get_in_keys in G2. apply K2 in G2. apply (reach_same_set cfg r2 r1 t Hsym), K1 in G2.
      destruct (in_keys_get _ _ G2) as [x Hx]. congruence.
    + reflexivity.
  - destruct E1 as [E1 _]. apply (E1 (ex_intro _ m1 eq_refl)). apply (broken_same_set cfg r2 r1 Hsym).
    pose proof (resolve_spec cfg r2 f2 H2) as Hs. rewrite R2 in Hs. now exists e2.
  - destruct E2 as [E2 _]. apply (E2 (ex_intro _ m2 eq_refl)). apply (broken_same_set cfg r1 r2 Hset).
    pose proof (resolve_spec cfg r1 f1 H1) as Hs. rewrite R1 in Hs. now exists e1.
  - exact I.
Qed.

(* ---- hash-map order is irrelevant: the resolver looks at the configuration through lookups only ---- *)
Lemma fold_res_ext {S A} (f g : S -> A -> result S) : (forall s a, f s a = g s a) -> forall l s, fold_res f s l = fold_res g s l.
Proof.
  intros H. induction l as [|a l IH]; intros s; cbn [fold_res]; [reflexivity|]. rewrite H. destruct (g s a); [apply IH | reflexivity].
Qed.

Lemma add_target_p_ext cfg1 cfg2 :
  (forall p, proj_dir cfg1 p = proj_dir cfg2 p) -> (forall t, lookup_yt cfg1 t = lookup_yt cfg2 t) ->
  forall fuel m t parents, add_target_p cfg1 fuel m t parents = add_target_p cfg2 fuel m t parents.
Proof.
  intros Hd Hy. induction fuel as [|fuel IH]; intros m t parents; cbn [add_target_p]; [reflexivity|].
  rewrite Hd, Hy. destruct (tmap_mem m t); [reflexivity|]. destruct (existsb (tid_eqb t) parents); [reflexivity|].
  destruct (proj_dir cfg2 (t_project t)); [|reflexivity]. destruct (lookup_yt cfg2 t) as [[dir yt]|]; [|reflexivity].
  destruct (transform_target t yt dir) as [[rt0 fi]|]; [|reflexivity]. cbv zeta.
  rewrite (fold_res_ext _ (fun m' d => add_target_p cfg2 fuel m' d (parents ++ [t]))); [reflexivity|].
  intros s a. apply IH.
Qed.

Theorem resolve_config_ext cfg1 cfg2 roots fuel :
  (forall p, proj_dir cfg1 p = proj_dir cfg2 p) -> (forall t, lookup_yt cfg1 t = lookup_yt cfg2 t) ->
  resolve cfg1 roots fuel = resolve cfg2 roots fuel.
Proof.
  intros Hd Hy. rewrite !resolve_pure. unfold resolve_p. apply fold_res_ext. intros s a. now apply add_target_p_ext.
Qed.

Section AssocPerm.
  Context {K V : Type} (eqb : K -> K -> bool) (eqb_eq : forall a b, eqb a b = true <-> a = b).

  Lemma assoc_nodup_in k v (l : list (K * V)) : NoDup (map fst l) -> In (k, v) l -> assoc eqb k l = Some v.
  Proof.
    induction l as [|[k' v'] l IH]; cbn [map fst assoc]; [intros _ []|]. intros Hnd [[= -> ->]|Hin].
    - now rewrite (eqb_refl' eqb eqb_eq).
    - inversion Hnd as [|x xs Hx Hnd']; subst. destruct (eqb k k') eqn:E; [|now apply IH].
      apply eqb_eq in E. subst k'. exfalso. apply Hx. change k with (fst (k, v)). now apply in_map.
  Qed.

  Lemma assoc_perm k (l l' : list (K * V)) :
    NoDup (map fst l) -> Permutation.Permutation l l' -> assoc eqb k l = assoc eqb k l'.
  Proof.
    intros Hnd Hp.
    assert (Hnd' : NoDup (map fst l')) by (eapply Permutation.Permutation_NoDup; [apply Permutation.Permutation_map; exact Hp | exact Hnd]).
    destruct (assoc eqb k l) as [v|] eqn:E.
    - symmetry. apply assoc_nodup_in; [exact Hnd'|]. eapply Permutation.Permutation_in; [exact Hp|]. now apply (assoc_in eqb eqb_eq).
    - symmetry. apply (assoc_none eqb eqb_eq). apply (assoc_none eqb eqb_eq) in E. intros Hin. apply E.
      eapply Permutation.Permutation_in; [apply Permutation.Permutation_sym, Permutation.Permutation_map; exact Hp | exact Hin].
  Qed.
End AssocPerm.

(* with pairwise distinct project names (FX7) a name means one project whatever the iteration order of the hash map *)
Theorem unique_project cfg pn dp :
  NoDup (map fst (ic_projects cfg)) -> In (pn, dp) (ic_projects cfg) -> lookup_project cfg pn = Some dp.
Proof. intros Hnd Hin. unfold lookup_project. now apply (assoc_nodup_in opt_beq opt_beq_eq). Qed.

Theorem resolve_project_order cfg1 cfg2 roots fuel :
  NoDup (map fst (ic_projects cfg1)) -> Permutation.Permutation (ic_projects cfg1) (ic_projects cfg2) ->
  resolve cfg1 roots fuel = resolve cfg2 roots fuel.
Proof.
  intros Hnd Hp.
  assert (Hl : forall p, lookup_project cfg1 p = lookup_project cfg2 p).
  { intros p. unfold lookup_project. now apply (assoc_perm opt_beq opt_beq_eq). }
  apply resolve_config_ext.
  - intros p. unfold proj_dir. now rewrite Hl.
  - intros t. unfold lookup_yt. now rewrite Hl.
Qed.
