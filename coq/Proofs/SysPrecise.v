(* Precision of rebuilds (C06 / C08 "others never", watch mode): a target that no change notice concerns — neither itself nor
   anything it depends on, directly or transitively — is never re-run: it starts at most once, whatever happens elsewhere. *)
From Zinoma.Proofs Require Export SysSvc SysOneShot SysBound.

Lemma apply_step_slot s t ib sl tq r s' : apply_step s t ib sl tq r = Some s' -> slot s' = sl.
Proof.
  unfold apply_step. destruct r as [[[a' os] ob]|]; [|done]. destruct (route ib (rootq s) os). by intros [= <-].
Qed.

Lemma root_consume_slot w s o rest : slot (root_consume w s o rest) = slot s.
Proof. unfold root_consume. destruct w; [done|]. by destruct o as [[|d] [k r|k r|[] t act|k t]|t]. Qed.

Lemma exec_slot_sub fx w s l s' : (forall ts, l <> LChange ts) -> exec fx w s l = Some s' -> slot s' ⊆ slot s.
Proof.
  intros Hl H. destruct l as [t ok|t ok|t|t r| | | | |ts| |t i ok|i]; cbn [exec] in H.
  - destruct (actors s !! t); [|done]. destruct (inbox s !! t) as [[|m rest]|]; try done. by rewrite (apply_step_slot _ _ _ _ _ _ _ H).
  - destruct (actors s !! t); [|done]. case_bool_decide; [|done]. rewrite (apply_step_slot _ _ _ _ _ _ _ H). set_solver.
  - destruct (actors s !! t); [|done]. case_bool_decide; [|done]. by rewrite (apply_step_slot _ _ _ _ _ _ _ H).
  - destruct (actors s !! t) as [a|]; [|done]. destruct (match r with RCancelled => cancel_sent a | _ => true end); [|done].
    by rewrite (apply_step_slot _ _ _ _ _ _ _ H).
  - destruct (root_running s && _); [|done]. destruct (rootq s) as [|o rest]; [done|]. injection H as <-. by rewrite root_consume_slot.
  - destruct (root_running s && negb w && root_sets_empty s); [|done]. destruct (set_empty (r_svc s)); by injection H as <-.
  - destruct (ph s); try done; by injection H as <-.
  - destruct (sigq s && _); [|done]. by injection H as <-.
  - by destruct (Hl ts).
  - destruct (ph s); try done. destruct (all_exited s); [|done]. by injection H as <-.
  - destruct (actors s !! t); [|done]. destruct (inbox s !! t) as [l|]; [|done].
    destruct (pick i l) as [[[pre m] rest]|]; [|done]. destruct (none_from _ _ pre); [|done]. by rewrite (apply_step_slot _ _ _ _ _ _ _ H).
  - destruct (root_running s && _); [|done]. destruct (pick i (rootq s)) as [[[pre o] rest]|]; [|done].
    destruct (none_from _ _ pre); [|done]. injection H as <-. by rewrite root_consume_slot.
Qed.

Lemma exec_change_slot fx w s ts s' : exec fx w s (LChange ts) = Some s' -> slot s' = slot s ∪ list_to_set ts.
Proof. cbn [exec]. destruct (w && _); [|done]. by intros [= <-]. Qed.

Section precise.
  Context (fx w : bool) (g : graph) (roots : list tid).
  Notation wf := (SysInv.wf g).
  (* the unaffected targets: a set closed under dependencies that no change notice touches *)
  Context (un : tid -> bool).
  Context (Hun : forall t kt deps d, un t = true -> g !! t = Some (kt, deps) -> d ∈ deps -> un d = true).

  Record precise_inv (s : sys) : Prop := {
    pi_slot : forall t, t ∈ slot s -> un t = false;
    pi_noinv : forall dst k d, msg_in s dst (MInvalidated k d) -> un d = false;
    pi_dep : forall t k d, msg_in s (ATarget t) (MInvalidated k d) -> SysSvc.dep g t d;
    pi_once : forall t a, actors s !! t = Some a -> un t = true ->
                nstart t (hist s) <= 1 /\ (to_execute a = true -> nstart t (hist s) = 0)
  }.

  Lemma precise_inv_init : precise_inv (init_sys g roots).
  Proof.
    pose proof (oneshot_inv_init g roots) as Hoi. split.
    - intros t Hin. cbn in Hin. set_solver.
    - intros dst k d Hin. by destruct (oi_noinv _ Hoi dst k d).
    - intros t k d Hin. by destruct (oi_noinv _ Hoi (ATarget t) k d).
    - intros t a Ha _. by apply (oi_once _ Hoi).
  Qed.

  Lemma precise_inv_step s l s' :
    wf s -> talk_inv g roots s -> precise_inv s -> exec fx w s l = Some s' ->
    (forall ts, l = LChange ts -> forall t, t ∈ ts -> un t = false) -> precise_inv s'.
  Proof.
    intros Hwf Hti Hpi He Hlab.
    assert (Hslot : forall t, t ∈ slot s' -> un t = false).
    { intros t Hin.
      assert (Hcases : (exists ts, l = LChange ts) \/ (forall ts, l <> LChange ts))
        by (destruct l; first [by left; eexists | right; intros ?; discriminate]).
      destruct Hcases as [[ts ->]|Hne].
      - rewrite (exec_change_slot _ _ _ _ _ He) in Hin. apply elem_of_union in Hin as [Hin|Hin]; [by apply (pi_slot _ Hpi)|].
        apply elem_of_list_to_set in Hin. by apply (Hlab ts eq_refl).
      - pose proof (exec_slot_sub fx w s l s' Hne He) as Hsub. apply (pi_slot _ Hpi). set_solver. }
    destruct (exec_inv _ _ _ _ _ He) as [t a e ok a' os ob Ha Hst Hact Hh Hmsg Herr Hm Hinv _ Hsl _ _ _ _ _|Hact Hib Hh Hsl Hrq _|ts Hw Hact Hib Hh Hrq _ _ _].
    - destruct (Hwf t a Ha) as [Hid Hg].
      assert (Hni : un t = true -> ~ invalidating e).
      { intros Hut [->|(k & d & ->)].
        - specialize (Hinv eq_refl). rewrite (pi_slot _ Hpi t Hinv) in Hut. done.
        - pose proof (Hm _ eq_refl) as Hin. pose proof (pi_noinv _ Hpi _ _ _ Hin) as Hud.
          destruct (pi_dep _ Hpi t k d Hin) as (kt & deps & Hg' & Hd).
          rewrite (Hun t kt deps d Hut Hg' Hd) in Hud. done. }
      assert (Hnew : forall dst k d, OMsg dst (MInvalidated k d) ∈ os -> d = t /\ un t = false /\ req_ok g roots t dst).
      { intros dst k d Ho. destruct (step_out_inval _ _ _ _ _ _ _ Hst _ _ _ Ho) as (Hd & Hi & Hreq). rewrite Hid in Hd.
        split; [done|]. split.
        - destruct (un t) eqn:Hut; [|done]. by destruct (Hni eq_refl).
        - destruct (step_reqs_grow _ _ _ _ _ _ _ Hst k dst Hreq) as [Hold | Hev].
          + by apply (ti_reqs _ _ _ Hti t a k dst).
          + apply (ti_req _ _ _ Hti t k dst). by apply Hm. }
      split; [done| | |].
      + intros dst k d Hin. destruct (Hmsg _ _ Hin) as [Hold|Ho]; [by apply (pi_noinv _ Hpi dst k d)|].
        by destruct (Hnew dst k d Ho) as (-> & Hu & _).
      + intros t0 k d Hin. destruct (Hmsg _ _ Hin) as [Hold|Ho]; [by apply (pi_dep _ Hpi t0 k d)|].
        by destruct (Hnew (ATarget t0) k d Ho) as (-> & _ & Hreq).
      + intros t0 a0 Ha0 Hu0. rewrite Hact in Ha0. rewrite Hh, nstart_app. destruct (decide (t0 = t)) as [->|Hne].
        * rewrite lookup_insert in Ha0. injection Ha0 as <-.
          destruct (pi_once _ Hpi t a Ha Hu0) as [Hle Hz].
          pose proof (step_start_count _ _ _ _ _ _ _ Hst t) as Hc. fold (nstart t ob) in Hc.
          destruct (to_execute a) eqn:Hte.
          -- rewrite (Hz eq_refl). split; [lia|]. intros Hte'.
             destruct (Nat.eq_dec (nstart t ob) 0) as [->|Hpos]; [done|].
             assert (Hin : ObStart t ∈ ob) by (apply nstart_pos; lia).
             destruct (step_start _ _ _ _ _ _ _ Hst _ Hin) as (_ & _ & _ & Hf & _). congruence.
          -- destruct (step_oneshot _ _ _ _ _ _ _ Hst (Hni Hu0) Hte) as [Hte' Hno].
             rewrite (nstart_zero t ob) by (intros x Hx _; by eapply Hno). split; [lia|]. congruence.
        * rewrite lookup_insert_ne in Ha0 by done.
          rewrite (nstart_zero t0 ob); [rewrite Nat.add_0_r; by apply (pi_once _ Hpi)|].
          intros x Hx. apply (step_obs_self _ _ _ _ _ _ _ Hst) in Hx. cbn in Hx. congruence.
    - split; [done| | |].
      + intros dst k d Hin. apply (pi_noinv _ Hpi dst k d). destruct dst as [|d0]; cbn in *; [by apply Hrq|by rewrite <- Hib].
      + intros t0 k d Hin. apply (pi_dep _ Hpi t0 k d). cbn in *. by rewrite <- Hib.
      + intros t0 a0 Ha0. rewrite Hact in Ha0. rewrite Hh. by apply (pi_once _ Hpi).
    - split; [done| | |].
      + intros dst k d Hin. apply (pi_noinv _ Hpi dst k d). destruct dst as [|d0]; cbn in *; [by rewrite <- Hrq|by rewrite <- Hib].
      + intros t0 k d Hin. apply (pi_dep _ Hpi t0 k d). cbn in *. by rewrite <- Hib.
      + intros t0 a0 Ha0. rewrite Hact in Ha0. rewrite Hh. by apply (pi_once _ Hpi).
  Qed.

  Lemma precise_inv_run : forall ls s0 s,
    reachable fx w g roots s0 -> precise_inv s0 ->
    (forall ts, LChange ts ∈ ls -> forall t, t ∈ ts -> un t = false) ->
    run_labels fx w s0 ls = Some s -> precise_inv s.
  Proof.
    induction ls as [|l ls IH]; intros s0 s Hr Hpi Hch Hrun; cbn in Hrun.
    - by injection Hrun as <-.
    - destruct (exec fx w s0 l) as [s1|] eqn:He; [|done].
      apply (IH s1 s); [by eapply reachable_step| |by intros ts Hin; apply Hch; apply elem_of_list_further|done].
      apply (precise_inv_step s0 l s1); [by eapply wf_reachable|by eapply talk_inv_reachable|done|done|].
      intros ts -> t Ht. apply (Hch ts); [apply elem_of_list_here|done].
  Qed.

  (* Every mode (watch mode is the point), every graph, pinned or repaired handlers, every interleaving: in a run whose change
     notices never name an unaffected target — `un` is any set of targets closed under dependencies — no unaffected target is
     started twice: changes elsewhere never re-run it. *)
  Theorem unaffected_targets_start_once ls s t :
    run_labels fx w (init_sys g roots) ls = Some s ->
    (forall ts, LChange ts ∈ ls -> forall x, x ∈ ts -> un x = false) ->
    un t = true -> nstart t (hist s) <= 1.
  Proof.
    intros Hrun Hch Hut.
    assert (Hr0 : reachable fx w g roots (init_sys g roots)) by (by exists []).
    pose proof (precise_inv_run ls _ s Hr0 precise_inv_init Hch Hrun) as Hpi.
    destruct (actors s !! t) as [a|] eqn:Ha.
    - by destruct (pi_once _ Hpi t a Ha Hut).
    - assert (Hr : reachable fx w g roots s) by (by exists ls).
      pose proof (nothing_outside_graph fx g roots w s t (ObStart t) Hr Ha eq_refl) as Hz. unfold nstart. rewrite Hz. lia.
  Qed.
End precise.
