(* A potential function for the actor step: every event an actor handles in a one-shot run pays for the messages the step
   sends and for the step itself.  Used by SysBound.v to bound the length of every one-shot execution. *)
From Zinoma.Proofs Require Export ActorFacts.

Definition RW : nat := 4.                          (* weight of a Requested message *)
Definition wmsg (m : msg) : nat := match m with MRequested _ _ => RW | _ => 1 end.
Definition wout (o : out) : nat := match o with OMsg (ATarget _) m => wmsg m | _ => 1 end.
Definition wouts (os : list out) : nat := sum_list_with wout os.
Definition wev (e : event) : nat := match e with EMsg m => wmsg m | ETerm => 1 | _ => 0 end.
Definition bnat (b : bool) (n : nat) : nat := if b then n else 0.
(* requests still to be sent to the dependencies: c per dependency, sent when the first requester registers *)
Definition fan (a : astate) (k : kind) (c : nat) : nat :=
  if set_empty (reqs a k) then c * (length (a_deps a) * RW) else 0.

Definition potB (a : astate) : nat :=
  fan a KB 2 + bnat (to_execute a) (2 + size (reqB a)) + bnat (ongoing a) (2 + size (reqB a)).
Definition potS (a : astate) : nat :=
  fan a KS 2 + bnat (to_execute a) (2 + size (reqS a)).
Definition potA (a : astate) : nat :=
  fan a KB 1 + fan a KS 1 + bnat (negb (set_empty (unavB a))) (size (reqB a)) + bnat (negb (set_empty (unavS a))) (size (reqS a)).
Definition pot (a : astate) : nat :=
  match a_kind a with ABuild => potB a | AService => potS a | AAggregate => potA a end.

Lemma wouts_nil : wouts [] = 0.
Proof. done. Qed.
Lemma wouts_app o1 o2 : wouts (o1 ++ o2) = wouts o1 + wouts o2.
Proof. apply sum_list_with_app. Qed.
Lemma wouts_cons o os : wouts (o :: os) = wout o + wouts os.
Proof. done. Qed.

Lemma wouts_requesters_ok a k k' t act : wouts (send_to_requesters a k (MOk k' t act)) = size (reqs a k).
Proof.
  unfold send_to_requesters, wouts, size, set_size. cbn. generalize (elements (reqs a k)).
  induction l as [|r l IH]; [done|]. cbn in *. rewrite IH. by destruct r.
Qed.

Lemma wouts_req_list (ds : list tid) k r :
  wouts ((fun d => OMsg (ATarget d) (MRequested k r)) <$> ds) = length ds * RW.
Proof. unfold wouts. induction ds as [|d l IH]; [done|]. cbn in *. by rewrite IH. Qed.
Lemma wouts_request_deps a k : wouts (request_deps a k) = length (a_deps a) * RW.
Proof. apply wouts_req_list. Qed.

Lemma size_insert_new {A} `{Countable A} (X : gset A) (r : A) : r ∉ X -> size (X ∪ {[r]}) = S (size X).
Proof. intros Hn. rewrite size_union by set_solver. rewrite size_singleton. lia. Qed.
Lemma union_old {A} `{Countable A} (X : gset A) (r : A) : r ∈ X -> X ∪ {[r]} = X.
Proof. set_solver. Qed.
Lemma diff_absent {A} `{Countable A} (X : gset A) (r : A) : r ∉ X -> X ∖ {[r]} = X.
Proof. set_solver. Qed.
Lemma set_empty_size {A} `{Countable A} (X : gset A) : set_empty X = bool_decide (size X = 0).
Proof.
  unfold set_empty. apply bool_decide_ext. split; [intros ->; apply size_empty|intros Hs; apply leibniz_equiv; by apply size_empty_inv].
Qed.
Lemma set_empty_insert {A} `{Countable A} (X : gset A) (r : A) : set_empty (X ∪ {[r]}) = false.
Proof. apply set_empty_false. set_solver. Qed.

(* build *)
Lemma build_top_pot a a2 ob : build_top a = (a2, ob) -> potB a2 = potB a.
Proof.
  unfold build_top. destruct (should_execute a KB && negb (ongoing a)) eqn:Hc; intros [= <- <-]; [|done].
  apply andb_true_iff in Hc as [Hs Ho]. apply negb_true_iff in Ho.
  unfold should_execute in Hs. rewrite !andb_true_iff in Hs. destruct Hs as [[[Hte _] _] _].
  unfold potB, fan. cbn. rewrite Hte, Ho. cbn. lia.
Qed.

Definition plain_msg (m : msg) : Prop :=
  match m with MInvalidated _ _ | MUnrequested _ _ => False | _ => True end.

Lemma build_handle_msg_pot fx a m a1 o :
  build_handle_msg fx a m = (a1, o) -> plain_msg m -> potB a1 + wouts o + 1 <= potB a + wmsg m.
Proof.
  destruct m as [k r|k r|k d act|k d]; cbn [plain_msg]; intros H Hp; try done.
  - destruct k; cbn in H.
    + injection H as <- <-. rewrite !wouts_app.
      destruct (decide (r ∈ reqB a)) as [Hin|Hnin].
      * rewrite (bool_decide_eq_true_2 _ Hin). cbn [negb andb]. rewrite andb_false_r. cbn [wouts sum_list_with].
        unfold potB, fan. cbn. rewrite (union_old _ _ Hin). unfold RW. cbn. lia.
      * rewrite (bool_decide_eq_false_2 _ Hnin). cbn [negb andb].
        unfold potB, fan. cbn [reqs set_reqs reqB to_execute ongoing a_deps]. rewrite set_empty_insert.
        rewrite (size_insert_new _ _ Hnin).
        assert (Ho2 : wouts (if fx && true && executed a then [OMsg r (MOk KB (a_id a) true)] else []) <= 1).
        { destruct (fx && true && executed a); cbn; [destruct r; cbn; lia|lia]. }
        revert Ho2. generalize (wouts (if fx && true && executed a then [OMsg r (MOk KB (a_id a) true)] else [])). intros w2 Ho2.
        rewrite (set_empty_size (reqB a)).
        destruct (decide (size (reqB a) = 0)) as [Hz|Hnz].
        -- rewrite (bool_decide_eq_true_2 _ Hz). rewrite bool_decide_eq_true_2 by lia.
           rewrite wouts_app, !wouts_req_list.
           destruct (to_execute a), (ongoing a); unfold bnat; cbn -[Nat.mul]; unfold RW; lia.
        -- rewrite (bool_decide_eq_false_2 _ Hnz). rewrite bool_decide_eq_false_2 by lia. rewrite wouts_nil.
           destruct (to_execute a), (ongoing a); unfold bnat; cbn -[Nat.mul]; unfold RW; lia.
    + injection H as <- <-. cbn. destruct r; unfold RW; cbn; lia.
  - cbn in H. injection H as <- <-. rewrite wouts_nil.
    assert (potB (set_unav a k (unav a k ∖ {[d]})) = potB a) as -> by (by destruct k).
    cbn. lia.
Qed.

Definition plain_event (e : event) : Prop :=
  match e with EMsg m => plain_msg m | EInval => False | _ => True end.

Lemma build_step_pot fx a e a' os ob :
  build_step fx a e = Some (a', os, ob) -> plain_event e -> potB a' + wouts os + 1 <= potB a + wev e.
Proof.
  unfold build_step. destruct (exited a); [done|]. destruct e as [m| | |r]; cbn [plain_event]; intros H Hp; try done.
  - destruct (build_handle_msg fx a m) as [a1 o] eqn:Hm. destruct (build_top a1) as [a2 ob2] eqn:Ht.
    injection H as <- <- <-. rewrite (build_top_pot _ _ _ Ht). by apply (build_handle_msg_pot fx).
  - destruct (ongoing a) eqn:Ho; injection H as <- <- <-; unfold potB, fan; cbn; rewrite ?Ho; cbn; lia.
  - destruct (ongoing a) eqn:Ho; [|done]. cbn [negb] in H.
    set (a0 := set_proc a false false (term_recv a) false (running a)) in *.
    assert (H0 : potB a0 + (2 + size (reqB a)) = potB a).
    { unfold potB, fan, a0. cbn. rewrite Ho. cbn. lia. }
    assert (Hr0 : reqB a0 = reqB a) by done.
    destruct (match r with
              | RFailed => (set_flags a0 (to_execute a0) false, [OErr (a_id a)], [ObFail (a_id a)])
              | RCancelled => (a0, [], [ObCancel (a_id a)])
              | _ => let '(a1, o) := notify_success a0 KB in (a1, o, [ObSucc (a_id a)])
              end) as [[a1 o] ob1] eqn:Hr.
    assert (H1 : potB a1 + wouts o <= potB a0 + 1 + size (reqB a)).
    { clear H H0. unfold a0 in *. clear a0.
      destruct r; cbn in Hr; injection Hr as <- <- _; unfold potB, fan; cbn;
        destruct (to_execute a); cbn; rewrite ?wouts_requesters_ok; cbn; lia. }
    destruct (term_recv a1).
    + injection H as <- <- _.
      assert (potB (set_proc a1 false false true true (running a1)) <= potB a1).
      { unfold potB, fan. cbn. destruct (ongoing a1); cbn; lia. }
      lia.
    + destruct (build_top a1) as [a2 ob2] eqn:Ht. injection H as <- <- _. rewrite (build_top_pot _ _ _ Ht). cbn. lia.
Qed.

(* service *)
Lemma service_top_pot ok a a2 o ob : service_top ok a = (a2, o, ob) -> potS a2 + wouts o <= potS a.
Proof.
  unfold service_top. destruct (should_execute a KS) eqn:Hs; [|intros [= <- <- _]; rewrite wouts_nil; lia].
  unfold should_execute in Hs. rewrite !andb_true_iff in Hs. destruct Hs as [[[Hte Hne] _] _].
  destruct ok.
  - cbn. intros [= <- <- _]. rewrite wouts_requesters_ok. unfold potS, fan. cbn. rewrite Hte. cbn. lia.
  - cbn. intros [= <- <- _]. unfold potS, fan. cbn. rewrite Hte. cbn. lia.
Qed.

Lemma service_top_pot_strict ok a a2 o ob :
  service_top ok a = (a2, o, ob) -> potS a2 + wouts o <= potS a /\ (ob <> [] -> potS a2 + wouts o + 1 <= potS a).
Proof.
  intros H. split; [by eapply service_top_pot|]. revert H.
  unfold service_top. destruct (should_execute a KS) eqn:Hs; [|intros [= <- <- <-]; done].
  unfold should_execute in Hs. rewrite !andb_true_iff in Hs. destruct Hs as [[[Hte Hne] _] _].
  destruct ok; cbn; intros [= <- <- _] _.
  - rewrite wouts_requesters_ok. unfold potS, fan. cbn. rewrite Hte. cbn. lia.
  - unfold potS, fan. cbn. rewrite Hte. cbn. lia.
Qed.

Lemma service_handle_msg_pot fx a m a1 o ob :
  service_handle_msg fx a m = (a1, o, ob) -> plain_msg m -> potS a1 + wouts o + 1 <= potS a + wmsg m.
Proof.
  destruct m as [k r|k r|k d act|k d]; cbn [plain_msg]; intros H Hp; try done.
  - destruct k; cbn in H.
    + injection H as <- <- _. cbn. destruct r; unfold RW; cbn; lia.
    + injection H as <- <- _. rewrite !wouts_app.
      destruct (decide (r ∈ reqS a)) as [Hin|Hnin].
      * rewrite (bool_decide_eq_true_2 _ Hin). cbn [negb andb]. rewrite andb_false_r. cbn [wouts sum_list_with].
        unfold potS, fan. cbn. rewrite (union_old _ _ Hin). unfold RW. cbn. lia.
      * rewrite (bool_decide_eq_false_2 _ Hnin). cbn [negb andb].
        unfold potS, fan. cbn [reqs set_reqs reqS to_execute ongoing a_deps]. rewrite set_empty_insert.
        rewrite (size_insert_new _ _ Hnin).
        assert (Ho2 : wouts (if fx && true && executed a then [OMsg r (MOk KS (a_id a) true)] else []) <= 1).
        { destruct (fx && true && executed a); cbn; [destruct r; cbn; lia|lia]. }
        revert Ho2. generalize (wouts (if fx && true && executed a then [OMsg r (MOk KS (a_id a) true)] else [])). intros w2 Ho2.
        rewrite (set_empty_size (reqS a)).
        destruct (decide (size (reqS a) = 0)) as [Hz|Hnz].
        -- rewrite (bool_decide_eq_true_2 _ Hz). rewrite bool_decide_eq_true_2 by lia.
           rewrite wouts_app, !wouts_req_list.
           destruct (to_execute a); unfold bnat; cbn -[Nat.mul]; unfold RW; lia.
        -- rewrite (bool_decide_eq_false_2 _ Hnz). rewrite bool_decide_eq_false_2 by lia. rewrite wouts_nil.
           destruct (to_execute a); unfold bnat; cbn -[Nat.mul]; unfold RW; lia.
  - cbn in H. injection H as <- <- _. rewrite wouts_nil.
    assert (potS (set_unav a k (unav a k ∖ {[d]})) = potS a) as -> by (by destruct k).
    cbn. lia.
Qed.

Lemma service_step_pot fx ok a e a' os ob :
  service_step fx ok a e = Some (a', os, ob) -> plain_event e -> potS a' + wouts os + 1 <= potS a + wev e.
Proof.
  unfold service_step. destruct (exited a); [done|]. destruct e as [m| | |r]; cbn [plain_event]; intros H Hp; try done.
  - destruct (service_handle_msg fx a m) as [[a1 o] ob1] eqn:Hm. destruct (service_top ok a1) as [[a2 o2] ob2] eqn:Ht.
    injection H as <- <- _. rewrite wouts_app.
    pose proof (service_handle_msg_pot fx a m a1 o ob1 Hm Hp). pose proof (service_top_pot _ _ _ _ _ Ht). cbn [wev]. lia.
  - injection H as <- <- _. unfold potS, fan. cbn. lia.
Qed.

(* aggregate *)
Lemma aggregate_handle_msg_pot a m a1 o :
  aggregate_handle_msg a m = (a1, o) -> plain_msg m -> potA a1 + wouts o + 1 <= potA a + wmsg m.
Proof.
  destruct m as [k r|k r|k d act|k d]; cbn [plain_msg]; intros H Hp; try done.
  - cbn in H. destruct (decide (r ∈ reqs a k)) as [Hin|Hnin].
    + rewrite (bool_decide_eq_true_2 _ Hin) in H. cbn in H. injection H as <- <-. rewrite wouts_nil.
      rewrite (union_old _ _ Hin). assert (set_reqs a k (reqs a k) = a) as -> by (by destruct a, k). cbn [wmsg]. unfold RW. lia.
    + rewrite (bool_decide_eq_false_2 _ Hnin) in H. cbn [negb] in H. injection H as <- <-. rewrite wouts_app.
      destruct k; cbn [reqs unav set_reqs reqB reqS unavB unavS a_deps acts] in *;
        unfold potA, fan; cbn [reqs set_reqs reqB reqS unavB unavS a_deps];
        rewrite set_empty_insert, (size_insert_new _ _ Hnin).
      * rewrite (set_empty_size (reqB a)).
        destruct (decide (size (reqB a) = 0)) as [Hz|Hnz].
        -- rewrite (bool_decide_eq_true_2 _ Hz). rewrite bool_decide_eq_true_2 by lia. rewrite wouts_request_deps.
           destruct (set_empty (unavB a)); cbn -[Nat.mul]; destruct r; unfold RW; cbn -[Nat.mul]; lia.
        -- rewrite (bool_decide_eq_false_2 _ Hnz). rewrite bool_decide_eq_false_2 by lia. rewrite wouts_nil.
           destruct (set_empty (unavB a)); cbn -[Nat.mul]; destruct r; unfold RW; cbn -[Nat.mul]; lia.
      * rewrite (set_empty_size (reqS a)).
        destruct (decide (size (reqS a) = 0)) as [Hz|Hnz].
        -- rewrite (bool_decide_eq_true_2 _ Hz). rewrite bool_decide_eq_true_2 by lia. rewrite wouts_request_deps.
           destruct (set_empty (unavS a)); cbn -[Nat.mul]; destruct r; unfold RW; cbn -[Nat.mul]; lia.
        -- rewrite (bool_decide_eq_false_2 _ Hnz). rewrite bool_decide_eq_false_2 by lia. rewrite wouts_nil.
           destruct (set_empty (unavS a)); cbn -[Nat.mul]; destruct r; unfold RW; cbn -[Nat.mul]; lia.
  - cbn in H. injection H as <- <-.
    set (a1 := set_unav a k (unav a k ∖ {[d]})).
    set (a2 := if act then set_acts a1 k (acts a1 k ∪ {[d]}) else a1).
    assert (Hp2 : potA a2 = potA a1) by (unfold a2; destruct act, k; done).
    assert (Hu2 : unav a2 k = unav a1 k) by (unfold a2; destruct act, k; done).
    assert (Hr2 : reqs a2 k = reqs a k) by (unfold a2, a1; destruct act, k; done).
    rewrite Hp2, Hu2.
    destruct (decide (d ∈ unav a k)) as [Hin|Hnin].
    + rewrite (bool_decide_eq_true_2 _ Hin). cbn [andb].
      assert (Hne : set_empty (unav a k) = false) by (apply set_empty_false; set_solver).
      destruct (set_empty (unav a1 k)) eqn:He.
      * rewrite wouts_requesters_ok, Hr2. unfold a1 in He |- *.
        destruct k; unfold potA, fan; cbn in *; rewrite Hne, He; cbn; lia.
      * rewrite wouts_nil. unfold a1 in He |- *.
        destruct k; unfold potA, fan; cbn in *; rewrite Hne, He; cbn; lia.
    + rewrite (bool_decide_eq_false_2 _ Hnin). cbn [andb]. rewrite wouts_nil.
      unfold a1. rewrite (diff_absent _ _ Hnin). assert (set_unav a k (unav a k) = a) as -> by (by destruct a, k). cbn. lia.
Qed.

Lemma aggregate_step_pot a e a' os ob :
  aggregate_step a e = Some (a', os, ob) -> plain_event e -> potA a' + wouts os + 1 <= potA a + wev e.
Proof.
  unfold aggregate_step. destruct (exited a); [done|]. destruct e as [m| | |r]; cbn [plain_event]; intros H Hp; try done.
  - destruct (aggregate_handle_msg a m) as [a1 o] eqn:Hm. injection H as <- <- _. by apply aggregate_handle_msg_pot.
  - injection H as <- <- _. unfold potA, fan. cbn. lia.
Qed.

(* every step of every actor pays for itself and for what it sends *)
Lemma actor_step_pot fx ok a e a' os ob :
  actor_step fx ok a e = Some (a', os, ob) -> plain_event e -> pot a' + wouts os + 1 <= pot a + wev e.
Proof.
  intros H Hp. destruct (step_same_id _ _ _ _ _ _ _ H) as (_ & Hk & _). unfold pot. rewrite Hk.
  unfold actor_step in H. destruct (a_kind a).
  - by eapply build_step_pot.
  - by eapply service_step_pot.
  - by eapply aggregate_step_pot.
Qed.
