(* The removal of converted yaml targets from the configuration (`project.targets.remove` in add_target) is never
   observed: `add_target` on the mutated configuration computes exactly what `add_target_p` computes on the ORIGINAL
   configuration. A second visit of a removed target would see "Target does not exist", but a removed target is either
   finished (then the visited test answers first) or on the parent chain (then the cycle test answers first). *)
From Zinoma.Model Require Import Bytes Cfg Names Ext Resolver.
From Zinoma.Proofs Require Import Bytes Names ResolverSpec.
From Coq Require Import Lia.

(* the resolver over a configuration that is never modified *)
Fixpoint add_target_p (cfg : iconfig) (fuel : nat) (m : tmap) (t : target_id) (parents : list target_id)
  : result tmap :=
  match fuel with
  | O => Err EFuel
  | S fuel' =>
      if tmap_mem m t then Ok m
      else if existsb (tid_eqb t) parents then Err ECircular
      else
        match proj_dir cfg (t_project t) with
        | None => Err (match t_project t with Some _ => EProjectNotFound | None => EPanicUnwrap end)
        | Some _ =>
            match lookup_yt cfg t with
            | None => Err ETargetNotFound
            | Some (dir, yt) =>
                match transform_target t yt dir with
                | Err e => Err e
                | Ok (rt0, from_input) =>
                    let rt1 := extend_dependencies rt0 from_input in
                    match fold_res (fun m' d => add_target_p cfg fuel' m' d (parents ++ [t])) m (rt_deps rt1) with
                    | Err e => Err e
                    | Ok m2 =>
                        match extend_inputs m2 rt1 from_input with
                        | Err e => Err e
                        | Ok rt2 => Ok ((t, rt2) :: m2)
                        end
                    end
                end
            end
        end
  end.

Definition resolve_p (cfg : iconfig) (roots : list target_id) (fuel : nat) : result tmap :=
  fold_res (fun m t => add_target_p cfg fuel m t []) [] roots.

(* the faithful version, rewritten with the same lookups *)
Lemma add_target_unfold fuel cfg m t parents :
  add_target (S fuel) (cfg, m) t parents =
  if tmap_mem m t then Ok (cfg, m)
  else if existsb (tid_eqb t) parents then Err ECircular
  else
    match proj_dir cfg (t_project t) with
    | None => Err (match t_project t with Some _ => EProjectNotFound | None => EPanicUnwrap end)
    | Some _ =>
        match lookup_yt cfg t with
        | None => Err ETargetNotFound
        | Some (dir, yt) =>
            match transform_target t yt dir with
            | Err e => Err e
            | Ok (rt0, from_input) =>
                let rt1 := extend_dependencies rt0 from_input in
                match fold_res (fun s' d => add_target fuel s' d (parents ++ [t])) (remove_target cfg t, m) (rt_deps rt1) with
                | Err e => Err e
                | Ok (cfg2, m2) =>
                    match extend_inputs m2 rt1 from_input with
                    | Err e => Err e
                    | Ok rt2 => Ok (cfg2, (t, rt2) :: m2)
                    end
                end
            end
        end
    end.
Proof.
  cbn [add_target fst snd]. unfold proj_dir, lookup_yt.
  destruct (tmap_mem m t); [reflexivity|]. destruct (existsb (tid_eqb t) parents); [reflexivity|].
  destruct (lookup_project cfg (t_project t)) as [[dir pr]|]; cbn [option_map]; [|reflexivity].
  destruct (lookup_ytarget pr (t_name t)); reflexivity.
Qed.

(* ---- what remove_target changes ---- *)
Lemma lookup_project_remove cfg t p :
  lookup_project (remove_target cfg t) p =
  if opt_beq p (t_project t)
  then option_map (fun dp => (fst dp, remove_ytarget (t_name t) (snd dp))) (lookup_project cfg p)
  else lookup_project cfg p.
Proof. unfold lookup_project, remove_target. cbn [ic_projects]. apply (assoc_update_first _ opt_beq_eq). Qed.

Lemma proj_dir_remove cfg t p : proj_dir (remove_target cfg t) p = proj_dir cfg p.
Proof.
  unfold proj_dir. rewrite lookup_project_remove. destruct (opt_beq p (t_project t)); [|reflexivity].
  now destruct (lookup_project cfg p) as [[d pr]|].
Qed.

Lemma lookup_yt_remove_other cfg t t' : t' <> t -> lookup_yt (remove_target cfg t) t' = lookup_yt cfg t'.
Proof.
  intros Hne. unfold lookup_yt. rewrite lookup_project_remove.
  destruct (opt_beq (t_project t') (t_project t)) eqn:Ep; [|reflexivity].
  destruct (lookup_project cfg (t_project t')) as [[d pr]|]; cbn [option_map fst snd]; [|reflexivity].
  unfold lookup_ytarget, remove_ytarget. cbn [yp_targets]. rewrite (assoc_remove_key _ beq_eq).
  destruct (beq (t_name t) (t_name t')) eqn:En; [|reflexivity].
  exfalso. apply Hne. apply opt_beq_eq in Ep. apply beq_eq in En. destruct t, t'; cbn in *. now subst.
Qed.

(* the mutated configuration agrees with the original one outside the set X of converted targets *)
Definition agree (cfg0 cfg : iconfig) (X : target_id -> Prop) : Prop :=
  (forall p, proj_dir cfg p = proj_dir cfg0 p) /\
  (forall t, ~ X t -> lookup_yt cfg t = lookup_yt cfg0 t).

Lemma agree_weaken cfg0 cfg (X Y : target_id -> Prop) :
  agree cfg0 cfg X -> (forall t, X t -> Y t) -> agree cfg0 cfg Y.
Proof. intros [H1 H2] Hs. split; [exact H1|]. intros t Hn. apply H2. intros Hx. apply Hn. now apply Hs. Qed.

Lemma agree_remove cfg0 cfg X t :
  agree cfg0 cfg X -> agree cfg0 (remove_target cfg t) (fun x => X x \/ x = t).
Proof.
  intros [H1 H2]. split.
  - intros p. now rewrite proj_dir_remove.
  - intros t' Hn. rewrite lookup_yt_remove_other; [apply H2|]; intros H; apply Hn; tauto.
Qed.

Lemma tmap_mem_in m t : tmap_mem m t = true <-> In t (tmap_keys m).
Proof.
  unfold tmap_mem, tmap_get, tmap_keys. split.
  - destruct (assoc tid_eqb t m) as [rt|] eqn:E; [|discriminate]. intros _.
    apply (assoc_in _ tid_eqb_eq) in E. change t with (fst (t, rt)). now apply in_map.
  - intros Hin. destruct (assoc tid_eqb t m) eqn:E; [reflexivity|].
    apply (assoc_none _ tid_eqb_eq) in E. contradiction.
Qed.

(* ---- the equivalence ---- *)
Definition rel_result (cfg0 : iconfig) (parents : list target_id) (r : result rstate) (rp : result tmap) : Prop :=
  match r, rp with
  | Ok (cfg', m'), Ok mp => m' = mp /\ agree cfg0 cfg' (fun x => In x (tmap_keys m') \/ In x parents)
  | Err e, Err e' => e = e'
  | _, _ => False
  end.

Lemma fold_equiv cfg0 fuel parents
  (IH : forall cfg m t, agree cfg0 cfg (fun x => In x (tmap_keys m) \/ In x parents) ->
                        rel_result cfg0 parents (add_target fuel (cfg, m) t parents) (add_target_p cfg0 fuel m t parents)) :
  forall ds cfg m, agree cfg0 cfg (fun x => In x (tmap_keys m) \/ In x parents) ->
    rel_result cfg0 parents (fold_res (fun s d => add_target fuel s d parents) (cfg, m) ds)
                            (fold_res (fun m' d => add_target_p cfg0 fuel m' d parents) m ds).
Proof.
  induction ds as [|d ds IHds]; intros cfg m Hag; cbn [fold_res].
  - split; [reflexivity | exact Hag].
  - specialize (IH cfg m d Hag). unfold rel_result in IH.
    destruct (add_target fuel (cfg, m) d parents) as [[cfg1 m1]|e]; destruct (add_target_p cfg0 fuel m d parents) as [mp|e'];
      try contradiction.
    + destruct IH as [<- Hag1]. now apply IHds.
    + exact IH.
Qed.

Lemma add_target_equiv cfg0 fuel :
  forall parents cfg m t, agree cfg0 cfg (fun x => In x (tmap_keys m) \/ In x parents) ->
    rel_result cfg0 parents (add_target fuel (cfg, m) t parents) (add_target_p cfg0 fuel m t parents).
Proof.
  induction fuel as [|fuel IH]; intros parents cfg m t Hag.
  - reflexivity.
  - rewrite add_target_unfold. cbn [add_target_p].
    destruct (tmap_mem m t) eqn:Emem; [split; [reflexivity | exact Hag]|].
    destruct (existsb (tid_eqb t) parents) eqn:Ecirc; [reflexivity|].
    destruct Hag as [Hdir Hyt]. rewrite Hdir.
    destruct (proj_dir cfg0 (t_project t)); [|reflexivity].
    assert (Hnot : ~ (In t (tmap_keys m) \/ In t parents)).
    { intros [H|H].
      - apply tmap_mem_in in H. congruence.
      - apply existsb_tid_eqb in H. congruence. }
    rewrite (Hyt t Hnot).
    destruct (lookup_yt cfg0 t) as [[dir yt]|]; [|reflexivity].
    destruct (transform_target t yt dir) as [[rt0 fi]|e]; [|reflexivity].
    cbv zeta.
    assert (Hag1 : agree cfg0 (remove_target cfg t) (fun x => In x (tmap_keys m) \/ In x (parents ++ [t]))).
    { eapply agree_weaken; [apply agree_remove; split; [exact Hdir | exact Hyt]|].
      cbn. intros x [[H|H]| ->]; [now left | right; apply in_or_app; now left | right; apply in_or_app; right; now left]. }
    pose proof (fold_equiv cfg0 fuel (parents ++ [t]) (fun c mm tt => IH (parents ++ [t]) c mm tt)
                  (rt_deps (extend_dependencies rt0 fi)) _ _ Hag1) as Hf.
    unfold rel_result in Hf.
    destruct (fold_res (fun s' d => add_target fuel s' d (parents ++ [t])) (remove_target cfg t, m) _) as [[cfg2 m2]|e];
      destruct (fold_res (fun m' d => add_target_p cfg0 fuel m' d (parents ++ [t])) m _) as [mp|e']; try contradiction.
    + destruct Hf as [<- Hag2].
      destruct (extend_inputs m2 (extend_dependencies rt0 fi) fi) as [rt2|e]; [|reflexivity].
      split; [reflexivity|]. eapply agree_weaken; [exact Hag2|]. cbn.
      intros x [H|H]; [left; now right|]. apply in_app_or in H as [H|[<-|[]]]; [now right | left; now left].
    + exact Hf.
Qed.

Lemma agree_refl cfg X : agree cfg cfg X.
Proof. split; reflexivity. Qed.

Lemma rel_result_proj cfg0 parents (r : result rstate) (rp : result tmap) :
  rel_result cfg0 parents r rp -> match r with Ok (_, m) => Ok m | Err e => Err e end = rp.
Proof.
  unfold rel_result. destruct r as [[c m]|e], rp as [mp|e']; try contradiction.
  - now intros [-> _].
  - now intros ->.
Qed.

Theorem resolve_pure cfg roots fuel : resolve cfg roots fuel = resolve_p cfg roots fuel.
Proof.
  unfold resolve, resolve_p. apply (rel_result_proj cfg []).
  exact (fold_equiv cfg fuel [] (fun c m t => add_target_equiv cfg fuel [] c m t) roots cfg [] (agree_refl cfg _)).
Qed.
