From Zinoma.Proofs Require Export ActorFacts.
Section facts.
  Context (fx ok : bool) (a : astate) (e : event) (a' : astate) (os : list out) (ob : list obs).
  Context (Hstep : actor_step fx ok a e = Some (a', os, ob)).
  (* an aggregate records every dependency acknowledged with actual = true *)
  Lemma step_acts_add k d : a_kind a = AAggregate -> e = EMsg (MOk k d true) -> d ∈ acts a' k.
  Proof using Hstep.
    clear -Hstep. intros Hk ->. crush_step Hstep; aproj_all; try congruence; set_solver.
  Qed.
  (* only aggregates keep such a record *)
  Lemma step_acts_nonagg k : a_kind a <> AAggregate -> acts a' k = acts a k.
  Proof using Hstep.
    clear -Hstep. intros Hk. crush_step Hstep; aproj_all; try congruence; done.
  Qed.
End facts.
