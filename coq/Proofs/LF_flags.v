From Zinoma.Proofs Require Export LiveDefs.
Ltac absurd_bools :=
  exfalso; repeat match goal with H : _ && _ = false |- _ => apply andb_false_iff in H as [H|H] end;
  bool_hyps; try congruence; try contradiction; try done.
Section facts.
  Context (fx ok : bool) (a : astate) (e : event) (a' : astate) (os : list out) (ob : list obs).
  Context (Hstep : actor_step fx ok a e = Some (a', os, ob)).

  (* inside the root loop nothing terminates or cancels *)
  Lemma step_calm : plain e -> calm a -> calm a'.
  Proof using Hstep.
    clear -Hstep. unfold plain, calm. intros Hp (H1 & H2 & H3).
    destruct e as [[k r|k r|k d act|k d]| | |[]]; try done;
      crush_step Hstep; aproj_all; try congruence; try done.
  Qed.

  (* a build or service that has cleared to_execute is running, has succeeded, or has failed *)
  Lemma step_flags_progress (F : Prop) :
    a_kind a <> AAggregate -> plain e -> calm a ->
    (to_execute a = false -> ongoing a = true \/ executed a = true \/ F) ->
    (to_execute a' = false -> ongoing a' = true \/ executed a' = true \/ F \/ ObFail (a_id a) ∈ ob).
  Proof using Hstep.
    clear -Hstep. unfold plain, calm. intros Hna Hp (H1 & H2 & H3) Hpre Hte.
    destruct e as [[k r|k r|k d act|k d]| | |[]]; try done;
      crush_step Hstep; aproj_all; try congruence; try done;
      try (by left); try (right; by left);
      try (right; right; right; solve_elem; fail);
      try (destruct (Hpre ltac:(assumption)) as [?|[?|?]]; [by left|right; by left|right; right; by left]; fail);
      try (destruct (Hpre ltac:(congruence)) as [?|[?|?]]; [left; congruence|right; left; congruence|right; right; by left]; fail).
    all: bool_hyps; congruence.
  Qed.

  (* nobody originates an Unrequested message *)
  Lemma step_out_unreq_only dst k r :
    OMsg dst (MUnrequested k r) ∈ os -> exists k' r', e = EMsg (MUnrequested k' r').
  Proof using Hstep.
    clear -Hstep. intros Ho. crush_step Hstep; split_elem Ho; eauto.
  Qed.
End facts.
