(* Tactics and membership lemmas shared by the actor-level proofs. *)
From Zinoma.Model Require Export Actor.

Lemma elem_send_to_requesters a k m o :
  o ∈ send_to_requesters a k m <-> exists r, r ∈ reqs a k /\ o = OMsg r m.
Proof.
  unfold send_to_requesters. rewrite elem_of_list_fmap. setoid_rewrite elem_of_elements. naive_solver.
Qed.

Lemma elem_send_to_deps a m o :
  o ∈ send_to_deps a m <-> exists d, d ∈ a_deps a /\ o = OMsg (ATarget d) m.
Proof. unfold send_to_deps. rewrite elem_of_list_fmap. naive_solver. Qed.

Lemma elem_request_deps a k o :
  o ∈ request_deps a k <-> exists d, d ∈ a_deps a /\ o = OMsg (ATarget d) (MRequested k (ATarget (a_id a))).
Proof. apply elem_send_to_deps. Qed.

Lemma elem_unrequest_deps a k o :
  o ∈ unrequest_deps a k <-> exists d, d ∈ a_deps a /\ o = OMsg (ATarget d) (MUnrequested k (ATarget (a_id a))).
Proof. apply elem_send_to_deps. Qed.

Lemma set_empty_true {A} `{Countable A} (s : gset A) : set_empty s = true <-> s = ∅.
Proof. unfold set_empty. apply bool_decide_eq_true. Qed.

Lemma set_empty_false {A} `{Countable A} (s : gset A) : set_empty s = false <-> s <> ∅.
Proof. unfold set_empty. apply bool_decide_eq_false. Qed.

Lemma should_execute_true a k :
  should_execute a k = true ->
  to_execute a = true /\ reqs a k <> ∅ /\ unavB a = ∅ /\ unavS a = ∅.
Proof.
  unfold should_execute. rewrite !andb_true_iff, negb_true_iff, set_empty_false, !set_empty_true. tauto.
Qed.

(* projections through the field setters *)
Lemma unav_set_unav a k s k' : unav (set_unav a k s) k' = if decide (k' = k) then s else unav a k'.
Proof. destruct k, k'; reflexivity. Qed.
Lemma reqs_set_reqs a k s k' : reqs (set_reqs a k s) k' = if decide (k' = k) then s else reqs a k'.
Proof. destruct k, k'; reflexivity. Qed.
Lemma acts_set_acts a k s k' : acts (set_acts a k s) k' = if decide (k' = k) then s else acts a k'.
Proof. destruct k, k'; reflexivity. Qed.
Lemma unav_set_reqs a k s k' : unav (set_reqs a k s) k' = unav a k'.
Proof. destruct k, k'; reflexivity. Qed.
Lemma unav_set_acts a k s k' : unav (set_acts a k s) k' = unav a k'.
Proof. destruct k, k'; reflexivity. Qed.
Lemma unav_set_flags a x y k' : unav (set_flags a x y) k' = unav a k'.
Proof. destruct k'; reflexivity. Qed.
Lemma unav_set_proc a x1 x2 x3 x4 x5 k' : unav (set_proc a x1 x2 x3 x4 x5) k' = unav a k'.
Proof. destruct k'; reflexivity. Qed.
Lemma reqs_set_unav a k s k' : reqs (set_unav a k s) k' = reqs a k'.
Proof. destruct k, k'; reflexivity. Qed.
Lemma reqs_set_acts a k s k' : reqs (set_acts a k s) k' = reqs a k'.
Proof. destruct k, k'; reflexivity. Qed.
Lemma reqs_set_flags a x y k' : reqs (set_flags a x y) k' = reqs a k'.
Proof. destruct k'; reflexivity. Qed.
Lemma reqs_set_proc a x1 x2 x3 x4 x5 k' : reqs (set_proc a x1 x2 x3 x4 x5) k' = reqs a k'.
Proof. destruct k'; reflexivity. Qed.
Lemma acts_set_unav a k s k' : acts (set_unav a k s) k' = acts a k'.
Proof. destruct k, k'; reflexivity. Qed.
Lemma acts_set_reqs a k s k' : acts (set_reqs a k s) k' = acts a k'.
Proof. destruct k, k'; reflexivity. Qed.
Lemma acts_set_flags a x y k' : acts (set_flags a x y) k' = acts a k'.
Proof. destruct k'; reflexivity. Qed.
Lemma acts_set_proc a x1 x2 x3 x4 x5 k' : acts (set_proc a x1 x2 x3 x4 x5) k' = acts a k'.
Proof. destruct k'; reflexivity. Qed.

Create HintDb aproj.
#[export] Hint Rewrite unav_set_unav reqs_set_reqs acts_set_acts unav_set_reqs unav_set_acts unav_set_flags unav_set_proc
  reqs_set_unav reqs_set_acts reqs_set_flags reqs_set_proc acts_set_unav acts_set_reqs acts_set_flags acts_set_proc : aproj.

(* simple fields through the kind-indexed setters *)
Lemma a_id_set_unav a k s : a_id (set_unav a k s) = a_id a.
Proof. by destruct k. Qed.
Lemma a_kind_set_unav a k s : a_kind (set_unav a k s) = a_kind a.
Proof. by destruct k. Qed.
Lemma a_deps_set_unav a k s : a_deps (set_unav a k s) = a_deps a.
Proof. by destruct k. Qed.
Lemma to_execute_set_unav a k s : to_execute (set_unav a k s) = to_execute a.
Proof. by destruct k. Qed.
Lemma executed_set_unav a k s : executed (set_unav a k s) = executed a.
Proof. by destruct k. Qed.
Lemma ongoing_set_unav a k s : ongoing (set_unav a k s) = ongoing a.
Proof. by destruct k. Qed.
Lemma cancel_sent_set_unav a k s : cancel_sent (set_unav a k s) = cancel_sent a.
Proof. by destruct k. Qed.
Lemma term_recv_set_unav a k s : term_recv (set_unav a k s) = term_recv a.
Proof. by destruct k. Qed.
Lemma exited_set_unav a k s : exited (set_unav a k s) = exited a.
Proof. by destruct k. Qed.
Lemma running_set_unav a k s : running (set_unav a k s) = running a.
Proof. by destruct k. Qed.
Lemma a_id_set_reqs a k s : a_id (set_reqs a k s) = a_id a.
Proof. by destruct k. Qed.
Lemma a_kind_set_reqs a k s : a_kind (set_reqs a k s) = a_kind a.
Proof. by destruct k. Qed.
Lemma a_deps_set_reqs a k s : a_deps (set_reqs a k s) = a_deps a.
Proof. by destruct k. Qed.
Lemma to_execute_set_reqs a k s : to_execute (set_reqs a k s) = to_execute a.
Proof. by destruct k. Qed.
Lemma executed_set_reqs a k s : executed (set_reqs a k s) = executed a.
Proof. by destruct k. Qed.
Lemma ongoing_set_reqs a k s : ongoing (set_reqs a k s) = ongoing a.
Proof. by destruct k. Qed.
Lemma cancel_sent_set_reqs a k s : cancel_sent (set_reqs a k s) = cancel_sent a.
Proof. by destruct k. Qed.
Lemma term_recv_set_reqs a k s : term_recv (set_reqs a k s) = term_recv a.
Proof. by destruct k. Qed.
Lemma exited_set_reqs a k s : exited (set_reqs a k s) = exited a.
Proof. by destruct k. Qed.
Lemma running_set_reqs a k s : running (set_reqs a k s) = running a.
Proof. by destruct k. Qed.
Lemma a_id_set_acts a k s : a_id (set_acts a k s) = a_id a.
Proof. by destruct k. Qed.
Lemma a_kind_set_acts a k s : a_kind (set_acts a k s) = a_kind a.
Proof. by destruct k. Qed.
Lemma a_deps_set_acts a k s : a_deps (set_acts a k s) = a_deps a.
Proof. by destruct k. Qed.
Lemma to_execute_set_acts a k s : to_execute (set_acts a k s) = to_execute a.
Proof. by destruct k. Qed.
Lemma executed_set_acts a k s : executed (set_acts a k s) = executed a.
Proof. by destruct k. Qed.
Lemma ongoing_set_acts a k s : ongoing (set_acts a k s) = ongoing a.
Proof. by destruct k. Qed.
Lemma cancel_sent_set_acts a k s : cancel_sent (set_acts a k s) = cancel_sent a.
Proof. by destruct k. Qed.
Lemma term_recv_set_acts a k s : term_recv (set_acts a k s) = term_recv a.
Proof. by destruct k. Qed.
Lemma exited_set_acts a k s : exited (set_acts a k s) = exited a.
Proof. by destruct k. Qed.
Lemma running_set_acts a k s : running (set_acts a k s) = running a.
Proof. by destruct k. Qed.
#[export] Hint Rewrite a_id_set_unav a_kind_set_unav a_deps_set_unav to_execute_set_unav executed_set_unav ongoing_set_unav cancel_sent_set_unav term_recv_set_unav exited_set_unav running_set_unav a_id_set_reqs a_kind_set_reqs a_deps_set_reqs to_execute_set_reqs executed_set_reqs ongoing_set_reqs cancel_sent_set_reqs term_recv_set_reqs exited_set_reqs running_set_reqs a_id_set_acts a_kind_set_acts a_deps_set_acts to_execute_set_acts executed_set_acts ongoing_set_acts cancel_sent_set_acts term_recv_set_acts exited_set_acts running_set_acts : aproj.

(* normalise projections of setters *)
Ltac aproj := cbn [a_id a_kind a_deps to_execute executed ongoing cancel_sent term_recv exited running unavB unavS reqB reqS actB actS set_flags set_proc]; autorewrite with aproj.
Ltac aproj_in H := cbn [a_id a_kind a_deps to_execute executed ongoing cancel_sent term_recv exited running unavB unavS reqB reqS actB actS set_flags set_proc] in H; autorewrite with aproj in H.

Ltac aproj_all :=
  aproj;
  repeat match goal with
  | H : _ |- _ =>
      progress (cbn [a_id a_kind a_deps to_execute executed ongoing cancel_sent term_recv exited running
                     unavB unavS reqB reqS actB actS set_flags set_proc] in H;
                autorewrite with aproj in H)
  end;
  repeat (case_decide; try done).

Ltac unfold_step H :=
  unfold actor_step, build_step, build_top, build_handle_msg, service_step, service_top, service_handle_msg,
    aggregate_step, aggregate_handle_msg, notify_success, notify_invalidated, handle_unrequested in H.

(* case analysis along the control flow of a step; conditions stay opaque booleans *)
Ltac crush_step H :=
  unfold_step H;
  repeat (first [ progress simplify_eq | case_match ]).

Ltac kinds := repeat match goal with k : kind |- _ => destruct k end.

(* decompose a membership in an explicit output / observation list, discarding impossible shapes *)
Ltac split_elem H :=
  repeat first
    [ apply elem_of_nil in H; contradiction
    | apply elem_of_app in H; destruct H as [H|H]
    | apply elem_of_cons in H; destruct H as [?|H]; [simplify_eq|]
    | apply elem_request_deps in H; destruct H as (?&?&?); simplify_eq
    | apply elem_unrequest_deps in H; destruct H as (?&?&?); simplify_eq
    | apply elem_send_to_requesters in H; destruct H as (?&?&?); simplify_eq ].

Ltac solve_elem := repeat first [ apply elem_of_list_here | apply elem_of_list_further ].

Ltac bool_hyps :=
  repeat match goal with
  | H : _ && _ = true |- _ => apply andb_true_iff in H; destruct H
  | H : negb _ = true |- _ => apply negb_true_iff in H
  | H : negb _ = false |- _ => apply negb_false_iff in H
  | H : bool_decide _ = true |- _ => apply bool_decide_eq_true in H
  | H : bool_decide _ = false |- _ => apply bool_decide_eq_false in H
  | H : set_empty _ = true |- _ => apply set_empty_true in H
  | H : set_empty _ = false |- _ => apply set_empty_false in H
  | H : should_execute _ _ = true |- _ => apply should_execute_true in H; destruct H as (?&?&?&?)
  end.
