From Zinoma.Model Require Import Builder.

(* a build is reported as completed exactly when the script's shell was spawned, was not cancelled, and EXITED WITH CODE 0:
   any other exit code, and every death by a signal (SIGKILL, SIGTERM, SIGSEGV, ...), is a failure *)
Lemma completed_iff spawn_ok cancelled_first st :
  build_report spawn_ok cancelled_first st = RepCompleted <-> spawn_ok = true /\ cancelled_first = false /\ st = WExited 0%N.
Proof.
  unfold build_report, success. destruct spawn_ok, cancelled_first; cbn; try (split; [discriminate|intros (?&?&?); discriminate]).
  destruct st as [c|sg]; [|split; [discriminate|intros (_&_&?); discriminate]].
  destruct (N.eqb_spec c 0) as [->|Hne]; [tauto|].
  split; [discriminate|]. intros (_ & _ & [= ->]). congruence.
Qed.

Lemma signal_death_is_failure spawn_ok sg : build_report spawn_ok false (WSignaled sg) = RepFailed.
Proof. unfold build_report. destruct spawn_ok; reflexivity. Qed.

Lemma cancelled_is_never_completed spawn_ok st : build_report spawn_ok true st <> RepCompleted.
Proof. unfold build_report. destruct spawn_ok; discriminate. Qed.
