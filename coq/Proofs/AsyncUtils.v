From Zinoma.Model Require Import AsyncUtils.
From Coq Require Import Permutation.

Lemma all_results_spec l : all_results l = true <-> Forall (fun r => r = true) l.
Proof.
  induction l as [|r l IH]; cbn; [split; [constructor|reflexivity]|].
  destruct r.
  - rewrite IH. split; [intros H; constructor; [reflexivity|exact H]|intros H; inversion H; assumption].
  - split; [discriminate|]. intros H. inversion H. discriminate.
Qed.

(* the verdict does not depend on the order in which the futures complete *)
Lemma all_results_perm l l' : Permutation l l' -> all_results l = all_results l'.
Proof.
  intros Hp. destruct (all_results l) eqn:E1, (all_results l') eqn:E2; try reflexivity.
  - apply all_results_spec in E1. exfalso. assert (H : all_results l' = true); [|congruence].
    apply all_results_spec. eapply Permutation_Forall; eassumption.
  - apply all_results_spec in E2. exfalso. assert (H : all_results l = true); [|congruence].
    apply all_results_spec. eapply Permutation_Forall; [apply Permutation_sym|]; eassumption.
Qed.

Lemma both_comm a b : both a b = both b a.
Proof. destruct a, b; reflexivity. Qed.

Lemma both_spec a b : both a b = true <-> a = true /\ b = true.
Proof. destruct a, b; cbn; intuition discriminate. Qed.
