(* Construction of the message weights of PotentialW.v from the target graph: an out-of-date notice to R weighs as much as
   everything R may do in response (its own notices to its dependents, its re-run, the acknowledgements that follow).
   Defined by recursion towards the dependents, with the rank of the acyclic graph as fuel. *)
From Zinoma.Proofs Require Export SysBoundW.

Lemma sum_submseteq {A} (f : A -> nat) l k : l ⊆+ k -> sum_list_with f l <= sum_list_with f k.
Proof. induction 1; cbn; lia. Qed.

Section weights.
  Context (g : graph) (roots : list tid) (w : bool).
  Context (rank : tid -> nat).
  Context (Hrank : forall t k deps d, g !! t = Some (k, deps) -> d ∈ deps -> rank d < rank t).

  (* the targets that depend directly on t *)
  Definition dependents (t : tid) : list tid :=
    List.filter (fun R => match g !! R with Some (_, deps) => bool_decide (t ∈ deps) | None => false end) (elements (dom g)).

  Lemma dependents_spec t R : R ∈ dependents t <-> exists k deps, g !! R = Some (k, deps) /\ t ∈ deps.
  Proof.
    unfold dependents. rewrite elem_of_list_In, filter_In, <- elem_of_list_In, elem_of_elements. split.
    - intros [Hd Hb]. destruct (g !! R) as [[k deps]|] eqn:Hg; [|done]. apply bool_decide_eq_true in Hb. eauto.
    - intros (k & deps & Hg & Hin). split; [apply elem_of_dom; eauto|]. rewrite Hg. by apply bool_decide_eq_true.
  Qed.

  Lemma dependents_NoDup t : NoDup (dependents t).
  Proof. unfold dependents. apply NoDup_ListNoDup, Coq.Lists.List.NoDup_filter, NoDup_ListNoDup, NoDup_elements. Qed.

  Definition maxrank_of (m : graph) : nat := S (map_fold (fun t _ acc => max (rank t) acc) 0 m).
  Definition maxrank : nat := maxrank_of g.

  Lemma rank_lt_max_of (m : graph) : forall t x, m !! t = Some x -> rank t < maxrank_of m.
  Proof.
    unfold maxrank_of, graph in *. induction m as [|t0 x0 m Hm IH] using map_ind; intros t x Hx; [by rewrite lookup_empty in Hx|].
    rewrite map_fold_insert_L; [| |done].
    - destruct (decide (t = t0)) as [->|Hne]; [lia|]. rewrite lookup_insert_ne in Hx by done. specialize (IH t x Hx). lia.
    - intros. lia.
  Qed.
  Lemma rank_lt_max t x : g !! t = Some x -> rank t < maxrank.
  Proof. apply rank_lt_max_of. Qed.

  Fixpoint WOK (n : nat) (t : tid) : nat :=
    match n with 0 => 2 | S n => 2 + sum_list_with (WOK n) (dependents t) end.
  Fixpoint WINV (n : nat) (t : tid) : nat :=
    match n with 0 => 5 | S n => 5 + sum_list_with (WINV n) (dependents t) + sum_list_with (WOK n) (dependents t) end.

  Lemma sum_list_with_le {A} (f1 f2 : A -> nat) l : (forall x, x ∈ l -> f1 x <= f2 x) -> sum_list_with f1 l <= sum_list_with f2 l.
  Proof.
    induction l as [|x l IH]; intros H; cbn; [lia|].
    pose proof (H x (elem_of_list_here _ _)). pose proof (IH (fun y Hy => H y (elem_of_list_further _ _ _ Hy))). lia.
  Qed.

  Lemma WOK_mono n m t : n <= m -> WOK n t <= WOK m t.
  Proof.
    revert m t. induction n as [|n IH]; intros m t Hle; destruct m as [|m]; cbn; try lia.
    pose proof (sum_list_with_le (WOK n) (WOK m) (dependents t) (fun x _ => IH m x ltac:(lia))). lia.
  Qed.
  Lemma WINV_mono n m t : n <= m -> WINV n t <= WINV m t.
  Proof.
    revert m t. induction n as [|n IH]; intros m t Hle; destruct m as [|m]; cbn; try lia.
    pose proof (sum_list_with_le (WINV n) (WINV m) (dependents t) (fun x _ => IH m x ltac:(lia))).
    pose proof (sum_list_with_le (WOK n) (WOK m) (dependents t) (fun x _ => WOK_mono n m x ltac:(lia))). lia.
  Qed.

  Definition wokG (r : aid) : nat := match r with ARoot => 1 | ATarget t => WOK (maxrank - rank t) t end.
  Definition winvG (r : aid) : nat := match r with ARoot => 1 | ATarget t => WINV (maxrank - rank t) t end.
  Definition sokG (t : tid) : nat := 1 + sum_list_with (fun R => wokG (ATarget R)) (dependents t).
  Definition sinvG (t : tid) : nat := 1 + sum_list_with (fun R => winvG (ATarget R)) (dependents t).

  Lemma weights_ok_G a t : g !! t = Some (a_kind a, a_deps a) -> a_id a = t -> weights_ok wokG winvG sokG sinvG a.
  Proof.
    intros Hg Hid. pose proof (rank_lt_max t _ Hg) as Hlt.
    assert (Hfuel : maxrank - rank t = S (maxrank - rank t - 1)) by lia.
    assert (Hdep : forall R, R ∈ dependents t -> maxrank - rank R <= maxrank - rank t - 1).
    { intros R HR. apply dependents_spec in HR as (k & deps & HgR & Hin). pose proof (Hrank R k deps t HgR Hin).
      pose proof (rank_lt_max R _ HgR). lia. }
    split.
    - cbn. lia.
    - rewrite Hid. unfold sokG. cbn [wokG]. rewrite Hfuel. cbn [WOK].
      pose proof (sum_list_with_le (fun R => WOK (maxrank - rank R) R) (WOK (maxrank - rank t - 1)) (dependents t)
                    (fun R HR => WOK_mono _ _ R (Hdep R HR))).
      destruct (decide (a_kind a = AAggregate)); cbn [wokG] in *; lia.
    - rewrite Hid. unfold armed, sokG, sinvG. cbn [winvG wokG]. rewrite Hfuel. cbn [WINV].
      pose proof (sum_list_with_le (fun R => WOK (maxrank - rank R) R) (WOK (maxrank - rank t - 1)) (dependents t)
                    (fun R HR => WOK_mono _ _ R (Hdep R HR))).
      pose proof (sum_list_with_le (fun R => WINV (maxrank - rank R) R) (WINV (maxrank - rank t - 1)) (dependents t)
                    (fun R HR => WINV_mono _ _ R (Hdep R HR))).
      cbn [wokG winvG] in *. lia.
  Qed.

  (* a set of requesters of t: the root and targets depending on t *)
  Lemma sumw_requesters (f : aid -> nat) (X : gset aid) t :
    (forall r, r ∈ X -> match r with ARoot => True | ATarget R => R ∈ dependents t end) ->
    sumw f X <= f ARoot + sum_list_with (fun R => f (ATarget R)) (dependents t).
  Proof.
    intros HX. unfold sumw.
    assert (Hsub : elements X ⊆+ ARoot :: (ATarget <$> dependents t)).
    { apply NoDup_submseteq; [apply NoDup_elements|]. intros r Hr. apply elem_of_elements in Hr. specialize (HX r Hr).
      destruct r as [|R]; [apply elem_of_list_here|]. apply elem_of_list_further, elem_of_list_fmap. eauto. }
    pose proof (sum_submseteq f _ _ Hsub) as Hle. cbn in Hle.
    assert (sum_list_with f (ATarget <$> dependents t) = sum_list_with (fun R => f (ATarget R)) (dependents t)) as <-.
    { generalize (dependents t). induction l as [|x l IH]; cbn; [done|]. by rewrite IH. }
    lia.
  Qed.

  Lemma weighted_reachable s : reachable true w g roots s -> weighted wokG winvG sokG sinvG s.
  Proof.
    intros Hr t a Ha.
    destruct (wf_reachable true w g roots s Hr t a Ha) as [Hid Hg].
    split; [done|]. split; [by eapply weights_ok_G|].
    intros k. rewrite Hid.
    assert (HX : forall r, r ∈ reqs a k -> match r with ARoot => True | ATarget R => R ∈ dependents t end).
    { intros r Hin. pose proof (ti_reqs _ _ _ (talk_inv_reachable true g roots w s Hr) t a k r Ha Hin) as Hok.
      destruct r as [|R]; [done|]. cbn in Hok. by apply dependents_spec. }
    split.
    - pose proof (sumw_requesters wokG (reqs a k) t HX). unfold sokG. cbn [wokG] in *. lia.
    - pose proof (sumw_requesters winvG (reqs a k) t HX). unfold sinvG. cbn [winvG] in *. lia.
  Qed.

  (* THE BOUND, every mode: the number of steps other than signal deliveries and file-change notices is at most the
     potential of the initial state plus, for every file-change notice, the weight of an out-of-date message per notified
     target.  Finitely many changes => finitely many steps: the rebuild cascade always ends. *)
  Theorem steps_bounded_by_changes ls s :
    run_labels true w (init_sys g roots) ls = Some s ->
    internalW ls + PhiW wokG winvG sokG s <= PhiW wokG winvG sokG (init_sys g roots) + changes_cost winvG ls.
  Proof.
    intros H. apply (run_boundedW wokG winvG sokG sinvG g roots w weighted_reachable ls (init_sys g roots) s); [by exists []|done].
  Qed.
End weights.

(* ... and from every reachable state, in every mode, a continuation without file changes, signals or failing scripts
   reaches a state in which nothing can happen any more, within PhiW(s) steps; no continuation without file changes is
   longer (run_boundedW) *)
Lemma change_not_candidate s ts : LChange ts ∉ candidate_labels s.
Proof.
  unfold candidate_labels. intros Hin. apply elem_of_app in Hin as [Hin|Hin].
  - apply elem_of_list_bind in Hin as (t & Hin & _). repeat (apply elem_of_cons in Hin as [Hin|Hin]; [done|]). by apply elem_of_nil in Hin.
  - repeat (apply elem_of_cons in Hin as [Hin|Hin]; [done|]). by apply elem_of_nil in Hin.
Qed.

Section settle.
  Context (g : graph) (roots : list tid) (w : bool).
  Context (rank : tid -> nat).
  Context (Hrank : forall t k deps d, g !! t = Some (k, deps) -> d ∈ deps -> rank d < rank t).
  Notation Phi' := (PhiW (wokG g rank) (winvG g rank) (sokG g rank)).

  Lemma reach_quiescentW : forall n s,
    reachable true w g roots s -> Phi' s <= n ->
    exists ls s', run_labels true w s ls = Some s' /\ quiescent true w s' = true /\ length ls <= Phi' s.
  Proof.
    assert (Hstep : forall s l s1, reachable true w g roots s -> l ∈ enabled true w s -> exec true w s l = Some s1 -> Phi' s1 + 1 <= Phi' s).
    { intros s l s1 Hr Hl Hs1. unfold enabled in Hl. apply elem_of_list_filter in Hl as [_ Hc].
      pose proof (reachable_step true g roots w s l s1 Hr Hs1) as Hr1.
      pose proof (exec_phiW (wokG g rank) (winvG g rank) (sokG g rank) (sinvG g rank) w s l s1
                    (weighted_reachable g roots w rank Hrank s Hr) (weighted_reachable g roots w rank Hrank s1 Hr1)
                    (no_unreq_reachable true g roots w s Hr) Hs1) as Hphi.
      destruct l; try lia; [by apply signal_not_candidate in Hc|by apply change_not_candidate in Hc]. }
    induction n as [|n IH]; intros s Hr Hn.
    - exists [], s. split; [done|]. split; [|cbn; lia].
      unfold quiescent. destruct (enabled true w s) as [|l rest] eqn:He; [done|]. exfalso.
      assert (Hl : l ∈ enabled true w s) by (rewrite He; apply elem_of_list_here).
      pose proof Hl as Hl'. unfold enabled in Hl'. apply elem_of_list_filter in Hl' as [Hex _]. apply bool_decide_unpack in Hex as [s1 Hs1].
      pose proof (Hstep s l s1 Hr Hl Hs1). lia.
    - destruct (enabled true w s) as [|l rest] eqn:He.
      + exists [], s. split; [done|]. split; [|cbn; lia]. unfold quiescent. by rewrite He.
      + assert (Hl : l ∈ enabled true w s) by (rewrite He; apply elem_of_list_here).
        pose proof Hl as Hl'. unfold enabled in Hl'. apply elem_of_list_filter in Hl' as [Hex _]. apply bool_decide_unpack in Hex as [s1 Hs1].
        pose proof (Hstep s l s1 Hr Hl Hs1) as Hlt.
        destruct (IH s1 (reachable_step true g roots w s l s1 Hr Hs1) ltac:(lia)) as (ls & s' & Hrun & Hq & Hlen).
        exists (l :: ls), s'. split; [cbn; by rewrite Hs1|]. split; [done|]. cbn. lia.
  Qed.
End settle.
