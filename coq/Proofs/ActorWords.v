(* C01, watch mode: a target does not start while the latest word it received from a dependency is "out of date".
   Pure actor-level statement over arbitrary event sequences (every interleaving of the system projects to one). *)
From Zinoma.Proofs Require Export LiveFacts AF_watch.

(* the word about dependency d for kind k carried by an event, if any: Some true = Ok, Some false = Invalidated *)
Definition word_of (e : event) (k : kind) (d : tid) : option bool :=
  match e with
  | EMsg (MOk k' d' _) => if decide (k' = k /\ d' = d) then Some true else None
  | EMsg (MInvalidated k' d') => if decide (k' = k /\ d' = d) then Some false else None
  | _ => None
  end.

(* latest word in a sequence of events (oldest first) *)
Fixpoint lastword (es : list (bool * event)) (k : kind) (d : tid) : option bool :=
  match es with
  | [] => None
  | (_, e) :: es' => match lastword es' k d with Some b => Some b | None => word_of e k d end
  end.

(* run an actor through a sequence of (spawn_ok, event); returns the final state and the observations of the LAST step *)
Fixpoint run_events (fx : bool) (a : astate) (es : list (bool * event)) : option (astate * list obs) :=
  match es with
  | [] => Some (a, [])
  | (ok, e) :: es' =>
      match actor_step fx ok a e with
      | Some (a', _, ob) => match es' with [] => Some (a', ob) | _ => run_events fx a' es' end
      | None => None
      end
  end.

Lemma step_word fx ok a e a' os ob k d :
  actor_step fx ok a e = Some (a', os, ob) ->
  (d ∈ unav a' k <-> match word_of e k d with Some true => False | Some false => True | None => d ∈ unav a k end).
Proof.
  intros Hst. unfold word_of. destruct e as [[k' r|k' r|k' d' act|k' d']| | |r]; try (destruct (decide (k' = k /\ d' = d)) as [[-> ->]|Hne]).
  all: try (split; [intros Hin; destruct (step_unav_grow _ _ _ _ _ _ _ Hst k d Hin) as [?|Heq]; [done|by inversion Heq]
                   |intros Hin; destruct (decide (d ∈ unav a' k)) as [|Hn]; [done|];
                    destruct (step_unav_shrink _ _ _ _ _ _ _ Hst k d Hin Hn) as [act0 Heq]; by inversion Heq]).
  - split; [intros Hin; by eapply (step_ok_consumed _ _ _ _ _ _ _ Hst)|done].
  - split; [intros Hin|intros Hin].
    + destruct (step_unav_grow _ _ _ _ _ _ _ Hst k d Hin) as [?|Heq]; [done|by inversion Heq].
    + destruct (decide (d ∈ unav a' k)) as [|Hn]; [done|].
      destruct (step_unav_shrink _ _ _ _ _ _ _ Hst k d Hin Hn) as [act0 Heq]. inversion Heq; subst. exfalso. by apply Hne.
  - split; [done|intros _; by eapply (step_unav_insert _ _ _ _ _ _ _ Hst)].
  - split; [intros Hin|intros Hin].
    + destruct (step_unav_grow _ _ _ _ _ _ _ Hst k d Hin) as [?|Heq]; [done|]. inversion Heq; subst. exfalso. by apply Hne.
    + destruct (decide (d ∈ unav a' k)) as [|Hn]; [done|].
      destruct (step_unav_shrink _ _ _ _ _ _ _ Hst k d Hin Hn) as [act0 Heq]. by inversion Heq.
Qed.

Lemma run_events_words fx a es a' ob k d :
  run_events fx a es = Some (a', ob) ->
  (d ∈ unav a' k <-> match lastword es k d with Some b => b = false | None => d ∈ unav a k end).
Proof.
  revert a. induction es as [|[ok e] es IH]; intros a Hrun; cbn in Hrun.
  - injection Hrun as <- <-. done.
  - destruct (actor_step fx ok a e) as [[[a1 os1] ob1]|] eqn:Hst; [|done].
    pose proof (step_word _ _ _ _ _ _ _ k d Hst) as Hw. cbn [lastword].
    destruct es as [|p es].
    + injection Hrun as <- <-. cbn. rewrite Hw. destruct (word_of e k d) as [[]|]; try tauto; split; done.
    + specialize (IH a1 Hrun). rewrite IH. destruct (lastword (p :: es) k d) as [b|]; [done|].
      rewrite Hw. destruct (word_of e k d) as [[]|]; try tauto; split; done.
Qed.

(* whatever happened before: if the last step of an actor's life so far starts it, then for every dependency and both
   kinds the latest word received from that dependency is Ok — never "out of date", never "nothing yet" *)
Theorem start_needs_latest_ok fx t kd deps es a' ob :
  run_events fx (init_actor t kd deps) es = Some (a', ob) -> ObStart t ∈ ob ->
  forall d k, d ∈ deps -> lastword es k d = Some true.
Proof.
  intros Hrun Hst d k Hd.
  assert (Hemp : unav a' k = ∅).
  { (* the last step is a start: both unavailable sets are empty *)
    clear -Hrun Hst. revert Hrun. generalize (init_actor t kd deps). induction es as [|[ok e] es IH]; intros a Hrun; cbn in Hrun.
    - injection Hrun as <- <-. by apply elem_of_nil in Hst.
    - destruct (actor_step fx ok a e) as [[[a1 os1] ob1]|] eqn:Hs; [|done]. destruct es as [|p es].
      + injection Hrun as <- <-. destruct (step_start _ _ _ _ _ _ _ Hs _ Hst) as (_ & HB & HS & _). by destruct k.
      + by eapply IH. }
  pose proof (run_events_words _ _ _ _ _ k d Hrun) as Hw. rewrite Hemp in Hw.
  destruct (lastword es k d) as [[]|]; [done| |].
  - exfalso. destruct Hw as [_ Hw]. specialize (Hw eq_refl). set_solver.
  - exfalso. destruct Hw as [_ Hw]. apply (not_elem_of_empty (C := gset tid) d), Hw.
    destruct k; cbn; by apply elem_of_list_to_set.
Qed.
