(* Per-step fact(s) about actor_step: exit. *)
From Zinoma.Proofs Require Export ActorFacts.
Section facts.
  Context (fx ok : bool) (a : astate) (e : event) (a' : astate) (os : list out) (ob : list obs).
  Context (Hstep : actor_step fx ok a e = Some (a', os, ob)).
  Definition exit_ok (x : astate) : Prop := exited x = true -> ongoing x = false /\ running x = false.
  Definition kind_ok (x : astate) : Prop :=
    (ongoing x = true -> a_kind x = ABuild) /\ (running x = true -> a_kind x = AService).
  Lemma step_kind_ok : kind_ok a -> kind_ok a'.
  Proof using Hstep.
    clear -Hstep. unfold kind_ok. intros [H1 H2]. crush_step Hstep; aproj_all; split; intros; try done; auto;
      try (rewrite H2 in * by done; done); try (rewrite H1 in * by done; done).
  Qed.
  Lemma step_exit_ok : kind_ok a -> exit_ok a'.
  Proof using Hstep.
    clear -Hstep. unfold kind_ok, exit_ok. intros [H1 H2] Hex. crush_step Hstep; aproj_all; try congruence; split; try done;
      try (destruct (running a); [by specialize (H2 eq_refl)|done]);
      try (destruct (ongoing a); [by specialize (H1 eq_refl)|done]).
  Qed.
  Lemma step_exit_obs : exited a' = true <-> ObExit (a_id a) ∈ ob.
  Proof using Hstep.
    clear -Hstep. crush_step Hstep; aproj_all; split; intros Hx; try done; try congruence; try (solve_elem; fail); try (split_elem Hx; fail).
  Qed.
End facts.
