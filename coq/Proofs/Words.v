(* The latest word (Ok / out of date) about a dependency in a FIFO of messages, and in the outputs of a step. *)
From Zinoma.Proofs Require Export ActorWords.

Definition mword (m : msg) (k : kind) (d : tid) : option bool := word_of (EMsg m) k d.

(* latest word in a list of messages, oldest first *)
Fixpoint lastw (l : list msg) (k : kind) (d : tid) : option bool :=
  match l with
  | [] => None
  | m :: l' => match lastw l' k d with Some b => Some b | None => mword m k d end
  end.

Lemma lastw_app l1 l2 k d :
  lastw (l1 ++ l2) k d = match lastw l2 k d with Some b => Some b | None => lastw l1 k d end.
Proof.
  induction l1 as [|m l1 IH]; cbn; [by destruct (lastw l2 k d)|].
  rewrite IH. by destruct (lastw l2 k d).
Qed.

Lemma lastw_none l k d : (forall m, m ∈ l -> mword m k d = None) -> lastw l k d = None.
Proof.
  induction l as [|m l IH]; intros H; cbn; [done|].
  rewrite IH by (intros; apply H; by apply elem_of_list_further). apply H, elem_of_list_here.
Qed.

Lemma lastw_some l k d b : lastw l k d = Some b -> exists m, m ∈ l /\ mword m k d = Some b.
Proof.
  induction l as [|m l IH]; cbn; [done|]. destruct (lastw l k d) as [b'|] eqn:E.
  - intros [= ->]. destruct (IH eq_refl) as (m' & Hin & Hw). exists m'. split; [by apply elem_of_list_further|done].
  - intros H. exists m. split; [apply elem_of_list_here|done].
Qed.

Lemma mword_ok m k d : mword m k d = Some true -> exists act, m = MOk k d act.
Proof.
  unfold mword, word_of. destruct m as [k' r|k' r|k' d' act|k' d']; try done;
    destruct (decide (k' = k /\ d' = d)) as [[-> ->]|]; try done. eauto.
Qed.

Lemma mword_inval m k d : mword m k d = Some false -> m = MInvalidated k d.
Proof.
  unfold mword, word_of. destruct m as [k' r|k' r|k' d' act|k' d']; try done;
    destruct (decide (k' = k /\ d' = d)) as [[-> ->]|]; try done.
Qed.

Lemma mword_ok_eq k d act : mword (MOk k d act) k d = Some true.
Proof. unfold mword, word_of. by rewrite decide_True. Qed.
Lemma mword_inval_eq k d : mword (MInvalidated k d) k d = Some false.
Proof. unfold mword, word_of. by rewrite decide_True. Qed.

(* the messages an output list carries to target R, in order *)
Definition msgs_to (R : tid) (os : list out) : list msg :=
  omap (fun o => match o with OMsg (ATarget R') m => if decide (R' = R) then Some m else None | _ => None end) os.

Lemma msgs_to_app R o1 o2 : msgs_to R (o1 ++ o2) = msgs_to R o1 ++ msgs_to R o2.
Proof. unfold msgs_to. apply omap_app. Qed.

Lemma elem_of_msgs_to R os m : m ∈ msgs_to R os <-> OMsg (ATarget R) m ∈ os.
Proof.
  unfold msgs_to. rewrite elem_of_list_omap. split.
  - intros (o & Hin & Ho). destruct o as [[|R'] m'|t]; try done. destruct (decide (R' = R)) as [->|]; [|done]. by injection Ho as ->.
  - intros Hin. exists (OMsg (ATarget R) m). split; [done|]. by rewrite decide_True.
Qed.
