(* C01: a target never starts before its dependencies are ready. *)
From Zinoma.Proofs Require Export SysInv.

Lemma app_eq_mid {A} (h ob h1 h2 : list A) (x : A) :
  h ++ ob = h1 ++ x :: h2 ->
  (exists h2', h = h1 ++ x :: h2') \/ (exists ob1 ob2, ob = ob1 ++ x :: ob2 /\ h1 = h ++ ob1).
Proof.
  revert h1. induction h as [|y h IH]; intros h1 Heq; cbn in *.
  - right. exists h1, h2. by rewrite Heq.
  - destruct h1 as [|z h1]; cbn in *.
    + injection Heq as <- Heq. left. by exists h.
    + injection Heq as <- Heq. destruct (IH h1 Heq) as [[h2' ->]|(ob1 & ob2 & -> & ->)].
      * left. by exists h2'.
      * right. by exists ob1, ob2.
Qed.

Section c01.
  Context (fx watch : bool) (g : graph) (roots : list tid).
  Notation ready := (ready g).
  Notation ready_inv := (ready_inv g).
  Notation wf := (wf g).

  (* inside an actor step: a dependency that is available after the step was ready before it *)
  Lemma unav_ready_pre s t a e ok a' os ob k d :
    ready_inv s -> actors s !! t = Some a -> actor_step fx ok a e = Some (a', os, ob) ->
    (forall m, e = EMsg m -> msg_in s (ATarget t) m) ->
    d ∈ a_deps a -> d ∉ unav a' k -> ready (hist s) k d.
  Proof.
    intros Hri Ha Hst Hm Hd Hn. destruct (decide (d ∈ unav a k)) as [Hin|Hnin].
    - destruct (step_unav_shrink _ _ _ _ _ _ _ Hst k d Hin Hn) as [act ->].
      eapply (ri_msg _ _ Hri). by apply Hm.
    - by eapply (ri_unav _ _ Hri).
  Qed.

  Lemma ready_inv_step s s' : wf s -> ready_inv s -> step_inv fx watch s s' -> ready_inv s'.
  Proof.
    intros Hwf Hri [t a e ok a' os ob Ha Hst Hact Hh Hmsg Herr Hm _ _ _ _ _ _ _ _|Hact Hib Hh _ Hrq _|ts _ Hact Hib Hh Hrq _ _ _].
    - destruct (Hwf t a Ha) as [Hid Hg].
      destruct (step_same_id _ _ _ _ _ _ _ Hst) as (Hi' & Hk' & Hd').
      assert (Hunav' : forall k d, d ∈ a_deps a -> d ∉ unav a' k -> ready (hist s') k d).
      { intros k d Hd Hn. rewrite Hh. apply ready_mono. by eapply unav_ready_pre. }
      assert (Hexec' : executed a' = true -> ObSucc t ∈ hist s' \/ a_kind a = AAggregate).
      { intros Hex. destruct (decide (a_kind a = AAggregate)) as [|Hna]; [by right|left].
        rewrite Hh. apply elem_of_app.
        destruct (step_executed _ _ _ _ _ _ _ Hst Hex) as [Hex0|Hin]; [left; by eapply (ri_exec _ _ Hri)|right; by rewrite <- Hid]. }
      split.
      + intros dst k d act Hin. destruct (Hmsg _ _ Hin) as [Hold|Hnew].
        * rewrite Hh. apply ready_mono. by eapply (ri_msg _ _ Hri).
        * destruct (step_out_ok _ _ _ _ _ _ _ Hst _ _ _ _ Hnew) as [-> Hj]. unfold ok_just in Hj. rewrite Hid.
          destruct (a_kind a) eqn:Hk.
          -- eapply ready_build; [done|]. intros ->. destruct Hj as [_ [Hin'|Hex]].
             ++ rewrite Hh. apply elem_of_app; right. by rewrite <- Hid.
             ++ rewrite Hh. apply elem_of_app; left. eapply (ri_exec _ _ Hri); [done|done|by rewrite Hk].
          -- eapply ready_service; [done|]. intros ->. destruct Hj as [_ [Hin'|Hex]].
             ++ rewrite Hh. apply elem_of_app; right. by rewrite <- Hid.
             ++ rewrite Hh. apply elem_of_app; left. eapply (ri_exec _ _ Hri); [done|done|by rewrite Hk].
          -- destruct Hj as [Hemp _]. eapply ready_aggregate; [done|]. intros x Hx. apply Hunav'; [done|].
             rewrite Hemp. set_solver.
      + intros t0 a0 k d Ha0 Hd Hn. rewrite Hact in Ha0. destruct (decide (t0 = t)) as [->|Hne].
        * rewrite lookup_insert in Ha0. injection Ha0 as <-. rewrite Hd' in Hd. by apply Hunav'.
        * rewrite lookup_insert_ne in Ha0 by done. rewrite Hh. apply ready_mono. by eapply (ri_unav _ _ Hri).
      + intros t0 a0 Ha0 Hex Hna. rewrite Hact in Ha0. destruct (decide (t0 = t)) as [->|Hne].
        * rewrite lookup_insert in Ha0. injection Ha0 as <-. destruct (Hexec' Hex) as [?|Hagg]; [done|]. congruence.
        * rewrite lookup_insert_ne in Ha0 by done. rewrite Hh. apply elem_of_app; left. by eapply (ri_exec _ _ Hri).
    - split.
      + intros dst k d act Hin. rewrite Hh. eapply (ri_msg _ _ Hri dst).
        destruct dst as [|d0]; cbn in *; [by apply Hrq|by rewrite <- Hib].
      + intros t0 a0 k d Ha0. rewrite Hact in Ha0. rewrite Hh. by eapply (ri_unav _ _ Hri).
      + intros t0 a0 Ha0. rewrite Hact in Ha0. rewrite Hh. by eapply (ri_exec _ _ Hri).
    - split.
      + intros dst k d act Hin. rewrite Hh. eapply (ri_msg _ _ Hri dst).
        destruct dst as [|d0]; cbn in *; [by rewrite <- Hrq|by rewrite <- Hib].
      + intros t0 a0 k d Ha0. rewrite Hact in Ha0. rewrite Hh. by eapply (ri_unav _ _ Hri).
      + intros t0 a0 Ha0. rewrite Hact in Ha0. rewrite Hh. by eapply (ri_exec _ _ Hri).
  Qed.

  Lemma ready_inv_reachable s : reachable fx watch g roots s -> ready_inv s.
  Proof.
    apply reachable_ind; [apply ready_inv_init|]. intros s0 l s1 Hr Hri He.
    eapply ready_inv_step; [by eapply wf_reachable|done|by eapply exec_inv].
  Qed.

  (* every start in the history was preceded by the readiness of every direct dependency, for both kinds *)
  Definition start_ok (h : list obs) : Prop :=
    forall h1 t h2, h = h1 ++ ObStart t :: h2 ->
    forall kt deps, g !! t = Some (kt, deps) -> forall d k, d ∈ deps -> ready h1 k d.

  Lemma start_ok_step s s' :
    wf s -> ready_inv s -> start_ok (hist s) -> step_inv fx watch s s' -> start_ok (hist s').
  Proof.
    intros Hwf Hri Hso [t a e ok a' os ob Ha Hst Hact Hh Hmsg Herr Hm _ _ _ _ _ _ _ _|_ _ Hh _ _ _|ts _ _ _ Hh _ _ _ _];
      [|by rewrite Hh|by rewrite Hh].
    intros h1 t0 h2 Heq kt deps Hg0 d k Hd. rewrite Hh in Heq.
    destruct (app_eq_mid _ _ _ _ _ Heq) as [[h2' Hold]|(ob1 & ob2 & Hob & ->)].
    - by eapply Hso.
    - assert (Hin : ObStart t0 ∈ ob) by (rewrite Hob; apply elem_of_app; right; apply elem_of_list_here).
      destruct (step_start _ _ _ _ _ _ _ Hst _ Hin) as (-> & HuB & HuS & _ & _).
      destruct (Hwf t a Ha) as [Hid Hg]. rewrite Hid in Hg0. assert (Heq2 := eq_trans (eq_sym Hg0) Hg). injection Heq2 as -> ->.
      apply ready_mono. eapply unav_ready_pre; try done.
      destruct k; cbn; [rewrite HuB|rewrite HuS]; set_solver.
  Qed.

  Lemma start_ok_reachable s : reachable fx watch g roots s -> start_ok (hist s).
  Proof.
    revert s. apply (reachable_ind fx watch g roots (fun s => start_ok (hist s))).
    - intros h1 t h2 Heq. cbn in Heq. by destruct h1.
    - intros s0 l s1 Hr Hso He.
      eapply start_ok_step; [by eapply wf_reachable|by eapply ready_inv_reachable|done|by eapply exec_inv].
  Qed.

  (* dependencies reached through aggregates only *)
  Inductive eff_dep : tid -> tid -> Prop :=
  | eff_direct t kt deps d : g !! t = Some (kt, deps) -> d ∈ deps -> eff_dep t d
  | eff_through t kt deps x xdeps d :
      g !! t = Some (kt, deps) -> x ∈ deps -> g !! x = Some (AAggregate, xdeps) -> eff_dep x d -> eff_dep t d.

  Lemma ready_eff h t d :
    (forall kt deps, g !! t = Some (kt, deps) -> forall x k, x ∈ deps -> ready h k x) ->
    eff_dep t d -> forall k, ready h k d.
  Proof.
    intros Hall Heff. revert Hall. induction Heff as [t kt deps d Hg Hd|t kt deps x xdeps d Hg Hx Hgx _ IH]; intros Hall k.
    - by eapply Hall.
    - apply IH. intros kt' deps' Hg' y k' Hy. rewrite Hgx in Hg'. injection Hg' as <- <-.
      specialize (Hall kt deps Hg x k' Hx). inversion Hall as [? ? ? Hg2|? ? ? Hg2|? ? ? Hg2 Hall2]; subst;
        rewrite Hgx in Hg2; try done. injection Hg2 as <-. by apply Hall2.
  Qed.

  Lemma ready_succ h d kd deps :
    g !! d = Some (kd, deps) -> kd <> AAggregate -> (forall k, ready h k d) -> ObSucc d ∈ h.
  Proof.
    intros Hg Hna Hr. destruct kd; [|  |done].
    - specialize (Hr KB). inversion Hr as [? ? ? Hg2 Hs|? ? ? Hg2|? ? ? Hg2]; subst; rewrite Hg in Hg2; try done. by apply Hs.
    - specialize (Hr KS). inversion Hr as [? ? ? Hg2|? ? ? Hg2 Hs|? ? ? Hg2]; subst; rewrite Hg in Hg2; try done. by apply Hs.
  Qed.

  Theorem start_after_deps_ready s :
    reachable fx watch g roots s ->
    forall h1 t h2, hist s = h1 ++ ObStart t :: h2 ->
    forall d kd deps, eff_dep t d -> g !! d = Some (kd, deps) -> kd <> AAggregate -> ObSucc d ∈ h1.
  Proof.
    intros Hr h1 t h2 Heq d kd deps Heff Hg Hna.
    eapply ready_succ; [done|done|]. eapply ready_eff; [|done].
    intros kt tdeps Hgt x k Hx. eapply (start_ok_reachable s Hr); done.
  Qed.
End c01.
