From Zinoma.Proofs Require Export ActorFacts AF_exit AF_balance.

Fixpoint prefixes_ok {A} (P : list A -> Prop) (l : list A) : Prop :=
  P [] /\ match l with [] => True | x :: l' => prefixes_ok (fun p => P (x :: p)) l' end.

Lemma prefixes_ok_spec {A} (P : list A -> Prop) l :
  prefixes_ok P l -> forall l1 l2, l = l1 ++ l2 -> P l1.
Proof.
  revert P. induction l as [|x l IH]; intros P [H0 H] l1 l2 Heq.
  - destruct l1; [done|discriminate].
  - destruct l1 as [|y l1]; [done|]. cbn in Heq. injection Heq as <- Heq. by apply (IH (fun p => P (x :: p)) H l1 l2).
Qed.

Section facts.
  Context (fx ok : bool) (a : astate) (e : event) (a' : astate) (os : list out) (ob : list obs).
  Context (Hstep : actor_step fx ok a e = Some (a', os, ob)).
  (* a service process is spawned only after the previous one was stopped: at every point inside the step's
     observations, live = running-before + spawns - stops is 0 or 1 *)
  Lemma step_service_live : a_kind a = AService ->
    (forall ob1 ob2, ob = ob1 ++ ob2 ->
       nobs (ObStop (a_id a)) ob1 <= Nat.b2n (running a) + nobs (ObSucc (a_id a)) ob1 /\
       Nat.b2n (running a) + nobs (ObSucc (a_id a)) ob1 <= nobs (ObStop (a_id a)) ob1 + 1) /\
    Nat.b2n (running a') + nobs (ObStop (a_id a)) ob = Nat.b2n (running a) + nobs (ObSucc (a_id a)) ob.
  Proof using Hstep.
    clear -Hstep. unfold nobs. intros Hk.
    crush_step Hstep; aproj_all; try congruence;
      (split; [apply prefixes_ok_spec; cbn [app prefixes_ok count_occ]; repeat (case_match; simplify_eq);
               repeat match goal with H : running _ = _ |- _ => rewrite H end; cbn [Nat.b2n];
               repeat split; try lia; try (destruct (running a); cbn [Nat.b2n]; lia)
             | cbn [count_occ app]; repeat (case_match; simplify_eq);
               repeat match goal with H : running _ = _ |- _ => rewrite H end; cbn [Nat.b2n]; try lia;
               try (destruct (running a); cbn [Nat.b2n]; lia)]).
    all: repeat match goal with |- context [running ?x] => destruct (running x) end; cbn [Nat.b2n]; lia.
  Qed.
End facts.
