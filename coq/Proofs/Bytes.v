From Zinoma.Model Require Import Bytes.
From Coq Require Import Lia.

Lemma beq_eq a b : beq a b = true <-> a = b.
Proof.
  revert b; induction a as [|x a IH]; intros [|y b]; cbn [beq]; split; intro H;
    try reflexivity; try discriminate.
  - apply andb_true_iff in H as [H1 H2]. apply N.eqb_eq in H1. apply IH in H2. congruence.
  - injection H as -> ->. rewrite N.eqb_refl. cbn. now apply IH.
Qed.

Lemma beq_refl a : beq a a = true.
Proof. now apply beq_eq. Qed.

Lemma starts_with_spec s pre : starts_with s pre = true <-> exists r, s = pre ++ r.
Proof.
  revert s; induction pre as [|p pre IH]; intros s; cbn [starts_with].
  - split; [intros _; now exists s | reflexivity].
  - destruct s as [|x s].
    + split; [discriminate | intros [r Hr]; discriminate].
    + rewrite andb_true_iff, N.eqb_eq, IH. split.
      * intros [-> [r ->]]. now exists r.
      * intros [r Hr]. cbn in Hr. injection Hr as -> ->. split; [reflexivity | now exists r].
Qed.

Lemma ends_with_spec s suf : ends_with s suf = true <-> exists r, s = r ++ suf.
Proof.
  unfold ends_with. rewrite starts_with_spec. split.
  - intros [r Hr]. exists (rev r). apply (f_equal (@rev N)) in Hr.
    rewrite rev_involutive, rev_app_distr, rev_involutive in Hr. exact Hr.
  - intros [r ->]. exists (rev r). now rewrite rev_app_distr.
Qed.

Lemma split_on_nonnil sep s : split_on sep s <> [].
Proof.
  induction s as [|x s IH]; cbn [split_on]; [discriminate|].
  destruct (N.eqb x sep); [discriminate|]. destruct (split_on sep s); [congruence | discriminate].
Qed.

(* a separator ends the current piece: split (a ++ sep :: b) = split a ++ split b *)
Lemma split_on_app_sep sep a b :
  split_on sep (a ++ sep :: b) = split_on sep a ++ split_on sep b.
Proof.
  induction a as [|x a IH]; cbn [app split_on].
  - now rewrite N.eqb_refl.
  - destruct (N.eqb x sep); [now rewrite IH|].
    rewrite IH. destruct (split_on sep a) as [|c cs] eqn:E; [now apply split_on_nonnil in E|].
    reflexivity.
Qed.

Lemma split_on_no_sep sep a : ~ In sep a -> split_on sep a = [a].
Proof.
  induction a as [|x a IH]; intros Hn; cbn [split_on]; [reflexivity|].
  destruct (N.eqb_spec x sep) as [->|Hne]; [exfalso; apply Hn; now left|].
  rewrite IH; [reflexivity | intros Hin; apply Hn; now right].
Qed.

Lemma components_app_sep a b :
  components (a ++ slash :: b) = components a ++ components b.
Proof. unfold components. now rewrite split_on_app_sep, filter_app. Qed.

Lemma components_single c :
  ~ In slash c -> c <> [] -> c <> [dot] -> components c = [c].
Proof.
  intros Hs Hn Hd. unfold components. rewrite split_on_no_sep by exact Hs. cbn [filter].
  destruct c as [|x c]; [congruence|]. cbn [is_nil negb andb].
  destruct (beq (x :: c) [dot]) eqn:E; [apply beq_eq in E; congruence | reflexivity].
Qed.

Lemma file_name_in_components p n : file_name p = Some n -> In n (components p).
Proof.
  unfold file_name. destruct (rev (components p)) as [|c cs] eqn:E; [discriminate|].
  destruct (beq c dotdot); [discriminate|]. intros [= <-].
  apply in_rev. rewrite E. now left.
Qed.

(* the file name of dir/name is name *)
Lemma file_name_app_sep d n :
  ~ In slash n -> n <> [] -> n <> [dot] -> n <> dotdot -> file_name (d ++ slash :: n) = Some n.
Proof.
  intros Hs Hn Hd Hdd. unfold file_name.
  rewrite components_app_sep, (components_single n) by assumption.
  rewrite rev_app_distr. cbn [rev app].
  destruct (beq n dotdot) eqn:E; [apply beq_eq in E; congruence | reflexivity].
Qed.
