From Zinoma.Proofs Require Export LiveDefs.

Ltac find_ok :=
  first [ apply elem_send_to_requesters; eexists; split; [aproj_all; subst; first [eassumption | set_solver]|reflexivity]
        | apply elem_of_list_here
        | apply elem_of_app; left; find_ok
        | apply elem_of_app; right; find_ok
        | apply elem_of_list_further; find_ok ].

Ltac crush_kind Hk Hstep :=
  unfold actor_step in Hstep; rewrite Hk in Hstep; crush_step Hstep.

Section facts.
  Context (fx ok : bool) (a : astate) (e : event) (a' : astate) (os : list out) (ob : list obs).
  Context (Hstep : actor_step fx ok a e = Some (a', os, ob)).

  (* LF4a: when an actor becomes able to acknowledge kind k, every registered requester is sent the acknowledgement *)
  Lemma step_ack_all k R :
    own a k -> ~ done a k -> done a' k -> R ∈ reqs a' k -> exists act, OMsg R (MOk k (a_id a) act) ∈ os.
  Proof using Hstep.
    clear -Hstep. unfold own, done. intros Ho Hnd Hd HR.
    destruct (step_same_id _ _ _ _ _ _ _ Hstep) as (_ & Hk' & _). rewrite Hk' in Hd.
    destruct (a_kind a) eqn:Hk.
    - subst k. crush_kind Hk Hstep; aproj_all; try congruence; eexists; find_ok.
    - subst k. crush_kind Hk Hstep; aproj_all; try congruence; eexists; find_ok.
    - crush_kind Hk Hstep; aproj_all; try congruence; subst; try (exfalso; apply Hnd; set_solver);
        try (eexists; find_ok; fail).
      all: exfalso; match goal with H0 : _ && _ = false |- _ => apply andb_false_iff in H0 as [H0|H0] end;
        [apply bool_decide_eq_false in H0; done | apply set_empty_false in H0; done].
  Qed.
End facts.
